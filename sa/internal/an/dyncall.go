package an

import (
	"go/token"
	"sync"

	"golang.org/x/tools/go/ssa"
)

// Dispatch through a package-level table of functions:
//
//	var handlers = [...]func(*T, P) error{K1: (*T).h1, K2: (*T).h2}
//	h := handlers[k]; if h == nil { h = (*T).unknown }; return h(t, p)
//
// DynCallees resolves such a call: the functions the callee value can be, when every one of them is known (table
// entries stored in the package initialiser, function constants, nil). TableIndex tells under which constant index a
// function is registered.

type tableInfo struct {
	entries map[*ssa.Global]map[int64]*ssa.Function // table -> constant index -> function
	closed  map[*ssa.Global]bool                    // written only by the initialiser with constant indices
}

var (
	tableMu    sync.Mutex
	tableCache = map[*Prog]*tableInfo{}
)

func (p *Prog) tables() *tableInfo {
	tableMu.Lock()
	defer tableMu.Unlock()
	if t := tableCache[p]; t != nil {
		return t
	}
	t := &tableInfo{entries: map[*ssa.Global]map[int64]*ssa.Function{}, closed: map[*ssa.Global]bool{}}
	open := map[*ssa.Global]bool{}
	funcOf := func(v ssa.Value) *ssa.Function {
		var f *ssa.Function
		switch x := v.(type) {
		case *ssa.Function:
			f = x
		case *ssa.MakeClosure:
			if len(x.Bindings) == 0 {
				f, _ = x.Fn.(*ssa.Function)
			}
		}
		return unthunk(f)
	}
	// a composite literal built in a local and stored to the global as a whole (arrays, slices of an array literal)
	fromLocal := func(g *ssa.Global, v ssa.Value) bool {
		var al *ssa.Alloc
		switch x := v.(type) {
		case *ssa.UnOp:
			al, _ = x.X.(*ssa.Alloc)
		case *ssa.Slice:
			al, _ = x.X.(*ssa.Alloc)
		}
		if al == nil || al.Referrers() == nil {
			return false
		}
		es := map[int64]*ssa.Function{}
		for _, r := range *al.Referrers() {
			ia, ok := r.(*ssa.IndexAddr)
			if !ok {
				continue
			}
			k, isK := ConstInt(ia.Index)
			if !isK || ia.Referrers() == nil {
				return false
			}
			for _, r2 := range *ia.Referrers() {
				st, isSt := r2.(*ssa.Store)
				if !isSt {
					return false
				}
				f := funcOf(st.Val)
				if f == nil {
					return false
				}
				es[k] = f
			}
		}
		if len(es) == 0 {
			return false
		}
		t.entries[g] = es
		return true
	}
	for fn := range p.AllFunctions() {
		if fn.Pkg == nil || !p.InModule(fn.Pkg.Pkg.Path()) {
			continue
		}
		isInit := fn.Name() == "init" && fn.Parent() == nil
		Instrs(fn, func(in ssa.Instruction) {
			switch x := in.(type) {
			case *ssa.Store:
				ia, ok := x.Addr.(*ssa.IndexAddr)
				if !ok {
					if g, isG := x.Addr.(*ssa.Global); isG {
						if !isInit {
							open[g] = true // the whole table is replaced at run time
						} else {
							fromLocal(g, x.Val)
						}
					}
					return
				}
				g, ok := ia.X.(*ssa.Global)
				if !ok {
					return
				}
				k, isK := ConstInt(ia.Index)
				f := funcOf(x.Val)
				if !isInit || !isK || f == nil {
					open[g] = true
					return
				}
				if t.entries[g] == nil {
					t.entries[g] = map[int64]*ssa.Function{}
				}
				t.entries[g][k] = f
			}
		})
	}
	for g := range t.entries {
		if !open[g] {
			t.closed[g] = true
		}
	}
	tableCache[p] = t
	return t
}

// DynCallees returns the functions a called value can denote; ok is false if some possibility is not a known function.
func (p *Prog) DynCallees(v ssa.Value) (fns []*ssa.Function, ok bool) {
	t := p.tables()
	seen := map[ssa.Value]bool{}
	set := map[*ssa.Function]bool{}
	ok = true
	var walk func(v ssa.Value, depth int)
	walk = func(v ssa.Value, depth int) {
		if !ok || seen[v] {
			return
		}
		seen[v] = true
		if depth > 6 {
			ok = false
			return
		}
		switch x := v.(type) {
		case *ssa.Function:
			set[unthunk(x)] = true
		case *ssa.MakeClosure:
			if f, isF := x.Fn.(*ssa.Function); isF {
				set[unthunk(f)] = true
			} else {
				ok = false
			}
		case *ssa.Const:
			if x.Value != nil {
				ok = false
			}
		case *ssa.Phi:
			for _, e := range x.Edges {
				walk(e, depth+1)
			}
		case *ssa.ChangeType:
			walk(x.X, depth+1)
		case *ssa.UnOp:
			if x.Op != token.MUL {
				ok = false
				return
			}
			ia, isIA := x.X.(*ssa.IndexAddr)
			if !isIA {
				ok = false
				return
			}
			g, isG := ia.X.(*ssa.Global)
			if !isG || !t.closed[g] {
				ok = false
				return
			}
			for _, f := range t.entries[g] {
				set[f] = true
			}
		default:
			ok = false
		}
	}
	walk(v, 0)
	if !ok || len(set) == 0 {
		return nil, false
	}
	for f := range set {
		fns = append(fns, f)
	}
	return fns, true
}

// TableIndex reports the constant indices under which fn is registered in a closed dispatch table.
func (p *Prog) TableIndex(fn *ssa.Function) (idx []int64, table *ssa.Global) {
	t := p.tables()
	for g, es := range t.entries {
		if !t.closed[g] {
			continue
		}
		for k, f := range es {
			if f == fn {
				idx = append(idx, k)
				table = g
			}
		}
	}
	return
}

// OnlyDispatched: every use of fn as a value is a registration in a closed dispatch table or flows into a call whose
// callees DynCallees resolves: the function is entered only through those calls (and through its static callers).
func (p *Prog) OnlyDispatched(fn *ssa.Function) bool {
	uses := p.funcValueUses()[fn]
	if len(uses) == 0 {
		return false
	}
	t := p.tables()
	var flowsToCall func(v ssa.Value, depth int) bool
	flowsToCall = func(v ssa.Value, depth int) bool {
		if depth > 4 || v.Referrers() == nil {
			return false
		}
		for _, r := range *v.Referrers() {
			switch x := r.(type) {
			case *ssa.Phi:
				if !flowsToCall(x, depth+1) {
					return false
				}
			case ssa.CallInstruction:
				if x.Common().Value != v {
					return false
				}
				if _, ok := p.DynCallees(v); !ok {
					return false
				}
			case *ssa.BinOp, *ssa.DebugRef:
				// compared with nil
			default:
				return false
			}
		}
		return true
	}
	for _, r := range uses {
		switch x := r.(type) {
		case *ssa.Store:
			ia, ok := x.Addr.(*ssa.IndexAddr)
			if !ok {
				return false
			}
			switch b := ia.X.(type) {
			case *ssa.Global:
				if !t.closed[b] {
					return false
				}
			case *ssa.Alloc:
				// an element of the literal that initialises a closed table
				inTable := false
				for g, es := range t.entries {
					if !t.closed[g] {
						continue
					}
					for _, f := range es {
						if f == fn {
							inTable = true
						}
					}
				}
				if !inTable || x.Parent().Name() != "init" {
					return false
				}
			default:
				return false
			}
		case *ssa.Phi:
			if !flowsToCall(x, 0) {
				return false
			}
		case *ssa.DebugRef:
		default:
			return false
		}
	}
	return true
}

var (
	fvuMu    sync.Mutex
	fvuCache = map[*Prog]map[*ssa.Function][]ssa.Instruction{}
)

// funcValueUses: for every function, the instructions that use it as a value other than as the callee of a call.
func (p *Prog) funcValueUses() map[*ssa.Function][]ssa.Instruction {
	fvuMu.Lock()
	defer fvuMu.Unlock()
	if m := fvuCache[p]; m != nil {
		return m
	}
	m := map[*ssa.Function][]ssa.Instruction{}
	for fn := range p.AllFunctions() {
		if fn.Pkg == nil || !p.InModule(fn.Pkg.Pkg.Path()) {
			continue
		}
		Instrs(fn, func(in ssa.Instruction) {
			for _, op := range in.Operands(nil) {
				if op == nil || *op == nil {
					continue
				}
				f, ok := (*op).(*ssa.Function)
				if !ok {
					continue
				}
				if ci, isCall := in.(ssa.CallInstruction); isCall && ci.Common().Value == ssa.Value(f) {
					continue
				}
				m[f] = append(m[f], in)
				if tgt := unthunk(f); tgt != f {
					m[tgt] = append(m[tgt], in)
				}
			}
		})
	}
	fvuCache[p] = m
	return m
}

// unthunk: a synthetic wrapper that only forwards its parameters to one function (the thunk of a method expression)
// stands for that function.
func unthunk(f *ssa.Function) *ssa.Function {
	if f == nil || f.Synthetic == "" || len(f.Blocks) != 1 {
		return f
	}
	var target *ssa.Function
	n := 0
	for _, in := range f.Blocks[0].Instrs {
		if call, ok := in.(*ssa.Call); ok {
			n++
			target = call.Call.StaticCallee()
			if target == nil || len(call.Call.Args) != len(f.Params) {
				return f
			}
			for i, a := range call.Call.Args {
				if a != ssa.Value(f.Params[i]) {
					return f
				}
			}
		}
	}
	if n != 1 || target == nil {
		return f
	}
	return target
}
