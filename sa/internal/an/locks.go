package an

import (
	"fmt"
	"go/types"
	"sort"
	"strings"

	"golang.org/x/tools/go/ssa"
)

// LockID identifies a mutex by access path.
type LockID struct {
	Root   ssa.Value
	Fields []*types.Var
}

func rootKey(v ssa.Value) string {
	switch r := v.(type) {
	case *ssa.Parameter:
		return "p:" + r.Name()
	case *ssa.FreeVar:
		return "f:" + r.Name()
	case *ssa.Global:
		return "g:" + r.Name()
	case nil:
		return "?"
	default:
		fn := ""
		if in, ok := v.(ssa.Instruction); ok && in.Parent() != nil {
			fn = in.Parent().Name()
		}
		return "v:" + rootName(v) + "@" + fn + "/" + v.Name()
	}
}

// Key is a string identity, unique within the analysed function.
func (l LockID) Key() string {
	var sb strings.Builder
	sb.WriteString(rootKey(l.Root))
	for _, f := range l.Fields {
		sb.WriteByte('.')
		sb.WriteString(f.Name())
	}
	return sb.String()
}

// Class returns the struct field that holds the mutex (nil for a bare mutex).
func (l LockID) Class() *types.Var {
	if len(l.Fields) == 0 {
		return nil
	}
	return l.Fields[len(l.Fields)-1].Origin()
}

// String renders s.write
func (l LockID) String() string { return Path{Root: l.Root, Fields: l.Fields}.String() }

// LockOp is a recognised mutex operation.
type LockOp struct {
	Kind string // lock | unlock | trylock
	Lock LockID
}

// LockTable recognises mutex operations: sync.Mutex / sync.RWMutex methods and
// verified wrapper types (a struct embedding a mutex that defines its own
// Lock/TryLock/Unlock which provably acquire/release the embedded mutex).
type LockTable struct {
	P        *Prog
	ops      map[*types.Func]string // callee -> kind
	Wrappers []string               // verified wrapper methods (for evidence)
	Problems []string
	fieldNm  map[*types.Var]string
}

// NewLockTable builds the table for the program.
func NewLockTable(p *Prog) *LockTable {
	lt := &LockTable{P: p, ops: map[*types.Func]string{}}
	if sp, ok := p.ByPath["sync"]; ok {
		for _, tn := range []string{"Mutex", "RWMutex"} {
			obj, _ := sp.Types.Scope().Lookup(tn).(*types.TypeName)
			if obj == nil {
				continue
			}
			named := obj.Type().(*types.Named)
			for i := 0; i < named.NumMethods(); i++ {
				m := named.Method(i)
				switch m.Name() {
				case "Lock", "RLock":
					lt.ops[m] = "lock"
				case "Unlock", "RUnlock":
					lt.ops[m] = "unlock"
				case "TryLock", "TryRLock":
					lt.ops[m] = "trylock"
				}
			}
		}
	}
	// wrappers
	for _, path := range p.ModulePackages() {
		pk := p.ByPath[path]
		if pk.Types == nil {
			continue
		}
		sc := pk.Types.Scope()
		for _, nm := range sc.Names() {
			tn, ok := sc.Lookup(nm).(*types.TypeName)
			if !ok {
				continue
			}
			named, ok := tn.Type().(*types.Named)
			if !ok {
				continue
			}
			st, ok := named.Underlying().(*types.Struct)
			if !ok {
				continue
			}
			var emb *types.Var
			for i := 0; i < st.NumFields(); i++ {
				f := st.Field(i)
				if f.Embedded() && isSyncMutex(f.Type()) {
					emb = f
				}
			}
			if emb == nil {
				continue
			}
			for i := 0; i < named.NumMethods(); i++ {
				m := named.Method(i)
				var kind string
				switch m.Name() {
				case "Lock":
					kind = "lock"
				case "Unlock":
					kind = "unlock"
				case "TryLock":
					kind = "trylock"
				default:
					continue
				}
				fn := p.SSA.FuncValue(m)
				if fn == nil || len(fn.Blocks) == 0 {
					continue
				}
				if why := lt.verifyWrapper(fn, kind, emb); why != "" {
					lt.Problems = append(lt.Problems, fmt.Sprintf("%s is not a verified %s wrapper: %s", p.FuncName(fn), kind, why))
					continue
				}
				lt.ops[m] = kind
				lt.Wrappers = append(lt.Wrappers, p.FuncName(fn)+" = "+kind)
			}
		}
	}
	sort.Strings(lt.Wrappers)
	return lt
}

func isSyncMutex(t types.Type) bool {
	n, ok := t.(*types.Named)
	if !ok || n.Obj().Pkg() == nil {
		return false
	}
	return n.Obj().Pkg().Path() == "sync" && (n.Obj().Name() == "Mutex" || n.Obj().Name() == "RWMutex")
}

// verifyWrapper checks, with the flow engine, that a wrapper method has the
// lock effect its name promises on the embedded mutex of its receiver.
func (lt *LockTable) verifyWrapper(fn *ssa.Function, kind string, emb *types.Var) string {
	if len(fn.Params) == 0 {
		return "no receiver"
	}
	recv := fn.Params[0]
	inner := LockID{Root: recv, Fields: []*types.Var{emb}}
	init := ""
	if kind == "unlock" {
		init = inner.Key()
	}
	lf := lt.flow(fn, []string{init}, nil)
	res := lf.Run()
	if res.Blowup || res.Problem != "" {
		return "flow failed"
	}
	for _, ret := range Returns(fn) {
		for _, st := range res.Before(ret) {
			held := hasKey(st, inner.Key())
			switch kind {
			case "lock":
				if !held {
					return "a return without the embedded mutex held"
				}
			case "unlock":
				if held {
					return "a return with the embedded mutex still held"
				}
			case "trylock":
				if len(ret.Results) != 1 {
					return "TryLock does not return one value"
				}
				c, ok := ret.Results[0].(*ssa.Const)
				if !ok {
					// returning the inner TryLock result directly
					if call, ok2 := ret.Results[0].(*ssa.Call); ok2 {
						if op, ok3 := lt.OpOf(call.Common()); ok3 && op.Kind == "trylock" && op.Lock.Key() == inner.Key() {
							continue
						}
					}
					return "TryLock returns a non-constant"
				}
				b := c.Value != nil && c.Value.String() == "true"
				if b != held {
					return "TryLock result disagrees with the embedded mutex state"
				}
			}
		}
	}
	return ""
}

// OpOf recognises a mutex operation.
func (lt *LockTable) OpOf(c *ssa.CallCommon) (LockOp, bool) {
	obj := CalleeObj(c)
	if obj == nil {
		return LockOp{}, false
	}
	kind, ok := lt.ops[obj.Origin()]
	if !ok {
		return LockOp{}, false
	}
	r := Recv(c)
	if r == nil {
		return LockOp{}, false
	}
	p := PathOf(r)
	return LockOp{Kind: kind, Lock: LockID{Root: p.Root, Fields: p.Fields}}, true
}

func hasKey(st, key string) bool {
	if st == "" {
		return false
	}
	for _, k := range strings.Split(st, ";") {
		if k == key {
			return true
		}
	}
	return false
}

func addKey(st, key string) string {
	if hasKey(st, key) {
		return st
	}
	var ks []string
	if st != "" {
		ks = strings.Split(st, ";")
	}
	ks = append(ks, key)
	sort.Strings(ks)
	return strings.Join(ks, ";")
}

func delKey(st, key string) string {
	if st == "" {
		return st
	}
	ks := strings.Split(st, ";")
	out := ks[:0]
	for _, k := range ks {
		if k != key {
			out = append(out, k)
		}
	}
	return strings.Join(out, ";")
}

func stateKeys(st string) []string {
	if st == "" {
		return nil
	}
	return strings.Split(st, ";")
}

// LockFlow is the lockset analysis of one function.
type LockFlow struct {
	Fn  *ssa.Function
	LT  *LockTable
	Res *FlowResult
	IDs map[string]LockID // key -> lock
	// Summ gives, for calls to analysed functions, the locks they acquire and
	// release on behalf of the caller (translated at the call site).
	summ func(c *ssa.CallCommon) (acq, rel []LockID)
	// UnheldUnlock records unlocks of locks not in the state (release summaries).
	UnheldUnlock map[string]LockID
}

func (lt *LockTable) flow(fn *ssa.Function, init []string, summ func(c *ssa.CallCommon) (acq, rel []LockID)) *Flow {
	lf := &LockFlow{Fn: fn, LT: lt, IDs: map[string]LockID{}, summ: summ, UnheldUnlock: map[string]LockID{}}
	return lf.build(init)
}

func (lf *LockFlow) build(init []string) *Flow {
	step := func(st string, in ssa.Instruction) []string {
		ci, ok := in.(ssa.CallInstruction)
		if !ok {
			return nil
		}
		if _, isGo := in.(*ssa.Go); isGo {
			return nil
		}
		c := ci.Common()
		if op, ok := lf.LT.OpOf(c); ok {
			k := op.Lock.Key()
			lf.IDs[k] = op.Lock
			switch op.Kind {
			case "lock":
				return []string{addKey(st, k)}
			case "unlock":
				if !hasKey(st, k) {
					lf.UnheldUnlock[k] = op.Lock
				}
				return []string{delKey(st, k)}
			case "trylock":
				return nil // refined on the branch
			}
		}
		if lf.summ != nil {
			acq, rel := lf.summ(c)
			ns := st
			for _, l := range rel {
				ns = delKey(ns, l.Key())
			}
			for _, l := range acq {
				lf.IDs[l.Key()] = l
				ns = addKey(ns, l.Key())
			}
			if ns != st {
				return []string{ns}
			}
		}
		return nil
	}
	f := &Flow{Fn: lf.Fn, Init: init, Step: step}
	f.StepDefer = func(st string, d *ssa.Defer) []string { return step(st, d) }
	// a Defer instruction itself must not act when registered
	f.Step = func(st string, in ssa.Instruction) []string {
		if _, ok := in.(*ssa.Defer); ok {
			return nil
		}
		return step(st, in)
	}
	f.Branch = func(st string, br *ssa.If, idx int) (string, bool) {
		cond, neg := StripNot(br.Cond)
		call, ok := cond.(*ssa.Call)
		if !ok {
			return st, true
		}
		op, ok := lf.LT.OpOf(call.Common())
		if !ok || op.Kind != "trylock" {
			return st, true
		}
		taken := (idx == 0) != neg
		if taken {
			k := op.Lock.Key()
			lf.IDs[k] = op.Lock
			return addKey(st, k), true
		}
		return st, true
	}
	return f
}

// NewLockFlow runs the lockset analysis of fn from the given entry locksets.
func (lt *LockTable) NewLockFlow(fn *ssa.Function, init []string, summ func(c *ssa.CallCommon) (acq, rel []LockID)) *LockFlow {
	lf := &LockFlow{Fn: fn, LT: lt, IDs: map[string]LockID{}, summ: summ, UnheldUnlock: map[string]LockID{}}
	if len(init) == 0 {
		init = []string{""}
	}
	for _, st := range init {
		for _, k := range stateKeys(st) {
			if _, ok := lf.IDs[k]; !ok {
				lf.IDs[k] = LockID{} // filled by caller through RegisterID
			}
		}
	}
	f := lf.build(init)
	lf.Res = f.Run()
	return lf
}

// Must returns the locks held on every path before the instruction.
func (lf *LockFlow) Must(in ssa.Instruction) []string {
	sts := lf.Res.Before(in)
	if len(sts) == 0 {
		return nil
	}
	cnt := map[string]int{}
	for _, st := range sts {
		for _, k := range stateKeys(st) {
			cnt[k]++
		}
	}
	var out []string
	for k, n := range cnt {
		if n == len(sts) {
			out = append(out, k)
		}
	}
	sort.Strings(out)
	return out
}

// May returns the locks held on some path before the instruction.
func (lf *LockFlow) May(in ssa.Instruction) []string {
	set := map[string]bool{}
	for _, st := range lf.Res.Before(in) {
		for _, k := range stateKeys(st) {
			set[k] = true
		}
	}
	return keys(set)
}

// States returns the distinct locksets before the instruction.
func (lf *LockFlow) States(in ssa.Instruction) []string { return lf.Res.Before(in) }

// MustHold reports whether a lock with the given class on the given root is
// held on every path before in.
func (lf *LockFlow) MustHold(in ssa.Instruction, root ssa.Value, class *types.Var) bool {
	for _, k := range lf.Must(in) {
		id, ok := lf.IDs[k]
		if !ok || id.Class() != class.Origin() {
			continue
		}
		if root == nil || SameRoot(id.Root, root) {
			return true
		}
	}
	return false
}

// MustHoldPath reports whether the lock with exactly this key is must-held.
func (lf *LockFlow) MustHoldKey(in ssa.Instruction, key string) bool {
	for _, k := range lf.Must(in) {
		if k == key {
			return true
		}
	}
	return false
}

// ---------------------------------------------------------------------------
// package-level analysis: entry locksets of helpers by fixpoint over call sites

// PkgLocks is the interprocedural lockset analysis of a set of packages.
type PkgLocks struct {
	P     *Prog
	LT    *LockTable
	Funcs []*ssa.Function
	Flows map[*ssa.Function]*LockFlow
	entry map[*ssa.Function]map[string]bool // entry states
	ids   map[*ssa.Function]map[string]LockID
	acq   map[*ssa.Function][]LockID // locks (rooted at params) held at every return but not at entry
	rel   map[*ssa.Function][]LockID // locks (rooted at params) released though not acquired
	Notes []string
}

// exposed reports whether fn can be entered from outside the analysed call
// sites: exported (and its receiver type exported or not — interface calls can
// reach it), address taken, or started by go/defer of a closure.
func exposed(fn *ssa.Function, hasStaticCaller map[*ssa.Function]bool, addrTaken map[*ssa.Function]bool) bool {
	if fn.Parent() != nil {
		// a literal without free variables that is only called through a closed dispatch table is entered from
		// the dispatching call sites
		if len(fn.FreeVars) == 0 && hasStaticCaller[fn] {
			return false
		}
		// closures that are only invoked synchronously at known sites inherit
		// the lockset of those sites; all others can run at any time.
		_, ok := ClosureUseSites(fn)
		return !ok
	}
	if addrTaken[fn] {
		return true
	}
	obj := fn.Object()
	if obj == nil {
		return true
	}
	if obj.Exported() {
		return true
	}
	if !hasStaticCaller[fn] {
		return true
	}
	return false
}

// AnalyzeLocks runs the lockset analysis on all source functions of the packages.
func AnalyzeLocks(p *Prog, lt *LockTable, pkgs ...string) (*PkgLocks, error) {
	pl := &PkgLocks{P: p, LT: lt, Flows: map[*ssa.Function]*LockFlow{}, entry: map[*ssa.Function]map[string]bool{},
		ids: map[*ssa.Function]map[string]LockID{}, acq: map[*ssa.Function][]LockID{}, rel: map[*ssa.Function][]LockID{}}
	inScope := map[*ssa.Function]bool{}
	for _, pkg := range pkgs {
		fns, err := p.SourceFuncs(pkg)
		if err != nil {
			return nil, err
		}
		for _, fn := range fns {
			pl.Funcs = append(pl.Funcs, fn)
			inScope[fn] = true
		}
	}
	hasCaller := map[*ssa.Function]bool{}
	addrTaken := map[*ssa.Function]bool{}
	for _, fn := range pl.Funcs {
		Instrs(fn, func(in ssa.Instruction) {
			if ci, ok := in.(ssa.CallInstruction); ok {
				if callee := ci.Common().StaticCallee(); callee != nil {
					if _, isGo := in.(*ssa.Go); isGo {
						addrTaken[orig(callee)] = true
					} else {
						hasCaller[orig(callee)] = true
					}
				}
			}
			// function values used other than as the callee
			for _, op := range in.Operands(nil) {
				if op == nil || *op == nil {
					continue
				}
				if f, ok := (*op).(*ssa.Function); ok {
					if ci, ok := in.(ssa.CallInstruction); ok && ci.Common().Value == f {
						continue
					}
					addrTaken[orig(f)] = true
				}
				if mc, ok := (*op).(*ssa.MakeClosure); ok {
					_ = mc
				}
			}
		})
	}
	// functions that are only registered in a closed dispatch table (and called through it) are entered from those
	// call sites only
	for _, fn := range pl.Funcs {
		if (fn.Parent() == nil || len(fn.FreeVars) == 0) && !hasCaller[fn] && p.OnlyDispatched(fn) {
			delete(addrTaken, fn)
			hasCaller[fn] = true
		}
	}
	for _, fn := range pl.Funcs {
		pl.entry[fn] = map[string]bool{}
		pl.ids[fn] = map[string]LockID{}
		if exposed(fn, hasCaller, addrTaken) {
			pl.entry[fn][""] = true
		}
	}
	summ := func(c *ssa.CallCommon) (acq, rel []LockID) {
		callee := c.StaticCallee()
		if callee == nil {
			return nil, nil
		}
		callee = orig(callee)
		if !inScope[callee] {
			return nil, nil
		}
		for _, l := range pl.acq[callee] {
			if t, ok := translateToCaller(l, callee, c); ok {
				acq = append(acq, t)
			}
		}
		for _, l := range pl.rel[callee] {
			if t, ok := translateToCaller(l, callee, c); ok {
				rel = append(rel, t)
			}
		}
		return acq, rel
	}
	for iter := 0; iter < 12; iter++ {
		changed := false
		for _, fn := range pl.Funcs {
			if len(pl.entry[fn]) == 0 {
				continue // no known entry yet
			}
			lf := &LockFlow{Fn: fn, LT: lt, IDs: map[string]LockID{}, summ: summ, UnheldUnlock: map[string]LockID{}}
			for k, id := range pl.ids[fn] {
				lf.IDs[k] = id
			}
			f := lf.build(keys(pl.entry[fn]))
			lf.Res = f.Run()
			if lf.Res.Blowup {
				return nil, fmt.Errorf("lockset state blow-up in %s", p.FuncName(fn))
			}
			if lf.Res.Problem != "" {
				pl.Notes = append(pl.Notes, lf.Res.Problem)
			}
			pl.Flows[fn] = lf
			// summaries
			var acq []LockID
			rets := Returns(fn)
			if len(rets) > 0 {
				cnt := map[string]int{}
				n := 0
				for _, r := range rets {
					for _, st := range lf.Res.Before(r) {
						n++
						for _, k := range stateKeys(st) {
							cnt[k]++
						}
					}
				}
				for k, c := range cnt {
					if c != n {
						continue
					}
					id := lf.IDs[k]
					if _, isParam := canonRoot(id.Root).(*ssa.Parameter); !isParam {
						continue
					}
					heldAtEntry := true
					for st := range pl.entry[fn] {
						if !hasKey(st, k) {
							heldAtEntry = false
						}
					}
					if !heldAtEntry {
						acq = append(acq, id)
					}
				}
			}
			var rel []LockID
			for _, id := range lf.UnheldUnlock {
				if _, isParam := canonRoot(id.Root).(*ssa.Parameter); isParam {
					rel = append(rel, id)
				}
			}
			if !sameLockSet(acq, pl.acq[fn]) || !sameLockSet(rel, pl.rel[fn]) {
				if lt.ops[FuncObjOf(fn)] == "" { // wrappers are ops, not summaries
					pl.acq[fn], pl.rel[fn] = acq, rel
					changed = true
				}
			}
			// closures invoked synchronously inherit the lockset at their use sites
			for _, child := range fn.AnonFuncs {
				if _, in := pl.entry[child]; !in {
					continue
				}
				sites, ok := ClosureUseSites(child)
				if !ok {
					continue
				}
				for _, site := range sites {
					var sts []string
					if d, isDefer := site.(*ssa.Defer); isDefer {
						sts = lf.statesAtDeferRun(d)
					} else {
						sts = lf.Res.Before(site)
					}
					for _, st := range sts {
						for _, k := range stateKeys(st) {
							if id, ok := lf.IDs[k]; ok {
								pl.ids[child][k] = id
							}
						}
						if !pl.entry[child][st] {
							pl.entry[child][st] = true
							changed = true
						}
					}
				}
			}
			// propagate entry states to callees
			Instrs(fn, func(in ssa.Instruction) {
				ci, ok := in.(ssa.CallInstruction)
				if !ok {
					return
				}
				if _, isGo := in.(*ssa.Go); isGo {
					return
				}
				var callees []*ssa.Function
				if callee := ci.Common().StaticCallee(); callee != nil {
					callees = []*ssa.Function{callee}
				} else if !ci.Common().IsInvoke() {
					callees, _ = p.DynCallees(ci.Common().Value)
				}
				var sts []string
				if len(callees) > 0 {
					if d, isDefer := in.(*ssa.Defer); isDefer {
						sts = lf.statesAtDeferRun(d)
					} else {
						sts = lf.Res.Before(in)
					}
				}
				for _, callee := range callees {
					callee = orig(callee)
					if !inScope[callee] || (callee.Parent() != nil && len(callee.FreeVars) > 0) {
						continue
					}
					for _, st := range sts {
						var tks []string
						for _, k := range stateKeys(st) {
							id, ok := lf.IDs[k]
							if !ok || id.Root == nil {
								continue
							}
							if t, ok := translateToCallee(id, callee, ci.Common()); ok {
								tks = append(tks, t.Key())
								pl.ids[callee][t.Key()] = t
							}
						}
						sort.Strings(tks)
						es := strings.Join(tks, ";")
						if !pl.entry[callee][es] {
							pl.entry[callee][es] = true
							changed = true
						}
					}
				}
			})
		}
		if !changed {
			break
		}
	}
	for _, fn := range pl.Funcs {
		if pl.Flows[fn] == nil {
			// never reached from an analysed entry: analyse with the empty lockset
			lf := &LockFlow{Fn: fn, LT: lt, IDs: map[string]LockID{}, summ: summ, UnheldUnlock: map[string]LockID{}}
			f := lf.build([]string{""})
			lf.Res = f.Run()
			pl.Flows[fn] = lf
		}
	}
	return pl, nil
}

func orig(fn *ssa.Function) *ssa.Function {
	if o := fn.Origin(); o != nil {
		return o
	}
	return fn
}

func sameLockSet(a, b []LockID) bool {
	if len(a) != len(b) {
		return false
	}
	ka := map[string]bool{}
	for _, l := range a {
		ka[l.Key()] = true
	}
	for _, l := range b {
		if !ka[l.Key()] {
			return false
		}
	}
	return true
}

// statesAtDeferRun approximates the lockset when a deferred call runs: the
// states before each RunDefers, with later-registered defers already applied.
// It is computed by replaying the defer stack up to (excluding) d.
func (lf *LockFlow) statesAtDeferRun(d *ssa.Defer) []string {
	var out []string
	for _, b := range lf.Fn.Blocks {
		for _, in := range b.Instrs {
			rd, ok := in.(*ssa.RunDefers)
			if !ok {
				continue
			}
			pend := lf.Res.DeferredPending(rd)
			full := lf.Res.BeforeFull(rd)
			for i, st := range full {
				u, _ := splitState(st)
				stack := pend[i]
				pos := -1
				for j, x := range stack {
					if x == d {
						pos = j
					}
				}
				if pos < 0 {
					continue
				}
				cur := []string{u}
				for j := len(stack) - 1; j > pos; j-- {
					var next []string
					for _, c := range cur {
						r := lf.Res.flow.StepDefer(c, stack[j])
						if r == nil {
							r = []string{c}
						}
						next = append(next, r...)
					}
					cur = dedup(next)
				}
				out = append(out, cur...)
			}
		}
	}
	return dedup(out)
}

// translateToCallee maps a caller lock to the callee's parameter space.
func translateToCallee(l LockID, callee *ssa.Function, c *ssa.CallCommon) (LockID, bool) {
	for i, a := range c.Args {
		if i >= len(callee.Params) {
			break
		}
		ap := PathOf(a)
		if !SameRoot(ap.Root, l.Root) {
			continue
		}
		if len(ap.Fields) > len(l.Fields) {
			continue
		}
		ok := true
		for j, f := range ap.Fields {
			if l.Fields[j].Origin() != f.Origin() {
				ok = false
				break
			}
		}
		if !ok {
			continue
		}
		return LockID{Root: callee.Params[i], Fields: l.Fields[len(ap.Fields):]}, true
	}
	return LockID{}, false
}

// translateToCaller maps a callee lock rooted at a parameter to the caller.
func translateToCaller(l LockID, callee *ssa.Function, c *ssa.CallCommon) (LockID, bool) {
	root := canonRoot(l.Root)
	for i, p := range callee.Params {
		if ssa.Value(p) != root || i >= len(c.Args) {
			continue
		}
		ap := PathOf(c.Args[i])
		fs := append(append([]*types.Var{}, ap.Fields...), l.Fields...)
		return LockID{Root: ap.Root, Fields: fs}, true
	}
	return LockID{}, false
}

// Flow returns the lock flow of fn.
func (pl *PkgLocks) Flow(fn *ssa.Function) *LockFlow { return pl.Flows[orig(fn)] }

// EntryStates returns the entry locksets of fn (rendered).
func (pl *PkgLocks) EntryStates(fn *ssa.Function) []string { return keys(pl.entry[orig(fn)]) }

// MustHoldClass reports whether, before in, a lock of class `class` whose
// root is `root` (nil = any root) is held on every path and for every entry
// state of the enclosing function.
func (pl *PkgLocks) MustHoldClass(in ssa.Instruction, root ssa.Value, class *types.Var) bool {
	fn := in.Parent()
	lf := pl.Flow(fn)
	if lf == nil {
		return false
	}
	return lf.MustHold(in, root, class)
}

// ClassName renders a lock class as pkg.Type.field.
func (p *Prog) FieldName(v *types.Var) string {
	if v == nil {
		return "<bare>"
	}
	p.fieldNamesOnce()
	if s, ok := fieldNames[p][v.Origin()]; ok {
		return s
	}
	return v.Name()
}

var fieldNames = map[*Prog]map[*types.Var]string{}

func (p *Prog) fieldNamesOnce() {
	if fieldNames[p] != nil {
		return
	}
	m := map[*types.Var]string{}
	fieldNames[p] = m
	for _, path := range p.ModulePackages() {
		pk := p.ByPath[path]
		if pk.Types == nil {
			continue
		}
		sc := pk.Types.Scope()
		for _, nm := range sc.Names() {
			tn, ok := sc.Lookup(nm).(*types.TypeName)
			if !ok {
				continue
			}
			var walk func(t types.Type, prefix string, depth int)
			walk = func(t types.Type, prefix string, depth int) {
				st, ok := t.Underlying().(*types.Struct)
				if !ok || depth > 4 {
					return
				}
				for i := 0; i < st.NumFields(); i++ {
					f := st.Field(i)
					name := prefix + "." + CanonName(f)
					if _, dup := m[f.Origin()]; !dup {
						m[f.Origin()] = name
					}
					if _, isNamed := f.Type().(*types.Named); !isNamed {
						walk(f.Type(), name, depth+1)
					}
				}
			}
			tname := tn.Name()
			if old, ok := canon.CanonT[tn]; ok {
				tname = old
			}
			walk(tn.Type(), pk.Types.Name()+"."+tname, 0)
		}
	}
}

// ---------------------------------------------------------------------------
// synchronous callbacks

// ClosureUseSites returns the instructions of the parent function at which the
// anonymous function is invoked synchronously (called directly, deferred, or
// passed to a function that only ever calls it before returning). ok is false
// if the closure may be retained, stored or started on another goroutine.
func ClosureUseSites(anon *ssa.Function) (sites []ssa.Instruction, ok bool) {
	parent := anon.Parent()
	if parent == nil {
		return nil, false
	}
	var vals []ssa.Value
	for _, b := range parent.Blocks {
		for _, in := range b.Instrs {
			if mc, isMC := in.(*ssa.MakeClosure); isMC && mc.Fn == anon {
				vals = append(vals, mc)
			}
			// closures without free variables appear as plain function operands
			for _, op := range in.Operands(nil) {
				if op != nil && *op == ssa.Value(anon) {
					if _, isMC := in.(*ssa.MakeClosure); !isMC {
						sites2, ok2 := funcOperandUse(in, anon, 0)
						if !ok2 {
							return nil, false
						}
						sites = append(sites, sites2...)
					}
				}
			}
		}
	}
	for _, v := range vals {
		refs := v.Referrers()
		if refs == nil {
			continue
		}
		for _, ref := range *refs {
			if _, dbg := ref.(*ssa.DebugRef); dbg {
				continue
			}
			s2, ok2 := funcOperandUse(ref, v, 0)
			if !ok2 {
				return nil, false
			}
			sites = append(sites, s2...)
		}
	}
	return sites, len(sites) > 0
}

// funcOperandUse decides whether instruction `in` uses function value v only
// by invoking it synchronously; it returns `in` as the use site.
func funcOperandUse(in ssa.Instruction, v ssa.Value, depth int) ([]ssa.Instruction, bool) {
	if depth > 6 {
		return nil, false
	}
	switch x := in.(type) {
	case *ssa.Go:
		return nil, false
	case ssa.CallInstruction:
		cc := x.Common()
		if cc.Value == v {
			return []ssa.Instruction{in}, true
		}
		for i, a := range cc.Args {
			if a != v {
				continue
			}
			if !calleeParamSyncOnly(cc, i, depth) {
				return nil, false
			}
		}
		if _, isDefer := in.(*ssa.Defer); isDefer {
			// the callee runs at function exit with v as argument
			return []ssa.Instruction{in}, true
		}
		return []ssa.Instruction{in}, true
	}
	return nil, false
}

func calleeParamSyncOnly(cc *ssa.CallCommon, argIdx int, depth int) bool {
	callee := cc.StaticCallee()
	if callee == nil {
		return false
	}
	if obj := FuncObjOf(callee); obj != nil && obj.Pkg() != nil {
		full := obj.FullName()
		switch full {
		case "(*sync.Once).Do":
			return true
		}
	}
	if len(callee.Blocks) == 0 || argIdx >= len(callee.Params) {
		return false
	}
	return valueSyncOnly(callee.Params[argIdx], depth+1)
}

// valueSyncOnly: every use of function-typed value v is a synchronous invocation.
func valueSyncOnly(v ssa.Value, depth int) bool {
	if depth > 6 {
		return false
	}
	refs := v.Referrers()
	if refs == nil {
		return true
	}
	for _, ref := range *refs {
		switch r := ref.(type) {
		case *ssa.DebugRef:
			continue
		case *ssa.Go:
			return false
		case ssa.CallInstruction:
			cc := r.Common()
			if cc.Value == v {
				continue
			}
			okArg := true
			for i, a := range cc.Args {
				if a == v && !calleeParamSyncOnly(cc, i, depth) {
					okArg = false
				}
			}
			if !okArg {
				return false
			}
		case *ssa.Store:
			a, isAlloc := r.Addr.(*ssa.Alloc)
			if r.Val != v || !isAlloc {
				return false
			}
			if !varSyncOnly(a, depth+1) {
				return false
			}
		case *ssa.Phi:
			if !valueSyncOnly(r, depth+1) {
				return false
			}
		case *ssa.ChangeType:
			if !valueSyncOnly(r, depth+1) {
				return false
			}
		default:
			return false
		}
	}
	return true
}

// varSyncOnly: a local variable holding a function value is only loaded to be
// invoked, possibly from closures that are themselves synchronous.
func varSyncOnly(a *ssa.Alloc, depth int) bool {
	if depth > 6 {
		return false
	}
	for _, ref := range *a.Referrers() {
		switch r := ref.(type) {
		case *ssa.DebugRef:
		case *ssa.Store:
			if r.Val == ssa.Value(a) {
				return false
			}
		case *ssa.UnOp:
			if !valueSyncOnly(r, depth+1) {
				return false
			}
		case *ssa.MakeClosure:
			h, _ := r.Fn.(*ssa.Function)
			if h == nil {
				return false
			}
			if _, ok := ClosureUseSites(h); !ok {
				return false
			}
			for j, b := range r.Bindings {
				if b != ssa.Value(a) {
					continue
				}
				fv := h.FreeVars[j]
				for _, fr := range *fv.Referrers() {
					switch l := fr.(type) {
					case *ssa.DebugRef:
					case *ssa.UnOp:
						if !valueSyncOnly(l, depth+1) {
							return false
						}
					default:
						return false
					}
				}
			}
		default:
			return false
		}
	}
	return true
}

// OpOfFunc reports whether fn itself is a lock operation (sync.Mutex method
// or a verified wrapper) and which.
func (lt *LockTable) OpOfFunc(fn *ssa.Function) (string, bool) {
	obj := FuncObjOf(fn)
	if obj == nil {
		return "", false
	}
	k, ok := lt.ops[obj.Origin()]
	return k, ok && k != ""
}
