package an

import (
	"fmt"
	"go/token"
	"go/types"
	"sort"
	"strings"

	"golang.org/x/tools/go/ssa"
)

// Item is one element of a codec layout: what is emitted (encoder) or
// consumed (decoder), in order.
type Item struct {
	Kind string // byte | varint | bytes | u64be | u32be | u16be
	Src  string // operand (encoder) or destination (decoder), as an access path / expression
	Bits []Bit  // for packed bytes: the bit fields
	Len  string // for bytes: the expression giving the length ("len(src)" for encoders)
	At   ssa.Instruction
}

// Bit is one bit field inside a packed byte.
type Bit struct {
	Mask  uint64
	Shift int
	Src   string
}

func (b Bit) String() string { return fmt.Sprintf("%s:mask=%#x,shift=%d", b.Src, b.Mask, b.Shift) }

// String renders an item.
func (it Item) String() string {
	switch it.Kind {
	case "byte":
		if len(it.Bits) > 0 {
			bs := make([]string, len(it.Bits))
			for i, b := range it.Bits {
				bs[i] = b.String()
			}
			sort.Strings(bs)
			return "byte{" + strings.Join(bs, " ") + "}"
		}
		return "byte(" + it.Src + ")"
	case "bytes":
		return "bytes(" + it.Src + ")"
	}
	return it.Kind + "(" + it.Src + ")"
}

// LayoutString renders a layout.
func LayoutString(items []Item) string {
	s := make([]string, len(items))
	for i, it := range items {
		s[i] = it.String()
	}
	return strings.Join(s, " ")
}

// EncoderLayout extracts the sequence of items an append-style encoder emits
// into its buffer parameter: it threads the buffer value from the parameter
// through append / varint-append calls to the return.
// varintFns are the resolved functions that append a varint (buf, x).
func EncoderLayout(fn *ssa.Function, bufParam int, varintFns map[*types.Func]bool) ([]Item, error) {
	if bufParam >= len(fn.Params) {
		return nil, fmt.Errorf("no buffer parameter")
	}
	var cur ssa.Value = fn.Params[bufParam]
	var items []Item
	for step := 0; step < 64; step++ {
		next, item, done, err := encoderStep(cur, varintFns)
		if err != nil {
			return items, err
		}
		if done {
			return items, nil
		}
		items = append(items, item...)
		cur = next
	}
	return items, fmt.Errorf("layout too long")
}

func encoderStep(cur ssa.Value, varintFns map[*types.Func]bool) (next ssa.Value, items []Item, done bool, err error) {
	refs := cur.Referrers()
	if refs == nil {
		return nil, nil, false, fmt.Errorf("buffer value %s has no uses", R(cur))
	}
	var consumers []ssa.Instruction
	// re-allocated copies of the buffer: make([]T, len(cur), ...) filled by copy(_, cur) hold the same bytes
	copies := map[ssa.Value]bool{}
	for _, r := range *refs {
		switch x := r.(type) {
		case *ssa.DebugRef:
		case *ssa.Return:
			consumers = append(consumers, r)
		case *ssa.Phi:
			consumers = append(consumers, r)
		case *ssa.Call:
			if b, ok := x.Common().Value.(*ssa.Builtin); ok && b.Name() == "copy" && len(x.Common().Args) == 2 && x.Common().Args[1] == cur {
				if mk, isMk := x.Common().Args[0].(*ssa.MakeSlice); isMk {
					if lc, isCall := mk.Len.(*ssa.Call); isCall {
						if lb, isB := lc.Common().Value.(*ssa.Builtin); isB && lb.Name() == "len" && lc.Common().Args[0] == cur {
							copies[mk] = true
							continue
						}
					}
				}
				return nil, nil, false, fmt.Errorf("buffer copied by %s", r.String())
			}
			if b, ok := x.Common().Value.(*ssa.Builtin); ok && (b.Name() == "len" || b.Name() == "cap") {
				continue
			}
			if len(x.Common().Args) > 0 && x.Common().Args[0] == cur {
				consumers = append(consumers, r)
			} else {
				// len(buf) etc. are fine
				if b, ok := x.Common().Value.(*ssa.Builtin); ok && (b.Name() == "len" || b.Name() == "cap") {
					continue
				}
				return nil, nil, false, fmt.Errorf("buffer used by %s", r.String())
			}
		default:
			return nil, nil, false, fmt.Errorf("buffer used by %s", r.String())
		}
	}
	if len(consumers) != 1 {
		return nil, nil, false, fmt.Errorf("buffer value %s has %d consumers (branching encoder)", R(cur), len(consumers))
	}
	switch x := consumers[0].(type) {
	case *ssa.Return:
		return nil, nil, true, nil
	case *ssa.Phi:
		// the buffer or its re-allocated copy: the same bytes either way
		for _, e := range x.Edges {
			if e != cur && !copies[e] {
				return nil, nil, false, fmt.Errorf("buffer merged with %s", R(e))
			}
		}
		return x, nil, false, nil
	case *ssa.Call:
		cc := x.Common()
		if b, ok := cc.Value.(*ssa.Builtin); ok && b.Name() == "append" {
			its, err := appendItems(cc.Args[1], x)
			return x, its, false, err
		}
		if obj := CalleeObj(cc); obj != nil && (varintFns[obj.Origin()] || obj.FullName() == "encoding/binary.AppendUvarint") {
			// encoding/binary's unsigned varint is the same little-endian base-128 encoding (C08.R2 compares the
			// constants of the library's own encoder with it)
			return x, []Item{{Kind: "varint", Src: R(cc.Args[1]), At: x}}, false, nil
		}
		return nil, nil, false, fmt.Errorf("unknown buffer consumer %s", renderCall(cc, 3))
	}
	return nil, nil, false, fmt.Errorf("unexpected consumer")
}

// appendItems decodes the variadic operand of append(buf, ...).
func appendItems(v ssa.Value, at ssa.Instruction) ([]Item, error) {
	// append(buf, a, b) => slice of a `new [n]T (varargs)` with stores
	if sl, ok := v.(*ssa.Slice); ok {
		if al, ok := sl.X.(*ssa.Alloc); ok && al.Comment == "varargs" {
			type el struct {
				idx int64
				v   ssa.Value
			}
			var els []el
			for _, r := range *al.Referrers() {
				ia, ok := r.(*ssa.IndexAddr)
				if !ok {
					continue
				}
				idx, _ := ConstInt(ia.Index)
				for _, r2 := range *ia.Referrers() {
					if st, ok := r2.(*ssa.Store); ok {
						els = append(els, el{idx, st.Val})
					}
				}
			}
			sort.Slice(els, func(i, j int) bool { return els[i].idx < els[j].idx })
			var out []Item
			for _, e := range els {
				it := Item{Kind: "byte", Src: R(e.v), At: at}
				if _, isC := ConstInt(e.v); !isC {
					it.Bits = bitsOfEncoded(e.v, 0, at.Block())
				}
				out = append(out, it)
			}
			return out, nil
		}
		// append(buf, arr[:]...) : fixed array slice
		if al, ok := sl.X.(*ssa.Alloc); ok {
			if at2, ok := deref(al.Type()).Underlying().(*types.Array); ok {
				return []Item{{Kind: "bytes", Src: fmt.Sprintf("[%d]byte %s", at2.Len(), al.Comment), At: at}}, nil
			}
		}
	}
	// append(buf, x...) with x a []byte or string
	return []Item{{Kind: "bytes", Src: R(v), Len: "len(" + R(v) + ")", At: at}}, nil
}

// bitsOfEncoded decomposes a packed byte expression into bit fields.
// bitsOfEncoded describes how a byte is put together. use is the block in which the byte is emitted: a
// conditionally OR-ed constant is described by ALL the tests that decide it between there and its own block
// (`fr.Control`, or `!fr.Done & fr.Control` if it sits in a later arm of a switch), not by one of them.
func bitsOfEncoded(v ssa.Value, depth int, use *ssa.BasicBlock) []Bit {
	if depth > 8 {
		return []Bit{{Mask: 0xff, Src: "?" + R(v)}}
	}
	switch x := v.(type) {
	case *ssa.Convert:
		return bitsOfEncoded(x.X, depth+1, use)
	case *ssa.ChangeType:
		return bitsOfEncoded(x.X, depth+1, use)
	case *ssa.BinOp:
		switch x.Op {
		case token.OR:
			if k, ok := ConstInt(x.Y); ok {
				// conditional constant: source is the conjunction of the tests that hold here but not at the emission
				src := "const"
				common := map[string]bool{}
				if use != nil {
					for _, g := range GuardsOf(use) {
						common[fmt.Sprintf("%v %p", g.True, g.Cond)] = true
					}
				}
				var lits []string
				for _, g := range GuardsOf(x.Block()) {
					if common[fmt.Sprintf("%v %p", g.True, g.Cond)] {
						continue
					}
					if _, isConst := g.Cond.(*ssa.Const); isConst {
						continue
					}
					l := R(g.Cond)
					if !g.True {
						l = "!" + l
					}
					lits = append(lits, l)
				}
				if len(lits) > 0 {
					sort.Strings(lits)
					src = strings.Join(lits, "&")
				}
				return append(bitsOfEncoded(x.X, depth+1, use), Bit{Mask: uint64(k), Src: src})
			}
			return append(bitsOfEncoded(x.X, depth+1, use), bitsOfEncoded(x.Y, depth+1, use)...)
		case token.SHL:
			if s, ok := ConstInt(x.Y); ok {
				// (src & m) << s, the mask and conversions in any order: the bits of src that land in the byte
				w := typeWidthMask(x.X.Type())
				src := x.X
				for i := 0; i < 6; i++ {
					switch y := src.(type) {
					case *ssa.Convert:
						w &= typeWidthMask(y.X.Type())
						src = y.X
						continue
					case *ssa.ChangeType:
						src = y.X
						continue
					case *ssa.BinOp:
						if m, isM := ConstInt(y.Y); isM && y.Op == token.AND {
							w &= uint64(m)
							src = y.X
							continue
						}
					}
					break
				}
				return []Bit{{Mask: (w << uint(s)) & 0xff, Shift: int(s), Src: R(src)}}
			}
		}
	case *ssa.Phi:
		var out []Bit
		seen := map[string]bool{}
		for _, e := range x.Edges {
			for _, b := range bitsOfEncoded(e, depth+1, use) {
				if !seen[b.String()] {
					seen[b.String()] = true
					out = append(out, b)
				}
			}
		}
		return out
	}
	return []Bit{{Mask: typeWidthMask(v.Type()) & 0xff, Src: R(v)}}
}

func typeWidthMask(t types.Type) uint64 {
	if b, ok := t.Underlying().(*types.Basic); ok {
		switch b.Kind() {
		case types.Uint8, types.Int8:
			return 0xff
		case types.Bool:
			return 1
		}
	}
	return 0xffffffffffffffff
}

// DecodedBits finds, in a decoder, which bits of the byte value b reach which destination: the byte is followed
// through masks, right shifts and conversions in any order ((b & m) >> s, (b >> s) & m, Kind(b>>s) & m), and each
// chain ends in a comparison with zero (a flag: its mask) or a store (a field: mask and shift).
func DecodedBits(fn *ssa.Function, b ssa.Value) []Bit {
	var out []Bit
	var walk func(v ssa.Value, mask uint64, shift int, masked bool, depth int)
	walk = func(v ssa.Value, mask uint64, shift int, masked bool, depth int) {
		refs := v.Referrers()
		if refs == nil || depth > 8 {
			return
		}
		for _, r := range *refs {
			switch x := r.(type) {
			case *ssa.BinOp:
				k, isK := ConstInt(x.Y)
				if x.X != v || !isK {
					continue
				}
				switch x.Op {
				case token.AND:
					walk(x, mask&(uint64(k)<<uint(shift)), shift, true, depth+1)
				case token.SHR:
					ns := shift + int(k)
					walk(x, mask&(0xff<<uint(ns))&0xff, ns, masked, depth+1)
				case token.GTR, token.NEQ:
					if masked && k == 0 {
						out = append(out, Bit{Mask: mask, Src: destOf(x)})
					}
				case token.EQL:
					if masked {
						out = append(out, Bit{Mask: mask, Src: "eq:" + destOf(x)})
					}
				}
			case *ssa.Convert:
				walk(x, mask, shift, masked, depth+1)
			case *ssa.ChangeType:
				walk(x, mask, shift, masked, depth+1)
			case *ssa.Store:
				if x.Val == v && (masked || shift > 0) {
					out = append(out, Bit{Mask: mask, Shift: shift, Src: PathOf(x.Addr).String()})
				}
			}
		}
	}
	walk(b, 0xff, 0, false, 0)
	sort.SliceStable(out, func(i, j int) bool { return out[i].Mask < out[j].Mask })
	return out
}

// destOf follows a value through conversions to the field it is stored into.
func destOf(v ssa.Value) string {
	for depth := 0; depth < 6; depth++ {
		refs := v.Referrers()
		if refs == nil {
			return "?"
		}
		var nextV ssa.Value
		for _, r := range *refs {
			switch x := r.(type) {
			case *ssa.Store:
				if x.Val == v {
					return PathOf(x.Addr).String()
				}
			case *ssa.Convert:
				nextV = x
			case *ssa.ChangeType:
				nextV = x
			}
		}
		if nextV == nil {
			return "?"
		}
		v = nextV
	}
	return "?"
}
