package an

import (
	"fmt"
	"go/token"
	"go/types"
	"sort"
	"strings"

	"golang.org/x/tools/go/callgraph"
	"golang.org/x/tools/go/ssa"
)

// BlockOp is an operation that can block the calling goroutine.
type BlockOp struct {
	Kind   string     // lock | io-write | io-read | io-close | cond-wait | chan-send | chan-recv | select | wg-wait | sleep | dyn
	Class  *types.Var // lock class / cond field / channel field (may be nil)
	Target string     // rendering of the operand
	At     ssa.Instruction
	Via    []string // call chain from the summarised function down to At's function
}

// ID is the identity of the operation kind+target class (not the site).
func (o BlockOp) ID(p *Prog) string {
	switch o.Kind {
	case "lock", "cond-wait", "chan-send", "chan-recv":
		if o.Class != nil {
			return o.Kind + "(" + p.FieldName(o.Class) + ")"
		}
	}
	return o.Kind + "(" + o.Target + ")"
}

// Blocking computes blocking-operation summaries over a set of packages.
type Blocking struct {
	P     *Prog
	LT    *LockTable
	PL    *PkgLocks
	scope map[*ssa.Function]bool
	prim  map[*ssa.Function][]BlockOp          // direct ops per function
	calls map[*ssa.Function][]callEdge         // module-internal call edges
	summ  map[*ssa.Function]map[string]BlockOp // transitive ops by ID (one witness each)
	cgOut map[*ssa.Function][]*callgraph.Edge  // VTA out-edges
	Notes []string
}

type callEdge struct {
	At     ssa.Instruction
	Callee *ssa.Function
	Go     bool
}

// nonBlockingPkgs are packages whose functions are assumed not to block
// indefinitely (pure computation, allocation, formatting, atomics, tracing).
var nonBlockingPkgs = map[string]bool{
	"fmt": true, "errors": true, "strings": true, "bytes": true, "strconv": true, "sort": true,
	"sync/atomic": true, "runtime/trace": true, "runtime": true, "reflect": true, "math/bits": true,
	"encoding/binary": true, "unicode/utf8": true, "unsafe": true, "math": true, "context": true,
	"github.com/zeebo/errs": true, "time": true, "encoding/json": true, "encoding/base64": true,
	"net/textproto": true, "net/http": true, "syscall": true, "net": true, "io": true,
	"log": true, "path/filepath": true, "path": true, // debug logging (build tag `debug`): assumed not to block
	"google.golang.org/protobuf/proto": true, "google.golang.org/protobuf/encoding/protojson": true,
}

// NewBlocking builds direct ops and call edges for all functions in scope.
func NewBlocking(p *Prog, pl *PkgLocks) *Blocking {
	b := &Blocking{P: p, LT: pl.LT, PL: pl, scope: map[*ssa.Function]bool{}, prim: map[*ssa.Function][]BlockOp{},
		calls: map[*ssa.Function][]callEdge{}, summ: map[*ssa.Function]map[string]BlockOp{}, cgOut: map[*ssa.Function][]*callgraph.Edge{}}
	for _, fn := range pl.Funcs {
		for _, f := range WithAnon(fn) {
			b.scope[f] = true
		}
	}
	cg := p.CallGraph()
	for fn := range b.scope {
		if n := cg.Nodes[fn]; n != nil {
			b.cgOut[fn] = n.Out
		}
	}
	for fn := range b.scope {
		b.scan(fn)
	}
	return b
}

func isIface(t types.Type, pkg, name string) bool {
	n, ok := t.(*types.Named)
	if !ok || n.Obj().Pkg() == nil {
		return false
	}
	return n.Obj().Pkg().Path() == pkg && n.Obj().Name() == name
}

func chanField(v ssa.Value) (*types.Var, string) {
	v = Unwrap(v)
	switch x := v.(type) {
	case *ssa.UnOp:
		if x.Op == token.MUL {
			p := PathOf(x.X)
			if l := p.Last(); l != nil {
				return l.Origin(), p.String()
			}
		}
	case *ssa.Call:
		// c.Get(), s.Signal(), ctx.Done(): identify by receiver field
		if r := Recv(x.Common()); r != nil {
			p := PathOf(r)
			if l := p.Last(); l != nil {
				return l.Origin(), Render(x, 3)
			}
		}
		return nil, Render(x, 3)
	}
	return nil, Render(v, 3)
}

func (b *Blocking) scan(fn *ssa.Function) {
	for _, blk := range fn.Blocks {
		for _, in := range blk.Instrs {
			switch x := in.(type) {
			case *ssa.Send:
				f, s := chanField(x.Chan)
				b.prim[fn] = append(b.prim[fn], BlockOp{Kind: "chan-send", Class: f, Target: s, At: in})
			case *ssa.UnOp:
				if x.Op == token.ARROW {
					f, s := chanField(x.X)
					b.prim[fn] = append(b.prim[fn], BlockOp{Kind: "chan-recv", Class: f, Target: s, At: in})
				}
			case *ssa.Select:
				if x.Blocking {
					var parts []string
					for _, st := range x.States {
						_, s := chanField(st.Chan)
						if st.Dir == types.SendOnly {
							parts = append(parts, s+"<-")
						} else {
							parts = append(parts, "<-"+s)
						}
					}
					b.prim[fn] = append(b.prim[fn], BlockOp{Kind: "select", Target: strings.Join(parts, " | "), At: in})
				}
			case ssa.CallInstruction:
				b.scanCall(fn, x)
			}
		}
	}
}

func (b *Blocking) scanCall(fn *ssa.Function, ci ssa.CallInstruction) {
	cc := ci.Common()
	_, isGo := ci.(*ssa.Go)
	if op, ok := b.LT.OpOf(cc); ok {
		if op.Kind == "lock" && !isGo {
			b.prim[fn] = append(b.prim[fn], BlockOp{Kind: "lock", Class: op.Lock.Class(), Target: op.Lock.String(), At: ci})
		}
		return
	}
	if cc.IsInvoke() {
		recvT := cc.Value.Type()
		name := cc.Method.Name()
		isIO := isIface(recvT, "io", "Writer") || isIface(recvT, "io", "Reader") || isIface(recvT, "io", "ReadCloser") ||
			isIface(recvT, "io", "ReadWriteCloser") || isIface(recvT, "net", "Conn") || strings.HasSuffix(types.TypeString(recvT, nil), "drpc.Transport") ||
			isIface(recvT, "net/http", "ResponseWriter") || isIface(recvT, "net", "Listener")
		if isIO && !isGo {
			kind := ""
			switch name {
			case "Write":
				kind = "io-write"
			case "Read":
				kind = "io-read"
			case "Close":
				kind = "io-close"
			case "Accept":
				kind = "io-read"
			}
			if kind != "" {
				b.prim[fn] = append(b.prim[fn], BlockOp{Kind: kind, Target: Render(cc.Value, 3) + "." + name, At: ci})
				// the receiver may be one of the library's own adapters (the manager's writer that terminates on a
				// failed write): what that implementation does happens under the caller's locks as well
				for _, e := range b.cgOut[fn] {
					if e.Site != ci || e.Callee == nil || e.Callee.Func == nil {
						continue
					}
					callee := e.Callee.Func
					if callee.Synthetic != "" {
						if c3 := unwrapSynthetic(callee); c3 != nil {
							callee = c3
						}
					}
					if o := callee.Origin(); o != nil {
						callee = o
					}
					if len(callee.Blocks) > 0 && b.P.InModule(pkgPathOf(callee)) {
						b.calls[fn] = append(b.calls[fn], callEdge{At: ci, Callee: callee, Go: isGo})
					}
				}
				return
			}
		}
		if isIface(recvT, "context", "Context") {
			return // Done/Err/Value do not block
		}
	}
	if callee := cc.StaticCallee(); callee != nil {
		obj := FuncObjOf(callee)
		if obj != nil && obj.Pkg() != nil {
			full := obj.FullName()
			switch full {
			case "(*sync.Cond).Wait":
				var f *types.Var
				tgt := ""
				if r := Recv(cc); r != nil {
					p := PathOf(r)
					f, tgt = p.Last(), p.String()
					if f != nil {
						f = f.Origin()
					}
				}
				b.prim[fn] = append(b.prim[fn], BlockOp{Kind: "cond-wait", Class: f, Target: tgt, At: ci})
				return
			case "(*sync.WaitGroup).Wait":
				b.prim[fn] = append(b.prim[fn], BlockOp{Kind: "wg-wait", Target: Render(Recv(cc), 3), At: ci})
				return
			case "time.Sleep":
				b.prim[fn] = append(b.prim[fn], BlockOp{Kind: "sleep", Target: "time.Sleep", At: ci})
				return
			case "io.ReadFull", "io.ReadAll", "io.Copy", "io.ReadAtLeast":
				b.prim[fn] = append(b.prim[fn], BlockOp{Kind: "io-read", Target: full, At: ci})
				return
			case "(*sync.Once).Do":
				// runs its argument synchronously
				if len(cc.Args) == 2 {
					b.addFuncValueCallees(fn, ci, cc.Args[1], isGo)
				}
				return
			}
		}
		c2 := callee
		if o := c2.Origin(); o != nil {
			c2 = o
		}
		if b.scope[c2] {
			b.calls[fn] = append(b.calls[fn], callEdge{At: ci, Callee: c2, Go: isGo})
			return
		}
		if len(callee.Blocks) > 0 && b.P.InModule(pkgPathOf(callee)) {
			// module function outside the analysed packages: note it
			b.calls[fn] = append(b.calls[fn], callEdge{At: ci, Callee: callee, Go: isGo})
			return
		}
		if obj != nil && obj.Pkg() != nil && nonBlockingPkgs[obj.Pkg().Path()] {
			return
		}
		if obj != nil && obj.Pkg() != nil && obj.Pkg().Path() == "sync" {
			return // Broadcast, Signal, Unlock, Add, Done...
		}
		if _, isBuiltin := cc.Value.(*ssa.Builtin); isBuiltin {
			return
		}
		if !isGo {
			b.prim[fn] = append(b.prim[fn], BlockOp{Kind: "dyn", Target: "external " + callee.String(), At: ci})
		}
		return
	}
	if _, isBuiltin := cc.Value.(*ssa.Builtin); isBuiltin {
		return
	}
	// dynamic call: interface method or function value; resolve through VTA
	b.addDynamic(fn, ci, isGo)
}

func pkgPathOf(fn *ssa.Function) string {
	if tp := originPkg(fn); tp != nil {
		return tp.Path()
	}
	return ""
}

func (b *Blocking) addFuncValueCallees(fn *ssa.Function, ci ssa.CallInstruction, v ssa.Value, isGo bool) {
	switch x := v.(type) {
	case *ssa.MakeClosure:
		if f, ok := x.Fn.(*ssa.Function); ok {
			b.calls[fn] = append(b.calls[fn], callEdge{At: ci, Callee: f, Go: isGo})
			return
		}
	case *ssa.Function:
		b.calls[fn] = append(b.calls[fn], callEdge{At: ci, Callee: x, Go: isGo})
		return
	}
	b.prim[fn] = append(b.prim[fn], BlockOp{Kind: "dyn", Target: "func value " + Render(v, 3), At: ci})
}

func (b *Blocking) addDynamic(fn *ssa.Function, ci ssa.CallInstruction, isGo bool) {
	cc := ci.Common()
	var callees []*ssa.Function
	for _, e := range b.cgOut[fn] {
		if e.Site == ci && e.Callee != nil && e.Callee.Func != nil {
			callees = append(callees, e.Callee.Func)
		}
	}
	if len(callees) == 0 {
		if !isGo {
			b.prim[fn] = append(b.prim[fn], BlockOp{Kind: "dyn", Target: "unresolved " + renderCall(cc, 3), At: ci})
		}
		return
	}
	unknown := 0
	for _, callee := range callees {
		c2 := callee
		if o := c2.Origin(); o != nil {
			c2 = o
		}
		if b.scope[c2] || (len(callee.Blocks) > 0 && b.P.InModule(pkgPathOf(callee))) {
			b.calls[fn] = append(b.calls[fn], callEdge{At: ci, Callee: c2, Go: isGo})
			continue
		}
		if obj := FuncObjOf(callee); obj != nil && obj.Pkg() != nil && (nonBlockingPkgs[obj.Pkg().Path()] || obj.Pkg().Path() == "sync") {
			continue
		}
		if callee.Synthetic != "" {
			// wrappers/bound methods/thunks of module functions
			c3 := unwrapSynthetic(callee)
			if c3 != nil && (b.scope[c3] || b.P.InModule(pkgPathOf(c3))) {
				b.calls[fn] = append(b.calls[fn], callEdge{At: ci, Callee: c3, Go: isGo})
				continue
			}
		}
		unknown++
	}
	if unknown > 0 && !isGo {
		b.prim[fn] = append(b.prim[fn], BlockOp{Kind: "dyn", Target: "dynamic " + renderCall(cc, 3), At: ci})
	}
}

// unwrapSynthetic returns the declared function behind a bound-method
// closure / thunk / wrapper.
func unwrapSynthetic(fn *ssa.Function) *ssa.Function {
	if obj, ok := fn.Object().(*types.Func); ok && obj != nil {
		if f := fn.Prog.FuncValue(obj); f != nil && f != fn {
			return f
		}
	}
	// bound method closures call the method as their only call
	var found *ssa.Function
	Instrs(fn, func(in ssa.Instruction) {
		if ci, ok := in.(ssa.CallInstruction); ok {
			if c := ci.Common().StaticCallee(); c != nil {
				found = c
			}
		}
	})
	return found
}

// Summary returns the transitive blocking ops of fn (goroutines started with
// `go` are not followed: they do not block the caller).
func (b *Blocking) Summary(fn *ssa.Function) map[string]BlockOp {
	if o := fn.Origin(); o != nil {
		fn = o
	}
	if s, ok := b.summ[fn]; ok {
		return s
	}
	// iterative fixpoint over the call graph reachable from fn
	reach := []*ssa.Function{}
	seen := map[*ssa.Function]bool{}
	var dfs func(f *ssa.Function)
	dfs = func(f *ssa.Function) {
		if seen[f] {
			return
		}
		seen[f] = true
		if !b.scope[f] && len(f.Blocks) > 0 {
			// module function outside scope: scan lazily
			b.scope[f] = true
			if n := b.P.CallGraph().Nodes[f]; n != nil {
				b.cgOut[f] = n.Out
			}
			b.scan(f)
		}
		reach = append(reach, f)
		for _, e := range b.calls[f] {
			if !e.Go {
				dfs(e.Callee)
			}
		}
	}
	dfs(fn)
	tmp := map[*ssa.Function]map[string]BlockOp{}
	for _, f := range reach {
		m := map[string]BlockOp{}
		for _, op := range b.prim[f] {
			id := op.ID(b.P)
			if _, ok := m[id]; !ok {
				m[id] = op
			}
		}
		tmp[f] = m
	}
	for changed := true; changed; {
		changed = false
		for _, f := range reach {
			for _, e := range b.calls[f] {
				if e.Go {
					continue
				}
				for id, op := range tmp[e.Callee] {
					if _, ok := tmp[f][id]; !ok {
						o2 := op
						o2.Via = append([]string{ShortFunc(e.Callee)}, op.Via...)
						if len(o2.Via) > 8 {
							o2.Via = o2.Via[:8]
						}
						tmp[f][id] = o2
						changed = true
					}
				}
			}
		}
	}
	for f, m := range tmp {
		if _, ok := b.summ[f]; !ok && f == fn {
			b.summ[f] = m
		}
	}
	return tmp[fn]
}

// HeldEdge records that `Op` may execute while a lock of class Held is held.
type HeldEdge struct {
	Held *types.Var
	Op   BlockOp
	In   *ssa.Function
	Site ssa.Instruction // the instruction in In (a primitive op or a call whose callee performs Op)
}

// HeldAcross computes, for every function in scope, the ops that may execute
// while each lock class may be held (local may-locksets incl. entry locksets,
// callee ops through summaries).
func (b *Blocking) HeldAcross(condMutex map[*types.Var]*types.Var) []HeldEdge {
	var out []HeldEdge
	fns := make([]*ssa.Function, 0, len(b.PL.Flows))
	for fn := range b.PL.Flows {
		fns = append(fns, fn)
	}
	sort.Slice(fns, func(i, j int) bool { return fns[i].Pos() < fns[j].Pos() })
	for _, fn := range fns {
		lf := b.PL.Flows[fn]
		heldAt := func(in ssa.Instruction) []LockID {
			var ids []LockID
			var sts []string
			if d, ok := in.(*ssa.Defer); ok {
				sts = lf.statesAtDeferRun(d)
			} else {
				sts = lf.Res.Before(in)
			}
			seen := map[string]bool{}
			for _, st := range sts {
				for _, k := range stateKeys(st) {
					if seen[k] {
						continue
					}
					seen[k] = true
					if id, ok := lf.IDs[k]; ok && id.Root != nil {
						ids = append(ids, id)
					}
				}
			}
			return ids
		}
		emit := func(site ssa.Instruction, op BlockOp) {
			for _, id := range heldAt(site) {
				cls := id.Class()
				if cls == nil {
					continue
				}
				if op.Kind == "cond-wait" && op.Class != nil && condMutex[op.Class] == cls {
					continue // Wait releases its own mutex
				}
				if op.Kind == "lock" && op.Class == cls && op.At == site {
					// re-acquiring the same class: only a problem for the same object; ignore class-level self edges at the acquisition site
					continue
				}
				out = append(out, HeldEdge{Held: cls, Op: op, In: fn, Site: site})
			}
		}
		for _, op := range b.prim[fn] {
			emit(op.At, op)
		}
		for _, e := range b.calls[fn] {
			if e.Go {
				continue
			}
			if len(heldAt(e.At)) == 0 {
				continue
			}
			for _, op := range b.Summary(e.Callee) {
				o2 := op
				o2.Via = append([]string{ShortFunc(e.Callee)}, op.Via...)
				emit(e.At, o2)
			}
		}
	}
	return out
}

// Describe renders an op with its call chain.
func (o BlockOp) Describe(p *Prog) string {
	s := o.ID(p)
	if len(o.Via) > 0 {
		s += " via " + strings.Join(o.Via, " -> ")
	}
	if o.At != nil {
		s += " at " + p.InstrPos(o.At)
	}
	return s
}

var _ = fmt.Sprint
