package an

import (
	"fmt"
	"go/token"
	"sort"
	"strings"

	"golang.org/x/tools/go/ssa"
)

// Flow is a path-sensitive typestate analysis over one function's SSA CFG:
// the abstract state is a string, every block holds the *set* of states that
// can reach it, and the analysis runs to a fixpoint (so it covers every path,
// loops included, as long as the automaton's state space is finite).
//
// Deferred calls are handled by the engine: a Defer instruction pushes itself
// on a per-state stack and RunDefers replays the stack LIFO through StepDefer.
type Flow struct {
	Fn   *ssa.Function
	Init []string
	// Step returns the successor states of st over instruction in.
	// A nil result means "unchanged".
	Step func(st string, in ssa.Instruction) []string
	// StepDefer is applied when a deferred call runs at function exit.
	// nil means: treat like Step on the Defer instruction.
	StepDefer func(st string, d *ssa.Defer) []string
	// Branch refines a state over the succIdx-th edge of an If; returning
	// false drops the state on that edge (infeasible for this automaton).
	Branch func(st string, br *ssa.If, succIdx int) (string, bool)
	// MaxStates bounds the number of states per block (default 4096).
	MaxStates int
	// Inline, if set, names the callee whose body should be analysed in place
	// of a call (same automaton, entered with the caller's state, left with
	// the states at its returns). Step is still applied to the call
	// instruction first; a non-nil Step result suppresses inlining.
	Inline func(call ssa.CallInstruction) *ssa.Function
	// OnReturn, if set, is applied to every state at a return of an inlined
	// callee before the state is carried back to the call site (for instance to
	// record what the callee returns on that path).
	OnReturn func(st string, ret *ssa.Return, call ssa.CallInstruction) string
	// OnFact, if set, is told when a branch teaches the path the truth of a boolean value that is NOT the
	// branch condition itself: a condition that was computed into a flag (or returned by an inlined helper)
	// and is tested later. v is the condition value, val its truth on this path. Rules pass the same logic
	// they apply in Branch.
	OnFact func(st string, v ssa.Value, val bool) (string, bool)

	inlineMemo  map[string][]string
	inlineStack map[*ssa.Function]bool
}

// InlineSamePackage returns an Inline function that follows static calls to
// functions of root's package that have a body (unexported helpers and methods alike).
func InlineSamePackage(root *ssa.Function) func(call ssa.CallInstruction) *ssa.Function {
	pkg := originPkg(root)
	return func(call ssa.CallInstruction) *ssa.Function {
		if _, isGo := call.(*ssa.Go); isGo {
			return nil
		}
		callee := call.Common().StaticCallee()
		if callee == nil || len(callee.Blocks) == 0 || callee == root {
			return nil
		}
		if originPkg(callee) != pkg {
			return nil
		}
		return callee
	}
}

// exitStates runs the automaton over callee from the given user state and
// returns the user states at its returns.
func (f *Flow) exitStates(callee *ssa.Function, user string, call ssa.CallInstruction) []string {
	if f.inlineMemo == nil {
		f.inlineMemo = map[string][]string{}
		f.inlineStack = map[*ssa.Function]bool{}
	}
	key := callee.String() + "\x01" + user
	if f.OnReturn != nil {
		key += "\x01" + fmt.Sprintf("%p", call)
	}
	if r, ok := f.inlineMemo[key]; ok {
		return r
	}
	if f.inlineStack[callee] || len(f.inlineStack) > 6 {
		return []string{user}
	}
	f.inlineStack[callee] = true
	defer delete(f.inlineStack, callee)
	sub := &Flow{Fn: callee, Init: []string{user}, Step: f.Step, StepDefer: f.StepDefer, Branch: f.Branch, MaxStates: f.MaxStates, Inline: f.Inline, OnReturn: f.OnReturn, OnFact: f.OnFact,
		inlineMemo: f.inlineMemo, inlineStack: f.inlineStack}
	res := sub.Run()
	set := map[string]bool{}
	for _, ret := range Returns(callee) {
		if !res.Reachable(ret.Block()) {
			continue
		}
		for _, st := range res.Before(ret) {
			if f.OnReturn != nil {
				st = f.OnReturn(st, ret, call)
			}
			set[st] = true
		}
	}
	out := keys(set)
	if len(out) == 0 || res.Blowup {
		out = []string{user}
	}
	f.inlineMemo[key] = out
	return out
}

// FlowResult holds the fixpoint.
type FlowResult struct {
	flow    *Flow
	In      map[*ssa.BasicBlock]map[string]bool
	Blowup  bool   // state bound exceeded: result is not usable
	Problem string // defers in loops etc.
}

const deferSep = "\x00"

func splitState(s string) (user string, defers []string) {
	i := strings.Index(s, deferSep)
	if i < 0 {
		return s, nil
	}
	user = s[:i]
	rest := s[i+1:]
	if rest == "" {
		return user, nil
	}
	return user, strings.Split(rest, ",")
}

func joinState(user string, defers []string) string {
	if len(defers) == 0 {
		return user
	}
	return user + deferSep + strings.Join(defers, ",")
}

// Run computes the fixpoint.
func (f *Flow) Run() *FlowResult {
	res := &FlowResult{flow: f, In: map[*ssa.BasicBlock]map[string]bool{}}
	if len(f.Fn.Blocks) == 0 {
		return res
	}
	max := f.MaxStates
	if max == 0 {
		max = 4096
	}
	deferIdx := map[*ssa.Defer]int{}
	var deferByIdx []*ssa.Defer
	for _, b := range f.Fn.Blocks {
		for _, in := range b.Instrs {
			if d, ok := in.(*ssa.Defer); ok {
				deferIdx[d] = len(deferByIdx)
				deferByIdx = append(deferByIdx, d)
			}
		}
	}
	fx := factsFor(f.Fn)
	entry := f.Fn.Blocks[0]
	res.In[entry] = map[string]bool{}
	for _, s := range f.Init {
		res.In[entry][s] = true
	}
	work := []*ssa.BasicBlock{entry}
	inWork := map[*ssa.BasicBlock]bool{entry: true}
	for len(work) > 0 {
		b := work[0]
		work = work[1:]
		inWork[b] = false
		states := keys(res.In[b])
		out := f.transferBlock(b, states, deferIdx, deferByIdx, res)
		for si, succ := range b.Succs {
			var br *ssa.If
			if len(b.Instrs) > 0 {
				br, _ = b.Instrs[len(b.Instrs)-1].(*ssa.If)
			}
			changed := false
			if res.In[succ] == nil {
				res.In[succ] = map[string]bool{}
				changed = true // visit at least once
			}
			for _, st := range out {
				core, fa := splitFacts(st)
				var learnt []learntFact
				if br != nil && fx.active() {
					var feasible bool
					before := fa
					fa, feasible = fx.assume(fa, br.Cond, si == 0)
					if !feasible {
						continue
					}
					if f.OnFact != nil && fa != before {
						learnt = fx.newlyLearnt(before, fa, br.Cond)
					}
				}
				if br != nil && f.Branch != nil {
					u, d := splitState(core)
					nu, ok := f.Branch(u, br, si)
					if !ok {
						continue
					}
					core = joinState(nu, d)
				}
				if len(learnt) > 0 {
					u, d := splitState(core)
					dropped := false
					for _, lf := range learnt {
						nu, ok := f.OnFact(u, lf.v, lf.val)
						if !ok {
							dropped = true
							break
						}
						u = nu
					}
					if dropped {
						continue
					}
					core = joinState(u, d)
				}
				if fx.active() {
					fa = fx.enter(fa, b, si, succ)
				}
				ns := joinFacts(core, fa)
				if len(ns) > 2048 {
					res.Blowup = true
					return res
				}
				if !res.In[succ][ns] {
					res.In[succ][ns] = true
					changed = true
				}
			}
			if len(res.In[succ]) > max {
				res.Blowup = true
				return res
			}
			if changed && !inWork[succ] {
				inWork[succ] = true
				work = append(work, succ)
			}
		}
	}
	return res
}

func keys(m map[string]bool) []string {
	out := make([]string, 0, len(m))
	for k := range m {
		out = append(out, k)
	}
	sort.Strings(out)
	return out
}

func (f *Flow) stepOne(st string, in ssa.Instruction, deferIdx map[*ssa.Defer]int, deferByIdx []*ssa.Defer, res *FlowResult) []string {
	user, defers := splitState(st)
	switch x := in.(type) {
	case *ssa.Defer:
		id := fmt.Sprint(deferIdx[x])
		for _, d := range defers {
			if d == id {
				res.Problem = "defer registered more than once on a path (defer in loop) in " + f.Fn.String()
				return []string{st}
			}
		}
		nd := append(append([]string{}, defers...), id)
		return []string{joinState(user, nd)}
	case *ssa.RunDefers:
		cur := []string{user}
		for i := len(defers) - 1; i >= 0; i-- {
			var idx int
			fmt.Sscan(defers[i], &idx)
			d := deferByIdx[idx]
			var next []string
			for _, u := range cur {
				var r []string
				if f.StepDefer != nil {
					r = f.StepDefer(u, d)
				} else if f.Step != nil {
					r = f.Step(u, d)
				}
				if r == nil && f.Inline != nil {
					if callee := f.Inline(d); callee != nil {
						r = f.exitStates(callee, u, d)
					}
				}
				if r == nil {
					r = []string{u}
				}
				next = append(next, r...)
			}
			cur = dedup(next)
		}
		return cur // defer stack consumed
	}
	if f.Step == nil {
		return []string{st}
	}
	r := f.Step(user, in)
	if r == nil && f.Inline != nil {
		if ci, ok := in.(ssa.CallInstruction); ok {
			if callee := f.Inline(ci); callee != nil {
				r = f.exitStates(callee, user, ci)
			}
		}
	}
	if r == nil {
		return []string{st}
	}
	out := make([]string, len(r))
	for i, u := range r {
		out[i] = joinState(u, defers)
	}
	return out
}

func dedup(in []string) []string {
	seen := map[string]bool{}
	var out []string
	for _, s := range in {
		if !seen[s] {
			seen[s] = true
			out = append(out, s)
		}
	}
	return out
}

func (f *Flow) transferBlock(b *ssa.BasicBlock, states []string, deferIdx map[*ssa.Defer]int, deferByIdx []*ssa.Defer, res *FlowResult) []string {
	// path facts (see facts.go) ride along unchanged inside a block
	byCore := map[string][]string{}
	var cores []string
	for _, st := range states {
		core, fa := splitFacts(st)
		if _, ok := byCore[core]; !ok {
			cores = append(cores, core)
		}
		byCore[core] = append(byCore[core], fa)
	}
	var out []string
	for _, core := range cores {
		cur := []string{core}
		for _, in := range b.Instrs {
			var next []string
			for _, st := range cur {
				next = append(next, f.stepOne(st, in, deferIdx, deferByIdx, res)...)
			}
			cur = dedup(next)
		}
		for _, fa := range byCore[core] {
			for _, c := range cur {
				out = append(out, joinFacts(c, fa))
			}
		}
	}
	return dedup(out)
}

// Before returns the user states that can hold immediately before instruction in
// (the defer stack is stripped; use BeforeFull for it).
func (r *FlowResult) Before(in ssa.Instruction) []string {
	full := r.BeforeFull(in)
	out := make([]string, 0, len(full))
	for _, s := range full {
		u, _ := splitState(s)
		out = append(out, u)
	}
	return dedup(out)
}

// BeforeFull returns the states (with defer stacks) before instruction in.
func (r *FlowResult) BeforeFull(in ssa.Instruction) []string {
	b := in.Block()
	f := r.flow
	deferIdx := map[*ssa.Defer]int{}
	var deferByIdx []*ssa.Defer
	for _, bb := range f.Fn.Blocks {
		for _, i2 := range bb.Instrs {
			if d, ok := i2.(*ssa.Defer); ok {
				deferIdx[d] = len(deferByIdx)
				deferByIdx = append(deferByIdx, d)
			}
		}
	}
	var cur []string
	for _, st := range keys(r.In[b]) {
		core, _ := splitFacts(st)
		cur = append(cur, core)
	}
	cur = dedup(cur)
	for _, i2 := range b.Instrs {
		if i2 == in {
			return cur
		}
		var next []string
		for _, st := range cur {
			next = append(next, f.stepOne(st, i2, deferIdx, deferByIdx, r)...)
		}
		cur = dedup(next)
	}
	return cur
}

// StateF is a user state together with what the path knows about merged flags
// and the values they merge (see facts.go): 'T','F' for booleans, 'Z' nil, 'N' non-nil.
type StateF struct {
	User  string
	Facts map[string]byte // by SSA value name
}

// FactOf returns what the state's path knows about v (0: nothing).
func (s StateF) FactOf(v ssa.Value) byte {
	if v == nil {
		return 0
	}
	if b, ok := boolConst(v); ok {
		return tf(b)
	}
	if isNilConst(v) {
		return 'Z'
	}
	return s.Facts[v.Name()]
}

// BeforeF is Before with the path facts of each state.
func (r *FlowResult) BeforeF(in ssa.Instruction) []StateF {
	b := in.Block()
	f := r.flow
	deferIdx := map[*ssa.Defer]int{}
	var deferByIdx []*ssa.Defer
	for _, bb := range f.Fn.Blocks {
		for _, i2 := range bb.Instrs {
			if d, ok := i2.(*ssa.Defer); ok {
				deferIdx[d] = len(deferByIdx)
				deferByIdx = append(deferByIdx, d)
			}
		}
	}
	var out []StateF
	seen := map[string]bool{}
	for _, st := range keys(r.In[b]) {
		core, fa := splitFacts(st)
		cur := []string{core}
		for _, i2 := range b.Instrs {
			if i2 == in {
				break
			}
			var next []string
			for _, c := range cur {
				next = append(next, f.stepOne(c, i2, deferIdx, deferByIdx, r)...)
			}
			cur = dedup(next)
		}
		for _, c := range cur {
			u, _ := splitState(c)
			if seen[u+factSep+fa] {
				continue
			}
			seen[u+factSep+fa] = true
			out = append(out, StateF{User: u, Facts: parseFacts(fa)})
		}
	}
	return out
}

// After returns the user states right after instruction in.
func (r *FlowResult) After(in ssa.Instruction) []string {
	b := in.Block()
	for i, i2 := range b.Instrs {
		if i2 == in {
			if i+1 < len(b.Instrs) {
				return r.Before(b.Instrs[i+1])
			}
		}
	}
	return nil
}

// DeferredPending returns, for each state before in, the Defer instructions
// still on the stack.
func (r *FlowResult) DeferredPending(in ssa.Instruction) [][]*ssa.Defer {
	var deferByIdx []*ssa.Defer
	for _, bb := range r.flow.Fn.Blocks {
		for _, i2 := range bb.Instrs {
			if d, ok := i2.(*ssa.Defer); ok {
				deferByIdx = append(deferByIdx, d)
			}
		}
	}
	var out [][]*ssa.Defer
	for _, s := range r.BeforeFull(in) {
		_, ds := splitState(s)
		var l []*ssa.Defer
		for _, d := range ds {
			var idx int
			fmt.Sscan(d, &idx)
			l = append(l, deferByIdx[idx])
		}
		out = append(out, l)
	}
	return out
}

// Returns lists the Return instructions of fn.
func Returns(fn *ssa.Function) []*ssa.Return {
	var out []*ssa.Return
	for _, b := range fn.Blocks {
		if len(b.Instrs) == 0 {
			continue
		}
		if r, ok := b.Instrs[len(b.Instrs)-1].(*ssa.Return); ok {
			out = append(out, r)
		}
	}
	return out
}

// Reachable reports whether the block is reachable from entry (has states).
func (r *FlowResult) Reachable(b *ssa.BasicBlock) bool { return len(r.In[b]) > 0 }

// ---------------------------------------------------------------------------
// dominance helpers

// EdgeDominates reports whether every path from the entry to block b passes
// through the edge from -> from.Succs[idx].
func EdgeDominates(from *ssa.BasicBlock, idx int, b *ssa.BasicBlock) bool {
	if idx >= len(from.Succs) {
		return false
	}
	s := from.Succs[idx]
	for i, o := range from.Succs {
		if i != idx && o == s {
			return false
		}
	}
	for _, p := range s.Preds {
		if p == from {
			continue
		}
		if !s.Dominates(p) {
			return false
		}
	}
	return s.Dominates(b)
}

// Guard is a branch condition with the polarity under which an instruction is reached.
type Guard struct {
	Cond ssa.Value // condition with negations stripped
	True bool      // polarity of Cond on the dominating edge
	If   *ssa.If
}

// GuardsOf returns every branch edge that dominates the block, innermost
// first, followed by the guards that hold on every feasible way into a
// dominating test of a merged flag (see flagPreds): after
//
//	ok := false; if c { ...; ok = true }; if ok { B }
//
// block B is guarded by ok (a phi) and, through it, by c.
func GuardsOf(b *ssa.BasicBlock) []Guard {
	return guardsOfR(b, 0, true)
}

func guardsOf(b *ssa.BasicBlock, depth int) []Guard { return guardsOfR(b, depth, true) }

func guardsOfR(b *ssa.BasicBlock, depth int, resolve bool) []Guard {
	out := directGuards(b)
	if depth >= 3 {
		return out
	}
	res := func(v ssa.Value) ssa.Value {
		if resolve {
			return Resolve(v)
		}
		return v
	}
	n := len(out)
	for i := 0; i < n; i++ {
		preds, opnds := flagPredsR(out[i], resolve)
		if preds == nil {
			continue
		}
		var common []Guard
		var phiBlk *ssa.BasicBlock
		switch x := res(out[i].Cond).(type) {
		case *ssa.Phi:
			phiBlk = x.Block()
		case *ssa.BinOp:
			if ph, ok := res(x.X).(*ssa.Phi); ok {
				phiBlk = ph.Block()
			} else if ph, ok := res(x.Y).(*ssa.Phi); ok {
				phiBlk = ph.Block()
			}
		}
		for k, p := range preds {
			alt := guardsOfR(p, depth+1, resolve)
			// the way in may itself be one side of a test at the end of p
			if phiBlk != nil && len(p.Instrs) > 0 && len(p.Succs) == 2 && p.Succs[0] != p.Succs[1] {
				if br, ok := p.Instrs[len(p.Instrs)-1].(*ssa.If); ok {
					pol := p.Succs[0] == phiBlk
					c, neg := StripNot(br.Cond)
					if neg {
						pol = !pol
					}
					alt = append(alt, Guard{Cond: c, True: pol, If: br})
				}
			}
			if o := opnds[k]; o != nil {
				if inner, isPhi := o.(*ssa.Phi); isPhi && !isBoolType(o.Type()) {
					// the operand is itself a merge that is nil on some ways in: what holds on all the others
					alt = append(alt, nonNilWayGuards(inner, depth+1, resolve)...)
				} else {
					// the merged operand itself has the tested polarity on this way in
					c, neg := StripNot(o)
					alt = append(alt, Guard{Cond: c, True: out[i].True != neg, If: out[i].If})
				}
			}
			if k == 0 {
				common = alt
				continue
			}
			var keep []Guard
			for _, g := range common {
				for _, h := range alt {
					if g.Cond == h.Cond && g.True == h.True {
						keep = append(keep, g)
						break
					}
				}
			}
			common = keep
		}
		for _, g := range common {
			dup := false
			for _, h := range out {
				if h.Cond == g.Cond && h.True == g.True {
					dup = true
				}
			}
			if !dup {
				out = append(out, g)
			}
		}
	}
	return out
}

// nonNilWayGuards returns the guards that hold on every way into phi over which its operand is not the nil constant
// (recursively through operands that are such merges themselves).
func nonNilWayGuards(phi *ssa.Phi, depth int, resolve bool) []Guard {
	blk := phi.Block()
	if blk == nil || depth > 4 || len(phi.Edges) != len(blk.Preds) {
		return nil
	}
	var common []Guard
	first := true
	for i, e := range phi.Edges {
		if isNilConst(e) {
			continue
		}
		p := blk.Preds[i]
		alt := guardsOfR(p, depth+1, resolve)
		if len(p.Instrs) > 0 && len(p.Succs) == 2 && p.Succs[0] != p.Succs[1] {
			if br, ok := p.Instrs[len(p.Instrs)-1].(*ssa.If); ok {
				pol := p.Succs[0] == blk
				c, neg := StripNot(br.Cond)
				if neg {
					pol = !pol
				}
				alt = append(alt, Guard{Cond: c, True: pol, If: br})
			}
		}
		if inner, isPhi := e.(*ssa.Phi); isPhi {
			alt = append(alt, nonNilWayGuards(inner, depth+1, resolve)...)
		}
		if first {
			common, first = alt, false
			continue
		}
		var keep []Guard
		for _, g := range common {
			for _, h := range alt {
				if g.Cond == h.Cond && g.True == h.True {
					keep = append(keep, g)
					break
				}
			}
		}
		common = keep
	}
	return common
}

// flagPreds: if the guard tests a phi that merges boolean (or nil) constants,
// it returns the predecessors of the phi's block over which the test can have
// the guard's polarity, and for each the merged operand when it is not a
// constant (nil entry: constant). A nil result means: not such a guard.
func flagPreds(g Guard) ([]*ssa.BasicBlock, []ssa.Value) { return flagPredsR(g, true) }

// flagPredsR: with resolve=false merged values kept in memory are not looked through (used by the reaching-
// store analysis itself, which Resolve is built on).
func flagPredsR(g Guard, resolve bool) ([]*ssa.BasicBlock, []ssa.Value) {
	res := func(v ssa.Value) ssa.Value {
		if resolve {
			return Resolve(v)
		}
		return v
	}
	var phi *ssa.Phi
	wantNonNil, nilTest := false, false
	switch x := res(g.Cond).(type) {
	case *ssa.Phi:
		phi = x
	case *ssa.BinOp:
		if x.Op != token.EQL && x.Op != token.NEQ {
			return nil, nil
		}
		var other ssa.Value
		if isNilConst(x.Y) {
			other = x.X
		} else if isNilConst(x.X) {
			other = x.Y
		}
		p, ok := res(other).(*ssa.Phi) // a named result kept in memory holds the merged value
		if !ok {
			return nil, nil
		}
		phi, nilTest = p, true
		wantNonNil = g.True == (x.Op == token.NEQ)
	default:
		return nil, nil
	}
	blk := phi.Block()
	if blk == nil || len(phi.Edges) != len(blk.Preds) {
		return nil, nil
	}
	var preds []*ssa.BasicBlock
	var opnds []ssa.Value
	sawConst := false
	for i, e := range phi.Edges {
		if nilTest {
			if isNilConst(e) {
				sawConst = true
				if wantNonNil {
					continue
				}
				preds, opnds = append(preds, blk.Preds[i]), append(opnds, nil)
				continue
			}
			if !wantNonNil {
				switch ev := e.(type) {
				case *ssa.MakeInterface, *ssa.Alloc, *ssa.MakeClosure:
					sawConst = true
					continue // never nil
				case *ssa.Call:
					if ErrCtor != nil {
						if fresh, _ := ErrCtor(ev.Common()); fresh {
							sawConst = true
							continue // a freshly built error is never nil
						}
					}
				}
				if testedOnWay(blk.Preds[i], blk, e, true) {
					sawConst = true
					continue // this way in is behind `e != nil`
				}
			} else if testedOnWay(blk.Preds[i], blk, e, false) {
				sawConst = true
				continue // this way in is behind `e == nil`
			}
			if inner, isPhi := e.(*ssa.Phi); isPhi && wantNonNil {
				// a merge of merges: the caller may look further back for the ways on which it is not nil
				preds, opnds = append(preds, blk.Preds[i]), append(opnds, inner)
				continue
			}
			preds, opnds = append(preds, blk.Preds[i]), append(opnds, nil)
			continue
		}
		if c, ok := boolConst(e); ok {
			sawConst = true
			if c != g.True {
				continue
			}
			preds, opnds = append(preds, blk.Preds[i]), append(opnds, nil)
			continue
		}
		preds, opnds = append(preds, blk.Preds[i]), append(opnds, e)
	}
	if !sawConst || len(preds) == 0 {
		return nil, nil
	}
	return preds, opnds
}

func directGuards(b *ssa.BasicBlock) []Guard {
	var out []Guard
	for d := b; d != nil; d = d.Idom() {
		var ext []*ssa.BasicBlock
		for _, p := range d.Preds {
			if !d.Dominates(p) {
				ext = append(ext, p)
			}
		}
		if len(ext) != 1 {
			continue
		}
		p := ext[0]
		if len(p.Instrs) == 0 {
			continue
		}
		br, ok := p.Instrs[len(p.Instrs)-1].(*ssa.If)
		if !ok {
			continue
		}
		if p.Succs[0] == p.Succs[1] {
			continue
		}
		pol := p.Succs[0] == d
		cond, neg := StripNot(br.Cond)
		if neg {
			pol = !pol
		}
		out = append(out, Guard{Cond: cond, True: pol, If: br})
	}
	return out
}

// StripNot removes logical negations, reporting whether their number is odd.
func StripNot(v ssa.Value) (ssa.Value, bool) {
	neg := false
	for {
		u, ok := v.(*ssa.UnOp)
		if !ok || u.Op.String() != "!" {
			return v, neg
		}
		neg = !neg
		v = u.X
	}
}

// InstrDominates reports whether a executes before b on every (feasible) path
// to b: plain dominance, or dominance of every way into a merged-flag test
// that guards b (see GuardsOf).
func InstrDominates(a, b ssa.Instruction) bool {
	ba, bb := a.Block(), b.Block()
	if ba == bb {
		for _, in := range ba.Instrs {
			if in == a {
				return true
			}
			if in == b {
				return false
			}
		}
		return false
	}
	return DominatesEnd(ba, bb, 0)
}

// DominatesEnd reports whether every feasible path to (the end of) block b runs through block a.
func DominatesEnd(a, b *ssa.BasicBlock, depth int) bool {
	if a == b || a.Dominates(b) {
		return true
	}
	if depth >= 3 {
		return false
	}
	for _, g := range directGuards(b) {
		preds, _ := flagPreds(g)
		if preds == nil {
			continue
		}
		all := true
		for _, p := range preds {
			if !DominatesEnd(a, p, depth+1) {
				all = false
				break
			}
		}
		if all {
			return true
		}
	}
	return false
}

// CanReach reports whether there is a CFG path from instruction a to
// instruction b (a strictly before b).
func CanReach(a, b ssa.Instruction) bool {
	ba, bb := a.Block(), b.Block()
	if ba == bb {
		ia, ib := -1, -1
		for i, in := range ba.Instrs {
			if in == a {
				ia = i
			}
			if in == b {
				ib = i
			}
		}
		if ia < ib {
			return true
		}
	}
	seen := map[*ssa.BasicBlock]bool{}
	var stack []*ssa.BasicBlock
	stack = append(stack, ba.Succs...)
	for len(stack) > 0 {
		x := stack[len(stack)-1]
		stack = stack[:len(stack)-1]
		if seen[x] {
			continue
		}
		seen[x] = true
		if x == bb {
			return true
		}
		stack = append(stack, x.Succs...)
	}
	return false
}

// ---------------------------------------------------------------------------
// select statements

// SelectCase is one (select, case index) pair.
type SelectCase struct {
	Sel   *ssa.Select
	Index int
}

// State returns the case's channel operation.
func (s SelectCase) State() *ssa.SelectState { return s.Sel.States[s.Index] }

// selectIndexTest matches cond = (extract sel #0 == k).
func selectIndexTest(cond ssa.Value) (sel *ssa.Select, k int, ok bool) {
	b, isBin := cond.(*ssa.BinOp)
	if !isBin || b.Op.String() != "==" {
		return nil, 0, false
	}
	ex, isEx := b.X.(*ssa.Extract)
	if !isEx || ex.Index != 0 {
		return nil, 0, false
	}
	s, isSel := ex.Tuple.(*ssa.Select)
	if !isSel {
		return nil, 0, false
	}
	kk, isC := ConstInt(b.Y)
	if !isC {
		return nil, 0, false
	}
	return s, int(kk), true
}

// SelectGuards returns the select cases that dominate block b (the block runs
// only if that case was chosen).
func SelectGuards(b *ssa.BasicBlock) []SelectCase {
	var out []SelectCase
	for _, g := range GuardsOf(b) {
		if !g.True {
			continue
		}
		if s, k, ok := selectIndexTest(g.Cond); ok && k < len(s.States) {
			out = append(out, SelectCase{s, k})
		}
	}
	return out
}

// SelectBranch reports, for a branch edge, which select case it commits to
// (true edge of an index test).
func SelectBranch(br *ssa.If, succIdx int) (SelectCase, bool) {
	s, k, ok := selectIndexTest(br.Cond)
	if !ok || succIdx != 0 || k >= len(s.States) {
		return SelectCase{}, false
	}
	return SelectCase{s, k}, true
}

// Cmp is the comparison that holds on a guarded path: op(X, Y) is true.
type Cmp struct {
	Op   token.Token
	X, Y ssa.Value
}

// CmpOf returns the comparison a guard establishes, with the guard's polarity
// folded into the operator (x != y on the false edge is x == y).
func CmpOf(g Guard) (Cmp, bool) {
	b, ok := g.Cond.(*ssa.BinOp)
	if !ok {
		return Cmp{}, false
	}
	op := b.Op
	if !g.True {
		switch op {
		case token.EQL:
			op = token.NEQ
		case token.NEQ:
			op = token.EQL
		case token.LSS:
			op = token.GEQ
		case token.GEQ:
			op = token.LSS
		case token.GTR:
			op = token.LEQ
		case token.LEQ:
			op = token.GTR
		default:
			return Cmp{}, false
		}
	}
	switch op {
	case token.EQL, token.NEQ, token.LSS, token.LEQ, token.GTR, token.GEQ:
		return Cmp{op, b.X, b.Y}, true
	}
	return Cmp{}, false
}

// Is reports whether the comparison says `x op y` for operands accepted by
// the two predicates, also when it is written the other way round (y op' x).
func (c Cmp) Is(op token.Token, x, y func(ssa.Value) bool) bool {
	if c.Op == op && x(c.X) && y(c.Y) {
		return true
	}
	mirror := map[token.Token]token.Token{token.EQL: token.EQL, token.NEQ: token.NEQ, token.LSS: token.GTR, token.GTR: token.LSS, token.LEQ: token.GEQ, token.GEQ: token.LEQ}
	return c.Op == mirror[op] && x(c.Y) && y(c.X)
}

// FlagPreds exposes flagPreds for debugging.
func FlagPreds(g Guard) ([]*ssa.BasicBlock, []ssa.Value) { return flagPreds(g) }

// GuardsOfEdge returns the guards that hold when control passes from block from to its successor to:
// those of from, plus the test at the end of from if the edge is one side of it.
func GuardsOfEdge(from, to *ssa.BasicBlock) []Guard {
	out := append([]Guard{}, GuardsOf(from)...)
	if len(from.Instrs) > 0 && len(from.Succs) == 2 && from.Succs[0] != from.Succs[1] {
		if br, ok := from.Instrs[len(from.Instrs)-1].(*ssa.If); ok {
			pol := from.Succs[0] == to
			c, neg := StripNot(br.Cond)
			if neg {
				pol = !pol
			}
			out = append(out, Guard{Cond: c, True: pol, If: br})
		}
	}
	return out
}

// GuardedSource is a value that can flow into a merged value, with the guards of the way it takes.
type GuardedSource struct {
	Val    ssa.Value
	Guards []Guard
}

// SourcesWithGuards follows v back through merges (phis) and unique reaching stores and returns its non-nil
// sources, each with the guards that hold on the way from the source to the use in block at.
func SourcesWithGuards(v ssa.Value, at *ssa.BasicBlock) []GuardedSource {
	var out []GuardedSource
	seen := map[ssa.Value]bool{}
	var walk func(x ssa.Value, guards []Guard, depth int)
	walk = func(x ssa.Value, guards []Guard, depth int) {
		if x == nil || depth > 8 {
			return
		}
		if r := Resolve(x); r != x {
			x = r
		}
		if isNilConst(x) {
			return
		}
		if phi, ok := x.(*ssa.Phi); ok {
			if seen[x] {
				return
			}
			seen[x] = true
			for i, e := range phi.Edges {
				if i >= len(phi.Block().Preds) {
					continue
				}
				p := phi.Block().Preds[i]
				if deadEdge(p, phi.Block()) {
					continue
				}
				walk(e, append(append([]Guard{}, guards...), GuardsOfEdge(p, phi.Block())...), depth+1)
			}
			return
		}
		out = append(out, GuardedSource{Val: x, Guards: guards})
	}
	walk(v, append([]Guard{}, GuardsOf(at)...), 0)
	return out
}

// InfeasibleEdges returns the CFG edges (as "from->to" block indices) that cannot lie on a path to block b
// because a merged flag tested on the way to b was set differently on that way in.
func InfeasibleEdges(b *ssa.BasicBlock) map[[2]*ssa.BasicBlock]bool {
	out := map[[2]*ssa.BasicBlock]bool{}
	for _, g := range guardsOfR(b, 0, false) {
		preds, _ := flagPredsR(g, false)
		if preds == nil {
			continue
		}
		var phi *ssa.Phi
		switch x := g.Cond.(type) {
		case *ssa.Phi:
			phi = x
		case *ssa.BinOp:
			if p, ok := x.X.(*ssa.Phi); ok {
				phi = p
			} else if p, ok := x.Y.(*ssa.Phi); ok {
				phi = p
			}
		}
		if phi == nil {
			continue
		}
		ok := map[*ssa.BasicBlock]bool{}
		for _, p := range preds {
			ok[p] = true
		}
		for _, p := range phi.Block().Preds {
			if !ok[p] {
				out[[2]*ssa.BasicBlock{p, phi.Block()}] = true
			}
		}
	}
	return out
}

// testedOnWay reports whether the way from block p into blk lies behind a nil test of e with the given outcome.
func testedOnWay(p, blk *ssa.BasicBlock, e ssa.Value, nonNil bool) bool {
	gs := append([]Guard{}, directGuards(p)...)
	if len(p.Instrs) > 0 && len(p.Succs) == 2 && p.Succs[0] != p.Succs[1] {
		if br, ok := p.Instrs[len(p.Instrs)-1].(*ssa.If); ok {
			pol := p.Succs[0] == blk
			c, neg := StripNot(br.Cond)
			if neg {
				pol = !pol
			}
			gs = append(gs, Guard{Cond: c, True: pol, If: br})
		}
	}
	for _, g := range gs {
		b, ok := g.Cond.(*ssa.BinOp)
		if !ok || (b.Op != token.EQL && b.Op != token.NEQ) {
			continue
		}
		var other ssa.Value
		if isNilConst(b.Y) {
			other = b.X
		} else if isNilConst(b.X) {
			other = b.Y
		}
		if other == nil || other != e {
			continue
		}
		if (g.True == (b.Op == token.NEQ)) == nonNil {
			return true
		}
	}
	return false
}
