package an

import (
	"fmt"
	"go/constant"
	"go/token"
	"go/types"
	"sort"
	"strings"

	"golang.org/x/tools/go/ssa"
)

// A small difference-constraint prover for bounds checks the compiler's prove pass leaves behind.
//
// Terms are SSA values, len()/cap() of SSA values and the constant zero; the facts are a <= b + k. They come from
//   - the comparisons that dominate the instruction (GuardsOf, with their polarity),
//   - the definitions of the values involved: x + k / x - k (one side unconditionally, the other only when the
//     operation provably does not wrap), integer conversions that provably preserve the value, len/cap of
//     make, of a slice expression and of a string/array constant, unsignedness,
//   - merged values: a phi is bounded by constants that bound each of its operands under the guards of the
//     way in.
// The closure is Floyd-Warshall on a few dozen terms. Everything is about mathematical integers: an addition
// contributes "t >= x + k" only after x is bounded above by a length (so x + k cannot wrap), which is what makes
// `if off+n > len(buf)` with a peer-controlled n *not* a proof of buf[off:off+n].

type bnode = string

type bsys struct {
	idx      map[bnode]int
	name     []bnode
	w        [][]int64 // w[a][b] = k: a <= b + k; inf if unknown
	word     int       // bits of int
	seen     map[ssa.Value]bool
	pend     []func() bool // conditional facts: return true when added (then dropped)
	lvl      int           // nesting of per-edge sub-systems (phi operands)
	relDone  map[[2]ssa.Value]bool
	cuts     []bcut // len nodes of slice expressions x[lo:hi] with a non-constant lo
	diffs    []bdiff
	guards   []Guard
	lenVals  map[bnode]lenVal // len/cap nodes and the value they measure
	termDone map[string]bool
}

type lenVal struct {
	v     ssa.Value
	isCap bool
}

type bcut struct{ ln, lo, hi bnode }

// bdiff records t = x - y (no wrap: y <= x), so that a + b <= x follows from a == y and b <= t.
type bdiff struct{ t, x, y bnode }

const binf = int64(1) << 60

func newBsys(word int) *bsys {
	s := &bsys{idx: map[bnode]int{}, word: word, seen: map[ssa.Value]bool{}}
	s.node("0")
	s.node("MAXLEN")
	s.le("0", "MAXLEN", 0)
	return s
}

func (s *bsys) node(n bnode) int {
	if i, ok := s.idx[n]; ok {
		return i
	}
	i := len(s.name)
	s.idx[n] = i
	s.name = append(s.name, n)
	for j := range s.w {
		s.w[j] = append(s.w[j], binf)
	}
	row := make([]int64, i+1)
	for j := range row {
		row[j] = binf
	}
	row[i] = 0
	s.w = append(s.w, row)
	return i
}

// le records a <= b + k.
func (s *bsys) le(a, b bnode, k int64) {
	i, j := s.node(a), s.node(b)
	if k < s.w[i][j] {
		s.w[i][j] = k
	}
}

func (s *bsys) eq(a, b bnode, k int64) { // a == b + k
	s.le(a, b, k)
	s.le(b, a, -k)
}

func (s *bsys) close() {
	n := len(s.name)
	for k := 0; k < n; k++ {
		for i := 0; i < n; i++ {
			if s.w[i][k] >= binf {
				continue
			}
			for j := 0; j < n; j++ {
				if s.w[k][j] >= binf {
					continue
				}
				if d := s.w[i][k] + s.w[k][j]; d < s.w[i][j] {
					s.w[i][j] = d
				}
			}
		}
	}
}

// bound returns the best k with a <= b + k.
func (s *bsys) bound(a, b bnode) (int64, bool) {
	i, ok1 := s.idx[a]
	j, ok2 := s.idx[b]
	if !ok1 || !ok2 || s.w[i][j] >= binf {
		return 0, false
	}
	return s.w[i][j], true
}

func (s *bsys) inconsistent() bool {
	for i := range s.name {
		if s.w[i][i] < 0 {
			return true
		}
	}
	return false
}

func bkey(v ssa.Value) bnode {
	if c, ok := v.(*ssa.Const); ok {
		return "const:" + c.String()
	}
	if u, ok := v.(*ssa.UnOp); ok && u.Op == token.MUL {
		v = canonLoad(u)
	}
	return fmt.Sprintf("v:%s@%p", v.Name(), v)
}

// canonLoad returns the earliest load of the same address that certainly yields the same value as u: walking
// backwards from u through straight-line code (the same block and single-predecessor/single-successor chains), nothing
// between the two may write the variable: no store to that address, no call other than builtins and the pure
// encoding/binary helpers (a closure that captured the variable writes it through a call).
func canonLoad(u *ssa.UnOp) *ssa.UnOp {
	best := u
	b := u.Block()
	if b == nil {
		return u
	}
	idx := -1
	for i, in := range b.Instrs {
		if in == ssa.Instruction(u) {
			idx = i
		}
	}
	for steps := 0; steps < 400; steps++ {
		idx--
		if idx < 0 {
			if len(b.Preds) != 1 || len(b.Preds[0].Succs) != 1 {
				return best
			}
			b = b.Preds[0]
			idx = len(b.Instrs)
			continue
		}
		switch x := b.Instrs[idx].(type) {
		case *ssa.UnOp:
			if x.Op == token.MUL && x.X == u.X {
				best = x
			}
		case *ssa.Store:
			if x.Addr == u.X || !distinctAddr(x.Addr, u.X) {
				return best
			}
		case *ssa.Call:
			if _, isB := x.Call.Value.(*ssa.Builtin); isB {
				continue
			}
			if callee := x.Call.StaticCallee(); callee != nil && callee.Pkg != nil && callee.Pkg.Pkg.Path() == "encoding/binary" {
				continue
			}
			if obj := CalleeObj(&x.Call); obj != nil && obj.Pkg() != nil && obj.Pkg().Path() == "encoding/binary" {
				continue
			}
			return best
		case *ssa.Defer, *ssa.Go, *ssa.Send, *ssa.Select, *ssa.MapUpdate:
			return best
		}
	}
	return best
}

// distinctAddr: a store through a cannot change what is read through b: b is a local variable (an Alloc) and a is an
// element or field address derived from some other value, or another Alloc.
func distinctAddr(a, b ssa.Value) bool {
	if _, isAl := b.(*ssa.Alloc); !isAl {
		return false
	}
	switch x := a.(type) {
	case *ssa.Alloc:
		return x != b
	case *ssa.IndexAddr:
		// an element of a slice/array reached through a value, not the variable itself
		if al, ok := x.X.(*ssa.Alloc); ok && al == b {
			return false
		}
		return true
	case *ssa.FieldAddr:
		root := x.X
		for {
			if fa, ok := root.(*ssa.FieldAddr); ok {
				root = fa.X
				continue
			}
			break
		}
		return root != b
	}
	return false
}

func lenKey(v ssa.Value) bnode { return "len:" + bkey(v) }
func capKey(v ssa.Value) bnode { return "cap:" + bkey(v) }

func intConst(v ssa.Value) (int64, bool) {
	c, ok := v.(*ssa.Const)
	if !ok || c.Value == nil {
		return 0, false
	}
	if c.Value.Kind() != constant.Int {
		return 0, false
	}
	if k, exact := constant.Int64Val(c.Value); exact {
		return k, true
	}
	return 0, false
}

func isUnsigned(t types.Type) bool {
	b, ok := t.Underlying().(*types.Basic)
	return ok && b.Info()&types.IsUnsigned != 0
}

func isInteger(t types.Type) bool {
	b, ok := t.Underlying().(*types.Basic)
	return ok && b.Info()&types.IsInteger != 0
}

func (s *bsys) bits(t types.Type) int {
	b, ok := t.Underlying().(*types.Basic)
	if !ok {
		return 0
	}
	switch b.Kind() {
	case types.Int8, types.Uint8:
		return 8
	case types.Int16, types.Uint16:
		return 16
	case types.Int32, types.Uint32:
		return 32
	case types.Int64, types.Uint64:
		return 64
	case types.Int, types.Uint, types.Uintptr:
		return s.word
	}
	return 0
}

// smallAndNonNeg: the closure shows 0 <= v and v <= (a length) + small, so v + small does not wrap and v survives any
// conversion to a type of at least 32 bits.
func (s *bsys) lengthLike(n bnode) bool {
	lo, ok := s.bound("0", n)
	if !ok || lo > 0 {
		return false
	}
	hi, ok := s.bound(n, "MAXLEN")
	return ok && hi <= 1<<20
}

// term makes sure the facts that follow from v's definition are in the system and returns v's node.
func (s *bsys) term(v ssa.Value) bnode {
	if k, ok := intConst(v); ok {
		n := fmt.Sprintf("k:%d", k)
		if _, had := s.idx[n]; !had {
			s.eq(n, "0", k)
			if k >= 0 && k < 1<<31 {
				s.le(n, "MAXLEN", 0)
			}
		}
		return n
	}
	n := bkey(v)
	if s.seen[v] {
		return n
	}
	s.seen[v] = true
	s.node(n)
	if isInteger(v.Type()) && isUnsigned(v.Type()) {
		s.le("0", n, 0)
	}
	switch x := v.(type) {
	case *ssa.Call:
		if b, ok := x.Call.Value.(*ssa.Builtin); ok && len(x.Call.Args) == 1 {
			switch b.Name() {
			case "len":
				s.eq(n, s.lenOf(x.Call.Args[0]), 0)
			case "cap":
				s.eq(n, s.capOf(x.Call.Args[0]), 0)
			}
		}
		if b, ok := x.Call.Value.(*ssa.Builtin); ok && b.Name() == "copy" && len(x.Call.Args) == 2 {
			s.le("0", n, 0)
			s.le(n, s.lenOf(x.Call.Args[0]), 0)
			s.le(n, s.lenOf(x.Call.Args[1]), 0)
		}
		if b, ok := x.Call.Value.(*ssa.Builtin); ok && (b.Name() == "min" || b.Name() == "max") {
			var argNodes []bnode
			for _, a := range x.Call.Args {
				an := s.term(a)
				argNodes = append(argNodes, an)
				if b.Name() == "min" {
					s.le(n, an, 0)
				} else {
					s.le(an, n, 0)
				}
			}
			isMin := b.Name() == "min"
			s.pend = append(s.pend, func() bool {
				// the other side: min is at least the least lower bound, max at most the greatest upper bound
				best, ok := int64(0), true
				for i, an := range argNodes {
					var v int64
					var has bool
					if isMin {
						v, has = s.constLo(an)
					} else {
						v, has = s.constHi(an)
					}
					if !has {
						ok = false
						break
					}
					if i == 0 || (isMin && v < best) || (!isMin && v > best) {
						best = v
					}
				}
				if !ok {
					return false
				}
				if isMin {
					s.le("0", n, -best)
				} else {
					s.le(n, "0", best)
				}
				return true
			})
		}
		if callee := x.Call.StaticCallee(); callee != nil && callee.Object() != nil {
			switch callee.Object().(*types.Func).FullName() {
			case "math/bits.Len64", "math/bits.Len":
				s.le("0", n, 0)
				s.le(n, "0", 64)
			case "math/bits.Len32":
				s.le("0", n, 0)
				s.le(n, "0", 32)
			case "math/bits.Len16":
				s.le("0", n, 0)
				s.le(n, "0", 16)
			case "math/bits.Len8":
				s.le("0", n, 0)
				s.le(n, "0", 8)
			}
			// a function with a body and one integer result: constant bounds that hold on every way out
			if len(callee.Blocks) > 0 && s.lvl < 2 && callee.Signature.Results().Len() == 1 && isInteger(callee.Signature.Results().At(0).Type()) && !x.Call.IsInvoke() {
				if lo, hi, okLo, okHi := resultConstBounds(callee, s.word, s.lvl); okLo || okHi {
					if okLo {
						s.le("0", n, -lo)
					}
					if okHi {
						s.le(n, "0", hi)
					}
				}
			}
			switch callee.Object().(*types.Func).FullName() {
			case "strings.IndexByte", "bytes.IndexByte", "strings.Index", "bytes.Index", "strings.IndexRune", "strings.IndexAny", "bytes.IndexAny":
				// -1 or an index into the first argument
				s.le("k:-1", n, 0)
				s.eq("k:-1", "0", -1)
				s.le(n, s.lenOf(x.Call.Args[0]), -1)
			}
		}
	case *ssa.BinOp:
		switch x.Op {
		case token.ADD, token.SUB:
			k, isK := intConst(x.Y)
			other := x.X
			if !isK && x.Op == token.ADD {
				k, isK = intConst(x.X)
				other = x.Y
			}
			if isK && k > -(1<<20) && k < 1<<20 {
				if x.Op == token.SUB {
					k = -k
				}
				on := s.term(other)
				unsigned := isUnsigned(v.Type())
				if k >= 0 {
					s.le(n, on, k) // wrapping only makes the result smaller
					s.pend = append(s.pend, func() bool {
						if s.lengthLike(on) {
							s.le(on, n, -k)
							return true
						}
						return false
					})
				} else {
					s.le(on, n, -k) // wrapping only makes the result larger
					s.pend = append(s.pend, func() bool {
						// no wrap: unsigned needs other >= -k, signed needs other not near the minimum
						lo, ok := s.bound("0", on) // 0 <= on + lo, i.e. on >= -lo
						if !ok {
							return false
						}
						if unsigned && -lo < -k {
							return false
						}
						if !unsigned && -lo < -(1<<40) {
							return false
						}
						s.le(n, on, k)
						return true
					})
				}
			} else if !isK {
				// sum / difference of two values: one-sided facts when an operand is known non-negative are added lazily
				xn, yn := s.term(x.X), s.term(x.Y)
				op := x.Op
				if op == token.ADD {
					// lo + m with m <= len(x[lo:hi]) = hi - lo: the sum does not exceed hi (filling spare capacity)
					s.pend = append(s.pend, func() bool {
						done := false
						// a + b with b <= x - a: the sum does not exceed x
						for _, df := range s.diffs {
							for _, pr := range [][2]bnode{{xn, yn}, {yn, xn}} {
								if d, ok := s.bound(pr[0], df.y); !ok || d != 0 {
									continue
								}
								if d, ok := s.bound(df.y, pr[0]); !ok || d != 0 {
									continue
								}
								if k, ok := s.bound(pr[1], df.t); ok && s.lengthLike(pr[0]) && s.lengthLike(pr[1]) {
									s.le(n, df.x, k)
									done = true
								}
							}
						}
						for _, c := range s.cuts {
							for _, pr := range [][2]bnode{{xn, yn}, {yn, xn}} {
								if d, ok := s.bound(pr[0], c.lo); !ok || d != 0 {
									continue
								}
								if d, ok := s.bound(c.lo, pr[0]); !ok || d != 0 {
									continue
								}
								if k, ok := s.bound(pr[1], c.ln); ok && s.lengthLike(pr[0]) && s.lengthLike(pr[1]) {
									s.le(n, c.hi, k)
									done = true
								}
							}
						}
						return done
					})
				}
				s.pend = append(s.pend, func() bool {
					if op == token.ADD && s.lengthLike(xn) && s.lengthLike(yn) {
						// x + y with both length-like: no wrap; result >= each operand; result <= x + (bound of y)
						s.le(xn, n, 0)
						s.le(yn, n, 0)
						if hy, ok := s.constHi(yn); ok {
							s.le(n, xn, hy)
						}
						if hx, ok := s.constHi(xn); ok {
							s.le(n, yn, hx)
						}
						if ly, ok := s.constLo(yn); ok {
							s.le(xn, n, -ly)
						}
						if lx, ok := s.constLo(xn); ok {
							s.le(yn, n, -lx)
						}
						return true
					}
					if op == token.SUB && s.lengthLike(xn) && s.lengthLike(yn) {
						if d, ok := s.bound(yn, xn); ok && d <= 0 { // y <= x: no wrap, 0 <= x-y <= x
							s.le("0", n, 0)
							s.le(n, xn, 0)
							s.diffs = append(s.diffs, bdiff{n, xn, yn})
							if ly, ok := s.constLo(yn); ok {
								s.le(n, xn, -ly)
							}
							if hy, ok := s.constHi(yn); ok {
								s.le(xn, n, hy)
							}
							return true
						}
					}
					return false
				})
			}
		case token.AND:
			// x & mask with a non-negative constant mask: 0 <= result <= mask
			if k, ok := intConst(x.Y); ok && k >= 0 {
				s.le("0", n, 0)
				s.le(n, "0", k)
			}
		case token.REM:
			if k, ok := intConst(x.Y); ok && k > 0 && isUnsigned(v.Type()) {
				s.le(n, "0", k-1)
			}
		case token.QUO:
			if k, ok := intConst(x.Y); ok && k > 0 {
				xn := s.term(x.X)
				s.pend = append(s.pend, func() bool {
					lo, okLo := s.constLo(xn)
					if !okLo || lo < 0 {
						return false
					}
					s.le("0", n, -(lo / k))
					s.le(n, xn, 0)
					if hi, okHi := s.constHi(xn); okHi {
						s.le(n, "0", hi/k)
					}
					return true
				})
			}
		case token.OR:
			// x | k with non-negative operands is at least each of them
			if k, ok := intConst(x.Y); ok && k >= 0 && isUnsigned(v.Type()) {
				s.le(s.term(x.X), n, 0)
			}
		case token.SHR:
			// x >> k of an unsigned / non-negative value does not exceed it
			xn := s.term(x.X)
			s.pend = append(s.pend, func() bool {
				if lo, ok := s.bound("0", xn); ok && lo <= 0 {
					s.le("0", n, 0)
					s.le(n, xn, 0)
					return true
				}
				return false
			})
		}
	case *ssa.Convert:
		if isInteger(x.X.Type()) && isInteger(x.Type()) {
			src := s.term(x.X)
			su, du := isUnsigned(x.X.Type()), isUnsigned(x.Type())
			sb, db := s.bits(x.X.Type()), s.bits(x.Type())
			switch {
			case su == du && db >= sb, su && !du && db > sb:
				s.eq(n, src, 0)
			default:
				if su && du {
					s.le(n, src, 0) // truncating an unsigned value never makes it larger
				}
				s.pend = append(s.pend, func() bool {
					if db >= s.word && s.lengthLike(src) {
						s.eq(n, src, 0)
						return true
					}
					if su != du && db == sb {
						// same width, other signedness: the two agree exactly when the signed one is non-negative
						signed := n
						if du {
							signed = src
						}
						if lo, ok := s.bound("0", signed); ok && lo <= 0 {
							s.eq(n, src, 0)
							return true
						}
					}
					if db >= 32 {
						// a value with constant bounds that fit
						lo, ok1 := s.constLo(src)
						hi, ok2 := s.constHi(src)
						min := int64(-(1 << 30))
						if du {
							min = 0
						}
						if ok1 && ok2 && lo >= min && hi < 1<<30 {
							s.eq(n, src, 0)
							return true
						}
					}
					return false
				})
			}
		}
	case *ssa.ChangeType:
		if isInteger(x.X.Type()) {
			s.eq(n, s.term(x.X), 0)
		}
	case *ssa.Phi:
		// constant bounds that hold for every operand under the guards of its way in
		s.pend = append(s.pend, func() bool { return s.phiBounds(x, n) })
		// and its relation to the length of a string/slice merged in the same block (an index and the buffer it
		// indexes, carried around a loop together)
		s.pend = append(s.pend, func() bool { return s.phiVsLen(x, n) })
		s.pend = append(s.pend, func() bool { return s.phiVsTerms(x, n) })
		// counters of one loop that advance in lockstep
		s.lockstep(x, n)
	case *ssa.UnOp:
		// nothing: loads are opaque
	case *ssa.Extract:
		// n, err := io.ReadFull(r, p): 0 <= n <= len(p) (documented)
		if call, ok := x.Tuple.(*ssa.Call); ok && x.Index == 0 && isInteger(x.Type()) {
			if callee := call.Call.StaticCallee(); callee != nil && callee.Object() != nil {
				switch callee.Object().(*types.Func).FullName() {
				case "io.ReadFull", "io.ReadAtLeast":
					s.le("0", n, 0)
					s.le(n, s.lenOf(call.Call.Args[1]), 0)
				}
			}
		}
	}
	return n
}

func (s *bsys) constHi(n bnode) (int64, bool) { return s.bound(n, "0") }
func (s *bsys) constLo(n bnode) (int64, bool) {
	k, ok := s.bound("0", n)
	return -k, ok
}

func (s *bsys) lenOf(v ssa.Value) bnode {
	n := lenKey(v)
	if _, had := s.idx[n]; had {
		return n
	}
	s.node(n)
	if s.lenVals == nil {
		s.lenVals = map[bnode]lenVal{}
	}
	s.lenVals[n] = lenVal{v, false}
	s.le("0", n, 0)
	s.le(n, "MAXLEN", 0)
	switch t := v.Type().Underlying().(type) {
	case *types.Slice:
		s.le(n, s.capOf(v), 0)
	case *types.Array:
		s.eq(n, "0", t.Len())
	case *types.Pointer:
		if a, ok := t.Elem().Underlying().(*types.Array); ok {
			s.eq(n, "0", a.Len())
		}
	}
	switch x := v.(type) {
	case *ssa.Const:
		if x.Value != nil && x.Value.Kind() == constant.String {
			s.eq(n, "0", int64(len(constant.StringVal(x.Value))))
		}
	case *ssa.MakeSlice:
		// where execution continues past the make, its length argument was in range and is the length
		ln := s.term(x.Len)
		s.eq(n, ln, 0)
	case *ssa.Slice:
		// len(x[lo:hi]) = hi - lo (the slice expression itself is a checked operation: if it did not panic, this holds)
		hi := bnode("")
		if x.High != nil {
			hi = s.term(x.High)
		} else if _, isPtr := x.X.Type().Underlying().(*types.Pointer); !isPtr {
			hi = s.lenOf(x.X)
		} else {
			hi = s.lenOf(x.X)
		}
		if x.Low == nil {
			s.eq(n, hi, 0)
		} else if k, ok := intConst(x.Low); ok {
			s.eq(n, hi, -k)
		} else {
			lo := s.term(x.Low)
			// n = hi - lo: 0 <= n <= hi, and with constant bounds of lo
			s.le(n, hi, 0)
			s.cuts = append(s.cuts, bcut{n, lo, hi})
			s.pend = append(s.pend, func() bool {
				done := false
				if l, ok := s.constLo(lo); ok {
					s.le(n, hi, -l)
					done = true
				}
				if h, ok := s.constHi(lo); ok {
					s.le(hi, n, h)
					done = true
				}
				return done
			})
		}
	case *ssa.Phi:
		s.pend = append(s.pend, func() bool { return s.phiLenBounds(x, n) })
	case *ssa.UnOp:
		// a local slice variable that is only ever assigned a make of constant length or an append to itself (also
		// from the closures that capture it) never gets shorter than the shortest make
		if x.Op == token.MUL {
			if k, ok := growOnlyMinLen(x.X); ok {
				s.le("0", n, -k)
			}
		}
	case *ssa.Call:
		// append(a, b...) is exactly len(a)+len(b) long: at least as long as either
		if b, ok := x.Call.Value.(*ssa.Builtin); ok && b.Name() == "append" && len(x.Call.Args) > 0 {
			s.le(s.lenOf(x.Call.Args[0]), n, 0)
			if len(x.Call.Args) == 2 {
				if _, isSl := x.Call.Args[1].Type().Underlying().(*types.Slice); isSl {
					a, bb := s.lenOf(x.Call.Args[0]), s.lenOf(x.Call.Args[1])
					s.le(bb, n, 0)
					s.pend = append(s.pend, func() bool {
						done := false
						if k, ok := s.constHi(a); ok {
							s.le(n, bb, k)
							done = true
						}
						if k, ok := s.constHi(bb); ok {
							s.le(n, a, k)
							done = true
						}
						if k, ok := s.constLo(a); ok && k > 0 {
							s.le(bb, n, -k)
							done = true
						}
						if k, ok := s.constLo(bb); ok && k > 0 {
							s.le(a, n, -k)
							done = true
						}
						return done
					})
				}
			}
		}
	case *ssa.Extract:
		// buf, err := helper(.., n, ..) used where err == nil: what the helper guarantees about len(buf) on its
		// successful returns, in terms of its integer parameters
		if call, ok := x.Tuple.(*ssa.Call); ok && x.Index == 0 && s.lvl < 2 {
			s.callPost(call, n)
		}
	}
	return n
}

// callPost adds arg_i <= len(result) + k for every integer parameter i of a statically called function with a body
// such that param_i <= len(result0) + k holds on every return whose error result may be nil, provided the use is
// guarded by that error being nil (or the function has no error result).
func (s *bsys) callPost(call *ssa.Call, n bnode) {
	callee := call.Call.StaticCallee()
	if callee == nil || len(callee.Blocks) == 0 || call.Call.IsInvoke() {
		return
	}
	res := callee.Signature.Results()
	errIdx := -1
	for i := 0; i < res.Len(); i++ {
		if nt, ok := res.At(i).Type().(*types.Named); ok && nt.Obj().Pkg() == nil && nt.Obj().Name() == "error" {
			errIdx = i
		}
	}
	if errIdx >= 0 {
		// the use must be on the error-is-nil side of a test of this call's error
		guarded := false
		for _, g := range s.guards {
			b, ok := g.Cond.(*ssa.BinOp)
			if !ok || (b.Op != token.EQL && b.Op != token.NEQ) {
				continue
			}
			var other ssa.Value
			if isNilConst(b.Y) {
				other = b.X
			} else if isNilConst(b.X) {
				other = b.Y
			}
			ex, isEx := other.(*ssa.Extract)
			if !isEx || ex.Tuple != ssa.Value(call) || ex.Index != errIdx {
				continue
			}
			if (b.Op == token.EQL) == g.True {
				guarded = true
			}
		}
		if !guarded {
			return
		}
	}
	for i, p := range callee.Params {
		if !isInteger(p.Type()) || i >= len(call.Call.Args) {
			continue
		}
		worst, ok, any := int64(-(1 << 50)), true, false
		for _, rc := range ReturnCases(callee) {
			if errIdx >= 0 && errIdx < len(rc.Vals) {
				if f := valueFactOf(rc.Vals[errIdx]); f == 'N' {
					continue // an error return
				}
				if u, isU := rc.Vals[errIdx].(*ssa.UnOp); isU && u.Op == token.MUL {
					if _, isG := u.X.(*ssa.Global); isG {
						continue // a package-level sentinel error (io.ErrUnexpectedEOF): never nil by convention
					}
				}
				if retErrTestedNonNil(rc, errIdx) {
					continue
				}
				// otherwise it may be nil: has to satisfy the bound as well
			}
			sub := newBsys(s.word)
			sub.lvl = s.lvl + 1
			for _, g := range rc.Guards {
				sub.addGuard(g)
			}
			pn, ln := sub.term(p), sub.lenOf(rc.Vals[0])
			// on this way of returning the value is the one the merges it was selected from have
			if len(rc.Via) > 0 {
				for _, via := range rc.Via[0] {
					sub.eq(sub.lenOf(via), ln, 0)
				}
			}
			sub.solve()
			if sub.inconsistent() {
				continue
			}
			k, has := sub.bound(pn, ln)
			if !has {
				ok = false
				break
			}
			any = true
			if k > worst {
				worst = k
			}
		}
		if ok && any {
			s.le(s.term(call.Call.Args[i]), n, worst)
		}
	}
}

// valueFactOf: 'N' if v is certainly non-nil where it is built (a fresh error), 0 otherwise.
func valueFactOf(v ssa.Value) byte {
	fx := &factInfo{tracked: map[ssa.Value]bool{}}
	return fx.valueFact(nil, v)
}

func (s *bsys) capOf(v ssa.Value) bnode {
	n := capKey(v)
	if _, had := s.idx[n]; had {
		return n
	}
	s.node(n)
	if s.lenVals == nil {
		s.lenVals = map[bnode]lenVal{}
	}
	s.lenVals[n] = lenVal{v, true}
	s.le("0", n, 0)
	s.le(n, "MAXLEN", 0)
	switch x := v.(type) {
	case *ssa.MakeSlice:
		s.eq(n, s.term(x.Cap), 0)
	case *ssa.Slice:
		// cap(x[lo:]) = cap(x) - lo; with max: max - lo
		var top bnode
		if x.Max != nil {
			top = s.term(x.Max)
		} else if _, isStr := x.X.Type().Underlying().(*types.Basic); isStr {
			return n
		} else if pt, isPtr := x.X.Type().Underlying().(*types.Pointer); isPtr {
			if a, ok := pt.Elem().Underlying().(*types.Array); ok {
				top = fmt.Sprintf("k:%d", a.Len())
				s.eq(top, "0", a.Len())
			}
		} else {
			top = s.capOf(x.X)
		}
		if top == "" {
			return n
		}
		if x.Low == nil {
			s.eq(n, top, 0)
		} else if k, ok := intConst(x.Low); ok {
			s.eq(n, top, -k)
		} else {
			s.le(n, top, 0)
		}
	}
	return n
}

// phiBounds: constant lower/upper bounds shared by every way in. Ways in whose value depends on the phi itself (loop
// counters) are bounded by induction: assuming the bound of the other ways for the phi, the carried value keeps it.
func (s *bsys) phiBounds(p *ssa.Phi, n bnode) bool {
	if !isInteger(p.Type()) || s.lvl >= 2 {
		return true
	}
	type eb struct {
		lo, hi       int64
		hasLo, hasHi bool
	}
	bs := make([]eb, len(p.Edges))
	for i, e := range p.Edges {
		if e == ssa.Value(p) {
			bs[i] = eb{1 << 50, -(1 << 50), true, true}
			continue
		}
		l, h, hl, hh := edgeConstBounds(e, p.Block().Preds[i], p.Block(), s.word, s.lvl+1, nil)
		bs[i] = eb{l, h, hl, hh}
	}
	// lower bound
	lo, any := int64(1<<50), false
	for _, b := range bs {
		if b.hasLo && b.lo < lo {
			lo, any = b.lo, true
		}
	}
	okLo := any && lo < 1<<49
	if okLo {
		for i, b := range bs {
			if b.hasLo {
				continue
			}
			l, _, hl, _ := edgeConstBounds(p.Edges[i], p.Block().Preds[i], p.Block(), s.word, s.lvl+1, func(sub *bsys) {
				sub.le("0", sub.term(p), -lo)
			})
			if !hl || l < lo {
				okLo = false
			}
		}
	}
	if okLo {
		s.le("0", n, -lo)
	}
	hi, any := int64(-(1 << 50)), false
	for _, b := range bs {
		if b.hasHi && b.hi > hi {
			hi, any = b.hi, true
		}
	}
	okHi := any && hi > -(1<<49)
	if okHi {
		for i, b := range bs {
			if b.hasHi {
				continue
			}
			_, h, _, hh := edgeConstBounds(p.Edges[i], p.Block().Preds[i], p.Block(), s.word, s.lvl+1, func(sub *bsys) {
				sub.le(sub.term(p), "0", hi)
			})
			if !hh || h > hi {
				okHi = false
			}
		}
	}
	if okHi {
		s.le(n, "0", hi)
	}
	return true
}

// phiVsLen: for an integer phi p and a string/slice phi q of the same block whose length is a term of the system,
// p <= len(q) + k if on every way in the operand of p is at most the length of the operand of q plus k.
func (s *bsys) phiVsLen(p *ssa.Phi, n bnode) bool {
	if !isInteger(p.Type()) || s.lvl >= 2 {
		return true
	}
	if s.relDone == nil {
		s.relDone = map[[2]ssa.Value]bool{}
	}
	pending := false
	for _, in := range p.Block().Instrs {
		q, ok := in.(*ssa.Phi)
		if !ok {
			break
		}
		switch t := q.Type().Underlying().(type) {
		case *types.Slice:
		case *types.Basic:
			if t.Info()&types.IsString == 0 {
				continue
			}
		default:
			continue
		}
		if _, present := s.idx[lenKey(q)]; !present {
			pending = true // may be asked for later
			continue
		}
		if s.relDone[[2]ssa.Value{p, q}] {
			continue
		}
		s.relDone[[2]ssa.Value{p, q}] = true
		hi, ok := int64(-(1 << 50)), true
		for i := range p.Edges {
			if i >= len(p.Block().Preds) {
				ok = false
				break
			}
			sub := newBsys(s.word)
			sub.lvl = s.lvl + 1
			for _, g := range GuardsOfEdge(p.Block().Preds[i], p.Block()) {
				sub.addGuard(g)
			}
			pe, qe := sub.term(p.Edges[i]), sub.lenOf(q.Edges[i])
			sub.solve()
			if sub.inconsistent() {
				continue
			}
			k, has := sub.bound(pe, qe)
			if !has {
				ok = false
				break
			}
			if k > hi {
				hi = k
			}
		}
		if ok && hi > -(1<<49) {
			s.le(n, lenKey(q), hi)
		}
	}
	return !pending
}

// inductionOf: p is a loop counter phi [c, p + k, p + k, ...] with one constant entry value and the same positive
// constant step on every other way in.
func inductionOf(p *ssa.Phi) (c, k int64, ok bool) {
	if !isInteger(p.Type()) || len(p.Edges) < 2 {
		return 0, 0, false
	}
	haveC, haveK := false, false
	for _, e := range p.Edges {
		if v, isC := intConst(e); isC {
			if haveC {
				return 0, 0, false
			}
			c, haveC = v, true
			continue
		}
		b, isB := e.(*ssa.BinOp)
		if !isB || b.Op != token.ADD {
			return 0, 0, false
		}
		var step int64
		var okStep bool
		if b.X == ssa.Value(p) {
			step, okStep = intConst(b.Y)
		} else if b.Y == ssa.Value(p) {
			step, okStep = intConst(b.X)
		}
		if !okStep || step <= 0 || step > 1<<20 || (haveK && step != k) {
			return 0, 0, false
		}
		k, haveK = step, true
	}
	return c, k, haveC && haveK
}

// lockstep: two counters of the same loop header, q tested against a small constant in the header (so neither wraps):
// q = cq + kq*t and p = cp + kp*t for the same iteration number t, hence constant bounds of q bound p.
func (s *bsys) lockstep(p *ssa.Phi, n bnode) {
	cp, kp, ok := inductionOf(p)
	if !ok || s.lvl >= 2 {
		return
	}
	blk := p.Block()
	if len(blk.Instrs) == 0 {
		return
	}
	br, isIf := blk.Instrs[len(blk.Instrs)-1].(*ssa.If)
	if !isIf {
		return
	}
	cond, isBin := br.Cond.(*ssa.BinOp)
	if !isBin {
		return
	}
	for _, in := range blk.Instrs {
		q, isPhi := in.(*ssa.Phi)
		if !isPhi {
			break
		}
		if q == p {
			continue
		}
		cq, kq, okq := inductionOf(q)
		if !okq {
			continue
		}
		// the header test bounds q (or p) by a small constant
		bounded := false
		for _, pr := range [][2]ssa.Value{{cond.X, cond.Y}, {cond.Y, cond.X}} {
			if (pr[0] == ssa.Value(q) || pr[0] == ssa.Value(p)) && (cond.Op == token.LSS || cond.Op == token.LEQ || cond.Op == token.GTR || cond.Op == token.GEQ) {
				if K, isK := intConst(pr[1]); isK && K >= 0 && K < 1<<31 {
					bounded = true
				}
			}
		}
		if !bounded {
			continue
		}
		qn := s.term(q)
		s.pend = append(s.pend, func() bool {
			done := false
			if L, okL := s.constLo(qn); okL && L > cq {
				t := (L - cq + kq - 1) / kq
				s.le("0", n, -(cp + kp*t))
				done = true
			}
			if H, okH := s.constHi(qn); okH && H >= cq {
				t := (H - cq) / kq
				s.le(n, "0", cp+kp*t)
				done = true
			}
			return false && done
		})
	}
}

// phiVsTerms relates an integer phi to the lengths and capacities (of values defined before the merge) that are
// terms of the system: p >= T + k (or <=) if that holds for the operand of every way in under the guards of that way.
func (s *bsys) phiVsTerms(p *ssa.Phi, n bnode) bool {
	if !isInteger(p.Type()) || s.lvl >= 2 {
		return true
	}
	if s.termDone == nil {
		s.termDone = map[string]bool{}
	}
	for name, tv := range s.lenVals {
		key := n + "|" + name
		if s.termDone[key] {
			continue
		}
		// the measured value must be defined outside the merge (dominate it)
		if in, ok := tv.v.(ssa.Instruction); ok {
			if in.Block() == nil || in.Block() == p.Block() || !in.Block().Dominates(p.Block()) {
				continue
			}
		}
		s.termDone[key] = true
		lo, hi, okLo, okHi := int64(1<<50), int64(-(1 << 50)), true, true // p >= T + lo ; p <= T + hi
		for i := range p.Edges {
			if i >= len(p.Block().Preds) {
				okLo, okHi = false, false
				break
			}
			sub := newBsys(s.word)
			sub.lvl = s.lvl + 1
			for _, g := range GuardsOfEdge(p.Block().Preds[i], p.Block()) {
				sub.addGuard(g)
			}
			pe := sub.term(p.Edges[i])
			var tn bnode
			if tv.isCap {
				tn = sub.capOf(tv.v)
			} else {
				tn = sub.lenOf(tv.v)
			}
			sub.solve()
			if sub.inconsistent() {
				continue
			}
			if k, has := sub.bound(tn, pe); has { // T <= e + k  =>  e >= T - k
				if -k < lo {
					lo = -k
				}
			} else {
				okLo = false
			}
			if k, has := sub.bound(pe, tn); has {
				if k > hi {
					hi = k
				}
			} else {
				okHi = false
			}
		}
		if okLo && lo < 1<<49 {
			s.le(name, n, -lo)
		}
		if okHi && hi > -(1<<49) {
			s.le(n, name, hi)
		}
	}
	return false // new length terms may appear later
}

// resultConstBounds: constant bounds of the single integer result of fn that hold on every return.
func resultConstBounds(fn *ssa.Function, word, lvl int) (lo, hi int64, okLo, okHi bool) {
	lo, hi, okLo, okHi = 1<<50, -(1 << 50), true, true
	any := false
	for _, rc := range ReturnCases(fn) {
		if len(rc.Vals) != 1 {
			return 0, 0, false, false
		}
		sub := newBsys(word)
		sub.lvl = lvl + 1
		for _, g := range rc.Guards {
			sub.addGuard(g)
		}
		n := sub.term(rc.Vals[0])
		sub.solve()
		if sub.inconsistent() {
			continue
		}
		any = true
		if l, ok := sub.constLo(n); ok {
			if l < lo {
				lo = l
			}
		} else {
			okLo = false
		}
		if h, ok := sub.constHi(n); ok {
			if h > hi {
				hi = h
			}
		} else {
			okHi = false
		}
	}
	if !any {
		return 0, 0, false, false
	}
	return
}

// phiLenBounds: nothing is known about the length of a merged slice beyond what guards say.
func (s *bsys) phiLenBounds(p *ssa.Phi, n bnode) bool { return true }

// edgeConstBounds computes constant bounds of value e as it flows along pred -> blk.
func edgeConstBounds(e ssa.Value, pred, blk *ssa.BasicBlock, word, lvl int, hyp func(*bsys)) (lo, hi int64, hasLo, hasHi bool) {
	if k, ok := intConst(e); ok {
		return k, k, true, true
	}
	sys := newBsys(word)
	sys.lvl = lvl
	for _, g := range GuardsOfEdge(pred, blk) {
		sys.addGuard(g)
	}
	n := sys.term(e)
	if hyp != nil {
		hyp(sys)
	}
	sys.solve()
	if sys.inconsistent() {
		// infeasible way in: it constrains nothing
		return 1 << 50, -(1 << 50), true, true
	}
	l, okL := sys.constLo(n)
	h, okH := sys.constHi(n)
	return l, h, okL, okH
}

func (s *bsys) addGuard(g Guard) {
	s.guards = append(s.guards, g)
	c, ok := CmpOf(g)
	if !ok {
		return
	}
	if !isInteger(c.X.Type()) || !isInteger(c.Y.Type()) {
		return
	}
	x, y := s.term(c.X), s.term(c.Y)
	switch c.Op {
	case token.LSS:
		s.le(x, y, -1)
	case token.LEQ:
		s.le(x, y, 0)
	case token.GTR:
		s.le(y, x, -1)
	case token.GEQ:
		s.le(y, x, 0)
	case token.EQL:
		s.eq(x, y, 0)
	case token.NEQ:
		// x != y excludes an end point of x's range: with y <= x known it means y < x
		s.pend = append(s.pend, func() bool {
			done := false
			if d, ok := s.bound(y, x); ok && d == 0 { // y <= x
				s.le(y, x, -1)
				done = true
			}
			if d, ok := s.bound(x, y); ok && d == 0 {
				s.le(x, y, -1)
				done = true
			}
			return done
		})
	}
}

func (s *bsys) solve() {
	for round := 0; round < 24; round++ {
		s.close()
		changed := false
		var keep []func() bool
		pend := s.pend
		s.pend = nil
		for _, f := range pend {
			if f() {
				changed = true
			} else {
				keep = append(keep, f)
			}
		}
		if len(s.pend) > 0 {
			changed = true
		}
		s.pend = append(keep, s.pend...)
		if !changed {
			break
		}
	}
	s.close()
}

// ProveInBounds tries to show that the index / slice instruction cannot panic. The second result describes the
// obligations and how they were met (or the first one that was not).
func ProveInBounds(in ssa.Instruction, word int) (bool, string) {
	s := newBsys(word)
	for _, g := range GuardsOf(in.Block()) {
		s.addGuard(g)
	}
	type goal struct {
		a, b bnode
		k    int64
		what string
	}
	var goals []goal
	need := func(a, b bnode, k int64, what string) { goals = append(goals, goal{a, b, k, what}) }
	lenOrArray := func(x ssa.Value) bnode { return s.lenOf(x) }
	switch x := in.(type) {
	case *ssa.IndexAddr:
		i := s.term(x.Index)
		need("0", i, 0, "index >= 0")
		need(i, lenOrArray(x.X), -1, "index < len")
	case *ssa.Index:
		i := s.term(x.Index)
		need("0", i, 0, "index >= 0")
		need(i, lenOrArray(x.X), -1, "index < len")
	case *ssa.Lookup:
		if _, isMap := x.X.Type().Underlying().(*types.Map); isMap {
			return true, "map lookup"
		}
		i := s.term(x.Index)
		need("0", i, 0, "index >= 0")
		need(i, s.lenOf(x.X), -1, "index < len")
	case *ssa.Slice:
		var top bnode
		switch t := x.X.Type().Underlying().(type) {
		case *types.Basic:
			top = s.lenOf(x.X)
		case *types.Slice:
			top = s.capOf(x.X)
			s.lenOf(x.X)
		case *types.Pointer:
			_ = t
			top = s.lenOf(x.X)
		default:
			return false, "unknown sliced type"
		}
		hi := bnode("")
		if x.High != nil {
			hi = s.term(x.High)
		} else {
			hi = s.lenOf(x.X)
		}
		if x.Max != nil {
			m := s.term(x.Max)
			need(m, top, 0, "max <= cap")
			need(hi, m, 0, "high <= max")
		} else if x.High != nil {
			need(hi, top, 0, "high <= cap")
		}
		if x.Low != nil {
			lo := s.term(x.Low)
			need("0", lo, 0, "low >= 0")
			need(lo, hi, 0, "low <= high")
		} else if x.High != nil {
			need("0", hi, 0, "high >= 0")
		}
	default:
		return false, "not an index or slice instruction"
	}
	s.solve()
	if s.inconsistent() {
		return true, "unreachable: the dominating comparisons contradict each other"
	}
	var done []string
	for _, g := range goals {
		k, ok := s.bound(g.a, g.b)
		if !ok || k > g.k {
			return false, g.what + " not implied by the dominating comparisons"
		}
		done = append(done, g.what)
	}
	sort.Strings(done)
	return true, "implied by the dominating comparisons: " + strings.Join(done, ", ")
}

// ProveGE tries to show v >= k where instruction at executes.
func ProveGE(v ssa.Value, k int64, at ssa.Instruction, word int) bool {
	s := newBsys(word)
	for _, g := range GuardsOf(at.Block()) {
		s.addGuard(g)
	}
	n := s.term(v)
	s.solve()
	if s.inconsistent() {
		return true
	}
	lo, ok := s.constLo(n)
	return ok && lo >= k
}

// retErrTestedNonNil: a guard of the return case says the returned error (or a merge it was selected from) is not nil.
func retErrTestedNonNil(rc RetCase, errIdx int) bool {
	cands := []ssa.Value{rc.Vals[errIdx]}
	if errIdx < len(rc.Via) {
		cands = append(cands, rc.Via[errIdx]...)
	}
	for _, g := range rc.Guards {
		b, ok := g.Cond.(*ssa.BinOp)
		if !ok || (b.Op != token.EQL && b.Op != token.NEQ) {
			continue
		}
		var other ssa.Value
		if isNilConst(b.Y) {
			other = b.X
		} else if isNilConst(b.X) {
			other = b.Y
		}
		if other == nil || (b.Op == token.NEQ) != g.True {
			continue
		}
		for _, c := range cands {
			if c == other {
				return true
			}
		}
	}
	return false
}

// ProveRel reports whether a' <= b' + k and whether a' >= b' + k hold where instruction at executes; a' is len(a) if
// aLen (else a), likewise b'.
func ProveRel(at ssa.Instruction, a ssa.Value, aLen bool, b ssa.Value, bLen bool, k int64, word int) (le, ge bool) {
	s := newBsys(word)
	for _, g := range GuardsOf(at.Block()) {
		s.addGuard(g)
	}
	var an, bn bnode
	if aLen {
		an = s.lenOf(a)
	} else {
		an = s.term(a)
	}
	if bLen {
		bn = s.lenOf(b)
	} else {
		bn = s.term(b)
	}
	s.solve()
	if s.inconsistent() {
		return true, true
	}
	if d, ok := s.bound(an, bn); ok && d <= k {
		le = true
	}
	if d, ok := s.bound(bn, an); ok && d <= -k {
		ge = true
	}
	return
}

// SameLoad: the two loads read the same address and certainly yield the same value.
func SameLoad(a, b *ssa.UnOp) bool {
	return a.X == b.X && canonLoad(a) == canonLoad(b)
}

// growOnlyMinLen: addr is a local slice variable (or a closure's view of one) all of whose assignments, in the
// declaring function and in every closure that captures it, are make([]T, K, ...) with constant K or append(<the
// variable itself>, ...); the result is the smallest K.
func growOnlyMinLen(addr ssa.Value) (int64, bool) {
	var root *ssa.Alloc
	switch a := addr.(type) {
	case *ssa.Alloc:
		root = a
	case *ssa.FreeVar:
		// find the allocation bound to this free variable
		fn := a.Parent()
		if fn == nil || fn.Parent() == nil {
			return 0, false
		}
		idx := -1
		for i, fv := range fn.FreeVars {
			if fv == a {
				idx = i
			}
		}
		Instrs(fn.Parent(), func(in ssa.Instruction) {
			if mc, ok := in.(*ssa.MakeClosure); ok && mc.Fn == ssa.Value(fn) && idx >= 0 && idx < len(mc.Bindings) {
				if al, isAl := mc.Bindings[idx].(*ssa.Alloc); isAl {
					root = al
				}
			}
		})
	}
	if root == nil {
		return 0, false
	}
	if _, isSl := root.Type().(*types.Pointer).Elem().Underlying().(*types.Slice); !isSl {
		return 0, false
	}
	min, any, ok := int64(0), false, true
	var scan func(a ssa.Value, depth int)
	scan = func(a ssa.Value, depth int) {
		refs := a.Referrers()
		if refs == nil || depth > 3 {
			ok = false
			return
		}
		for _, r := range *refs {
			switch x := r.(type) {
			case *ssa.UnOp, *ssa.DebugRef:
			case *ssa.Store:
				if x.Addr != a {
					ok = false // the address itself is stored somewhere
					return
				}
				switch v := x.Val.(type) {
				case *ssa.MakeSlice:
					k, isK := intConst(v.Len)
					if !isK {
						ok = false
						return
					}
					if !any || k < min {
						min, any = k, true
					}
				case *ssa.Call:
					b, isB := v.Call.Value.(*ssa.Builtin)
					if !isB || b.Name() != "append" {
						ok = false
						return
					}
					ld, isLd := v.Call.Args[0].(*ssa.UnOp)
					if !isLd || ld.Op != token.MUL || ld.X != a {
						ok = false
						return
					}
				default:
					ok = false
					return
				}
			case *ssa.MakeClosure:
				fn, _ := x.Fn.(*ssa.Function)
				if fn == nil {
					ok = false
					return
				}
				for i, bnd := range x.Bindings {
					if bnd == a && i < len(fn.FreeVars) {
						scan(fn.FreeVars[i], depth+1)
					}
				}
			default:
				ok = false
				return
			}
		}
	}
	scan(root, 0)
	return min, ok && any
}

// ProveMake tries to show that a make([]T, len, cap) cannot panic because of its arguments: 0 <= len <= cap.
func ProveMake(mk *ssa.MakeSlice, word int) (bool, string) {
	s := newBsys(word)
	for _, g := range GuardsOf(mk.Block()) {
		s.addGuard(g)
	}
	ln, cn := s.term(mk.Len), s.term(mk.Cap)
	s.solve()
	if s.inconsistent() {
		return true, "unreachable"
	}
	if lo, ok := s.constLo(ln); !ok || lo < 0 {
		return false, "length not shown non-negative"
	}
	if mk.Cap != mk.Len {
		if d, ok := s.bound(ln, cn); !ok || d > 0 {
			return false, "length not shown to be at most the capacity"
		}
	}
	return true, "0 <= len <= cap follows from the dominating comparisons"
}

// DebugMake dumps the finite constraints of the system built for a make (debugging aid).
func DebugMake(mk *ssa.MakeSlice, word int) string {
	s := newBsys(word)
	for _, g := range GuardsOf(mk.Block()) {
		s.addGuard(g)
	}
	s.term(mk.Len)
	s.term(mk.Cap)
	s.solve()
	var sb strings.Builder
	for i, a := range s.name {
		for j, b := range s.name {
			if i != j && s.w[i][j] < binf && !strings.HasPrefix(a, "k:") && !strings.HasPrefix(b, "k:") {
				fmt.Fprintf(&sb, "  %s <= %s + %d\n", a, b, s.w[i][j])
			}
		}
	}
	return sb.String()
}
