package an

// Source normalisation: helpers that are not part of the reviewed function
// inventory (knownfuncs.txt) are inlined into their same-package callers
// before the program is type-checked and built, so that the rule tables see
// the same shape whether or not a piece of a function has been moved into a
// new helper (extract-method refactorings), and so that a defect placed in a
// new helper is analysed in the context of the operation that uses it.
//
// The rewrite is purely textual on top of the type-checked syntax: the call is
// replaced by a block that binds the parameters, runs the (renamed) body inside
// `L: switch { default: ... }` with every `return e` turned into
// `{ r = e; break L }`, and reads the result temporaries afterwards.  Every
// spliced region carries /*line*/ directives so that positions keep pointing
// into the original files.  The normalised package is type-checked again; if
// anything about a call site is not provably safe to rewrite it is left alone,
// and if the result does not type-check the original source is analysed.

import (
	"bytes"
	_ "embed"
	"fmt"
	"go/ast"
	"go/parser"
	"go/token"
	"go/types"
	"os"
	"path/filepath"
	"sort"
	"strconv"
	"strings"

	"golang.org/x/tools/go/packages"
)

//go:embed knownfuncs.txt
var knownFuncsTxt string

var knownFuncs = func() map[string]bool {
	m := map[string]bool{}
	for _, l := range strings.Split(knownFuncsTxt, "\n") {
		l = strings.TrimSpace(l)
		if l == "" || strings.HasPrefix(l, "#") {
			continue
		}
		m[l] = true
	}
	return m
}()

// NormReport says what the normaliser did for one load.
type NormReport struct {
	Unknown []string // functions outside the reviewed inventory
	Inlined []string // "callee -> caller" for every rewritten call site
	Kept    []string // "callee: reason" for call sites / functions left alone
	Removed []string // helper declarations dropped after all their calls were inlined
	Failed  string   // non-empty: normalised source was not usable; original analysed
	Rounds  int
	// Sites lists the call expressions that were replaced by the callee's body, by their original position.
	Sites []InlinedSite
}

// InlinedSite is one call that the normaliser replaced by the body of its callee.
type InlinedSite struct {
	File            string
	Line, Col       int
	EndLine, EndCol int
	Callee          string
}

// funcKey is the inventory key of a declaration: "pkgpath\tname" or "pkgpath\tRecv.name".
func funcKey(pkgPath string, d *ast.FuncDecl) string {
	name := d.Name.Name
	if d.Recv != nil && len(d.Recv.List) == 1 {
		name = recvTypeName(d.Recv.List[0].Type) + "." + name
	}
	return pkgPath + "\t" + name
}

func recvTypeName(e ast.Expr) string {
	for {
		switch x := e.(type) {
		case *ast.StarExpr:
			e = x.X
		case *ast.ParenExpr:
			e = x.X
		case *ast.IndexExpr:
			e = x.X
		case *ast.IndexListExpr:
			e = x.X
		case *ast.Ident:
			return x.Name
		default:
			return "?"
		}
	}
}

// DeclaredFuncs parses the module's non-test files (all build configurations)
// and returns the inventory keys of every function declaration.
func DeclaredFuncs(dir string) ([]string, error) {
	modPath, err := modulePath(dir)
	if err != nil {
		return nil, err
	}
	var out []string
	fset := token.NewFileSet()
	err = filepath.Walk(dir, func(path string, fi os.FileInfo, err error) error {
		if err != nil {
			return err
		}
		if fi.IsDir() {
			base := fi.Name()
			if path != dir && (strings.HasPrefix(base, ".") || strings.HasPrefix(base, "_") || base == "testdata" || base == "vendor") {
				return filepath.SkipDir
			}
			if path != dir {
				if _, err := os.Stat(filepath.Join(path, "go.mod")); err == nil {
					return filepath.SkipDir
				}
			}
			return nil
		}
		if !strings.HasSuffix(path, ".go") || strings.HasSuffix(path, "_test.go") {
			return nil
		}
		f, err := parser.ParseFile(fset, path, nil, parser.SkipObjectResolution)
		if err != nil {
			return nil // the real load reports syntax errors
		}
		rel, _ := filepath.Rel(dir, filepath.Dir(path))
		pkgPath := modPath
		if rel != "." {
			pkgPath = modPath + "/" + filepath.ToSlash(rel)
		}
		for _, d := range f.Decls {
			if fd, ok := d.(*ast.FuncDecl); ok {
				out = append(out, funcKey(pkgPath, fd))
			}
		}
		return nil
	})
	sort.Strings(out)
	return out, err
}

func modulePath(dir string) (string, error) {
	b, err := os.ReadFile(filepath.Join(dir, "go.mod"))
	if err != nil {
		return "", err
	}
	for _, l := range strings.Split(string(b), "\n") {
		l = strings.TrimSpace(l)
		if strings.HasPrefix(l, "module ") {
			return strings.Trim(strings.TrimSpace(strings.TrimPrefix(l, "module ")), `"`), nil
		}
	}
	return "", fmt.Errorf("no module line in %s/go.mod", dir)
}

// unknownFuncs lists the declarations of the tree that are not in the inventory.
func unknownFuncs(dir string) []string {
	all, err := DeclaredFuncs(dir)
	if err != nil {
		return nil
	}
	var out []string
	for _, k := range all {
		if !knownFuncs[k] && !strings.HasSuffix(k, "\tinit") && !strings.HasSuffix(k, "\tmain") {
			out = append(out, k)
		}
	}
	return out
}

// BuildOverlay computes the normalised source for cfg. It returns a nil
// overlay when there is nothing to do.
func BuildOverlay(cfg Config) (ov map[string][]byte, rep *NormReport) {
	rep = &NormReport{}
	defer func() {
		if r := recover(); r != nil {
			ov = nil
			rep.Failed = fmt.Sprintf("normaliser panic: %v; analysed as written", r)
		}
	}()
	rep.Unknown = unknownFuncs(cfg.Dir)
	if len(rep.Unknown) == 0 {
		return nil, rep
	}
	unknownPkgs := map[string]bool{}
	for _, k := range rep.Unknown {
		unknownPkgs[strings.SplitN(k, "\t", 2)[0]] = true
	}
	fset := token.NewFileSet()
	pc := &packages.Config{
		Mode: packages.NeedName | packages.NeedFiles | packages.NeedCompiledGoFiles | packages.NeedImports |
			packages.NeedTypes | packages.NeedSyntax | packages.NeedTypesInfo | packages.NeedDeps | packages.NeedModule,
		Dir:   cfg.Dir,
		Fset:  fset,
		Env:   GoEnv(cfg.GOOS, cfg.GOARCH),
		Tests: false,
	}
	if cfg.Tags != "" {
		pc.BuildFlags = []string{"-tags=" + cfg.Tags}
	}
	pats := cfg.Patterns
	if len(pats) == 0 {
		pats = []string{"./..."}
	}
	roots, err := packages.Load(pc, pats...)
	if err != nil {
		rep.Failed = "pre-load: " + err.Error()
		return nil, rep
	}
	ren := FindRenames(roots)
	overlay := map[string][]byte{}
	for _, pk := range roots {
		if !unknownPkgs[pk.PkgPath] || len(pk.Errors) > 0 || pk.Types == nil {
			continue
		}
		n := &pkgNorm{pk: pk, rep: rep, fset: fset, renamed: ren.NewNames, recvOld: ren.RecvOld}
		files := n.run()
		for name, src := range files {
			overlay[name] = src
		}
	}
	if len(overlay) == 0 {
		return nil, rep
	}
	return overlay, rep
}

// ---------------------------------------------------------------------------

type pkgNorm struct {
	pk   *packages.Package
	rep  *NormReport
	fset *token.FileSet

	// per round
	files   []*ast.File
	src     map[string][]byte // current content by file name
	info    *types.Info
	tpkg    *types.Package
	parents map[ast.Node]ast.Node
	counter int
	kept    map[string]bool
	renamed map[string]bool   // inventory keys of functions that are renames of known ones
	recvOld map[string]string // "pkg\tNewType" -> inventory name of a renamed type

	pendingImports [][2]string     // imports (name, path) the site being inlined needs in the caller's file
	failedSites    map[string]bool // call positions that could not be inlined
}

// isKnown reports whether the declaration key belongs to the reviewed inventory (directly, as a
// renamed function, or as a method of a renamed type).
func (n *pkgNorm) isKnown(key string) bool {
	if knownFuncs[key] || n.renamed[key] {
		return true
	}
	i := strings.Index(key, "\t")
	if i < 0 {
		return false
	}
	pkg, name := key[:i], key[i+1:]
	if j := strings.Index(name, "."); j >= 0 {
		if old, ok := n.recvOld[pkg+"\t"+name[:j]]; ok {
			return knownFuncs[pkg+"\t"+old+name[j:]]
		}
	}
	return false
}

type edit struct {
	start, end int // byte offsets in the file
	text       string
}

func (n *pkgNorm) keep(format string, args ...interface{}) {
	s := fmt.Sprintf(format, args...)
	if n.kept == nil {
		n.kept = map[string]bool{}
	}
	if !n.kept[s] {
		n.kept[s] = true
		n.rep.Kept = append(n.rep.Kept, s)
	}
}

func (n *pkgNorm) run() map[string][]byte {
	n.src = map[string][]byte{}
	orig := map[string][]byte{}
	var names []string
	for _, f := range n.pk.CompiledGoFiles {
		b, err := os.ReadFile(f)
		if err != nil {
			return nil
		}
		n.src[f] = b
		orig[f] = b
		names = append(names, f)
	}
	sort.Strings(names)
	n.files = n.pk.Syntax
	n.info = n.pk.TypesInfo
	n.tpkg = n.pk.Types
	changed := false
	for round := 0; round < 12; round++ {
		if round > 0 {
			if !n.recheck(names) {
				// the rewritten package does not type-check: give up on this package
				n.rep.Failed = "normalised " + n.pk.PkgPath + " does not type-check; analysed as written"
				return nil
			}
		}
		edits := n.round()
		if len(edits) == 0 {
			break
		}
		n.apply(edits)
		changed = true
		n.rep.Rounds = round + 1
	}
	if changed {
		if !n.recheck(names) {
			n.rep.Failed = "normalised " + n.pk.PkgPath + " does not type-check; analysed as written"
			return nil
		}
		if edits := n.removeDead(); len(edits) > 0 {
			n.apply(edits)
			if !n.recheck(names) {
				n.rep.Failed = "normalised " + n.pk.PkgPath + " does not type-check after helper removal; analysed as written"
				return nil
			}
		}
	}
	out := map[string][]byte{}
	for f, b := range n.src {
		if !bytes.Equal(b, orig[f]) {
			out[f] = b
		}
	}
	return out
}

func (n *pkgNorm) apply(edits map[string][]edit) {
	for file, es := range edits {
		sort.Slice(es, func(i, j int) bool {
			if es[i].start != es[j].start {
				return es[i].start < es[j].start
			}
			return es[i].end < es[j].end
		})
		src := n.src[file]
		var out bytes.Buffer
		pos := 0
		for _, e := range es {
			if e.start < pos {
				continue // overlapping edit: next round
			}
			out.Write(src[pos:e.start])
			out.WriteString(e.text)
			pos = e.end
		}
		out.Write(src[pos:])
		n.src[file] = out.Bytes()
	}
}

// recheck re-parses and type-checks the package from n.src.
func (n *pkgNorm) recheck(names []string) bool { return n.recheckN(names, 0) }

func (n *pkgNorm) recheckN(names []string, depth int) bool {
	var files []*ast.File
	for _, name := range names {
		f, err := parser.ParseFile(n.fset, name, n.src[name], parser.ParseComments|parser.SkipObjectResolution)
		if err != nil {
			n.keep("parse error after rewrite: %v", err)
			return false
		}
		files = append(files, f)
	}
	info := &types.Info{
		Types:      map[ast.Expr]types.TypeAndValue{},
		Defs:       map[*ast.Ident]types.Object{},
		Uses:       map[*ast.Ident]types.Object{},
		Selections: map[*ast.SelectorExpr]*types.Selection{},
		Scopes:     map[ast.Node]*types.Scope{},
		Implicits:  map[ast.Node]types.Object{},
		Instances:  map[*ast.Ident]types.Instance{},
	}
	var firstErr error
	var unused []types.Error
	conf := types.Config{
		Importer: importerFunc(func(path string) (*types.Package, error) {
			if ip, ok := n.pk.Imports[path]; ok && ip.Types != nil {
				return ip.Types, nil
			}
			if path == "unsafe" {
				return types.Unsafe, nil
			}
			return nil, fmt.Errorf("import %q not loaded", path)
		}),
		Error: func(err error) {
			if te, ok := err.(types.Error); ok && strings.Contains(te.Msg, "imported and not used") {
				unused = append(unused, te)
				return
			}
			if firstErr == nil {
				firstErr = err
			}
		},
		GoVersion: goVersionOf(n.pk),
	}
	tp, _ := conf.Check(n.pk.PkgPath, n.fset, files, info)
	if firstErr == nil && len(unused) > 0 && depth == 0 {
		// an import whose only user was a helper that has been merged into another file: keep it for its side
		// effects only
		edits := map[string][]edit{}
		for _, te := range unused {
			for _, f := range files {
				for _, imp := range f.Imports {
					if imp.Pos() <= te.Pos && te.Pos <= imp.End() {
						file := n.fileOf(imp.Pos())
						if imp.Name != nil {
							edits[file] = append(edits[file], edit{n.offset(imp.Name.Pos()), n.offset(imp.Name.End()), "_"})
						} else {
							at := n.offset(imp.Path.Pos())
							edits[file] = append(edits[file], edit{at, at, "_ "})
						}
					}
				}
			}
		}
		if len(edits) > 0 {
			n.files = files
			n.apply(edits)
			return n.recheckN(names, depth+1)
		}
	}
	if firstErr == nil && len(unused) > 0 {
		firstErr = unused[0]
	}
	if firstErr != nil {
		n.keep("type error after rewrite: %v", firstErr)
		return false
	}
	n.files, n.info, n.tpkg = files, info, tp
	return true
}

func goVersionOf(pk *packages.Package) string {
	if pk.Module != nil && pk.Module.GoVersion != "" {
		return "go" + pk.Module.GoVersion
	}
	return ""
}

type importerFunc func(path string) (*types.Package, error)

func (f importerFunc) Import(path string) (*types.Package, error) { return f(path) }

// offset returns the byte offset of pos in its (current) file.
func (n *pkgNorm) offset(pos token.Pos) int {
	return n.fset.PositionFor(pos, false).Offset
}

func (n *pkgNorm) fileOf(pos token.Pos) string {
	return n.fset.PositionFor(pos, false).Filename
}

func (n *pkgNorm) text(from, to token.Pos) string {
	return string(n.src[n.fileOf(from)][n.offset(from):n.offset(to)])
}

// lineDir renders a directive that makes the text that follows carry the
// (adjusted, i.e. original-file) position of pos.
func (n *pkgNorm) lineDir(pos token.Pos) string {
	p := n.fset.Position(pos)
	return fmt.Sprintf("/*line %s:%d:%d*/", p.Filename, p.Line, p.Column)
}

// ---------------------------------------------------------------------------

type callee struct {
	decl *ast.FuncDecl // for a function literal: a synthetic declaration around its type and body
	obj  *types.Func   // nil for a function literal
	lit  *ast.FuncLit  // set when the callee is an immediately-invoked literal produced by argument substitution
	key  string
	why  string // non-empty: not inlineable
}

func (n *pkgNorm) round() map[string][]edit {
	n.parents = map[ast.Node]ast.Node{}
	for _, f := range n.files {
		var stack []ast.Node
		ast.Inspect(f, func(x ast.Node) bool {
			if x == nil {
				stack = stack[:len(stack)-1]
				return true
			}
			if len(stack) > 0 {
				n.parents[x] = stack[len(stack)-1]
			}
			stack = append(stack, x)
			return true
		})
	}
	// candidates
	cands := map[*types.Func]*callee{}
	for _, f := range n.files {
		for _, d := range f.Decls {
			fd, ok := d.(*ast.FuncDecl)
			if !ok || fd.Body == nil {
				continue
			}
			key := funcKey(n.pk.PkgPath, fd)
			if n.isKnown(key) || fd.Name.Name == "init" || fd.Name.Name == "main" || fd.Name.Name == "_" {
				continue
			}
			obj, _ := n.info.Defs[fd.Name].(*types.Func)
			if obj == nil {
				continue
			}
			c := &callee{decl: fd, obj: obj, key: key}
			c.why = n.ineligible(fd)
			cands[obj] = c
		}
	}
	// recursion among candidates
	graph := map[*types.Func][]*types.Func{}
	for obj, c := range cands {
		ast.Inspect(c.decl.Body, func(x ast.Node) bool {
			if id, ok := x.(*ast.Ident); ok {
				if u, ok := n.info.Uses[id].(*types.Func); ok {
					if _, isC := cands[originFunc(u)]; isC {
						graph[obj] = append(graph[obj], originFunc(u))
					}
				}
			}
			return true
		})
	}
	for obj, c := range cands {
		if c.why == "" && reaches(graph, obj, obj) {
			c.why = "recursive"
		}
	}
	for _, c := range cands {
		if c.why != "" {
			n.keep("%s: %s", strings.Replace(c.key, "\t", ".", 1), c.why)
		}
	}
	// call sites
	type site struct {
		call *ast.CallExpr
		c    *callee
	}
	var sites []site
	for _, f := range n.files {
		ast.Inspect(f, func(x ast.Node) bool {
			call, ok := x.(*ast.CallExpr)
			if !ok {
				return true
			}
			// ((func(...) {...}))(args): a literal substituted for a function-typed parameter (see funcArgSubst)
			if p1, ok := call.Fun.(*ast.ParenExpr); ok {
				if p2, ok := p1.X.(*ast.ParenExpr); ok {
					if lit, ok := p2.X.(*ast.FuncLit); ok {
						fd := &ast.FuncDecl{Name: ast.NewIdent("literal"), Type: lit.Type, Body: lit.Body}
						c := &callee{decl: fd, lit: lit, key: n.pk.PkgPath + "\t(function literal)"}
						c.why = n.ineligible(fd)
						if c.why == "" {
							sites = append(sites, site{call, c})
						}
						return true
					}
				}
			}
			fn := n.staticCallee(call)
			if fn == nil {
				return true
			}
			if c, ok := cands[fn]; ok && c.why == "" {
				sites = append(sites, site{call, c})
			}
			return true
		})
	}
	if len(sites) == 0 {
		// helpers passed as values (once.Do(m.helper), Run(helper)): wrap them in
		// a literal so that the next round can inline the call
		return n.wrapFuncValues(cands)
	}
	siteCalls := map[*ast.CallExpr]bool{}
	for _, s := range sites {
		// a site that could not be inlined in an earlier round stays a plain call: it does not make the calls
		// around it wait
		if n.failedSites[n.fset.Position(s.call.Pos()).String()] {
			continue
		}
		siteCalls[s.call] = true
	}
	edits := map[string][]edit{}
	hostUsed := map[ast.Stmt]bool{}
	importAdded := map[string]bool{}
	for _, s := range sites {
		// innermost first: a site whose arguments contain another site waits a round
		nested := false
		ast.Inspect(s.call, func(x ast.Node) bool {
			if c2, ok := x.(*ast.CallExpr); ok && c2 != s.call && siteCalls[c2] {
				nested = true
			}
			return !nested
		})
		if nested {
			continue
		}
		n.pendingImports = nil
		es, host, why := n.inlineSite(s.call, s.c)
		if why == "" && hostUsed[host] {
			continue // one site per host statement per round
		}
		if why != "" {
			n.keep("%s at %s: %s", strings.Replace(s.c.key, "\t", ".", 1), n.shortPos(s.call.Pos()), why)
			if n.failedSites == nil {
				n.failedSites = map[string]bool{}
			}
			n.failedSites[n.fset.Position(s.call.Pos()).String()] = true
			continue
		}
		file := n.fileOf(s.call.Pos())
		hostUsed[host] = true
		edits[file] = append(edits[file], es...)
		for _, imp := range n.pendingImports {
			key := file + "\x00" + imp[0]
			if importAdded[key] {
				continue
			}
			importAdded[key] = true
			for _, f := range n.files {
				if n.fileOf(f.Pos()) == file {
					at := n.offset(f.Name.End())
					edits[file] = append(edits[file], edit{at, at, "; import " + imp[0] + " " + strconv.Quote(imp[1])})
				}
			}
		}
		n.rep.Inlined = append(n.rep.Inlined, fmt.Sprintf("%s -> %s", strings.Replace(s.c.key, "\t", ".", 1), n.enclosingFuncName(s.call)))
		a, b := n.fset.Position(s.call.Pos()), n.fset.Position(s.call.End())
		n.rep.Sites = append(n.rep.Sites, InlinedSite{File: a.Filename, Line: a.Line, Col: a.Column, EndLine: b.Line, EndCol: b.Column, Callee: strings.Replace(s.c.key, "\t", ".", 1)})
	}
	return edits
}

func (n *pkgNorm) shortPos(pos token.Pos) string {
	p := n.fset.Position(pos)
	return fmt.Sprintf("%s:%d", filepath.Base(p.Filename), p.Line)
}

func originFunc(f *types.Func) *types.Func {
	if f == nil {
		return nil
	}
	return f.Origin()
}

func reaches(g map[*types.Func][]*types.Func, from, to *types.Func) bool {
	seen := map[*types.Func]bool{}
	var stack []*types.Func
	stack = append(stack, g[from]...)
	for len(stack) > 0 {
		x := stack[len(stack)-1]
		stack = stack[:len(stack)-1]
		if x == to {
			return true
		}
		if seen[x] {
			continue
		}
		seen[x] = true
		stack = append(stack, g[x]...)
	}
	return false
}

func (n *pkgNorm) enclosingFuncName(x ast.Node) string {
	for p := x; p != nil; p = n.parents[p] {
		if fd, ok := p.(*ast.FuncDecl); ok {
			k := funcKey(n.pk.PkgPath, fd)
			return strings.Replace(k, "\t", ".", 1)
		}
	}
	return "?"
}

func (n *pkgNorm) enclosingFuncDecl(x ast.Node) *ast.FuncDecl {
	for p := x; p != nil; p = n.parents[p] {
		if fd, ok := p.(*ast.FuncDecl); ok {
			return fd
		}
	}
	return nil
}

// staticCallee resolves f(...) / x.f(...) to a function of this package.
func (n *pkgNorm) staticCallee(call *ast.CallExpr) *types.Func {
	var id *ast.Ident
	switch f := ast.Unparen(call.Fun).(type) {
	case *ast.Ident:
		id = f
	case *ast.SelectorExpr:
		id = f.Sel
	default:
		return nil
	}
	fn, ok := n.info.Uses[id].(*types.Func)
	if !ok || fn.Pkg() != n.tpkg {
		return nil
	}
	return fn.Origin()
}

// ineligible says why a declaration can never be inlined ("" if it can).
func (n *pkgNorm) ineligible(fd *ast.FuncDecl) string {
	if fd.Type.TypeParams != nil && len(fd.Type.TypeParams.List) > 0 {
		return "generic function"
	}
	if fd.Type.Params != nil {
		for _, p := range fd.Type.Params.List {
			if _, ok := p.Type.(*ast.Ellipsis); ok {
				return "variadic"
			}
		}
	}
	why := ""
	var walk func(root ast.Node, inLit bool, loops int)
	walk = func(root ast.Node, inLit bool, loops int) {
		ast.Inspect(root, func(x ast.Node) bool {
			if why != "" {
				return false
			}
			switch y := x.(type) {
			case *ast.FuncLit:
				if y != root {
					walk(y.Body, true, 0)
					return false
				}
			case *ast.ForStmt:
				if y != root {
					if y.Init != nil {
						walk(y.Init, inLit, loops)
					}
					walk(y.Body, inLit, loops+1)
					return false
				}
			case *ast.RangeStmt:
				if y != root {
					walk(y.Body, inLit, loops+1)
					return false
				}
			case *ast.DeferStmt:
				if !inLit && loops > 0 {
					why = "defer inside a loop"
				}
			case *ast.Ident:
				if y.Name == "recover" {
					if _, ok := n.info.Uses[y].(*types.Builtin); ok {
						why = "calls recover"
					}
				}
			}
			return true
		})
	}
	walk(fd.Body, false, 0)
	return why
}

// hoistable reports (as a reason, "" if fine) whether the call can be moved in
// front of its host statement: nothing with an effect may be evaluated before
// it, and it must be evaluated unconditionally.
func (n *pkgNorm) hoistable(host ast.Node, roots []ast.Node, call *ast.CallExpr) string {
	why := ""
	for _, r := range roots {
		if r == nil {
			continue
		}
		ast.Inspect(r, func(x ast.Node) bool {
			if why != "" || x == nil {
				return false
			}
			if x.Pos() >= call.End() {
				return false // evaluated after the call
			}
			contains := x.Pos() <= call.Pos() && call.End() <= x.End()
			switch y := x.(type) {
			case *ast.FuncLit:
				if contains {
					why = "call inside a function literal"
				}
				return false // a literal is a value; its body is not evaluated here
			case *ast.CallExpr:
				if y == call {
					return false
				}
				if !contains {
					if tv, ok := n.info.Types[y.Fun]; ok && tv.IsType() {
						return true // conversion
					}
					if id, ok := ast.Unparen(y.Fun).(*ast.Ident); ok {
						if _, isB := n.info.Uses[id].(*types.Builtin); isB && (id.Name == "len" || id.Name == "cap") {
							return true
						}
					}
					why = "another call is evaluated first"
				}
			case *ast.UnaryExpr:
				if y.Op == token.ARROW && !contains {
					why = "a receive is evaluated first"
				}
			case *ast.BinaryExpr:
				if (y.Op == token.LAND || y.Op == token.LOR) && y.Y.Pos() <= call.Pos() && call.End() <= y.Y.End() {
					why = "call is guarded by a short-circuit operator"
				}
			}
			return true
		})
	}
	return why
}

// inlineSite returns the edits that inline one call, the host statement, or a reason.
func (n *pkgNorm) inlineSite(call *ast.CallExpr, c *callee) ([]edit, ast.Stmt, string) {
	// ---- host statement
	var host ast.Stmt
	var child ast.Node = call
	for p := n.parents[call]; p != nil; child, p = p, n.parents[p] {
		switch y := p.(type) {
		case *ast.BlockStmt, *ast.CaseClause, *ast.CommClause:
			if cc, ok := y.(*ast.CaseClause); ok {
				for _, e := range cc.List {
					if e == child {
						return nil, nil, "call in a case expression"
					}
				}
			}
			if cc, ok := y.(*ast.CommClause); ok && cc.Comm == child {
				return nil, nil, "call in a select communication"
			}
			host, _ = child.(ast.Stmt)
		case *ast.IfStmt:
			if y.Else == child {
				host, _ = child.(ast.Stmt)
			}
		case *ast.LabeledStmt:
			host, _ = child.(ast.Stmt)
		case *ast.FuncLit, *ast.FuncDecl:
			return nil, nil, "no host statement"
		case *ast.ForStmt:
			if y.Cond == child || y.Post == child || y.Init == child {
				return nil, nil, "call in a for header"
			}
		case *ast.GoStmt, *ast.DeferStmt:
			if cs, ok := p.(*ast.GoStmt); ok && cs.Call == call {
				return nil, nil, "go statement"
			}
			if cs, ok := p.(*ast.DeferStmt); ok && cs.Call == call {
				return nil, nil, "defer statement"
			}
		case *ast.SelectStmt, *ast.TypeSwitchStmt:
			if _, ok := child.(*ast.BlockStmt); !ok {
				return nil, nil, "call in a select/type-switch header"
			}
		}
		if host != nil {
			break
		}
	}
	if host == nil {
		return nil, nil, "no host statement"
	}
	hostParent := n.parents[host]
	if ls, ok := hostParent.(*ast.LabeledStmt); ok {
		switch host.(type) {
		case *ast.ForStmt, *ast.RangeStmt, *ast.SwitchStmt, *ast.TypeSwitchStmt, *ast.SelectStmt:
			_ = ls
			return nil, nil, "host is a labelled loop/switch"
		}
	}
	// ---- evaluated part of the host
	var roots []ast.Node
	switch h := host.(type) {
	case *ast.ExprStmt:
		roots = []ast.Node{h.X}
	case *ast.AssignStmt:
		for _, l := range h.Lhs {
			roots = append(roots, l)
		}
		for _, r := range h.Rhs {
			roots = append(roots, r)
		}
	case *ast.ReturnStmt:
		for _, r := range h.Results {
			roots = append(roots, r)
		}
	case *ast.IfStmt:
		roots = []ast.Node{h.Init, h.Cond}
		if h.Init == nil {
			roots = []ast.Node{h.Cond}
		}
		if call.Pos() >= h.Body.Pos() {
			return nil, nil, "internal: host search"
		}
	case *ast.RangeStmt:
		roots = []ast.Node{h.X}
		if call.Pos() >= h.Body.Pos() {
			return nil, nil, "internal: host search"
		}
	case *ast.SendStmt:
		roots = []ast.Node{h.Chan, h.Value}
	case *ast.DeclStmt:
		gd, ok := h.Decl.(*ast.GenDecl)
		if !ok || gd.Tok != token.VAR || len(gd.Specs) != 1 {
			return nil, nil, "declaration host"
		}
		vs := gd.Specs[0].(*ast.ValueSpec)
		for _, v := range vs.Values {
			roots = append(roots, v)
		}
	case *ast.SwitchStmt:
		if h.Init != nil {
			roots = append(roots, h.Init)
		}
		if h.Tag != nil {
			roots = append(roots, h.Tag)
		}
		if call.Pos() >= h.Body.Pos() {
			return nil, nil, "internal: host search"
		}
	case *ast.GoStmt:
		roots = []ast.Node{h.Call}
	case *ast.DeferStmt:
		roots = []ast.Node{h.Call}
	case *ast.IncDecStmt:
		roots = []ast.Node{h.X}
	default:
		return nil, nil, fmt.Sprintf("host statement %T", host)
	}
	if why := n.hoistable(host, roots, call); why != "" {
		return nil, nil, why
	}
	// ---- callee signature
	var sig *types.Signature
	if c.obj != nil {
		sig = c.obj.Type().(*types.Signature)
	} else if c.lit != nil {
		sig, _ = n.info.TypeOf(c.lit).(*types.Signature)
	}
	if sig == nil {
		return nil, nil, "callee without signature"
	}
	nres := sig.Results().Len()
	// context
	const (
		ctxStmt  = iota // call is the whole expression statement
		ctxTuple        // call is the only value of an assignment / return / var spec
		ctxExpr         // call is an operand; needs exactly one result
	)
	ctx := ctxExpr
	switch h := host.(type) {
	case *ast.ExprStmt:
		if ast.Unparen(h.X) == call {
			ctx = ctxStmt
		}
	case *ast.AssignStmt:
		if len(h.Rhs) == 1 && ast.Unparen(h.Rhs[0]) == call {
			ctx = ctxTuple
		}
	case *ast.ReturnStmt:
		if len(h.Results) == 1 && ast.Unparen(h.Results[0]) == call {
			ctx = ctxTuple
		}
	case *ast.DeclStmt:
		vs := h.Decl.(*ast.GenDecl).Specs[0].(*ast.ValueSpec)
		if len(vs.Values) == 1 && ast.Unparen(vs.Values[0]) == call {
			ctx = ctxTuple
		}
	case *ast.IfStmt:
		if as, ok := h.Init.(*ast.AssignStmt); ok && len(as.Rhs) == 1 && ast.Unparen(as.Rhs[0]) == call {
			ctx = ctxTuple
		}
	case *ast.SwitchStmt:
		if as, ok := h.Init.(*ast.AssignStmt); ok && len(as.Rhs) == 1 && ast.Unparen(as.Rhs[0]) == call {
			ctx = ctxTuple
		}
	}
	if ctx == ctxExpr && nres != 1 {
		return nil, nil, "multi-value call used as an operand"
	}
	if ctx == ctxTuple && nres == 0 {
		return nil, nil, "internal: no results"
	}
	// ---- receiver / arguments
	caller := n.enclosingFuncDecl(call)
	if caller == nil {
		return nil, nil, "call outside a function declaration"
	}
	if c.lit == nil {
		if why := n.scopeCompatible(c, call, caller); why != "" {
			return nil, nil, why
		}
	}
	n.counter++
	sfx := fmt.Sprintf("_i%d", n.counter)
	rename := map[types.Object]string{}
	var binds bytes.Buffer
	// receiver
	if c.decl.Recv != nil {
		sel, ok := ast.Unparen(call.Fun).(*ast.SelectorExpr)
		if !ok {
			return nil, nil, "method called without selector"
		}
		s := n.info.Selections[sel]
		if s == nil || s.Kind() != types.MethodVal || len(s.Index()) != 1 {
			return nil, nil, "method expression or promoted method"
		}
		recvField := c.decl.Recv.List[0]
		recvTypeText := n.text(recvField.Type.Pos(), recvField.Type.End())
		xt := n.info.TypeOf(sel.X)
		_, recvPtr := sig.Recv().Type().(*types.Pointer)
		_, xPtr := xt.Underlying().(*types.Pointer)
		if _, isNamedPtr := xt.(*types.Pointer); !isNamedPtr && xPtr {
			return nil, nil, "receiver of named pointer type"
		}
		pre := ""
		if recvPtr && !xPtr {
			pre = "&"
		} else if !recvPtr && xPtr {
			pre = "*"
		}
		xtext := n.lineDir(sel.X.Pos()) + n.text(sel.X.Pos(), sel.X.End())
		if len(recvField.Names) == 1 && recvField.Names[0].Name != "_" {
			name := recvField.Names[0].Name + sfx
			rename[n.info.Defs[recvField.Names[0]]] = name
			fmt.Fprintf(&binds, "var %s %s = %s(%s); _ = %s; ", name, recvTypeText, pre, xtext, name)
		} else {
			fmt.Fprintf(&binds, "_ = %s; ", xtext)
		}
	} else if _, ok := ast.Unparen(call.Fun).(*ast.Ident); !ok && c.lit == nil {
		return nil, nil, "function called through a qualified name"
	}
	if call.Ellipsis.IsValid() {
		return nil, nil, "spread call"
	}
	// locals of the callee whose names also occur in a function-valued argument (a literal's captured
	// variables, a method value's operand) are renamed, so that the argument can be moved into the body
	{
		argNames := map[string]bool{}
		for _, a := range call.Args {
			switch ast.Unparen(a).(type) {
			case *ast.FuncLit, *ast.SelectorExpr:
				ast.Inspect(a, func(x ast.Node) bool {
					if id, ok := x.(*ast.Ident); ok {
						argNames[id.Name] = true
					}
					return true
				})
			}
		}
		if len(argNames) > 0 {
			ast.Inspect(c.decl.Body, func(x ast.Node) bool {
				id, ok := x.(*ast.Ident)
				if !ok || !argNames[id.Name] {
					return true
				}
				if obj := n.info.Defs[id]; obj != nil {
					if v, isVar := obj.(*types.Var); isVar && !v.IsField() {
						rename[obj] = id.Name + "_l" + sfx[2:]
					}
				}
				return true
			})
		}
	}
	// parameters
	ai := 0
	var litSubst []*litSub
	var funcSubst []*funcSub
	if c.decl.Type.Params != nil {
		total := 0
		for _, p := range c.decl.Type.Params.List {
			k := len(p.Names)
			if k == 0 {
				k = 1
			}
			total += k
		}
		if total != len(call.Args) {
			return nil, nil, "argument count differs (tuple-valued argument)"
		}
		for _, p := range c.decl.Type.Params.List {
			ptype := n.text(p.Type.Pos(), p.Type.End())
			names := p.Names
			if len(names) == 0 {
				names = []*ast.Ident{nil}
			}
			for _, id := range names {
				arg := call.Args[ai]
				ai++
				atext := n.lineDir(arg.Pos()) + n.text(arg.Pos(), arg.End())
				if id == nil || id.Name == "_" {
					fmt.Fprintf(&binds, "var _ %s = %s; ", ptype, atext)
					continue
				}
				if ls := n.litSubstitution(c, n.info.Defs[id], arg, rename); ls != nil {
					litSubst = append(litSubst, ls)
					continue
				}
				if fs, keepBinding := n.funcArgSubst(c, n.info.Defs[id], arg, rename); fs != nil {
					funcSubst = append(funcSubst, fs)
					if !keepBinding {
						continue
					}
				}
				name := id.Name + sfx
				rename[n.info.Defs[id]] = name
				fmt.Fprintf(&binds, "var %s %s = %s; _ = %s; ", name, ptype, atext, name)
			}
		}
	} else if len(call.Args) != 0 {
		return nil, nil, "argument count differs"
	}
	// results
	var temps []string
	var decls bytes.Buffer
	if c.decl.Type.Results != nil {
		ri := 0
		for _, r := range c.decl.Type.Results.List {
			rtype := n.text(r.Type.Pos(), r.Type.End())
			names := r.Names
			if len(names) == 0 {
				names = []*ast.Ident{nil}
			}
			for _, id := range names {
				t := fmt.Sprintf("_r%d%s", ri, sfx)
				ri++
				if id != nil && id.Name != "_" {
					t = id.Name + sfx
					rename[n.info.Defs[id]] = t
				}
				temps = append(temps, t)
				fmt.Fprintf(&decls, "var %s %s; _ = %s; ", t, rtype, t)
			}
		}
	}
	// labels of the callee
	ast.Inspect(c.decl.Body, func(x ast.Node) bool {
		if ls, ok := x.(*ast.LabeledStmt); ok {
			if obj := n.info.Defs[ls.Label]; obj != nil {
				rename[obj] = ls.Label.Name + sfx
			}
		}
		return true
	})
	// ---- body
	label := "_inl" + sfx
	rb, why := n.renderBody(c, call, rename, temps, label, sfx, litSubst, funcSubst)
	if why != "" {
		return nil, nil, why
	}
	var blk bytes.Buffer
	blk.WriteString("{ ")
	blk.Write(binds.Bytes())
	blk.WriteString(rb.decls)
	if rb.usesLabel {
		fmt.Fprintf(&blk, "%s: switch { default: ", label)
	} else {
		blk.WriteString("{ ")
	}
	blk.WriteString(rb.body)
	blk.WriteString(" }")
	blk.WriteString(rb.tail)
	blk.WriteString(" }")

	var edits []edit
	// result temporaries live at the top of the enclosing function so that no
	// goto of the caller jumps over their declaration
	if decls.Len() > 0 {
		var fbody *ast.BlockStmt
		for p := n.parents[call]; p != nil && fbody == nil; p = n.parents[p] {
			switch y := p.(type) {
			case *ast.FuncLit:
				fbody = y.Body
			case *ast.FuncDecl:
				fbody = y.Body
			}
		}
		if fbody == nil {
			return nil, nil, "no enclosing function body"
		}
		at := n.offset(fbody.Lbrace) + 1
		edits = append(edits, edit{at, at, " " + decls.String() + n.lineDir(fbody.Lbrace+1)})
	}
	insertAt := n.offset(host.Pos())
	elseWrap := false
	if ifp, ok := hostParent.(*ast.IfStmt); ok && ifp.Else == host {
		elseWrap = true
	}
	switch ctx {
	case ctxStmt:
		// the statement becomes the block itself
		txt := blk.String() + n.lineDir(call.End())
		edits = append(edits, edit{n.offset(call.Pos()), n.offset(call.End()), txt})
	default:
		pre := blk.String() + "; " + n.lineDir(host.Pos())
		if elseWrap {
			pre = "{ " + pre
			edits = append(edits, edit{n.offset(host.End()), n.offset(host.End()), " }" + n.lineDir(host.End())})
		}
		edits = append(edits, edit{insertAt, insertAt, pre})
		repl := strings.Join(temps, ", ")
		edits = append(edits, edit{n.offset(call.Pos()), n.offset(call.End()), repl + n.lineDir(call.End())})
	}
	return edits, host, ""
}

type renderedBody struct {
	body      string // statements of the callee (inside the wrapper)
	decls     string // flags and temporaries of deferred calls (before the wrapper)
	tail      string // deferred calls (after the wrapper)
	usesLabel bool
}

// renderRange copies [from,to) of the current source with the renames applied.
func (n *pkgNorm) renderRange(root ast.Node, rename map[types.Object]string, extra []edit) string {
	var edits []edit
	ast.Inspect(root, func(x ast.Node) bool {
		if id, ok := x.(*ast.Ident); ok {
			if nn, ok := n.renameOf(id, rename); ok {
				edits = append(edits, edit{n.offset(id.Pos()), n.offset(id.End()), nn})
			}
		}
		return true
	})
	edits = append(edits, extra...)
	from, to := n.offset(root.Pos()), n.offset(root.End())
	if b, ok := root.(*ast.BlockStmt); ok {
		from, to = n.offset(b.Lbrace)+1, n.offset(b.Rbrace)
	}
	src := n.src[n.fileOf(root.Pos())]
	sort.SliceStable(edits, func(i, j int) bool {
		if edits[i].start != edits[j].start {
			return edits[i].start < edits[j].start
		}
		return edits[i].end < edits[j].end
	})
	var out bytes.Buffer
	start := root.Pos()
	if b, ok := root.(*ast.BlockStmt); ok {
		start = b.Lbrace + 1
	}
	out.WriteString(n.lineDir(start))
	pos := from
	for _, e := range edits {
		if e.start < pos || e.end > to {
			continue
		}
		out.Write(src[pos:e.start])
		out.WriteString(e.text)
		pos = e.end
	}
	out.Write(src[pos:to])
	return out.String()
}

// litSub is a function-literal argument that can be substituted into the callee: the literal is
// `func(ps) T { return expr }`, the parameter is only ever called, and always with plain identifiers.
type litSub struct {
	expr   ast.Expr
	params []types.Object
	calls  []*ast.CallExpr
}

func (n *pkgNorm) litSubstitution(c *callee, param types.Object, arg ast.Expr, rename map[types.Object]string) *litSub {
	lit, ok := ast.Unparen(arg).(*ast.FuncLit)
	if !ok || param == nil || len(lit.Body.List) != 1 {
		return nil
	}
	ret, ok := lit.Body.List[0].(*ast.ReturnStmt)
	if !ok || len(ret.Results) != 1 {
		return nil
	}
	ls := &litSub{expr: ret.Results[0]}
	if lit.Type.Params != nil {
		for _, f := range lit.Type.Params.List {
			for _, id := range f.Names {
				ls.params = append(ls.params, n.info.Defs[id])
			}
			if len(f.Names) == 0 {
				return nil
			}
		}
	}
	// every use of the parameter in the callee is a direct call with identifier arguments
	bad := false
	ast.Inspect(c.decl.Body, func(x ast.Node) bool {
		id, ok := x.(*ast.Ident)
		if !ok || n.info.Uses[id] != param {
			return true
		}
		pc, ok := n.parents[id].(*ast.CallExpr)
		if !ok || pc.Fun != ast.Expr(id) || len(pc.Args) != len(ls.params) || pc.Ellipsis.IsValid() {
			bad = true
			return false
		}
		for _, a := range pc.Args {
			if _, isID := a.(*ast.Ident); !isID {
				bad = true
			}
		}
		ls.calls = append(ls.calls, pc)
		return true
	})
	if bad || len(ls.calls) == 0 {
		return nil
	}
	// the expression's free identifiers must not be captured by names the callee declares
	declared := map[string]bool{}
	ast.Inspect(c.decl.Body, func(x ast.Node) bool {
		if id, ok := x.(*ast.Ident); ok && n.info.Defs[id] != nil {
			if _, renamed := rename[n.info.Defs[id]]; !renamed {
				declared[id.Name] = true
			}
		}
		return true
	})
	isLitParam := func(o types.Object) bool {
		for _, p := range ls.params {
			if p == o {
				return true
			}
		}
		return false
	}
	ast.Inspect(ls.expr, func(x ast.Node) bool {
		if _, isLit := x.(*ast.FuncLit); isLit {
			bad = true
			return false
		}
		id, ok := x.(*ast.Ident)
		if !ok {
			return true
		}
		o := n.info.Uses[id]
		if o == nil || isLitParam(o) {
			return true
		}
		if v, isVar := o.(*types.Var); isVar && v.IsField() {
			return true
		}
		if declared[id.Name] {
			bad = true
		}
		return true
	})
	if bad {
		return nil
	}
	return ls
}

// funcSub is the substitution of a function-typed parameter by its argument (see renderBody).
type funcSub struct {
	text       string       // what a call of the parameter calls instead
	nonNil     bool         // the argument is not nil
	callIdents []*ast.Ident // the parameter in call position
	nilTests   []*ast.BinaryExpr
}

// funcArgSubst decides whether the parameter can be replaced by its argument everywhere in the callee: the
// argument is a function literal, a method value on a stable operand, a function name or nil, and the parameter
// is only called or compared with nil. keepBinding says that the parameter must still be bound (nil argument).
func (n *pkgNorm) funcArgSubst(c *callee, param types.Object, arg ast.Expr, rename map[types.Object]string) (*funcSub, bool) {
	if param == nil {
		return nil, false
	}
	if _, ok := param.Type().Underlying().(*types.Signature); !ok {
		return nil, false
	}
	fs := &funcSub{}
	a := ast.Unparen(arg)
	isNil := false
	switch x := a.(type) {
	case *ast.FuncLit:
		fs.nonNil = true
		fs.text = "((" + n.lineDir(x.Pos()) + n.text(x.Pos(), x.End()) + "))"
	case *ast.Ident:
		if x.Name == "nil" {
			if _, isNilObj := n.info.Uses[x].(*types.Nil); isNilObj {
				isNil = true
				break
			}
		}
		if _, isFn := n.info.Uses[x].(*types.Func); !isFn {
			return nil, false
		}
		fs.nonNil = true
		fs.text = n.lineDir(x.Pos()) + x.Name
	case *ast.SelectorExpr:
		sel := n.info.Selections[x]
		if sel == nil || sel.Kind() != types.MethodVal {
			if _, isFn := n.info.Uses[x.Sel].(*types.Func); !isFn {
				return nil, false
			}
		} else if _, isPtr := sel.Recv().Underlying().(*types.Pointer); !isPtr {
			// a method value on an addressable non-pointer operand binds its address: the operand must be a path over identifiers
			ok := true
			ast.Inspect(x.X, func(z ast.Node) bool {
				switch z.(type) {
				case *ast.Ident, *ast.SelectorExpr, *ast.ParenExpr:
				default:
					if z != nil {
						ok = false
					}
				}
				return ok
			})
			if !ok || !sel.Indirect() && !isAddressablePath(x.X) {
				return nil, false
			}
		}
		fs.nonNil = true
		fs.text = n.lineDir(x.Pos()) + n.text(x.Pos(), x.End())
	default:
		return nil, false
	}
	bad := false
	ast.Inspect(c.decl.Body, func(x ast.Node) bool {
		id, ok := x.(*ast.Ident)
		if !ok || n.info.Uses[id] != param {
			return true
		}
		switch p := n.parents[id].(type) {
		case *ast.CallExpr:
			if p.Fun == ast.Expr(id) {
				fs.callIdents = append(fs.callIdents, id)
				return true
			}
		case *ast.BinaryExpr:
			other := p.Y
			if p.Y == ast.Expr(id) {
				other = p.X
			}
			if oid, isID := ast.Unparen(other).(*ast.Ident); isID && (p.Op == token.EQL || p.Op == token.NEQ) {
				if _, isNilObj := n.info.Uses[oid].(*types.Nil); isNilObj {
					fs.nilTests = append(fs.nilTests, p)
					return true
				}
			}
		}
		bad = true
		return false
	})
	if bad {
		return nil, false
	}
	if isNil {
		if len(fs.nilTests) == 0 {
			return nil, false
		}
		fs.callIdents = nil // calls stay (they are behind the now-constant tests); the parameter stays bound to nil
		return fs, true
	}
	if len(fs.callIdents) == 0 && len(fs.nilTests) == 0 {
		return nil, false
	}
	// the argument's identifiers must not be captured by names the callee declares
	declared := map[string]bool{}
	ast.Inspect(c.decl.Body, func(x ast.Node) bool {
		if id, ok := x.(*ast.Ident); ok && n.info.Defs[id] != nil {
			if _, renamed := rename[n.info.Defs[id]]; !renamed {
				declared[id.Name] = true
			}
		}
		return true
	})
	ast.Inspect(a, func(x ast.Node) bool {
		id, ok := x.(*ast.Ident)
		if !ok {
			return true
		}
		o := n.info.Uses[id]
		if o == nil {
			return true
		}
		if v, isVar := o.(*types.Var); isVar && v.IsField() {
			return true
		}
		// identifiers declared inside the literal itself are its own
		if lit, isLit := a.(*ast.FuncLit); isLit && lit.Pos() <= o.Pos() && o.Pos() < lit.End() {
			return true
		}
		if declared[id.Name] {
			bad = true
		}
		return true
	})
	if bad {
		return nil, false
	}
	return fs, false
}

// isAddressablePath: identifiers and field selections only.
func isAddressablePath(e ast.Expr) bool {
	switch x := ast.Unparen(e).(type) {
	case *ast.Ident:
		return true
	case *ast.SelectorExpr:
		return isAddressablePath(x.X)
	}
	return false
}

// spliced copies [from,to) of the current source with the edits applied.
func (n *pkgNorm) spliced(from, to token.Pos, edits []edit) string {
	src := n.src[n.fileOf(from)]
	a, b := n.offset(from), n.offset(to)
	sort.SliceStable(edits, func(i, j int) bool {
		if edits[i].start != edits[j].start {
			return edits[i].start < edits[j].start
		}
		return edits[i].end < edits[j].end
	})
	var out bytes.Buffer
	pos := a
	for _, e := range edits {
		if e.start < pos || e.end > b {
			continue
		}
		out.Write(src[pos:e.start])
		out.WriteString(e.text)
		pos = e.end
	}
	out.Write(src[pos:b])
	return out.String()
}

// returnsOf lists the return statements of a body, literals excluded.
func returnsOf(body ast.Node) []*ast.ReturnStmt {
	var out []*ast.ReturnStmt
	ast.Inspect(body, func(x ast.Node) bool {
		switch y := x.(type) {
		case *ast.FuncLit:
			return false
		case *ast.ReturnStmt:
			out = append(out, y)
		}
		return true
	})
	return out
}

// renderBody returns the callee's body text (without the outer braces) with
// parameters, results and labels renamed, returns rewritten and deferred calls
// moved behind the body.
func (n *pkgNorm) renderBody(c *callee, call *ast.CallExpr, rename map[types.Object]string, temps []string, label, sfx string, litSubst []*litSub, funcSubst []*funcSub) (*renderedBody, string) {
	body := c.decl.Body
	rb := &renderedBody{}
	var edits []edit
	// a function-typed parameter whose argument is a literal, a method value or nil: its calls become calls of
	// the argument (a literal is invoked in place, marked by doubled parentheses, and inlined in the next round),
	// its comparisons with nil become constants
	for _, fs := range funcSubst {
		for _, id := range fs.callIdents {
			edits = append(edits, edit{n.offset(id.Pos()), n.offset(id.End()), fs.text + n.lineDir(id.End())})
		}
		for _, cmp := range fs.nilTests {
			val := "false"
			if (cmp.Op == token.NEQ) == fs.nonNil {
				val = "true"
			}
			edits = append(edits, edit{n.offset(cmp.Pos()), n.offset(cmp.End()), val})
		}
	}
	// calls of a predicate parameter that was given as a one-expression literal become that expression
	for _, ls := range litSubst {
		for _, pc := range ls.calls {
			expr := n.text(ls.expr.Pos(), ls.expr.End())
			if len(ls.params) > 0 {
				// the literal's parameters are replaced by the (identifier) arguments of this call, renamed like the rest of the body
				var les []edit
				ast.Inspect(ls.expr, func(x ast.Node) bool {
					id, ok := x.(*ast.Ident)
					if !ok {
						return true
					}
					for k, po := range ls.params {
						if n.info.Uses[id] == po && k < len(pc.Args) {
							arg := pc.Args[k].(*ast.Ident)
							txt := arg.Name
							if nn, ok := n.renameOf(arg, rename); ok {
								txt = nn
							}
							les = append(les, edit{n.offset(id.Pos()), n.offset(id.End()), txt})
						}
					}
					return true
				})
				expr = n.spliced(ls.expr.Pos(), ls.expr.End(), les)
			}
			edits = append(edits, edit{n.offset(pc.Pos()), n.offset(pc.End()), "(" + n.lineDir(ls.expr.Pos()) + expr + n.lineDir(pc.End()) + ")"})
		}
	}
	returns := returnsOf(body)
	var defers []*ast.DeferStmt
	ast.Inspect(body, func(x ast.Node) bool {
		switch y := x.(type) {
		case *ast.FuncLit:
			return false
		case *ast.DeferStmt:
			defers = append(defers, y)
		}
		return true
	})
	lastIsReturn := false
	if len(body.List) > 0 && len(defers) == 0 {
		if r, ok := body.List[len(body.List)-1].(*ast.ReturnStmt); ok && len(returns) == 1 && returns[0] == r {
			lastIsReturn = true
		}
	}
	for _, r := range returns {
		tail := "break " + label
		if lastIsReturn {
			tail = ""
		} else {
			rb.usesLabel = true
		}
		if len(r.Results) == 0 {
			edits = append(edits, edit{n.offset(r.Pos()), n.offset(r.End()), "{ " + tail + " }"})
			continue
		}
		lhs := strings.Join(temps, ", ")
		first, last := r.Results[0], r.Results[len(r.Results)-1]
		edits = append(edits, edit{n.offset(r.Pos()), n.offset(first.Pos()), "{ " + lhs + " = "})
		edits = append(edits, edit{n.offset(last.End()), n.offset(r.End()), "; " + tail + " }"})
	}
	// ---- `a, b := f()` at the top level of the body re-uses a parameter or named result that is declared in
	// the same scope. After inlining the body sits in a nested block, where the same statement would declare
	// a new variable shadowing the bound one, so the results would never reach the caller: declare the
	// genuinely new variables explicitly and assign.
	for _, st := range body.List {
		as, ok := st.(*ast.AssignStmt)
		if !ok || as.Tok != token.DEFINE {
			continue
		}
		reuses := false
		for _, l := range as.Lhs {
			if id, isID := l.(*ast.Ident); isID && n.info.Defs[id] == nil {
				if _, renamed := rename[n.info.Uses[id]]; renamed {
					reuses = true
				}
			}
		}
		if !reuses {
			continue
		}
		qual, why := n.qualifierAt(call)
		if why != "" {
			return nil, why
		}
		var pre bytes.Buffer
		for _, l := range as.Lhs {
			id, isID := l.(*ast.Ident)
			if !isID || id.Name == "_" {
				continue
			}
			obj := n.info.Defs[id]
			if obj == nil {
				continue
			}
			t := obj.Type()
			if hasUnexportedForeign(t, n.tpkg) {
				return nil, "a redeclaring := introduces a variable of an unnameable type"
			}
			nm := id.Name
			if nn, ok := rename[obj]; ok {
				nm = nn
			}
			fmt.Fprintf(&pre, "var %s %s; _ = %s; ", nm, types.TypeString(t, qual), nm)
		}
		edits = append(edits, edit{n.offset(as.Pos()), n.offset(as.Pos()), pre.String()})
		edits = append(edits, edit{n.offset(as.TokPos), n.offset(as.TokPos) + 2, "="})
	}
	// ---- deferred calls
	var decls, tail bytes.Buffer
	var tails []string
	for k, d := range defers {
		flag := fmt.Sprintf("_d%d%s", k, sfx)
		topLevel := false
		for _, st := range body.List {
			if st == d {
				topLevel = true
			}
		}
		needFlag := !topLevel
		for _, r := range returns {
			if r.Pos() < d.Pos() {
				needFlag = true
			}
		}
		for _, st := range body.List {
			// a goto / labelled jump before the defer makes textual order unreliable
			if ls, ok := st.(*ast.LabeledStmt); ok && ls.Pos() < d.Pos() {
				needFlag = true
			}
		}
		var site bytes.Buffer // replaces the defer statement
		var callText string
		if lit, ok := ast.Unparen(d.Call.Fun).(*ast.FuncLit); ok {
			if len(d.Call.Args) != 0 || (lit.Type.Params != nil && len(lit.Type.Params.List) > 0) || (lit.Type.Results != nil && len(lit.Type.Results.List) > 0) {
				return nil, "deferred literal with parameters"
			}
			if why := n.capturesInScope(c, lit, d); why != "" {
				return nil, why
			}
			dl := fmt.Sprintf("_dl%d%s", k, sfx)
			var le []edit
			lrets := returnsOf(lit.Body)
			for _, r := range lrets {
				le = append(le, edit{n.offset(r.Pos()), n.offset(r.End()), "{ break " + dl + " }"})
			}
			txt := n.renderRange(lit.Body, rename, le)
			if len(lrets) > 0 {
				callText = dl + ": switch { default: " + txt + " }"
			} else {
				callText = "{ " + txt + " }"
			}
		} else {
			// operands are evaluated where the defer statement stands
			var ops []ast.Expr
			var sel *ast.SelectorExpr
			if se, ok := ast.Unparen(d.Call.Fun).(*ast.SelectorExpr); ok {
				if s := n.info.Selections[se]; s != nil && s.Kind() == types.MethodVal {
					sel = se
					ops = append(ops, se.X)
				}
			}
			ops = append(ops, d.Call.Args...)
			direct := true
			for _, op := range ops {
				if why := n.stableOperand(c, op, d); why != "" {
					direct = false
				}
			}
			if direct {
				callText = n.renderRange(d.Call, rename, nil)
			} else {
				qual, why := n.qualifierAt(call)
				if why != "" {
					return nil, why
				}
				var opNames []string
				for i, op := range ops {
					t := n.info.TypeOf(op)
					if t == nil {
						return nil, "deferred operand without type"
					}
					if b, ok := t.(*types.Basic); ok && b.Info()&types.IsUntyped != 0 {
						t = types.Default(t)
					}
					addr := ""
					if i == 0 && sel != nil {
						s := n.info.Selections[sel]
						if len(s.Index()) != 1 {
							return nil, "deferred promoted method"
						}
						_, recvPtr := s.Obj().(*types.Func).Type().(*types.Signature).Recv().Type().(*types.Pointer)
						_, xPtr := t.Underlying().(*types.Pointer)
						if recvPtr && !xPtr {
							addr = "&"
							t = types.NewPointer(t)
						}
					}
					if hasUnexportedForeign(t, n.tpkg) {
						return nil, "deferred operand of an unnameable type"
					}
					name := fmt.Sprintf("_d%dx%d%s", k, i, sfx)
					opNames = append(opNames, name)
					fmt.Fprintf(&decls, "var %s %s; _ = %s; ", name, types.TypeString(t, qual), name)
					fmt.Fprintf(&site, "%s = %s(%s); ", name, addr, n.renderRange(op, rename, nil))
				}
				var ct bytes.Buffer
				ai := 0
				if sel != nil {
					fmt.Fprintf(&ct, "%s%s.%s(", n.lineDir(d.Call.Pos()), opNames[0], sel.Sel.Name)
					ai = 1
				} else {
					ct.WriteString(n.renderRange(d.Call.Fun, rename, nil) + "(")
				}
				for i := ai; i < len(opNames); i++ {
					if i > ai {
						ct.WriteString(", ")
					}
					ct.WriteString(opNames[i])
				}
				if d.Call.Ellipsis.IsValid() {
					ct.WriteString("...")
				}
				ct.WriteString(")")
				callText = ct.String()
			}
		}
		if needFlag {
			fmt.Fprintf(&decls, "var %s bool; _ = %s; ", flag, flag)
			edits = append(edits, edit{n.offset(d.Pos()), n.offset(d.End()), "{ " + site.String() + flag + " = true }"})
			tails = append(tails, "if "+flag+" { "+callText+" }")
		} else {
			edits = append(edits, edit{n.offset(d.Pos()), n.offset(d.End()), "{ " + site.String() + "}"})
			tails = append(tails, callText)
		}
	}
	for i := len(tails) - 1; i >= 0; i-- {
		tail.WriteString("; ")
		tail.WriteString(tails[i])
	}
	if len(defers) > 0 {
		tail.WriteString("; ")
	}
	rb.decls, rb.tail = decls.String(), tail.String()
	rb.body = n.renderRange(body, rename, edits)
	return rb, ""
}

// hasUnexportedForeign reports whether the type mentions an unexported name of another package.
func hasUnexportedForeign(t types.Type, here *types.Package) bool {
	bad := false
	var visit func(t types.Type, depth int)
	visit = func(t types.Type, depth int) {
		if depth > 6 || bad {
			return
		}
		switch x := t.(type) {
		case *types.Named:
			if x.Obj().Pkg() != nil && x.Obj().Pkg() != here && !x.Obj().Exported() {
				bad = true
			}
			if ta := x.TypeArgs(); ta != nil {
				for i := 0; i < ta.Len(); i++ {
					visit(ta.At(i), depth+1)
				}
			}
		case *types.Pointer:
			visit(x.Elem(), depth+1)
		case *types.Slice:
			visit(x.Elem(), depth+1)
		case *types.Array:
			visit(x.Elem(), depth+1)
		case *types.Chan:
			visit(x.Elem(), depth+1)
		case *types.Map:
			visit(x.Key(), depth+1)
			visit(x.Elem(), depth+1)
		case *types.Struct, *types.Signature, *types.Interface, *types.TypeParam:
			if _, isTP := t.(*types.TypeParam); !isTP {
				bad = true // keep it simple: literal composite types are not rendered
			}
		}
	}
	visit(t, 0)
	return bad
}

// qualifierAt returns a types.Qualifier using the import names of the file that holds the call.
func (n *pkgNorm) qualifierAt(call *ast.CallExpr) (types.Qualifier, string) {
	var file *ast.File
	for _, f := range n.files {
		if f.Pos() <= call.Pos() && call.Pos() < f.End() {
			file = f
		}
	}
	if file == nil {
		return nil, "no file for the call"
	}
	names := map[string]string{}
	for _, is := range file.Imports {
		if pn := n.info.PkgNameOf(is); pn != nil {
			names[pn.Imported().Path()] = pn.Name()
		}
	}
	missing := ""
	q := func(p *types.Package) string {
		if p == n.tpkg {
			return ""
		}
		if nm, ok := names[p.Path()]; ok && nm != "_" && nm != "." {
			return nm
		}
		missing = p.Path()
		return p.Name()
	}
	_ = missing
	return q, ""
}

// stableOperand reports ("" if fine) whether a deferred call's operand can be
// evaluated after the body instead of at the defer statement: it is a path over
// variables that are visible at the end of the body and are not assigned after
// the defer statement.
func (n *pkgNorm) stableOperand(c *callee, op ast.Expr, d *ast.DeferStmt) string {
	why := ""
	bodyScope := n.info.Scopes[c.decl.Type]
	ast.Inspect(op, func(x ast.Node) bool {
		if why != "" {
			return false
		}
		switch y := x.(type) {
		case *ast.CallExpr, *ast.FuncLit, *ast.IndexExpr, *ast.SliceExpr, *ast.StarExpr, *ast.TypeAssertExpr:
			why = "operand is not a plain path"
			_ = y
		case *ast.UnaryExpr:
			if y.Op != token.AND {
				why = "operand is not a plain path"
			}
		case *ast.Ident:
			v, ok := n.info.Uses[y].(*types.Var)
			if !ok || v.IsField() {
				return true
			}
			if v.Parent() == n.tpkg.Scope() {
				return true
			}
			if v.Parent() != bodyScope || !n.isParamOrResult(c, v) {
				why = "operand " + y.Name + " is a local of the helper"
				return false
			}
			if n.assignedAfter(c, v, d.Pos()) {
				why = "operand " + y.Name + " is assigned after the defer"
			}
		}
		return true
	})
	return why
}

// capturesInScope checks that a deferred literal only refers to variables that are visible at the end of the body.
func (n *pkgNorm) capturesInScope(c *callee, lit *ast.FuncLit, d *ast.DeferStmt) string {
	why := ""
	bodyScope := n.info.Scopes[c.decl.Type]
	ast.Inspect(lit.Body, func(x ast.Node) bool {
		id, ok := x.(*ast.Ident)
		if !ok || why != "" {
			return why == ""
		}
		v, ok := n.info.Uses[id].(*types.Var)
		if !ok || v.IsField() || v.Parent() == n.tpkg.Scope() || (v.Parent() == bodyScope && n.isParamOrResult(c, v)) {
			return true
		}
		// declared inside the literal itself?
		if lit.Pos() <= v.Pos() && v.Pos() < lit.End() {
			return true
		}
		why = "deferred literal captures a local variable of the helper (" + id.Name + ")"
		return false
	})
	return why
}

func (n *pkgNorm) isParamOrResult(c *callee, v *types.Var) bool {
	if c.decl.Type.Pos() <= v.Pos() && v.Pos() < c.decl.Type.End() {
		return true
	}
	return c.decl.Recv != nil && c.decl.Recv.Pos() <= v.Pos() && v.Pos() < c.decl.Recv.End()
}

// assignedAfter reports whether v is written (or has its address taken) at a position after pos in the callee.
func (n *pkgNorm) assignedAfter(c *callee, v *types.Var, pos token.Pos) bool {
	found := false
	isV := func(e ast.Expr) bool {
		id, ok := ast.Unparen(e).(*ast.Ident)
		return ok && (n.info.Uses[id] == v || n.info.Defs[id] == v)
	}
	ast.Inspect(c.decl.Body, func(x ast.Node) bool {
		if found || x == nil {
			return false
		}
		if x.End() < pos {
			return false
		}
		switch y := x.(type) {
		case *ast.AssignStmt:
			if y.Pos() > pos {
				for _, l := range y.Lhs {
					if isV(l) {
						found = true
					}
				}
			}
		case *ast.IncDecStmt:
			if y.Pos() > pos && isV(y.X) {
				found = true
			}
		case *ast.UnaryExpr:
			if y.Op == token.AND && y.Pos() > pos && isV(y.X) {
				found = true
			}
		case *ast.RangeStmt:
			if y.Pos() > pos && ((y.Key != nil && isV(y.Key)) || (y.Value != nil && isV(y.Value))) {
				found = true
			}
		}
		return true
	})
	return found
}

func (n *pkgNorm) renameOf(id *ast.Ident, rename map[types.Object]string) (string, bool) {
	obj := n.info.Uses[id]
	if obj == nil {
		obj = n.info.Defs[id]
	}
	if obj == nil {
		return "", false
	}
	nn, ok := rename[obj]
	return nn, ok
}

// scopeCompatible checks that every free identifier of the callee declaration
// means the same thing at the call site.
func (n *pkgNorm) scopeCompatible(c *callee, call *ast.CallExpr, caller *ast.FuncDecl) string {
	inner := n.tpkg.Scope().Innermost(call.Pos())
	if inner == nil {
		return "no scope at call site"
	}
	// receiver type parameters must agree by name
	calleeTP := recvTypeParams(c.decl)
	callerTP := recvTypeParams(caller)
	why := ""
	check := func(root ast.Node) {
		if root == nil {
			return
		}
		ast.Inspect(root, func(x ast.Node) bool {
			if why != "" {
				return false
			}
			id, ok := x.(*ast.Ident)
			if !ok {
				return true
			}
			obj := n.info.Uses[id]
			if obj == nil {
				return true
			}
			switch o := obj.(type) {
			case *types.PkgName:
				_, at := inner.LookupParent(id.Name, call.Pos())
				if at == nil {
					// the caller's file does not import the package (and nothing else has that name there): the
					// import is added to that file together with the inlined body
					n.pendingImports = append(n.pendingImports, [2]string{id.Name, o.Imported().Path()})
					return true
				}
				pn, ok := at.(*types.PkgName)
				if !ok || pn.Imported() != o.Imported() {
					why = "import " + id.Name + " differs at the call site"
				}
				return true
			case *types.TypeName:
				if _, isTP := o.Type().(*types.TypeParam); isTP {
					i := indexOf(calleeTP, id.Name)
					if i < 0 || i >= len(callerTP) || callerTP[i] != id.Name {
						why = "type parameter " + id.Name + " differs at the call site"
					}
					return true
				}
			}
			if obj.Parent() == n.tpkg.Scope() || obj.Parent() == types.Universe {
				_, at := inner.LookupParent(id.Name, call.Pos())
				if at != obj {
					why = "identifier " + id.Name + " is shadowed at the call site"
				}
			}
			return true
		})
	}
	if c.decl.Recv != nil {
		check(c.decl.Recv.List[0].Type)
	}
	check(c.decl.Type)
	check(c.decl.Body)
	return why
}

func recvTypeParams(fd *ast.FuncDecl) []string {
	if fd.Recv == nil || len(fd.Recv.List) != 1 {
		return nil
	}
	e := fd.Recv.List[0].Type
	if s, ok := e.(*ast.StarExpr); ok {
		e = s.X
	}
	var out []string
	switch x := e.(type) {
	case *ast.IndexExpr:
		if id, ok := x.Index.(*ast.Ident); ok {
			out = append(out, id.Name)
		}
	case *ast.IndexListExpr:
		for _, i := range x.Indices {
			if id, ok := i.(*ast.Ident); ok {
				out = append(out, id.Name)
			}
		}
	}
	return out
}

func indexOf(l []string, s string) int {
	for i, x := range l {
		if x == s {
			return i
		}
	}
	return -1
}

// wrapFuncValues rewrites uses of inlineable helpers as values (x.helper,
// helper) into function literals that call them: func(p T) R { return x.helper(p) }.
func (n *pkgNorm) wrapFuncValues(cands map[*types.Func]*callee) map[string][]edit {
	edits := map[string][]edit{}
	for _, f := range n.files {
		ast.Inspect(f, func(x ast.Node) bool {
			var id *ast.Ident
			var whole ast.Expr
			switch y := x.(type) {
			case *ast.SelectorExpr:
				id, whole = y.Sel, y
			case *ast.Ident:
				id, whole = y, y
			default:
				return true
			}
			fn, ok := n.info.Uses[id].(*types.Func)
			if !ok {
				return true
			}
			c, ok := cands[fn.Origin()]
			if !ok || c.why != "" {
				return true
			}
			par := n.parents[whole]
			if se, ok := par.(*ast.SelectorExpr); ok && se.Sel == id {
				return true // visited through the selector
			}
			if call, ok := par.(*ast.CallExpr); ok && ast.Unparen(call.Fun) == whole {
				return true // a call, not a value
			}
			if pe, ok := par.(*ast.ParenExpr); ok {
				if call, ok := n.parents[pe].(*ast.CallExpr); ok && call.Fun == pe {
					return true
				}
			}
			if se, ok := whole.(*ast.SelectorExpr); ok {
				s := n.info.Selections[se]
				if s == nil || s.Kind() != types.MethodVal {
					return true
				}
				if _, isPtr := n.info.TypeOf(se.X).(*types.Pointer); !isPtr {
					// a method value on a non-pointer operand copies (or takes the address of) the operand when it is
					// formed; calling later through the variable is not the same program
					n.keep("%s used as a value at %s: operand is not a pointer", strings.Replace(c.key, "\t", ".", 1), n.shortPos(whole.Pos()))
					return true
				}
				rid, ok := ast.Unparen(se.X).(*ast.Ident)
				if !ok {
					n.keep("%s used as a value at %s: receiver is not a plain variable", strings.Replace(c.key, "\t", ".", 1), n.shortPos(whole.Pos()))
					return true
				}
				if v, ok := n.info.Uses[rid].(*types.Var); !ok || n.assignedAnywhere(n.enclosingFuncDecl(whole), v) {
					n.keep("%s used as a value at %s: receiver variable is reassigned", strings.Replace(c.key, "\t", ".", 1), n.shortPos(whole.Pos()))
					return true
				}
			}
			caller := n.enclosingFuncDecl(whole)
			if caller == nil {
				return true
			}
			// the literal mentions the helper's parameter and result types at this place
			if c.decl.Type.TypeParams != nil {
				return true
			}
			why := ""
			inner := n.tpkg.Scope().Innermost(whole.Pos())
			check := func(root ast.Node) {
				if root == nil {
					return
				}
				ast.Inspect(root, func(z ast.Node) bool {
					tid, ok := z.(*ast.Ident)
					if !ok || why != "" {
						return why == ""
					}
					obj := n.info.Uses[tid]
					if obj == nil {
						return true
					}
					_, at := inner.LookupParent(tid.Name, whole.Pos())
					if pn, ok := obj.(*types.PkgName); ok {
						if apn, ok := at.(*types.PkgName); !ok || apn.Imported() != pn.Imported() {
							why = "import differs"
						}
						return true
					}
					if (obj.Parent() == n.tpkg.Scope() || obj.Parent() == types.Universe) && at != obj {
						why = "name shadowed"
					}
					return true
				})
			}
			if c.decl.Type.Params != nil {
				check(c.decl.Type.Params)
			}
			if c.decl.Type.Results != nil {
				check(c.decl.Type.Results)
			}
			if why != "" {
				n.keep("%s used as a value at %s: %s", strings.Replace(c.key, "\t", ".", 1), n.shortPos(whole.Pos()), why)
				return true
			}
			n.counter++
			var params, args []string
			k := 0
			if c.decl.Type.Params != nil {
				for _, p := range c.decl.Type.Params.List {
					pt := n.text(p.Type.Pos(), p.Type.End())
					cnt := len(p.Names)
					if cnt == 0 {
						cnt = 1
					}
					for i := 0; i < cnt; i++ {
						nm := fmt.Sprintf("_a%d_w%d", k, n.counter)
						k++
						params = append(params, nm+" "+pt)
						args = append(args, nm)
					}
				}
			}
			results := ""
			ret := ""
			if c.decl.Type.Results != nil && len(c.decl.Type.Results.List) > 0 {
				var rs []string
				for _, r := range c.decl.Type.Results.List {
					rt := n.text(r.Type.Pos(), r.Type.End())
					cnt := len(r.Names)
					if cnt == 0 {
						cnt = 1
					}
					for i := 0; i < cnt; i++ {
						rs = append(rs, rt)
					}
				}
				results = " (" + strings.Join(rs, ", ") + ")"
				ret = "return "
			}
			txt := fmt.Sprintf("func(%s)%s { %s%s%s(%s) }%s", strings.Join(params, ", "), results, ret, n.lineDir(whole.Pos()), n.text(whole.Pos(), whole.End()), strings.Join(args, ", "), n.lineDir(whole.End()))
			file := n.fileOf(whole.Pos())
			edits[file] = append(edits[file], edit{n.offset(whole.Pos()), n.offset(whole.End()), txt})
			n.rep.Inlined = append(n.rep.Inlined, fmt.Sprintf("%s (used as a value) wrapped in %s", strings.Replace(c.key, "\t", ".", 1), n.enclosingFuncName(whole)))
			return false
		})
	}
	if len(edits) == 0 {
		return nil
	}
	return edits
}

// assignedAnywhere reports whether v is assigned (other than at its declaration) or has its address taken in fd.
func (n *pkgNorm) assignedAnywhere(fd *ast.FuncDecl, v *types.Var) bool {
	if fd == nil {
		return true
	}
	found := false
	isV := func(e ast.Expr) bool {
		id, ok := ast.Unparen(e).(*ast.Ident)
		return ok && n.info.Uses[id] == v
	}
	ast.Inspect(fd, func(x ast.Node) bool {
		switch y := x.(type) {
		case *ast.AssignStmt:
			for _, l := range y.Lhs {
				if isV(l) {
					found = true
				}
			}
		case *ast.IncDecStmt:
			if isV(y.X) {
				found = true
			}
		case *ast.UnaryExpr:
			if y.Op == token.AND && isV(y.X) {
				found = true
			}
		case *ast.RangeStmt:
			if (y.Key != nil && isV(y.Key)) || (y.Value != nil && isV(y.Value)) {
				found = true
			}
		}
		return !found
	})
	return found
}

// removeDead drops unexported helpers outside the inventory that are no longer referenced.
func (n *pkgNorm) removeDead() map[string][]edit {
	refs := map[types.Object]int{}
	for _, obj := range n.info.Uses {
		if f, ok := obj.(*types.Func); ok {
			refs[f.Origin()]++
		}
	}
	ifaceMethods := map[string]bool{}
	for _, tv := range n.info.Types {
		if tv.Type == nil {
			continue
		}
		if it, ok := tv.Type.Underlying().(*types.Interface); ok {
			for i := 0; i < it.NumMethods(); i++ {
				ifaceMethods[it.Method(i).Name()] = true
			}
		}
	}
	edits := map[string][]edit{}
	for _, f := range n.files {
		for _, d := range f.Decls {
			fd, ok := d.(*ast.FuncDecl)
			if !ok || fd.Body == nil || fd.Name.IsExported() {
				continue
			}
			if fd.Recv != nil && ifaceMethods[fd.Name.Name] {
				continue
			}
			key := funcKey(n.pk.PkgPath, fd)
			if n.isKnown(key) || fd.Name.Name == "init" || fd.Name.Name == "main" {
				continue
			}
			obj, _ := n.info.Defs[fd.Name].(*types.Func)
			if obj == nil || refs[obj] > 0 {
				continue
			}
			start, end := fd.Pos(), fd.End()
			if fd.Doc != nil {
				start = fd.Doc.Pos()
			}
			txt := n.text(start, end)
			blank := strings.Repeat("\n", strings.Count(txt, "\n"))
			file := n.fileOf(start)
			edits[file] = append(edits[file], edit{n.offset(start), n.offset(end), blank})
			n.rep.Removed = append(n.rep.Removed, strings.Replace(key, "\t", ".", 1))
		}
	}
	return edits
}

// InInventory reports whether the function (key "Recv.name" or "name") of the
// package belongs to the reviewed function inventory.
func InInventory(pkgPath, name string) bool { return knownFuncs[pkgPath+"\t"+name] }
