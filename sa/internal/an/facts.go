package an

import (
	"go/constant"
	"go/token"
	"go/types"
	"sort"
	"strings"
	"sync"

	"golang.org/x/tools/go/ssa"
)

// Path facts make every Flow analysis sensitive to the correlation between a
// flag (or error) that is set on one path and tested later:
//
//	ok, err := helper()          // after inlining: phi [false, true], phi [nil, e]
//	if err != nil { ... }
//	if !ok { ... }
//
// The engine remembers, per state, what is known about a small set of SSA
// values ("T"rue, "F"alse, "Z" nil, "N" non-nil): phis that merge at least one
// boolean/nil constant, and the values merged by them.  A fact is learnt when
// a path enters the phi's block over a given edge and when a path takes one
// side of a branch on such a value; a branch whose condition is decided by the
// facts is followed on that side only.  A fact is dropped as soon as no test
// of the value can be reached any more, which keeps the state space small.
const factSep = "\x02"

// ErrCtor lets the rule tables tell the engine which calls build errors: fresh
// means the result is never nil, wrapped != nil means the result is nil exactly
// when that argument is.
var ErrCtor func(c *ssa.CallCommon) (fresh bool, wrapped ssa.Value)

// NonNilHook lets the rule tables name further values that are never nil where
// they are computed (ctx.Err() in the select case that received from ctx.Done()).
var NonNilHook func(v ssa.Value) bool

func splitFacts(s string) (core, facts string) {
	i := strings.Index(s, factSep)
	if i < 0 {
		return s, ""
	}
	return s[:i], s[i+1:]
}

func joinFacts(core, facts string) string {
	if facts == "" {
		return core
	}
	return core + factSep + facts
}

type factInfo struct {
	fn      *ssa.Function
	tracked map[ssa.Value]bool
	byName  map[string]ssa.Value
	live    map[ssa.Value]map[*ssa.BasicBlock]bool // blocks at whose entry a fact about v is still useful
	defsIn  map[*ssa.BasicBlock][]ssa.Value        // tracked non-phi values defined in the block
}

func (fx *factInfo) active() bool { return fx != nil && len(fx.tracked) > 0 }

// StableField, if set, tells the engine which struct fields are never written after their object has been
// constructed (configuration options): every load of such a field through the same access path reads the
// same value, so a test of one load decides the later ones.
var StableField func(f *types.Var) bool

// stableLoadName returns a shared name for loads of a stable access path rooted at a parameter or free
// variable ("" if v is not such a load).
func stableLoadName(v ssa.Value) string {
	if StableField == nil {
		return ""
	}
	u, ok := v.(*ssa.UnOp)
	if !ok || u.Op != token.MUL {
		return ""
	}
	if _, isFA := u.X.(*ssa.FieldAddr); !isFA {
		return ""
	}
	p := PathOf(u.X)
	if len(p.Fields) == 0 {
		return ""
	}
	switch p.Root.(type) {
	case *ssa.Parameter, *ssa.FreeVar:
	default:
		return ""
	}
	for _, f := range p.Fields {
		if !StableField(f) {
			return ""
		}
	}
	if !isBoolType(v.Type()) && !nilable(v.Type()) {
		return ""
	}
	return "L:" + p.String()
}

// nameOf is the key of a tracked value in the fact map.
func factName(v ssa.Value) string {
	if n := stableLoadName(v); n != "" {
		return n
	}
	return v.Name()
}

var (
	factMu    sync.Mutex
	factCache = map[*ssa.Function]*factInfo{}
)

func factsFor(fn *ssa.Function) *factInfo {
	factMu.Lock()
	defer factMu.Unlock()
	if fx, ok := factCache[fn]; ok {
		return fx
	}
	fx := buildFacts(fn)
	factCache[fn] = fx
	return fx
}

func isNilConst(v ssa.Value) bool {
	c, ok := v.(*ssa.Const)
	return ok && c.Value == nil && !isBoolType(c.Type())
}

func boolConst(v ssa.Value) (bool, bool) {
	c, ok := v.(*ssa.Const)
	if !ok || c.Value == nil || c.Value.Kind() != constant.Bool {
		return false, false
	}
	return constant.BoolVal(c.Value), true
}

func isBoolType(t types.Type) bool {
	b, ok := t.Underlying().(*types.Basic)
	return ok && b.Info()&types.IsBoolean != 0
}

func nilable(t types.Type) bool {
	switch t.Underlying().(type) {
	case *types.Pointer, *types.Interface, *types.Map, *types.Chan, *types.Slice, *types.Signature:
		return true
	}
	return false
}

// condBase strips negations and comparisons with nil / boolean constants.
func condBase(v ssa.Value) ssa.Value {
	for {
		v = Resolve(v) // a local kept in memory (named result with a defer) with one reaching store
		switch x := v.(type) {
		case *ssa.UnOp:
			if x.Op == token.NOT {
				v = x.X
				continue
			}
		case *ssa.BinOp:
			if x.Op == token.EQL || x.Op == token.NEQ {
				if isNilConst(x.Y) {
					v = x.X
					continue
				}
				if isNilConst(x.X) {
					v = x.Y
					continue
				}
				if _, ok := boolConst(x.Y); ok {
					v = x.X
					continue
				}
				if _, ok := boolConst(x.X); ok {
					v = x.Y
					continue
				}
			}
		}
		return v
	}
}

func buildFacts(fn *ssa.Function) *factInfo {
	fx := &factInfo{fn: fn, tracked: map[ssa.Value]bool{}, byName: map[string]ssa.Value{}, live: map[ssa.Value]map[*ssa.BasicBlock]bool{}, defsIn: map[*ssa.BasicBlock][]ssa.Value{}}
	// phis merging a constant
	var work []*ssa.Phi
	for _, b := range fn.Blocks {
		for _, in := range b.Instrs {
			phi, ok := in.(*ssa.Phi)
			if !ok {
				break
			}
			if !isBoolType(phi.Type()) && !nilable(phi.Type()) {
				continue
			}
			for _, e := range phi.Edges {
				if _, isB := boolConst(e); isB || isNilConst(e) {
					work = append(work, phi)
					break
				}
				// an operand whose nil-ness is known where it is built (a fresh error, a boxed value)
				if nilable(phi.Type()) && fx.valueFact(nil, e) != 0 {
					work = append(work, phi)
					break
				}
			}
		}
	}
	// a merge of such merges carries the same knowledge one step further
	for changed := true; changed; {
		changed = false
		inWork := map[ssa.Value]bool{}
		for _, p := range work {
			inWork[p] = true
		}
		for _, b := range fn.Blocks {
			for _, in := range b.Instrs {
				phi, ok := in.(*ssa.Phi)
				if !ok {
					break
				}
				if inWork[phi] || (!isBoolType(phi.Type()) && !nilable(phi.Type())) {
					continue
				}
				for _, e := range phi.Edges {
					if inWork[e] {
						work = append(work, phi)
						inWork[phi] = true
						changed = true
						break
					}
				}
			}
		}
	}
	// only phis that (transitively) feed a branch condition matter
	feeds := map[ssa.Value]bool{}
	for _, b := range fn.Blocks {
		if len(b.Instrs) == 0 {
			continue
		}
		if br, ok := b.Instrs[len(b.Instrs)-1].(*ssa.If); ok {
			feeds[condBase(br.Cond)] = true
		}
		// what a function returns on a path is of interest to the rules as well
		if ret, ok := b.Instrs[len(b.Instrs)-1].(*ssa.Return); ok {
			for _, r := range ret.Results {
				if _, isPhi := r.(*ssa.Phi); isPhi {
					feeds[r] = true
				}
			}
		}
	}
	// a phi feeding a tested phi is tested too
	for changed := true; changed; {
		changed = false
		for _, b := range fn.Blocks {
			for _, in := range b.Instrs {
				phi, ok := in.(*ssa.Phi)
				if !ok {
					break
				}
				if feeds[phi] {
					for _, e := range phi.Edges {
						if _, isPhi := e.(*ssa.Phi); isPhi && !feeds[e] {
							feeds[e] = true
							changed = true
						}
					}
				}
			}
		}
	}
	for _, phi := range work {
		if !feeds[phi] {
			continue
		}
		fx.tracked[phi] = true
	}
	// loads of stable fields that are tested more than once
	stableUses := map[string][]ssa.Value{}
	for v := range feeds {
		if n := stableLoadName(v); n != "" {
			stableUses[n] = append(stableUses[n], v)
		}
	}
	for _, vs := range stableUses {
		if len(vs) > 1 {
			for _, v := range vs {
				fx.tracked[v] = true
			}
		}
	}
	// phis reached through tracked phis, and the leaves they merge
	for changed := true; changed; {
		changed = false
		for v := range fx.tracked {
			phi, ok := v.(*ssa.Phi)
			if !ok {
				continue
			}
			for _, e := range phi.Edges {
				if _, isC := e.(*ssa.Const); isC {
					continue
				}
				if !fx.tracked[e] && (isBoolType(e.Type()) || nilable(e.Type())) {
					fx.tracked[e] = true
					changed = true
				}
				if call, ok := e.(*ssa.Call); ok && ErrCtor != nil {
					if _, w := ErrCtor(call.Common()); w != nil && !fx.tracked[w] {
						if _, isC := w.(*ssa.Const); !isC {
							fx.tracked[w] = true
							changed = true
						}
					}
				}
			}
		}
	}
	if len(fx.tracked) == 0 {
		return fx
	}
	for v := range fx.tracked {
		fx.byName[factName(v)] = v
		if in, ok := v.(ssa.Instruction); ok {
			if _, isPhi := v.(*ssa.Phi); !isPhi && in.Block() != nil {
				fx.defsIn[in.Block()] = append(fx.defsIn[in.Block()], v)
			}
		}
	}
	// liveness: blocks from which a use (test or merge) of v is reachable
	uses := map[ssa.Value][]*ssa.BasicBlock{}
	for _, b := range fn.Blocks {
		if len(b.Instrs) > 0 {
			if br, ok := b.Instrs[len(b.Instrs)-1].(*ssa.If); ok {
				if base := condBase(br.Cond); fx.tracked[base] {
					uses[base] = append(uses[base], b)
				}
			}
			if ret, ok := b.Instrs[len(b.Instrs)-1].(*ssa.Return); ok {
				for _, r := range ret.Results {
					if fx.tracked[r] {
						uses[r] = append(uses[r], b)
					}
				}
			}
		}
		for _, in := range b.Instrs {
			phi, ok := in.(*ssa.Phi)
			if !ok {
				break
			}
			if !fx.tracked[phi] {
				continue
			}
			for i, e := range phi.Edges {
				if fx.tracked[e] && i < len(b.Preds) {
					uses[e] = append(uses[e], b.Preds[i])
				}
				if call, ok := e.(*ssa.Call); ok && ErrCtor != nil && i < len(b.Preds) {
					if _, w := ErrCtor(call.Common()); w != nil && fx.tracked[w] {
						uses[w] = append(uses[w], b.Preds[i])
					}
				}
			}
		}
	}
	// loads that share a fact name share their uses
	byFactName := map[string][]ssa.Value{}
	for v := range fx.tracked {
		if n := stableLoadName(v); n != "" {
			byFactName[n] = append(byFactName[n], v)
		}
	}
	for _, vs := range byFactName {
		var all []*ssa.BasicBlock
		for _, v := range vs {
			all = append(all, uses[v]...)
		}
		for _, v := range vs {
			uses[v] = all
		}
	}
	for v, blocks := range uses {
		seen := map[*ssa.BasicBlock]bool{}
		stack := append([]*ssa.BasicBlock{}, blocks...)
		for len(stack) > 0 {
			x := stack[len(stack)-1]
			stack = stack[:len(stack)-1]
			if seen[x] {
				continue
			}
			seen[x] = true
			stack = append(stack, x.Preds...)
		}
		fx.live[v] = seen
	}
	return fx
}

func parseFacts(s string) map[string]byte {
	m := map[string]byte{}
	if s == "" {
		return m
	}
	for _, kv := range strings.Split(s, ",") {
		if i := strings.LastIndexByte(kv, '='); i > 0 && i+1 < len(kv) {
			m[kv[:i]] = kv[i+1]
		}
	}
	return m
}

func renderFacts(m map[string]byte) string {
	if len(m) == 0 {
		return ""
	}
	ks := make([]string, 0, len(m))
	for k := range m {
		ks = append(ks, k)
	}
	sort.Strings(ks)
	var sb strings.Builder
	for i, k := range ks {
		if i > 0 {
			sb.WriteByte(',')
		}
		sb.WriteString(k)
		sb.WriteByte('=')
		sb.WriteByte(m[k])
	}
	return sb.String()
}

// valueFact returns what is known about v: 'T','F','Z','N' or 0.
func (fx *factInfo) valueFact(m map[string]byte, v ssa.Value) byte {
	v = Resolve(v)
	if b, ok := boolConst(v); ok {
		if b {
			return 'T'
		}
		return 'F'
	}
	if isNilConst(v) {
		return 'Z'
	}
	switch x := v.(type) {
	case *ssa.MakeInterface, *ssa.Alloc, *ssa.MakeClosure, *ssa.MakeMap, *ssa.MakeChan, *ssa.MakeSlice, *ssa.Function, *ssa.FieldAddr, *ssa.IndexAddr:
		return 'N'
	case *ssa.ChangeInterface:
		return fx.valueFact(m, x.X)
	case *ssa.Call:
		if ErrCtor != nil {
			fresh, wrapped := ErrCtor(x.Common())
			if fresh {
				return 'N'
			}
			if wrapped != nil {
				if f := fx.valueFact(m, wrapped); f == 'N' || f == 'Z' {
					return f
				}
			}
		}
		if NonNilHook != nil && NonNilHook(v) {
			return 'N'
		}
	}
	if fx.tracked[v] {
		return m[factName(v)]
	}
	return 0
}

// eval decides a condition from the facts.
func (fx *factInfo) eval(m map[string]byte, v ssa.Value) (known, val bool) {
	switch x := v.(type) {
	case *ssa.UnOp:
		if x.Op == token.NOT {
			k, b := fx.eval(m, x.X)
			return k, !b
		}
	case *ssa.BinOp:
		if x.Op == token.EQL || x.Op == token.NEQ {
			var other ssa.Value
			if isNilConst(x.Y) {
				other = x.X
			} else if isNilConst(x.X) {
				other = x.Y
			}
			if other != nil {
				switch fx.valueFact(m, other) {
				case 'Z':
					return true, x.Op == token.EQL
				case 'N':
					return true, x.Op == token.NEQ
				}
				return false, false
			}
			if isBoolType(x.X.Type()) {
				a, b := fx.valueFact(m, x.X), fx.valueFact(m, x.Y)
				if (a == 'T' || a == 'F') && (b == 'T' || b == 'F') {
					return true, (a == b) == (x.Op == token.EQL)
				}
			}
			return false, false
		}
	}
	switch fx.valueFact(m, v) {
	case 'T':
		return true, true
	case 'F':
		return true, false
	}
	return false, false
}

// assume refines the facts over one side of a branch; ok=false if that side
// contradicts them.
func (fx *factInfo) assume(facts string, cond ssa.Value, pol bool) (string, bool) {
	m := parseFacts(facts)
	if known, val := fx.eval(m, cond); known {
		return facts, val == pol
	}
	changed := false
	var learn func(v ssa.Value, pol bool)
	learn = func(v ssa.Value, pol bool) {
		switch x := v.(type) {
		case *ssa.UnOp:
			if x.Op == token.NOT {
				learn(x.X, !pol)
				return
			}
		case *ssa.BinOp:
			if x.Op == token.EQL || x.Op == token.NEQ {
				var other ssa.Value
				if isNilConst(x.Y) {
					other = x.X
				} else if isNilConst(x.X) {
					other = x.Y
				}
				if other != nil {
					other = Resolve(other)
					if fx.tracked[other] {
						isNil := pol == (x.Op == token.EQL)
						if isNil {
							m[factName(other)] = 'Z'
						} else {
							m[factName(other)] = 'N'
						}
						changed = true
					}
					return
				}
				if c, ok := boolConst(x.Y); ok && fx.tracked[x.X] {
					val := (c == pol) == (x.Op == token.EQL)
					m[factName(x.X)] = tf(val)
					changed = true
				} else if c, ok := boolConst(x.X); ok && fx.tracked[x.Y] {
					val := (c == pol) == (x.Op == token.EQL)
					m[factName(x.Y)] = tf(val)
					changed = true
				}
				return
			}
		}
		if rv := Resolve(v); fx.tracked[rv] && isBoolType(rv.Type()) {
			m[factName(rv)] = tf(pol)
			changed = true
		}
	}
	learn(cond, pol)
	if !changed {
		return facts, true
	}
	// what was learnt about a merged value holds for the operand it stands for on this path
	for k := range m {
		i := strings.Index(k, "~")
		if i < 0 {
			continue
		}
		if f, ok := m[k[:i]]; ok && f != 'A' {
			if _, known := m[k[i+1:]]; !known {
				m[k[i+1:]] = f
			}
		}
	}
	return renderFacts(m), true
}

func tf(b bool) byte {
	if b {
		return 'T'
	}
	return 'F'
}

// enter carries the facts over the edge from.Succs[si] == succ: phis of succ
// take the fact of the operand of that edge, values (re)defined in succ lose
// theirs, and facts that cannot matter any more are dropped.
func (fx *factInfo) enter(facts string, from *ssa.BasicBlock, si int, succ *ssa.BasicBlock) string {
	m := parseFacts(facts)
	// which predecessor slot of succ is this edge?
	slot := -1
	seen := 0
	for j := 0; j < si; j++ {
		if from.Succs[j] == succ {
			seen++
		}
	}
	for i, p := range succ.Preds {
		if p == from {
			if seen == 0 {
				slot = i
				break
			}
			seen--
		}
	}
	upd := map[string]byte{}
	alias := map[string]string{}
	for _, in := range succ.Instrs {
		phi, ok := in.(*ssa.Phi)
		if !ok {
			break
		}
		if !fx.tracked[phi] {
			continue
		}
		var f byte
		if slot >= 0 && slot < len(phi.Edges) {
			if e := Resolve(phi.Edges[slot]); fx.tracked[e] {
				alias[factName(phi)] = factName(e) // on this way in the merged value IS that operand
			}
			f = fx.valueFact(m, phi.Edges[slot])
			if isBoolType(phi.Type()) && f != 'T' && f != 'F' {
				f = 0
			}
			if !isBoolType(phi.Type()) && f != 'Z' && f != 'N' {
				f = 0
			}
		}
		upd[factName(phi)] = f
	}
	for k, f := range upd {
		// the previous alias of a re-merged value is gone
		for ak := range m {
			if strings.HasPrefix(ak, k+"~") {
				delete(m, ak)
			}
		}
		if f == 0 {
			delete(m, k)
			if a, ok := alias[k]; ok {
				m[k+"~"+a] = 'A'
			}
		} else {
			m[k] = f
		}
	}
	for _, v := range fx.defsIn[succ] {
		if stableLoadName(v) != "" {
			continue // a re-read of a stable field is the same value
		}
		delete(m, factName(v))
	}
	for k := range m {
		base := k
		if i := strings.Index(k, "~"); i >= 0 {
			base = k[:i]
		}
		v := fx.byName[base]
		if v == nil || !fx.live[v][succ] {
			delete(m, k)
		}
	}
	return renderFacts(m)
}

type learntFact struct {
	v   ssa.Value
	val bool
}

// newlyLearnt lists the boolean, non-merged values whose truth became known between two fact sets
// (through an alias with a merged flag), other than the branch condition itself.
func (fx *factInfo) newlyLearnt(before, after string, cond ssa.Value) []learntFact {
	mb, ma := parseFacts(before), parseFacts(after)
	base := condBase(cond)
	var names []string
	for k, f := range ma {
		if strings.Contains(k, "~") || (f != 'T' && f != 'F') {
			continue
		}
		if mb[k] == f {
			continue
		}
		names = append(names, k)
	}
	sort.Strings(names)
	var out []learntFact
	for _, k := range names {
		v := fx.byName[k]
		if v == nil || v == base {
			continue
		}
		if _, isPhi := v.(*ssa.Phi); isPhi {
			continue
		}
		out = append(out, learntFact{v, ma[k] == 'T'})
	}
	return out
}
