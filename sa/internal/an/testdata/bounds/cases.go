// Package boundscases holds small functions on which the guard prover (an/bounds.go) must give a fixed answer:
// the comment on the line of each index / slice expression says whether it may be reported as proved. The
// "unproved" ones are the shapes a wrong proof would hide (wrapping sums, unchecked conversions, stale guards).
package boundscases

import (
	"io"
	"strings"
)

func guardedSlice(data []byte, n int) []byte {
	if n < 0 || len(data) < n {
		return nil
	}
	return data[:n] // proved
}

func unguardedSlice(data []byte, n int) []byte {
	return data[:n] // unproved
}

func onlyUpper(data []byte, n int) []byte {
	if len(data) < n {
		return nil
	}
	return data[:n] // unproved
}

// the classic: n is attacker controlled, off+n wraps
func wrappingSum(buf []byte, off, n uint64) []byte {
	if off+n > uint64(len(buf)) {
		return nil
	}
	return buf[off : off+n] // unproved
}

func wrappingSumInt(buf []byte, off, n int) []byte {
	if off < 0 || n < 0 || off+n > len(buf) {
		return nil
	}
	return buf[off : off+n] // unproved
}

func boundedSum(buf []byte, off, n int) []byte {
	if off < 0 || n < 0 || off > len(buf) || n > len(buf)-off {
		return nil
	}
	return buf[off : off+n] // proved
}

func lengthCompareUint64(rem []byte, length uint64) []byte {
	if length > uint64(len(rem)) {
		return nil
	}
	return rem[:length] // proved
}

func lengthCompareAsInt(rem []byte, length uint64) []byte {
	if int(length) > len(rem) {
		return nil
	}
	return rem[:length] // unproved
}

func lengthIntConversionNegative(rem []byte, length uint64) []byte {
	n := int(length)
	if n > len(rem) {
		return nil
	}
	return rem[:n] // unproved
}

func indexAfterLenCheck(b []byte) byte {
	if len(b) < 4 {
		return 0
	}
	return b[3] // proved
}

func indexOffByOne(b []byte) byte {
	if len(b) < 4 {
		return 0
	}
	return b[4] // unproved
}

func neqZero(b []byte) byte {
	if len(b) == 0 {
		return 0
	}
	return b[0] // proved
}

func loopIndex(b []byte) (s int) {
	for i := 0; i < len(b); i++ {
		s += int(b[i]) // proved
	}
	return s
}

func loopIndexPlusOne(b []byte) (s int) {
	for i := 0; i < len(b); i++ {
		s += int(b[i+1]) // unproved
	}
	return s
}

func indexByte(s string) string {
	i := strings.IndexByte(s, '=')
	if i < 0 {
		return ""
	}
	return s[i+1:] // proved
}

func indexByteUnchecked(s string) string {
	i := strings.IndexByte(s, '=')
	return s[i+2:] // unproved
}

func staleGuard(b []byte, n int) []byte {
	if n < 0 || n > len(b) {
		return nil
	}
	b = b[1:]    // unproved
	return b[:n] // unproved
}

func readInto(r io.Reader, buf []byte) ([]byte, error) {
	m, err := io.ReadFull(r, buf[len(buf):cap(buf)]) // proved
	return buf[:len(buf)+m], err                     // proved
}

func readIntoWrongBase(r io.Reader, buf, other []byte) ([]byte, error) {
	m, err := io.ReadFull(r, other[len(other):cap(other)]) // proved
	return buf[:len(buf)+m], err                           // unproved
}

func twoCounters(buf []byte) []byte {
	i := 0
	for shift := uint(0); shift < 64; shift += 7 {
		if i >= len(buf) {
			return nil
		}
		i++
	}
	return buf[10:] // proved
}

func twoCountersTooFar(buf []byte) []byte {
	i := 0
	for shift := uint(0); shift < 64; shift += 7 {
		if i >= len(buf) {
			return nil
		}
		i++
	}
	return buf[11:] // unproved
}

func maskIndex(tab *[16]byte, x byte) byte {
	return tab[x&15] // proved
}

func maskIndexTooWide(tab *[16]byte, x byte) byte {
	return tab[x&31] // unproved
}

func growOnly(n int) byte {
	buf := make([]byte, 5, 5+n)
	add := func(s string) { buf = append(buf, s...) }
	add("x")
	return buf[4] // proved
}

func shrinks(n int) byte {
	buf := make([]byte, 5, 5+n)
	cut := func() { buf = buf[:0] }
	cut()
	return buf[4] // unproved
}

// n == 0 wraps n-1 to the maximum, which leaves; so 1 <= n <= len(b) below
func subtractionWraps(b []byte, n uint) []byte {
	if n-1 >= uint(len(b)) {
		return nil
	}
	return b[n:] // proved
}

func subtractionSigned(b []byte, n int) []byte {
	if n-1 >= len(b) {
		return nil
	}
	return b[n:] // unproved
}

func uint32Narrowing(b []byte, n uint64) []byte {
	if n > uint64(len(b)) {
		return nil
	}
	return b[:uint32(n)] // proved
}

func uint8Narrowing(b []byte, n uint64) []byte {
	if n > uint64(len(b)) {
		return nil
	}
	m := uint8(n)
	return b[m:n] // proved
}

func uint8NarrowingSwapped(b []byte, n uint64) []byte {
	if n > uint64(len(b)) {
		return nil
	}
	m := uint8(n)
	return b[n:m] // unproved
}

func signedToUnsigned(b []byte, n int) []byte {
	if n > len(b) {
		return nil
	}
	return b[:uint(n)] // unproved
}

func capNotLen(b []byte, n int) byte {
	if n < 0 || n >= cap(b) {
		return 0
	}
	return b[n] // unproved
}

func appendKeepsPrefix(b []byte, x byte) byte {
	if len(b) < 3 {
		return 0
	}
	b = append(b, x)
	return b[2] // proved
}

func phiOfTwoLengths(a, b []byte, pick bool) byte {
	s := a
	if pick {
		s = b
	}
	if len(a) < 2 {
		return 0
	}
	return s[1] // unproved
}

type rd struct{ buf []byte }

func (r *rd) fill() { r.buf = r.buf[:0] }

func fieldReloadedAfterCall(r *rd) byte {
	if len(r.buf) < 4 {
		return 0
	}
	r.fill()
	return r.buf[3] // unproved
}

func capturedChangedBetween(n int) byte {
	buf := make([]byte, 8)
	cut := func() { buf = buf[:1] }
	if len(buf) < 4 {
		return 0
	}
	cut()
	return buf[3] // unproved
}

func exact(r io.Reader, n uint64) ([]byte, error) {
	if n > 1<<20 {
		return nil, io.ErrShortBuffer
	}
	buf := make([]byte, n)
	_, err := io.ReadFull(r, buf)
	if err != nil {
		return nil, err
	}
	return buf, nil
}

func usesExactChecked(r io.Reader) uint32 {
	tmp, err := exact(r, 5)
	if err != nil {
		return 0
	}
	return uint32(tmp[4]) // proved
}

func usesExactUnchecked(r io.Reader) uint32 {
	tmp, _ := exact(r, 5)
	return uint32(tmp[4]) // unproved
}

func usesExactTooFar(r io.Reader) uint32 {
	tmp, err := exact(r, 5)
	if err != nil {
		return 0
	}
	return uint32(tmp[5]) // unproved
}

func countersNoHeaderBound(buf []byte, stop func() bool) []byte {
	i := 0
	for shift := uint(0); !stop(); shift += 7 {
		if i >= len(buf) {
			return nil
		}
		i++
		_ = shift
	}
	return buf[10:] // unproved
}

func consumeLoop(s string) int {
	n := 0
	for len(s) >= 3 {
		n += int(s[2]) // proved
		s = s[3:]      // proved
	}
	return n
}

func minBuiltin(b []byte, n int) []byte {
	if n < 0 {
		return nil
	}
	return b[:min(n, len(b))] // proved
}

func maxBuiltin(b []byte, n int) []byte {
	if n < 0 {
		return nil
	}
	return b[:max(n, len(b))] // unproved
}
