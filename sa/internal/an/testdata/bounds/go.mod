module boundscases

go 1.21
