package an

import (
	"bytes"
	"fmt"
	"go/ast"
	"go/printer"
	"go/token"
	"go/types"
	"golang.org/x/tools/go/packages"
	"os"
	"os/exec"
	"path/filepath"
	"regexp"
	"sort"
	"strconv"
	"strings"

	"golang.org/x/tools/go/ssa"
	"golang.org/x/tools/go/types/typeutil"
)

// ---------------------------------------------------------------------------
// BCE: the compiler's own list of bounds checks it could not eliminate

// BCESite is one unproved bounds check reported by the compiler.
type BCESite struct {
	File string // module-relative
	Line int
	Col  int
	Kind string    // IsInBounds | IsSliceInBounds
	Func string    // enclosing function (resolved from the syntax tree)
	Expr string    // the indexed / sliced expression, printed from the syntax tree
	Pos  token.Pos // position of the '[' (matches the SSA instruction's position); NoPos if unknown
	// InlinedFrom is set when the compiler reports the check at a call of a function of this module that it inlined:
	// the same check is reported at its own position in that function's body, where it is decided.
	InlinedFrom string
}

var asmPanicRe = regexp.MustCompile(`\(([^()]*\.go):(\d+)\)\s+CALL\s+runtime\.(panicBounds|panicIndex\w*|panicSlice\w*)\(SB\)`)

var bceRe = regexp.MustCompile(`^(.*\.go):(\d+):(\d+): Found (IsInBounds|IsSliceInBounds)`)

// RunBCE compiles the given packages with the prove pass's bounds-check
// debug output enabled and returns the residual sites. The go command caches
// and replays compiler output, so repeated runs are cheap.
func (p *Prog) RunBCE(pkgs []string) ([]BCESite, error) {
	// -S: the assembly listing shows the bounds-failure calls the compiler kept. A check the prove pass decided
	// ALWAYS fails is turned into an unconditional panic call and is no longer reported as "Found IsInBounds", so the
	// report alone would miss an index that is out of range on every execution of its branch.
	args := []string{"build", "-gcflags=" + p.ModPath + "/...=-d=ssa/check_bce/debug=1 -S"}
	if p.Cfg.Tags != "" {
		args = append(args, "-tags="+p.Cfg.Tags)
	}
	for _, pk := range pkgs {
		args = append(args, "./"+pk)
	}
	cmd := exec.Command("go", args...)
	cmd.Dir = p.Cfg.Dir
	cmd.Env = GoEnv(p.Cfg.GOOS, p.Cfg.GOARCH)
	var out bytes.Buffer
	cmd.Stdout, cmd.Stderr = &out, &out
	err := cmd.Run()
	if d := os.Getenv("SA_BCE_DUMP"); d != "" {
		_ = os.WriteFile(fmt.Sprintf("%s.%s.%s.%s", d, p.Cfg.GOOS, p.Cfg.GOARCH, p.Cfg.Tags), []byte(strings.Join(args, " ")+"\n"+out.String()), 0o644)
	}
	var sites []BCESite
	for _, line := range strings.Split(out.String(), "\n") {
		m := bceRe.FindStringSubmatch(strings.TrimSpace(line))
		if m == nil {
			continue
		}
		ln, _ := strconv.Atoi(m[2])
		col, _ := strconv.Atoi(m[3])
		s := BCESite{File: m[1], Line: ln, Col: col, Kind: m[4]}
		p.locateBCE(&s)
		sites = append(sites, s)
	}
	reported := map[string]bool{}
	for _, st := range sites {
		reported[fmt.Sprintf("%s:%d", st.File, st.Line)] = true
	}
	kept := map[string]bool{}
	for _, line := range strings.Split(out.String(), "\n") {
		m := asmPanicRe.FindStringSubmatch(line)
		if m == nil {
			continue
		}
		file := strings.TrimPrefix(m[1], "./")
		if i := strings.Index(file, p.Cfg.Dir+"/"); i >= 0 {
			file = file[i+len(p.Cfg.Dir)+1:]
		} else if abs, e := filepath.EvalSymlinks(p.Cfg.Dir); e == nil && strings.HasPrefix(file, abs+"/") {
			file = file[len(abs)+1:]
		}
		if strings.HasPrefix(file, "/") || strings.HasPrefix(file, "$GOROOT") {
			continue // inlined library code outside the module
		}
		ln, _ := strconv.Atoi(m[2])
		key := fmt.Sprintf("%s:%d", file, ln)
		if reported[key] || kept[key] {
			continue
		}
		kept[key] = true
		st := BCESite{File: file, Line: ln, Kind: "bounds failure the compiler kept without reporting it (proved to fail on every execution of its branch)"}
		p.locateBCE(&st)
		sites = append(sites, st)
	}
	if err != nil && len(sites) == 0 {
		return nil, fmt.Errorf("go build for BCE failed: %v: %s", err, trimTo(out.String(), 500))
	}
	if err != nil {
		// build errors other than diagnostics
		for _, line := range strings.Split(out.String(), "\n") {
			t := strings.TrimSpace(line)
			if t == "" || strings.HasPrefix(t, "#") || bceRe.MatchString(t) {
				continue
			}
			return nil, fmt.Errorf("go build for BCE failed: %s", trimTo(out.String(), 500))
		}
	}
	return sites, nil
}

func trimTo(s string, n int) string {
	if len(s) > n {
		return s[:n]
	}
	return s
}

// locateBCE resolves the enclosing function and the expression of a site.
func (p *Prog) locateBCE(s *BCESite) {
	for _, pk := range p.Pkgs {
		if !p.InModule(pk.PkgPath) {
			continue
		}
		for _, f := range pk.Syntax {
			pos := p.Fset.Position(f.Pos())
			rel := p.Pos(f.Pos())
			rel = rel[:strings.LastIndex(rel, ":")]
			if rel != s.File {
				continue
			}
			_ = pos
			// positions are compared after //line adjustment (normalised sources carry the
			// original positions of inlined helpers), so containers cannot be pruned by line range
			var best ast.Node
			var fn, bestFn string
			var stack []ast.Node
			ast.Inspect(f, func(n ast.Node) bool {
				if n == nil {
					top := stack[len(stack)-1]
					stack = stack[:len(stack)-1]
					if _, ok := top.(*ast.FuncDecl); ok {
						fn = ""
					}
					return true
				}
				stack = append(stack, n)
				switch x := n.(type) {
				case *ast.FuncDecl:
					fn = canonDeclName(pk, x)
				case *ast.IndexExpr, *ast.SliceExpr:
					// the compiler reports the position of the '[' or of the index operand
					lb := lbrackPos(p.Fset, x)
					if lb.Filename == pos.Filename && lb.Line == s.Line && (best == nil || absInt(lb.Column-s.Col) < absInt(lbrackPos(p.Fset, best).Column-s.Col)) {
						best, bestFn = x, fn
					}
				}
				return true
			})
			if best == nil {
				// inlined library code: report the innermost call expression spanning the column
				fn = ""
				ast.Inspect(f, func(n ast.Node) bool {
					if fd, ok := n.(*ast.FuncDecl); ok {
						fn = canonDeclName(pk, fd)
					}
					if call, ok := n.(*ast.CallExpr); ok {
						a, b := p.Fset.Position(call.Pos()), p.Fset.Position(call.End())
						if a.Filename == pos.Filename && a.Line == s.Line && b.Line == s.Line && a.Column <= s.Col && s.Col <= b.Column {
							best, bestFn = call, fn
							s.InlinedFrom = ""
							if callee, _ := typeutil.Callee(pk.TypesInfo, call).(*types.Func); callee != nil && callee.Pkg() != nil && p.InModule(callee.Pkg().Path()) {
								s.InlinedFrom = callee.FullName()
							} else if callee != nil && callee.Pkg() != nil && isStdScalarFunc(callee) {
								// e.g. math/bits.Len64 on 32-bit targets, where it is not an intrinsic: the table lookup of its
								// body is reported at the call. Its operands are scalars, so the check cannot depend on the length
								// of any of this repository's data; totality of the standard library is in the trusted base.
								s.InlinedFrom = callee.FullName() + " (standard library, scalar operands only)"
							}
						}
					}
					return true
				})
			}
			if best == nil && p.Norm != nil {
				// a call that the source normaliser replaced by its callee's body: the compiler, which sees the
				// original source, inlined the same callee and repeats the callee's checks at the call
				for _, site := range p.Norm.Sites {
					if site.File != pos.Filename {
						continue
					}
					after := s.Line > site.Line || (s.Line == site.Line && s.Col >= site.Col)
					before := s.Line < site.EndLine || (s.Line == site.EndLine && s.Col <= site.EndCol)
					if after && before {
						s.InlinedFrom = site.Callee
					}
				}
			}
			if best == nil {
				// nothing on that line: name the function by plain containment
				ast.Inspect(f, func(n ast.Node) bool {
					if fd, ok := n.(*ast.FuncDecl); ok {
						a, b := p.Fset.Position(fd.Pos()), p.Fset.Position(fd.End())
						if a.Line <= s.Line && s.Line <= b.Line {
							bestFn = canonDeclName(pk, fd)
						}
						return false
					}
					return true
				})
			}
			s.Func = bestFn
			if best != nil {
				switch x := best.(type) {
				case *ast.IndexExpr:
					s.Pos = x.Lbrack
				case *ast.SliceExpr:
					s.Pos = x.Lbrack
				}
				s.Expr = normalisedExpr(p.Fset, pk.TypesInfo, best)
			}
			return
		}
	}
}

// isStdScalarFunc: a standard-library function all of whose parameters (and receiver, if any) are numeric or boolean.
func isStdScalarFunc(f *types.Func) bool {
	first := strings.SplitN(f.Pkg().Path(), "/", 2)[0]
	if strings.Contains(first, ".") {
		return false
	}
	sig, ok := f.Type().(*types.Signature)
	if !ok || sig.Recv() != nil || sig.Variadic() {
		return false
	}
	for i := 0; i < sig.Params().Len(); i++ {
		b, ok := sig.Params().At(i).Type().Underlying().(*types.Basic)
		if !ok || b.Info()&(types.IsNumeric|types.IsBoolean) == 0 {
			return false
		}
	}
	return true
}

func absInt(x int) int {
	if x < 0 {
		return -x
	}
	return x
}

func lbrackPos(fset *token.FileSet, n ast.Node) token.Position {
	switch x := n.(type) {
	case *ast.IndexExpr:
		return fset.Position(x.Lbrack)
	case *ast.SliceExpr:
		return fset.Position(x.Lbrack)
	}
	return fset.Position(n.Pos())
}

// canonDeclName is funcDeclName with a renamed function reported under its inventory name.
func canonDeclName(pk *packages.Package, d *ast.FuncDecl) string {
	s := funcDeclName(d)
	if pk != nil && pk.TypesInfo != nil {
		if f, ok := pk.TypesInfo.Defs[d.Name].(*types.Func); ok {
			if old := CanonName(f); old != d.Name.Name && strings.HasSuffix(s, d.Name.Name) {
				s = s[:len(s)-len(d.Name.Name)] + old
			}
		}
	}
	return s
}

func funcDeclName(d *ast.FuncDecl) string {
	if d.Recv == nil || len(d.Recv.List) == 0 {
		return d.Name.Name
	}
	t := d.Recv.List[0].Type
	star := ""
	if s, ok := t.(*ast.StarExpr); ok {
		t = s.X
		star = "*"
	}
	if ix, ok := t.(*ast.IndexExpr); ok {
		t = ix.X
	}
	if ix, ok := t.(*ast.IndexListExpr); ok {
		t = ix.X
	}
	name := "?"
	if id, ok := t.(*ast.Ident); ok {
		name = id.Name
	}
	if star != "" {
		return "(*" + name + ")." + d.Name.Name
	}
	return "(" + name + ")." + d.Name.Name
}

// ---------------------------------------------------------------------------
// PAN: panic sites other than bounds checks

// PanicSite is an instruction that can panic for some input.
type PanicSite struct {
	Kind   string // panic | assert | div | makeslice | call:<callee>
	Instr  ssa.Instruction
	Detail string
}

// partial library functions and the argument index that must be non-negative
var partialNonNeg = map[string]int{
	"(*strings.Builder).Grow": 1,
	"strings.Repeat":          1,
	"(*bytes.Buffer).Grow":    1,
}

// reflect.Value methods that panic on the zero Value / wrong kind
var reflectPartial = map[string]bool{
	"MethodByName": true, "Type": true, "Call": true, "Elem": true, "IsNil": true, "Interface": true,
	"Index": true, "Field": true, "NumIn": true, "NumOut": true, "String": false,
}

// PanicSites lists the potential non-bounds panic sites of fn.
func PanicSites(fn *ssa.Function) []PanicSite {
	var out []PanicSite
	Instrs(fn, func(in ssa.Instruction) {
		switch x := in.(type) {
		case *ssa.Panic:
			// the implicit panic of a blocking select with no matching case is unreachable
			if mi, ok := x.X.(*ssa.MakeInterface); ok {
				if c, ok := mi.X.(*ssa.Const); ok && c.Value != nil && strings.Contains(c.Value.String(), "blocking select matched no case") {
					return
				}
			}
			out = append(out, PanicSite{"panic", in, "explicit panic(" + Render(x.X, 3) + ")"})
		case *ssa.TypeAssert:
			if !x.CommaOk {
				out = append(out, PanicSite{"assert", in, "type assertion without comma-ok: " + Render(x, 3)})
			}
		case *ssa.BinOp:
			if x.Op == token.QUO || x.Op == token.REM {
				if bt, ok := x.X.Type().Underlying().(*types.Basic); ok && bt.Info()&types.IsInteger != 0 {
					if k, isC := ConstInt(x.Y); !isC || k == 0 {
						out = append(out, PanicSite{"div", in, "integer division by a non-constant: " + Render(x, 3)})
					}
				}
			}
		case *ssa.MakeSlice:
			if _, isC := ConstInt(x.Len); !isC {
				out = append(out, PanicSite{"makeslice", in, "make with a computed length: " + Render(x.Len, 3)})
			}
		case ssa.CallInstruction:
			cc := x.Common()
			obj := CalleeObj(cc)
			if obj == nil {
				return
			}
			full := obj.FullName()
			if idx, ok := partialNonNeg[full]; ok {
				if idx < len(cc.Args) {
					if k, isC := ConstInt(cc.Args[idx]); !isC || k < 0 {
						out = append(out, PanicSite{"call:" + full, in, full + " panics on a negative count: " + Render(cc.Args[idx], 4)})
					}
				}
			}
			if obj.Pkg() != nil && obj.Pkg().Path() == "reflect" && !cc.IsInvoke() && len(cc.Args) > 0 {
				if sig, ok := obj.Type().(*types.Signature); ok && sig.Recv() != nil && reflectPartial[obj.Name()] {
					out = append(out, PanicSite{"call:" + full, in, full + " panics on the zero Value / wrong kind: receiver " + Render(cc.Args[0], 3)})
				}
			}
		}
	})
	return out
}

// ---------------------------------------------------------------------------
// LOOP: natural loops and their classification

// Loop is a natural loop (header + back edges).
type Loop struct {
	Header *ssa.BasicBlock
	Blocks map[*ssa.BasicBlock]bool
	Class  string // counted | shrinking | consuming | wait | unknown
	Detail string
}

// Loops finds and classifies the natural loops of fn.
func Loops(fn *ssa.Function) []*Loop {
	var loops []*Loop
	byHeader := map[*ssa.BasicBlock]*Loop{}
	for _, b := range fn.Blocks {
		for _, s := range b.Succs {
			if s.Dominates(b) { // back edge b -> s
				l := byHeader[s]
				if l == nil {
					l = &Loop{Header: s, Blocks: map[*ssa.BasicBlock]bool{s: true}}
					byHeader[s] = l
					loops = append(loops, l)
				}
				// collect the loop body
				stack := []*ssa.BasicBlock{b}
				for len(stack) > 0 {
					x := stack[len(stack)-1]
					stack = stack[:len(stack)-1]
					if l.Blocks[x] {
						continue
					}
					l.Blocks[x] = true
					stack = append(stack, x.Preds...)
				}
			}
		}
	}
	sort.Slice(loops, func(i, j int) bool { return loops[i].Header.Index < loops[j].Header.Index })
	for _, l := range loops {
		classifyLoop(l)
	}
	return loops
}

func classifyLoop(l *Loop) {
	l.Class = "unknown"
	// exit tests: Ifs inside the loop with a successor outside
	for b := range l.Blocks {
		if len(b.Instrs) == 0 {
			continue
		}
		br, ok := b.Instrs[len(b.Instrs)-1].(*ssa.If)
		if !ok {
			continue
		}
		exits := !l.Blocks[b.Succs[0]] || !l.Blocks[b.Succs[1]]
		if !exits {
			continue
		}
		bin, ok := br.Cond.(*ssa.BinOp)
		if !ok {
			continue
		}
		// counted: phi compared with a constant, phi = [c0, phi + step]
		for _, side := range []ssa.Value{bin.X, bin.Y} {
			phi, ok := side.(*ssa.Phi)
			if !ok {
				// range-over-slice shape: (phi + 1) < len
				if inc, isInc := side.(*ssa.BinOp); isInc && inc.Op == token.ADD {
					if p2, isPhi := inc.X.(*ssa.Phi); isPhi && l.Blocks[p2.Block()] {
						if st, isC := ConstInt(inc.Y); isC && st > 0 && side == bin.X && (bin.Op == token.LSS || bin.Op == token.LEQ) {
							other := bin.Y
							_, isK := ConstInt(other)
							feeds := false
							for _, e := range p2.Edges {
								if e == ssa.Value(inc) {
									feeds = true
								}
							}
							if feeds && (isK || isLenOf(other)) {
								l.Class = "len-bounded"
								l.Detail = "range index advances by a positive constant while below " + Render(other, 3)
								return
							}
						}
					}
				}
				continue
			}
			if !l.Blocks[phi.Block()] {
				continue
			}
			other := bin.Y
			if side == bin.Y {
				other = bin.X
			}
			bound, isC := ConstInt(other)
			if !isC {
				// bounded by the length of a slice/string: i < len(x)
				if isLenOf(other) && (bin.Op == token.LSS || bin.Op == token.LEQ) && side == bin.X {
					okInit, okStep := false, false
					for _, e := range phi.Edges {
						if _, c := ConstInt(e); c {
							okInit = true
						}
						if b2, isB := e.(*ssa.BinOp); isB && b2.Op == token.ADD && (b2.X == ssa.Value(phi) || derivesFromPhi(b2.X, phi)) {
							if s, c := ConstInt(b2.Y); c && s > 0 {
								okStep = true
							}
						}
					}
					if okInit && okStep {
						l.Class = "len-bounded"
						l.Detail = "index advances by a positive constant while below " + Render(other, 3)
						return
					}
				}
				continue
			}
			var init, step int64
			okInit, okStep, okShrink := false, false, false
			for _, e := range phi.Edges {
				if k, c := ConstInt(e); c {
					init, okInit = k, true
					continue
				}
				if b2, isB := e.(*ssa.BinOp); isB && b2.X == ssa.Value(phi) {
					if s, c := ConstInt(b2.Y); c && s > 0 {
						switch b2.Op {
						case token.ADD:
							step, okStep = s, true
						case token.SHR, token.QUO:
							okShrink = true
							step = s
						}
					}
				}
			}
			if okInit && okStep && (bin.Op == token.LSS || bin.Op == token.LEQ) {
				trips := (bound - init + step - 1) / step
				l.Class = "counted"
				l.Detail = fmt.Sprintf("induction variable from %d step %d while %s %d: at most %d iterations", init, step, bin.Op, bound, trips)
				return
			}
			// counting down: phi = [c0, phi - step] while phi > / >= bound (phi on the left), or bound < phi
			okDown := false
			var down int64
			for _, e := range phi.Edges {
				if b2, isB := e.(*ssa.BinOp); isB && b2.X == ssa.Value(phi) && b2.Op == token.SUB {
					if s, c := ConstInt(b2.Y); c && s > 0 {
						okDown, down = true, s
					}
				}
			}
			downOp := (side == bin.X && (bin.Op == token.GTR || bin.Op == token.GEQ)) || (side == bin.Y && (bin.Op == token.LSS || bin.Op == token.LEQ))
			if okInit && okDown && downOp {
				trips := (init - bound + down) / down
				if trips < 0 {
					trips = 0
				}
				l.Class = "counted"
				l.Detail = fmt.Sprintf("induction variable from %d step -%d while above %d: at most %d iterations", init, down, bound, trips)
				return
			}
			if okShrink && (bin.Op == token.GEQ || bin.Op == token.GTR) {
				l.Class = "shrinking"
				l.Detail = fmt.Sprintf("value shrinks by >>/÷ %d per iteration while %s %d", step, bin.Op, bound)
				return
			}
		}
	}
	// consuming: a string/slice carried around the loop is cut from the front on every way round, by at least
	// a positive constant on each (x[i:] alone may cut nothing; x[i:][3:] cuts at least 3). Its length is a
	// non-negative integer that strictly decreases, so the loop ends (a cut beyond the end panics: that is the
	// bounds obligation of the slice expression, not this one).
	for _, in := range l.Header.Instrs {
		phi, ok := in.(*ssa.Phi)
		if !ok {
			break
		}
		switch phi.Type().Underlying().(type) {
		case *types.Slice, *types.Basic:
		default:
			continue
		}
		if b, isB := phi.Type().Underlying().(*types.Basic); isB && b.Info()&types.IsString == 0 {
			continue
		}
		all, n := true, 0
		for i, e := range phi.Edges {
			if i >= len(l.Header.Preds) || !l.Blocks[l.Header.Preds[i]] {
				continue // entry edge
			}
			n++
			if cut, ok := frontCut(e, phi, 0); !ok || cut < 1 {
				all = false
			}
		}
		if all && n > 0 {
			l.Class = "consuming"
			l.Detail = "the " + phi.Comment + " carried around the loop loses at least one leading element per iteration"
			return
		}
	}
	// reading: every way round the loop performs a full read (io.ReadFull / io.ReadAtLeast, which report an error
	// whenever they deliver less than asked for) and the loop is left when that read fails, while its condition
	// compares what has been read so far with a bound. It ends when the reader runs dry or the bound is reached.
	if readingLoop(l) {
		l.Class = "reading"
		l.Detail = "every iteration performs a full read whose error leaves the loop; the loop condition bounds what is still to be read"
		return
	}
	// range over map/string: exits when the iterator is exhausted
	for b := range l.Blocks {
		for _, in := range b.Instrs {
			if _, ok := in.(*ssa.Next); ok {
				l.Class = "range"
				l.Detail = "range loop over a map/string iterator"
				return
			}
		}
	}
	// wait loops: contain a call to sync.Cond.Wait
	for b := range l.Blocks {
		for _, in := range b.Instrs {
			if ci, ok := in.(ssa.CallInstruction); ok {
				if obj := CalleeObj(ci.Common()); obj != nil && obj.FullName() == "(*sync.Cond).Wait" {
					l.Class = "wait"
					l.Detail = "condition-variable wait loop"
					return
				}
			}
		}
	}
}

func readingLoop(l *Loop) bool {
	// the read
	var read *ssa.Call
	for b := range l.Blocks {
		for _, in := range b.Instrs {
			call, ok := in.(*ssa.Call)
			if !ok {
				continue
			}
			if callee := call.Call.StaticCallee(); callee != nil && callee.Object() != nil {
				switch callee.Object().(*types.Func).FullName() {
				case "io.ReadFull", "io.ReadAtLeast":
					if read != nil {
						return false
					}
					read = call
				}
			}
		}
	}
	if read == nil {
		return false
	}
	// every back edge is dominated by the read and by the nil side of a test of its error
	var errv ssa.Value
	for _, r := range *read.Referrers() {
		if ex, ok := r.(*ssa.Extract); ok && ex.Index == 1 {
			errv = ex
		}
	}
	if errv == nil {
		return false
	}
	for i, p := range l.Header.Preds {
		_ = i
		if !l.Blocks[p] {
			continue
		}
		if !read.Block().Dominates(p) {
			return false
		}
		okErr := false
		for _, g := range GuardsOfEdge(p, l.Header) {
			b, isB := g.Cond.(*ssa.BinOp)
			if !isB || (b.Op != token.EQL && b.Op != token.NEQ) {
				continue
			}
			var other ssa.Value
			if isNilConst(b.Y) {
				other = b.X
			} else if isNilConst(b.X) {
				other = b.Y
			}
			if other == nil {
				continue
			}
			// the error itself or a merge that replaces some non-nil values of it by other non-nil values
			if other == errv || derivesFromErr(other, errv, 0) {
				if (b.Op == token.EQL) == g.True {
					okErr = true
				}
			}
		}
		if !okErr {
			return false
		}
	}
	// the loop condition: len(<header phi>) compared with something
	br, ok := l.Header.Instrs[len(l.Header.Instrs)-1].(*ssa.If)
	if !ok {
		return false
	}
	bin, ok := br.Cond.(*ssa.BinOp)
	if !ok {
		return false
	}
	hasLen := false
	for _, side := range []ssa.Value{bin.X, bin.Y} {
		v := side
		if cv, isCv := v.(*ssa.Convert); isCv {
			v = cv.X
		}
		if isLenOf(v) {
			hasLen = true
		}
	}
	return hasLen && (!l.Blocks[l.Header.Succs[0]] || !l.Blocks[l.Header.Succs[1]])
}

// derivesFromErr: v is errv or a phi all of whose operands are errv or a non-nil constant error (an error
// translated into another error).
func derivesFromErr(v, errv ssa.Value, depth int) bool {
	if v == errv {
		return true
	}
	phi, ok := v.(*ssa.Phi)
	if !ok || depth > 3 {
		return false
	}
	for _, e := range phi.Edges {
		if e == errv || derivesFromErr(e, errv, depth+1) {
			continue
		}
		if u, isU := e.(*ssa.UnOp); isU && u.Op == token.MUL {
			if _, isG := u.X.(*ssa.Global); isG {
				continue // a package-level error value (io.ErrUnexpectedEOF)
			}
		}
		return false
	}
	return true
}

// frontCut: v is obtained from phi by slicing off the front only (no upper bound, so it never gets longer); the
// result is the least number of elements certainly removed (the sum of the constant lower bounds on the way).
func frontCut(v ssa.Value, phi *ssa.Phi, depth int) (int64, bool) {
	if depth > 6 {
		return 0, false
	}
	if v == ssa.Value(phi) {
		return 0, true
	}
	switch x := v.(type) {
	case *ssa.Slice:
		if x.High != nil || x.Max != nil {
			return 0, false
		}
		k := int64(0)
		if x.Low != nil {
			if c, isC := ConstInt(x.Low); isC && c > 0 {
				k = c
			}
		}
		rest, ok := frontCut(x.X, phi, depth+1)
		return rest + k, ok
	case *ssa.Phi:
		min, any := int64(0), false
		for _, e := range x.Edges {
			c, ok := frontCut(e, phi, depth+1)
			if !ok {
				return 0, false
			}
			if !any || c < min {
				min, any = c, true
			}
		}
		return min, any
	}
	return 0, false
}

func isLenOf(v ssa.Value) bool {
	for {
		switch x := v.(type) {
		case *ssa.Convert:
			v = x.X
			continue
		case *ssa.Call:
			if b, ok := x.Common().Value.(*ssa.Builtin); ok && b.Name() == "len" {
				return true
			}
		}
		return false
	}
}

// derivesFromPhi: v is phi plus constants (i += 2 inside the body then i++).
func derivesFromPhi(v ssa.Value, phi *ssa.Phi) bool {
	for depth := 0; depth < 6; depth++ {
		if v == ssa.Value(phi) {
			return true
		}
		switch x := v.(type) {
		case *ssa.Phi:
			for _, e := range x.Edges {
				if e != ssa.Value(x) && !derivesFromPhi2(e, phi, depth+1) {
					return false
				}
			}
			return true
		case *ssa.BinOp:
			if x.Op == token.ADD {
				if s, c := ConstInt(x.Y); c && s >= 0 {
					v = x.X
					continue
				}
			}
		}
		return false
	}
	return false
}

func derivesFromPhi2(v ssa.Value, phi *ssa.Phi, depth int) bool {
	if depth > 6 {
		return false
	}
	if v == ssa.Value(phi) {
		return true
	}
	if b, ok := v.(*ssa.BinOp); ok && b.Op == token.ADD {
		if s, c := ConstInt(b.Y); c && s >= 0 {
			return derivesFromPhi2(b.X, phi, depth+1)
		}
	}
	return false
}

// InstrsAt finds every index/slice/lookup instruction whose position is pos: one, or one per copy when the source
// normaliser inlined the enclosing helper into several callers.
func (p *Prog) InstrsAt(pos token.Pos) []ssa.Instruction {
	if !pos.IsValid() {
		return nil
	}
	want := p.Fset.Position(pos)
	var found []ssa.Instruction
	for fn := range p.AllFunctions() {
		if len(fn.Blocks) == 0 || fn.Pkg == nil || !p.InModule(fn.Pkg.Pkg.Path()) {
			continue
		}
		Instrs(fn, func(in ssa.Instruction) {
			switch in.(type) {
			case *ssa.IndexAddr, *ssa.Index, *ssa.Lookup, *ssa.Slice:
			default:
				return
			}
			if in.Pos() == pos {
				found = append(found, in)
				return
			}
			if in.Pos().IsValid() {
				if q := p.Fset.Position(in.Pos()); q.Filename == want.Filename && q.Line == want.Line && q.Column == want.Column {
					found = append(found, in)
				}
			}
		})
	}
	return found
}

// InstrAt finds the index/slice/lookup instruction whose position is pos.
func (p *Prog) InstrAt(pos token.Pos) ssa.Instruction {
	if !pos.IsValid() {
		return nil
	}
	var found ssa.Instruction
	for fn := range p.AllFunctions() {
		if found != nil {
			break
		}
		if len(fn.Blocks) == 0 || fn.Pos() > pos {
			continue
		}
		if fn.Syntax() != nil && (fn.Syntax().Pos() > pos || fn.Syntax().End() < pos) {
			continue
		}
		Instrs(fn, func(in ssa.Instruction) {
			if found != nil || in.Pos() != pos {
				return
			}
			switch in.(type) {
			case *ssa.IndexAddr, *ssa.Index, *ssa.Lookup, *ssa.Slice:
				found = in
			}
		})
	}
	return found
}

// normalisedExpr prints an expression with every local variable / parameter
// name replaced by "_" so that a rename does not change the residual's key.
func normalisedExpr(fset *token.FileSet, info *types.Info, n ast.Node) string {
	var render func(e ast.Expr) string
	render = func(e ast.Expr) string {
		switch x := e.(type) {
		case *ast.Ident:
			if info != nil {
				if obj, ok := info.Uses[x].(*types.Var); ok && !obj.IsField() && obj.Parent() != nil && obj.Pkg() != nil && obj.Parent() != obj.Pkg().Scope() {
					return "_"
				}
			}
			return x.Name
		case *ast.IndexExpr:
			return render(x.X) + "[" + render(x.Index) + "]"
		case *ast.SliceExpr:
			s := render(x.X) + "["
			if x.Low != nil {
				s += render(x.Low)
			}
			s += ":"
			if x.High != nil {
				s += render(x.High)
			}
			if x.Max != nil {
				s += ":" + render(x.Max)
			}
			return s + "]"
		case *ast.BinaryExpr:
			return render(x.X) + x.Op.String() + render(x.Y)
		case *ast.SelectorExpr:
			// a field path over a local is the same place whatever the path is called (buf.Bytes() vs tb.buf.Bytes())
			if r := render(x.X); r == "_" || strings.HasPrefix(r, "_.") {
				if info != nil {
					if sel := info.Selections[x]; sel != nil && sel.Kind() == types.FieldVal {
						return "_"
					}
				}
				return "_." + x.Sel.Name
			}
			return render(x.X) + "." + x.Sel.Name
		case *ast.CallExpr:
			args := make([]string, len(x.Args))
			for i, a := range x.Args {
				args[i] = render(a)
			}
			return render(x.Fun) + "(" + strings.Join(args, ",") + ")"
		case *ast.ParenExpr:
			return "(" + render(x.X) + ")"
		case *ast.BasicLit:
			return x.Value
		case *ast.UnaryExpr:
			return x.Op.String() + render(x.X)
		case *ast.StarExpr:
			return "*" + render(x.X)
		}
		var buf bytes.Buffer
		_ = printer.Fprint(&buf, fset, e)
		return buf.String()
	}
	if e, ok := n.(ast.Expr); ok {
		return render(e)
	}
	var buf bytes.Buffer
	_ = printer.Fprint(&buf, fset, n)
	return buf.String()
}
