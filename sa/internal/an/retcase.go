package an

import (
	"go/token"

	"golang.org/x/tools/go/ssa"
)

// RetCase is one way a function returns: the result values with the merges
// (phis, named results spilled to locals) resolved *jointly*, so that the i-th
// way into a merge block selects the i-th operand of every phi of that block.
// A nil value stands for the zero value.
type RetCase struct {
	Ret  *ssa.Return
	Vals []ssa.Value
	At   *ssa.BasicBlock // the values are those flowing out of this block
	// Guards hold on this way of returning: the guards of the return's block and
	// of every block the case was split at.
	Guards []Guard
	// Via lists, per result, the merged values (phis) the value was selected from: a test of one of them on
	// the way to the return is a test of the value itself on this way.
	Via [][]ssa.Value
	// Spilled names, per result, the local variable the value was read from (a named result kept in
	// memory because of a defer), or nil.
	Spilled []*ssa.Alloc
}

func (c *RetCase) addGuards(b *ssa.BasicBlock) {
	for _, g := range GuardsOf(b) {
		dup := false
		for _, h := range c.Guards {
			if h.Cond == g.Cond && h.True == g.True {
				dup = true
				break
			}
		}
		if !dup {
			c.Guards = append(c.Guards, g)
		}
	}
}

// ReturnCases enumerates the return cases of fn (bounded; a case that cannot
// be split further keeps its phi).
func ReturnCases(fn *ssa.Function) []RetCase {
	var out []RetCase
	for _, ret := range Returns(fn) {
		if len(ret.Block().Preds) == 0 && ret.Block() != fn.Blocks[0] {
			continue // unreachable (recover block)
		}
		for _, c := range resolveLoads(spilledCases(ret)) {
			c.addGuards(ret.Block())
			if c.At != nil && c.At != ret.Block() {
				c.addGuards(c.At)
			}
			for _, e := range expandPhis(c, 0) {
				if !e.contradicted() {
					out = append(out, e)
				}
			}
		}
	}
	return out
}

// GuardOnSpilled reports whether the guard is a nil test of a load of the local variable that result k
// was read from, made after the value of this case was stored (so it is a test of this case's value), and
// if so whether it says non-nil.
func (c *RetCase) GuardOnSpilled(g Guard, k int) (nonNil, ok bool) {
	if k >= len(c.Spilled) || c.Spilled[k] == nil {
		return false, false
	}
	b, isB := g.Cond.(*ssa.BinOp)
	if !isB || (b.Op != token.EQL && b.Op != token.NEQ) {
		return false, false
	}
	var other ssa.Value
	if isNilConst(b.Y) {
		other = b.X
	} else if isNilConst(b.X) {
		other = b.Y
	}
	u, isU := other.(*ssa.UnOp)
	if !isU || u.Op != token.MUL || u.X != ssa.Value(c.Spilled[k]) {
		return false, false
	}
	// the tested load must read what this case returns: the only stores that reach it are this case's value
	rs := ReachingStores(c.Spilled[k], u)
	for _, r := range rs {
		if r != c.Vals[k] {
			// another value can be in the variable at the test: it is a test of this case's value only if that
			// other store cannot be the last one before the return on this case's way; approximated by requiring
			// that the case's own store comes after the other one on every path (same block or dominated)
			cv, isI := c.Vals[k].(ssa.Instruction)
			ov, isO := r.(ssa.Instruction)
			if r == nil && isI {
				continue // the zero value is overwritten by the case's store
			}
			if !isI || !isO || !ov.Block().Dominates(cv.Block()) {
				return false, false
			}
		}
	}
	return g.True == (b.Op == token.NEQ), true
}

// contradicted: a test on the way to the return says the variable a nil value was read from is non-nil.
func (c *RetCase) contradicted() bool {
	for k, v := range c.Vals {
		if k >= len(c.Spilled) || c.Spilled[k] == nil {
			continue
		}
		if !(v == nil || isNilConst(v)) {
			continue
		}
		for _, g := range c.Guards {
			b, isB := g.Cond.(*ssa.BinOp)
			if !isB || (b.Op != token.EQL && b.Op != token.NEQ) {
				continue
			}
			var other ssa.Value
			if isNilConst(b.Y) {
				other = b.X
			} else if isNilConst(b.X) {
				other = b.Y
			}
			u, isU := other.(*ssa.UnOp)
			if !isU || u.Op != token.MUL || u.X != ssa.Value(c.Spilled[k]) {
				continue
			}
			if g.True == (b.Op == token.NEQ) {
				// the variable was non-nil when tested; if nothing is stored to it between the test and the
				// return, a nil value cannot be what is returned
				stored := false
				for _, ref := range *c.Spilled[k].Referrers() {
					if st, ok := ref.(*ssa.Store); ok && st.Addr == ssa.Value(c.Spilled[k]) && CanReach(u, st) && CanReach(st, c.Ret) && reachAvoidingInstr(st, c.Ret, u) {
						if ld, isLd := st.Val.(*ssa.UnOp); isLd && ld.Op == token.MUL && ld.X == ssa.Value(c.Spilled[k]) {
							continue // `return ..., err` stores the variable into itself
						}
						stored = true
					}
				}
				if !stored {
					return true
				}
			}
		}
	}
	return false
}

// reachAvoidingInstr: a path from a to b that does not execute avoid.
func reachAvoidingInstr(a, b, avoid ssa.Instruction) bool {
	if a.Block() == avoid.Block() {
		ia, iv := -1, -1
		for i, x := range a.Block().Instrs {
			if x == a {
				ia = i
			}
			if x == avoid {
				iv = i
			}
		}
		if iv > ia {
			return a.Block() == b.Block() && func() bool {
				for i, x := range a.Block().Instrs {
					if x == b {
						return i > ia && i < iv
					}
				}
				return false
			}()
		}
	}
	seen := map[*ssa.BasicBlock]bool{}
	stack := append([]*ssa.BasicBlock{}, a.Block().Succs...)
	if a.Block() == b.Block() {
		for i, x := range a.Block().Instrs {
			_ = i
			if x == a {
				for _, y := range a.Block().Instrs[i+1:] {
					if y == avoid {
						break
					}
					if y == b {
						return true
					}
				}
			}
		}
	}
	for len(stack) > 0 {
		x := stack[len(stack)-1]
		stack = stack[:len(stack)-1]
		if seen[x] {
			continue
		}
		seen[x] = true
		if x == b.Block() {
			hit := true
			if avoid.Block() == x {
				for _, y := range x.Instrs {
					if y == avoid {
						hit = false
						break
					}
					if y == b {
						break
					}
				}
			}
			if hit {
				return true
			}
			continue
		}
		if x == avoid.Block() {
			continue
		}
		stack = append(stack, x.Succs...)
	}
	return false
}

// spilledCases resolves results that are loads of local result variables
// (functions with defers) through the stores that reach the return, keeping
// stores of one path together.
func spilledCases(ret *ssa.Return) []RetCase {
	allocs := map[int]*ssa.Alloc{}
	for i, r := range ret.Results {
		if u, ok := r.(*ssa.UnOp); ok && u.Op == token.MUL {
			if a, ok := u.X.(*ssa.Alloc); ok {
				allocs[i] = a
			}
		}
	}
	base := RetCase{Ret: ret, Vals: append([]ssa.Value{}, ret.Results...), At: ret.Block()}
	if len(allocs) == 0 {
		return []RetCase{base}
	}
	type partial struct {
		vals  map[int]ssa.Value
		found map[int]bool
		at    *ssa.BasicBlock
	}
	var out []RetCase
	seen := map[string]bool{}
	var walk func(b *ssa.BasicBlock, from int, p partial, depth int)
	finish := func(p partial) {
		c := RetCase{Ret: ret, Vals: append([]ssa.Value{}, ret.Results...), At: p.at, Spilled: make([]*ssa.Alloc, len(ret.Results))}
		key := ""
		for i := range ret.Results {
			if a, isAlloc := allocs[i]; isAlloc {
				c.Vals[i] = p.vals[i] // nil: zero value
				c.Spilled[i] = a
			}
			if c.Vals[i] != nil {
				key += c.Vals[i].Name() + "@"
				if in, ok := c.Vals[i].(ssa.Instruction); ok && in.Block() != nil {
					key += in.Block().String()
				}
			}
			key += ","
		}
		if c.At != nil {
			key += c.At.String()
		}
		if !seen[key] && len(out) < 128 {
			seen[key] = true
			out = append(out, c)
		}
	}
	visited := map[*ssa.BasicBlock]int{}
	walk = func(b *ssa.BasicBlock, from int, p partial, depth int) {
		for i := from; i >= 0; i-- {
			st, ok := b.Instrs[i].(*ssa.Store)
			if !ok {
				continue
			}
			for idx, a := range allocs {
				if st.Addr == a && !p.found[idx] {
					np := partial{vals: map[int]ssa.Value{}, found: map[int]bool{}, at: p.at}
					for k, v := range p.vals {
						np.vals[k] = v
					}
					for k, v := range p.found {
						np.found[k] = v
					}
					np.vals[idx], np.found[idx] = st.Val, true
					if np.at == nil {
						np.at = b
					}
					p = np
				}
			}
		}
		if len(p.found) == len(allocs) {
			finish(p)
			return
		}
		if b == ret.Parent().Blocks[0] || len(b.Preds) == 0 || depth > 64 {
			if p.at == nil {
				p.at = ret.Block()
			}
			finish(p)
			return
		}
		for _, pr := range b.Preds {
			if visited[pr] > 8 {
				continue
			}
			visited[pr]++
			walk(pr, len(pr.Instrs)-1, p, depth+1)
		}
	}
	b := ret.Block()
	idx := len(b.Instrs) - 1
	walk(b, idx, partial{vals: map[int]ssa.Value{}, found: map[int]bool{}}, 0)
	if len(out) == 0 {
		return []RetCase{base}
	}
	for i := range out {
		if out[i].At == nil {
			out[i].At = ret.Block()
		}
	}
	return out
}

// expandPhis splits a case over the ways into the block of its phis.
func expandPhis(c RetCase, depth int) []RetCase {
	if depth >= 4 {
		return []RetCase{c}
	}
	// choose the phi block closest to the return: one that is dominated by the others
	var blk *ssa.BasicBlock
	for _, v := range c.Vals {
		phi, ok := v.(*ssa.Phi)
		if !ok {
			continue
		}
		pb := phi.Block()
		if blk == nil || (blk != pb && blk.Dominates(pb)) {
			blk = pb
		}
	}
	if blk == nil {
		return []RetCase{c}
	}
	// the case must be reached through blk for the split to make sense
	if c.At != nil && !(blk == c.At || blk.Dominates(c.At)) {
		// the case was already pinned to one way into blk (by the store that reaches a spilled result): the merged
		// values are the operands of that way
		for i, p := range blk.Preds {
			if p != c.At {
				continue
			}
			nc := c
			nc.Vals = append([]ssa.Value{}, c.Vals...)
			nc.Via = make([][]ssa.Value, len(c.Vals))
			for k := range c.Vals {
				if k < len(c.Via) {
					nc.Via[k] = append([]ssa.Value{}, c.Via[k]...)
				}
			}
			changed := false
			for k, v := range c.Vals {
				if phi, ok := v.(*ssa.Phi); ok && phi.Block() == blk && i < len(phi.Edges) {
					nc.Vals[k] = phi.Edges[i]
					nc.Via[k] = append(nc.Via[k], phi)
					changed = true
				}
			}
			if changed {
				return expandPhis(nc, depth+1)
			}
		}
		return []RetCase{c}
	}
	// ways into blk that contradict a test (of one of blk's phis) on the way to the return are not cases
	infeasible := map[*ssa.BasicBlock]bool{}
	for _, g := range c.Guards {
		preds, _ := flagPreds(g)
		if preds == nil {
			continue
		}
		var phi *ssa.Phi
		switch x := Resolve(g.Cond).(type) {
		case *ssa.Phi:
			phi = x
		case *ssa.BinOp:
			if p, ok := Resolve(x.X).(*ssa.Phi); ok {
				phi = p
			} else if p, ok := Resolve(x.Y).(*ssa.Phi); ok {
				phi = p
			}
		}
		if phi == nil || phi.Block() != blk {
			continue
		}
		ok := map[*ssa.BasicBlock]bool{}
		for _, p := range preds {
			ok[p] = true
		}
		for _, p := range blk.Preds {
			if !ok[p] {
				infeasible[p] = true
			}
		}
	}
	var out []RetCase
	for i, p := range blk.Preds {
		if infeasible[p] {
			continue
		}
		nc := RetCase{Ret: c.Ret, Vals: make([]ssa.Value, len(c.Vals)), At: p, Guards: append([]Guard{}, c.Guards...), Via: make([][]ssa.Value, len(c.Vals)), Spilled: c.Spilled}
		for k := range c.Vals {
			if k < len(c.Via) {
				nc.Via[k] = append([]ssa.Value{}, c.Via[k]...)
			}
		}
		nc.addGuards(p)
		// the way in may itself be one side of a test at the end of p
		if len(p.Instrs) > 0 && len(p.Succs) == 2 && p.Succs[0] != p.Succs[1] {
			if br, ok := p.Instrs[len(p.Instrs)-1].(*ssa.If); ok {
				pol := p.Succs[0] == blk
				cnd, neg := StripNot(br.Cond)
				if neg {
					pol = !pol
				}
				nc.Guards = append(nc.Guards, Guard{Cond: cnd, True: pol, If: br})
			}
		}
		for k, v := range c.Vals {
			nc.Vals[k] = v
			if phi, ok := v.(*ssa.Phi); ok && phi.Block() == blk && i < len(phi.Edges) {
				nc.Vals[k] = phi.Edges[i]
				nc.Via[k] = append(nc.Via[k], phi)
			}
		}
		// a back edge would feed the phi itself again
		same := true
		for k := range c.Vals {
			if nc.Vals[k] != c.Vals[k] {
				same = false
			}
		}
		if same {
			continue
		}
		out = append(out, expandPhis(nc, depth+1)...)
		if len(out) > 256 {
			return []RetCase{c}
		}
	}
	if len(out) == 0 {
		return []RetCase{c}
	}
	return out
}

// resolveLoads replaces values that are loads of a local variable by what was
// stored there (`err = f(); return err` with a spilled result reads the local
// back before storing it again); several reaching stores split the case.
func resolveLoads(cases []RetCase) []RetCase {
	for round := 0; round < 4; round++ {
		var out []RetCase
		changed := false
		for _, c := range cases {
			split := false
			for i, v := range c.Vals {
				u, ok := v.(*ssa.UnOp)
				if !ok || u.Op != token.MUL {
					continue
				}
				a, ok := u.X.(*ssa.Alloc)
				if !ok {
					continue
				}
				stores := ReachingStores(a, u)
				if len(stores) == 0 || len(stores) > 8 {
					continue
				}
				same := false
				for _, s := range stores {
					if s == v {
						same = true
					}
				}
				if same {
					continue
				}
				for _, s := range stores {
					nc := RetCase{Ret: c.Ret, Vals: append([]ssa.Value{}, c.Vals...), At: c.At, Guards: c.Guards, Spilled: c.Spilled, Via: c.Via}
					nc.Vals[i] = s
					if in, ok := s.(ssa.Instruction); ok && len(stores) > 1 && in.Block() != nil {
						nc.At = in.Block()
					}
					out = append(out, nc)
				}
				split, changed = true, true
				break
			}
			if !split {
				out = append(out, c)
			}
		}
		cases = out
		if !changed || len(cases) > 256 {
			break
		}
	}
	return cases
}
