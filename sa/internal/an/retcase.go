package an

import (
	"go/token"

	"golang.org/x/tools/go/ssa"
)

// RetCase is one way a function returns: the result values with the merges
// (phis, named results spilled to locals) resolved *jointly*, so that the i-th
// way into a merge block selects the i-th operand of every phi of that block.
// A nil value stands for the zero value.
type RetCase struct {
	Ret  *ssa.Return
	Vals []ssa.Value
	At   *ssa.BasicBlock // the values are those flowing out of this block
	// Guards hold on this way of returning: the guards of the return's block and
	// of every block the case was split at.
	Guards []Guard
}

func (c *RetCase) addGuards(b *ssa.BasicBlock) {
	for _, g := range GuardsOf(b) {
		dup := false
		for _, h := range c.Guards {
			if h.Cond == g.Cond && h.True == g.True {
				dup = true
				break
			}
		}
		if !dup {
			c.Guards = append(c.Guards, g)
		}
	}
}

// ReturnCases enumerates the return cases of fn (bounded; a case that cannot
// be split further keeps its phi).
func ReturnCases(fn *ssa.Function) []RetCase {
	var out []RetCase
	for _, ret := range Returns(fn) {
		if len(ret.Block().Preds) == 0 && ret.Block() != fn.Blocks[0] {
			continue // unreachable (recover block)
		}
		for _, c := range resolveLoads(spilledCases(ret)) {
			c.addGuards(ret.Block())
			if c.At != nil && c.At != ret.Block() {
				c.addGuards(c.At)
			}
			out = append(out, expandPhis(c, 0)...)
		}
	}
	return out
}

// spilledCases resolves results that are loads of local result variables
// (functions with defers) through the stores that reach the return, keeping
// stores of one path together.
func spilledCases(ret *ssa.Return) []RetCase {
	allocs := map[int]*ssa.Alloc{}
	for i, r := range ret.Results {
		if u, ok := r.(*ssa.UnOp); ok && u.Op == token.MUL {
			if a, ok := u.X.(*ssa.Alloc); ok {
				allocs[i] = a
			}
		}
	}
	base := RetCase{Ret: ret, Vals: append([]ssa.Value{}, ret.Results...), At: ret.Block()}
	if len(allocs) == 0 {
		return []RetCase{base}
	}
	type partial struct {
		vals  map[int]ssa.Value
		found map[int]bool
		at    *ssa.BasicBlock
	}
	var out []RetCase
	seen := map[string]bool{}
	var walk func(b *ssa.BasicBlock, from int, p partial, depth int)
	finish := func(p partial) {
		c := RetCase{Ret: ret, Vals: append([]ssa.Value{}, ret.Results...), At: p.at}
		key := ""
		for i := range ret.Results {
			if _, isAlloc := allocs[i]; isAlloc {
				c.Vals[i] = p.vals[i] // nil: zero value
			}
			if c.Vals[i] != nil {
				key += c.Vals[i].Name() + "@"
				if in, ok := c.Vals[i].(ssa.Instruction); ok && in.Block() != nil {
					key += in.Block().String()
				}
			}
			key += ","
		}
		if c.At != nil {
			key += c.At.String()
		}
		if !seen[key] && len(out) < 128 {
			seen[key] = true
			out = append(out, c)
		}
	}
	visited := map[*ssa.BasicBlock]int{}
	walk = func(b *ssa.BasicBlock, from int, p partial, depth int) {
		for i := from; i >= 0; i-- {
			st, ok := b.Instrs[i].(*ssa.Store)
			if !ok {
				continue
			}
			for idx, a := range allocs {
				if st.Addr == a && !p.found[idx] {
					np := partial{vals: map[int]ssa.Value{}, found: map[int]bool{}, at: p.at}
					for k, v := range p.vals {
						np.vals[k] = v
					}
					for k, v := range p.found {
						np.found[k] = v
					}
					np.vals[idx], np.found[idx] = st.Val, true
					if np.at == nil {
						np.at = b
					}
					p = np
				}
			}
		}
		if len(p.found) == len(allocs) {
			finish(p)
			return
		}
		if b == ret.Parent().Blocks[0] || len(b.Preds) == 0 || depth > 64 {
			if p.at == nil {
				p.at = ret.Block()
			}
			finish(p)
			return
		}
		for _, pr := range b.Preds {
			if visited[pr] > 8 {
				continue
			}
			visited[pr]++
			walk(pr, len(pr.Instrs)-1, p, depth+1)
		}
	}
	b := ret.Block()
	idx := len(b.Instrs) - 1
	walk(b, idx, partial{vals: map[int]ssa.Value{}, found: map[int]bool{}}, 0)
	if len(out) == 0 {
		return []RetCase{base}
	}
	for i := range out {
		if out[i].At == nil {
			out[i].At = ret.Block()
		}
	}
	return out
}

// expandPhis splits a case over the ways into the block of its phis.
func expandPhis(c RetCase, depth int) []RetCase {
	if depth >= 4 {
		return []RetCase{c}
	}
	// choose the phi block closest to the return: one that is dominated by the others
	var blk *ssa.BasicBlock
	for _, v := range c.Vals {
		phi, ok := v.(*ssa.Phi)
		if !ok {
			continue
		}
		pb := phi.Block()
		if blk == nil || (blk != pb && blk.Dominates(pb)) {
			blk = pb
		}
	}
	if blk == nil {
		return []RetCase{c}
	}
	// the case must be reached through blk for the split to make sense
	if c.At != nil && !(blk == c.At || blk.Dominates(c.At)) {
		return []RetCase{c}
	}
	// ways into blk that contradict a test (of one of blk's phis) on the way to the return are not cases
	infeasible := map[*ssa.BasicBlock]bool{}
	for _, g := range c.Guards {
		preds, _ := flagPreds(g)
		if preds == nil {
			continue
		}
		var phi *ssa.Phi
		switch x := g.Cond.(type) {
		case *ssa.Phi:
			phi = x
		case *ssa.BinOp:
			if p, ok := x.X.(*ssa.Phi); ok {
				phi = p
			} else if p, ok := x.Y.(*ssa.Phi); ok {
				phi = p
			}
		}
		if phi == nil || phi.Block() != blk {
			continue
		}
		ok := map[*ssa.BasicBlock]bool{}
		for _, p := range preds {
			ok[p] = true
		}
		for _, p := range blk.Preds {
			if !ok[p] {
				infeasible[p] = true
			}
		}
	}
	var out []RetCase
	for i, p := range blk.Preds {
		if infeasible[p] {
			continue
		}
		nc := RetCase{Ret: c.Ret, Vals: make([]ssa.Value, len(c.Vals)), At: p, Guards: append([]Guard{}, c.Guards...)}
		nc.addGuards(p)
		for k, v := range c.Vals {
			nc.Vals[k] = v
			if phi, ok := v.(*ssa.Phi); ok && phi.Block() == blk && i < len(phi.Edges) {
				nc.Vals[k] = phi.Edges[i]
			}
		}
		// a back edge would feed the phi itself again
		same := true
		for k := range c.Vals {
			if nc.Vals[k] != c.Vals[k] {
				same = false
			}
		}
		if same {
			continue
		}
		out = append(out, expandPhis(nc, depth+1)...)
		if len(out) > 256 {
			return []RetCase{c}
		}
	}
	if len(out) == 0 {
		return []RetCase{c}
	}
	return out
}

// resolveLoads replaces values that are loads of a local variable by what was
// stored there (`err = f(); return err` with a spilled result reads the local
// back before storing it again); several reaching stores split the case.
func resolveLoads(cases []RetCase) []RetCase {
	for round := 0; round < 4; round++ {
		var out []RetCase
		changed := false
		for _, c := range cases {
			split := false
			for i, v := range c.Vals {
				u, ok := v.(*ssa.UnOp)
				if !ok || u.Op != token.MUL {
					continue
				}
				a, ok := u.X.(*ssa.Alloc)
				if !ok {
					continue
				}
				stores := ReachingStores(a, u)
				if len(stores) == 0 || len(stores) > 8 {
					continue
				}
				same := false
				for _, s := range stores {
					if s == v {
						same = true
					}
				}
				if same {
					continue
				}
				for _, s := range stores {
					nc := RetCase{Ret: c.Ret, Vals: append([]ssa.Value{}, c.Vals...), At: c.At, Guards: c.Guards}
					nc.Vals[i] = s
					if in, ok := s.(ssa.Instruction); ok && len(stores) > 1 && in.Block() != nil {
						nc.At = in.Block()
					}
					out = append(out, nc)
				}
				split, changed = true, true
				break
			}
			if !split {
				out = append(out, c)
			}
		}
		cases = out
		if !changed || len(cases) > 256 {
			break
		}
	}
	return cases
}
