package an

import (
	"go/token"

	"golang.org/x/tools/go/ssa"
)

// ReachingStores returns the values stored to the local alloc a that may reach
// the instruction `at`; a nil element stands for the zero value (no store on
// some path from the entry).
func ReachingStores(a *ssa.Alloc, at ssa.Instruction) []ssa.Value {
	var out []ssa.Value
	seenVal := map[ssa.Value]bool{}
	zero := false
	seen := map[*ssa.BasicBlock]bool{}
	dead := InfeasibleEdges(at.Block())
	var scan func(b *ssa.BasicBlock, from int)
	scan = func(b *ssa.BasicBlock, from int) {
		for i := from; i >= 0; i-- {
			if st, ok := b.Instrs[i].(*ssa.Store); ok && st.Addr == a {
				if !seenVal[st.Val] {
					seenVal[st.Val] = true
					out = append(out, st.Val)
				}
				return
			}
		}
		if b == a.Parent().Blocks[0] || len(b.Preds) == 0 {
			zero = true
			return
		}
		for _, p := range b.Preds {
			if seen[p] || dead[[2]*ssa.BasicBlock{p, b}] {
				continue
			}
			seen[p] = true
			scan(p, len(p.Instrs)-1)
		}
	}
	b := at.Block()
	idx := len(b.Instrs)
	for i, in := range b.Instrs {
		if in == at {
			idx = i
		}
	}
	scan(b, idx-1)
	if zero {
		out = append(out, nil)
	}
	return out
}

// ReachingFieldStores is ReachingStores for one field of a local struct
// variable: stores to &a.f reach; a store of the whole struct hides them
// (reported as a nil element: value unknown).
func ReachingFieldStores(a *ssa.Alloc, field int, at ssa.Instruction) []ssa.Value {
	var out []ssa.Value
	seenVal := map[ssa.Value]bool{}
	unknown := false
	seen := map[*ssa.BasicBlock]bool{}
	dead := InfeasibleEdges(at.Block())
	var scan func(b *ssa.BasicBlock, from int)
	scan = func(b *ssa.BasicBlock, from int) {
		for i := from; i >= 0; i-- {
			st, ok := b.Instrs[i].(*ssa.Store)
			if !ok {
				continue
			}
			if st.Addr == a {
				unknown = true
				return
			}
			if fa, ok := st.Addr.(*ssa.FieldAddr); ok && fa.X == a && fa.Field == field {
				if !seenVal[st.Val] {
					seenVal[st.Val] = true
					out = append(out, st.Val)
				}
				return
			}
		}
		if b == a.Parent().Blocks[0] || len(b.Preds) == 0 {
			unknown = true
			return
		}
		for _, p := range b.Preds {
			if seen[p] || dead[[2]*ssa.BasicBlock{p, b}] {
				continue
			}
			seen[p] = true
			scan(p, len(p.Instrs)-1)
		}
	}
	b := at.Block()
	idx := len(b.Instrs)
	for i, in := range b.Instrs {
		if in == at {
			idx = i
		}
	}
	scan(b, idx-1)
	if unknown {
		out = append(out, nil)
	}
	return out
}

// Resolve follows loads of local variables with a unique reaching store, and
// transparent conversions, back to the defining value.
func Resolve(v ssa.Value) ssa.Value {
	for depth := 0; depth < 16; depth++ {
		switch x := v.(type) {
		case *ssa.UnOp:
			if x.Op != token.MUL {
				return v
			}
			if fa, isFA := x.X.(*ssa.FieldAddr); isFA {
				if a, ok := fa.X.(*ssa.Alloc); ok && !allocEscapes(a) {
					rs := ReachingFieldStores(a, fa.Field, x)
					if len(rs) == 1 && rs[0] != nil {
						v = rs[0]
						continue
					}
				}
				return v
			}
			a, ok := x.X.(*ssa.Alloc)
			if !ok || a.Heap && allocEscapes(a) {
				return v
			}
			rs := ReachingStores(a, x)
			if len(rs) != 1 || rs[0] == nil {
				return v
			}
			v = rs[0]
		case *ssa.ChangeType:
			v = x.X
		case *ssa.Phi:
			// a merge whose other ways in are dead (behind `if false`, as left by the normaliser when a
			// function-typed parameter was nil / non-nil at the call) is the one live operand
			var live ssa.Value
			n := 0
			for i, e := range x.Edges {
				if i < len(x.Block().Preds) && deadEdge(x.Block().Preds[i], x.Block()) {
					continue
				}
				if e == ssa.Value(x) {
					continue
				}
				if live == nil || live != e {
					n++
					live = e
				}
			}
			if n != 1 {
				return v
			}
			v = live
		default:
			return v
		}
	}
	return v
}

// ResolveAt is Resolve for a use in block at: ways into a merge that contradict a flag (or error) tested on
// the way to at do not count.
func ResolveAt(v ssa.Value, at *ssa.BasicBlock) ssa.Value {
	v = Resolve(v)
	for depth := 0; depth < 8; depth++ {
		phi, ok := v.(*ssa.Phi)
		if !ok {
			return v
		}
		dead := InfeasibleEdges(at)
		var live ssa.Value
		n := 0
		for i, e := range phi.Edges {
			if i < len(phi.Block().Preds) {
				p := phi.Block().Preds[i]
				if dead[[2]*ssa.BasicBlock{p, phi.Block()}] || deadEdge(p, phi.Block()) {
					continue
				}
			}
			if e == ssa.Value(phi) {
				continue
			}
			if live == nil || live != e {
				n++
				live = e
			}
		}
		if n != 1 {
			return v
		}
		v = Resolve(live)
	}
	return v
}

// deadEdge reports whether the edge from -> to can never be taken because a constant condition decides
// otherwise, at the end of from or on every way into from.
func deadEdge(from, to *ssa.BasicBlock) bool {
	constSide := func(b *ssa.BasicBlock) (taken *ssa.BasicBlock, ok bool) {
		if len(b.Instrs) == 0 || len(b.Succs) != 2 {
			return nil, false
		}
		br, isIf := b.Instrs[len(b.Instrs)-1].(*ssa.If)
		if !isIf {
			return nil, false
		}
		c, isC := br.Cond.(*ssa.Const)
		if !isC || c.Value == nil {
			return nil, false
		}
		if c.Value.String() == "true" {
			return b.Succs[0], true
		}
		return b.Succs[1], true
	}
	if taken, ok := constSide(from); ok && taken != to && from.Succs[0] != from.Succs[1] {
		return true
	}
	// from itself is only reachable over dead edges
	seen := map[*ssa.BasicBlock]bool{}
	var unreachable func(b *ssa.BasicBlock, depth int) bool
	unreachable = func(b *ssa.BasicBlock, depth int) bool {
		if depth > 4 || seen[b] || len(b.Preds) == 0 {
			return false
		}
		seen[b] = true
		for _, p := range b.Preds {
			if taken, ok := constSide(p); ok && taken != b && p.Succs[0] != p.Succs[1] {
				continue
			}
			if unreachable(p, depth+1) {
				continue
			}
			return false
		}
		return true
	}
	return unreachable(from, 0)
}

// allocEscapes reports whether the address of a is used other than by
// loads, stores and field/index addressing (e.g. captured by a closure).
func allocEscapes(a *ssa.Alloc) bool {
	for _, ref := range *a.Referrers() {
		switch r := ref.(type) {
		case *ssa.Store:
			if r.Val == a {
				return true
			}
		case *ssa.UnOp, *ssa.FieldAddr, *ssa.IndexAddr, *ssa.DebugRef:
		case *ssa.MakeClosure:
			// captured by a closure that only reads the variable: all stores are
			// still in this function
			fn, _ := r.Fn.(*ssa.Function)
			if fn == nil {
				return true
			}
			for j, b := range r.Bindings {
				if b != ssa.Value(a) {
					continue
				}
				for _, fr := range *fn.FreeVars[j].Referrers() {
					switch x := fr.(type) {
					case *ssa.UnOp, *ssa.DebugRef:
					case *ssa.FieldAddr:
						for _, r2 := range *x.Referrers() {
							if _, isLoad := r2.(*ssa.UnOp); !isLoad {
								return true
							}
						}
					default:
						return true
					}
				}
			}
		default:
			return true
		}
	}
	return false
}

// Taint is a forward value-flow closure from a set of source values.
type Taint struct {
	Fn      *ssa.Function
	Tainted map[ssa.Value]bool
	// Sinks are the uses of tainted values that are not transparent moves.
	Sinks []TaintSink
}

// TaintSink is one non-transparent use of a tainted value.
type TaintSink struct {
	Instr ssa.Instruction
	Val   ssa.Value // the tainted operand
}

// FlowFrom computes the forward flow of the sources inside one function:
// through phis, slices, conversions, extracts, and stores to / loads from local
// variables (flow-sensitively, by reaching stores). Everything else is a sink.
func FlowFrom(fn *ssa.Function, sources ...ssa.Value) *Taint {
	t := &Taint{Fn: fn, Tainted: map[ssa.Value]bool{}}
	var work []ssa.Value
	add := func(v ssa.Value) {
		if v != nil && !t.Tainted[v] {
			t.Tainted[v] = true
			work = append(work, v)
		}
	}
	for _, s := range sources {
		add(s)
	}
	sinkSeen := map[ssa.Instruction]map[ssa.Value]bool{}
	for len(work) > 0 {
		v := work[len(work)-1]
		work = work[:len(work)-1]
		refs := v.Referrers()
		if refs == nil {
			continue
		}
		for _, ref := range *refs {
			switch r := ref.(type) {
			case *ssa.DebugRef:
				continue
			case *ssa.Phi:
				add(r)
				continue
			case *ssa.Slice:
				if r.X == v {
					add(r)
					continue
				}
			case *ssa.ChangeType:
				add(r)
				continue
			case *ssa.Convert:
				add(r)
				continue
			case *ssa.Extract:
				add(r)
				continue
			case *ssa.Store:
				if r.Val == v {
					if a, ok := r.Addr.(*ssa.Alloc); ok && !allocEscapes(a) {
						// find loads this store reaches
						for _, ar := range *a.Referrers() {
							if ld, ok := ar.(*ssa.UnOp); ok && ld.Op == token.MUL {
								for _, rs := range ReachingStores(a, ld) {
									if rs == v {
										add(ld)
									}
								}
							}
						}
						continue
					}
					// field of a local struct variable (e.g. fr.Data = x): track loads of that field
					if fa, ok := r.Addr.(*ssa.FieldAddr); ok {
						if a, ok := fa.X.(*ssa.Alloc); ok && !allocEscapes(a) {
							_ = a
						}
					}
				}
			}
			if sinkSeen[ref] == nil {
				sinkSeen[ref] = map[ssa.Value]bool{}
			}
			if !sinkSeen[ref][v] {
				sinkSeen[ref][v] = true
				t.Sinks = append(t.Sinks, TaintSink{Instr: ref, Val: v})
			}
		}
	}
	return t
}
