package an

import (
	"go/token"
	"os"
	"path/filepath"
	"regexp"
	"strings"
	"testing"

	"golang.org/x/tools/go/ssa"
)

// TestBoundsCases runs the guard prover over testdata/bounds: every index / slice expression there carries the
// expected verdict. A "proved" that should be "unproved" is a soundness bug of the prover (it would hide a missing
// guard); the other direction is only a loss of precision, but the listed ones are idioms the rules rely on.
func TestBoundsCases(t *testing.T) {
	dir, _ := filepath.Abs("testdata/bounds")
	p, err := Load(Config{Dir: dir, Patterns: []string{"./..."}, GOOS: "linux", GOARCH: "amd64", NoNorm: true})
	if err != nil {
		t.Fatal(err)
	}
	src, err := os.ReadFile(filepath.Join(dir, "cases.go"))
	if err != nil {
		t.Fatal(err)
	}
	want := map[int]string{}
	re := regexp.MustCompile(`// (proved|unproved)\s*$`)
	for i, line := range strings.Split(string(src), "\n") {
		if m := re.FindStringSubmatch(line); m != nil {
			want[i+1] = m[1]
		}
	}
	seen := map[int]bool{}
	for fn := range p.AllFunctions() {
		if fn.Pkg == nil || fn.Pkg.Pkg.Path() != "boundscases" {
			continue
		}
		Instrs(fn, func(in ssa.Instruction) {
			switch in.(type) {
			case *ssa.IndexAddr, *ssa.Index, *ssa.Slice, *ssa.Lookup:
			default:
				return
			}
			if in.Pos() == token.NoPos {
				return
			}
			line := p.Fset.Position(in.Pos()).Line
			w, ok := want[line]
			if !ok {
				return
			}
			seen[line] = true
			proved, how := ProveInBounds(in, 64)
			if proved && w == "unproved" {
				t.Errorf("UNSOUND: cases.go:%d %s in %s reported proved (%s)", line, in.String(), fn.Name(), how)
			}
			if !proved && w == "proved" {
				t.Errorf("imprecise: cases.go:%d %s in %s not proved (%s)", line, in.String(), fn.Name(), how)
			}
		})
	}
	for line := range want {
		if !seen[line] {
			t.Errorf("cases.go:%d: no index/slice instruction found for the annotation", line)
		}
	}
}
