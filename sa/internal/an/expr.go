package an

import (
	"fmt"
	"go/constant"
	"go/token"
	"go/types"
	"strings"

	"golang.org/x/tools/go/ssa"
)

// ---------------------------------------------------------------------------
// access paths

// Path is a resolved access path: a root value followed by struct fields.
// Address-of and dereference are transparent: &s.sigs.term, s.sigs.term and a
// load of it have the same path.
type Path struct {
	Root   ssa.Value    // Parameter, FreeVar, Global, Alloc, or any other value
	Fields []*types.Var // selected fields, outermost first
}

// RootName returns a printable name of the root.
func (p Path) RootName() string {
	return rootName(p.Root)
}

func rootName(v ssa.Value) string {
	switch r := v.(type) {
	case nil:
		return "?"
	case *ssa.Parameter:
		return r.Name()
	case *ssa.FreeVar:
		return r.Name()
	case *ssa.Global:
		return r.Name()
	case *ssa.Alloc:
		if r.Comment != "" {
			return r.Comment
		}
		return r.Name()
	case *ssa.Call:
		return Render(r, 2)
	default:
		return Render(v, 2)
	}
}

// String renders root.f1.f2
func (p Path) String() string {
	var sb strings.Builder
	sb.WriteString(p.RootName())
	for _, f := range p.Fields {
		sb.WriteByte('.')
		sb.WriteString(CanonName(f))
	}
	return sb.String()
}

// FieldString renders only the field part: sigs.term
func (p Path) FieldString() string {
	names := make([]string, len(p.Fields))
	for i, f := range p.Fields {
		names[i] = CanonName(f)
	}
	return strings.Join(names, ".")
}

// Last returns the last selected field or nil.
func (p Path) Last() *types.Var {
	if len(p.Fields) == 0 {
		return nil
	}
	return p.Fields[len(p.Fields)-1]
}

// HasSuffix reports whether the path ends with the given fields.
func (p Path) HasSuffix(fs ...*types.Var) bool {
	if len(fs) > len(p.Fields) {
		return false
	}
	off := len(p.Fields) - len(fs)
	for i, f := range fs {
		if p.Fields[off+i] != f {
			return false
		}
	}
	return true
}

// SameRoot reports whether both paths start at the same variable.
func SameRoot(a, b ssa.Value) bool {
	return canonRoot(a) == canonRoot(b)
}

// canonRoot maps spilled parameters (an Alloc whose only store is the
// parameter) back to the parameter, so that "s" is one root whether or not a
// closure captured it.
func canonRoot(v ssa.Value) ssa.Value {
	if a, ok := v.(*ssa.Alloc); ok {
		if p := spilledParam(a); p != nil {
			return p
		}
	}
	return v
}

func spilledParam(a *ssa.Alloc) ssa.Value {
	var src ssa.Value
	n := 0
	for _, ref := range *a.Referrers() {
		if st, ok := ref.(*ssa.Store); ok && st.Addr == a {
			n++
			src = st.Val
		}
	}
	if n == 1 {
		if p, ok := src.(*ssa.Parameter); ok {
			return p
		}
	}
	return nil
}

// PathOf computes the access path of a value (an address or a loaded value).
func PathOf(v ssa.Value) Path {
	var fields []*types.Var
	for depth := 0; depth < 32; depth++ {
		switch x := v.(type) {
		case *ssa.FieldAddr:
			fields = append(fields, fieldVar(x.X.Type(), x.Field))
			v = x.X
			continue
		case *ssa.Field:
			fields = append(fields, fieldVar(x.X.Type(), x.Field))
			v = x.X
			continue
		case *ssa.UnOp:
			if x.Op == token.MUL {
				v = x.X
				continue
			}
		case *ssa.ChangeType:
			v = x.X
			continue
		case *ssa.Alloc:
			// struct literal &T{...} or spilled variable
			v = canonRoot(x)
		case *ssa.FreeVar:
			// free variables bind the enclosing function's variable
			if outer := freeVarBinding(x); outer != nil {
				v = outer
				if _, ok := outer.(*ssa.FreeVar); !ok {
					continue
				}
			}
		}
		break
	}
	// reverse
	for i, j := 0, len(fields)-1; i < j; i, j = i+1, j-1 {
		fields[i], fields[j] = fields[j], fields[i]
	}
	return Path{Root: v, Fields: fields}
}

// freeVarBinding returns the value bound to the free variable at the (single)
// MakeClosure of its function, or nil.
func freeVarBinding(fv *ssa.FreeVar) ssa.Value {
	fn := fv.Parent()
	if fn == nil || fn.Parent() == nil {
		return nil
	}
	idx := -1
	for i, f := range fn.FreeVars {
		if f == fv {
			idx = i
		}
	}
	if idx < 0 {
		return nil
	}
	var found ssa.Value
	n := 0
	for _, b := range fn.Parent().Blocks {
		for _, in := range b.Instrs {
			if mc, ok := in.(*ssa.MakeClosure); ok && mc.Fn == fn {
				n++
				found = mc.Bindings[idx]
			}
		}
	}
	if n == 1 {
		return found
	}
	return nil
}

func fieldVar(t types.Type, i int) *types.Var {
	st, ok := deref(t).Underlying().(*types.Struct)
	if !ok || i >= st.NumFields() {
		return nil
	}
	return st.Field(i)
}

// ---------------------------------------------------------------------------
// rendering

// Render produces a canonical textual form of an SSA value: access paths for
// field selections, resolved callee names for calls, constants by value.
// It is used for reports and for structural comparison of conditions, never
// matched against source text.
func Render(v ssa.Value, depth int) string {
	if v == nil {
		return "<nil>"
	}
	if depth <= 0 {
		return "…"
	}
	switch x := v.(type) {
	case *ssa.Parameter:
		return x.Name()
	case *ssa.FreeVar:
		return x.Name()
	case *ssa.Global:
		return x.Name()
	case *ssa.Const:
		if x.Value == nil {
			return "nil"
		}
		if x.Value.Kind() == constant.String {
			return x.Value.ExactString()
		}
		return x.Value.String()
	case *ssa.Function:
		return ShortFunc(x)
	case *ssa.Builtin:
		return x.Name()
	case *ssa.Alloc:
		if p := spilledParam(x); p != nil {
			return "&" + p.Name()
		}
		if x.Comment != "" {
			return "&" + x.Comment
		}
		return "&" + x.Name()
	case *ssa.FieldAddr:
		return "&" + pathRender(x, depth)
	case *ssa.Field:
		return pathRender(x, depth)
	case *ssa.UnOp:
		switch x.Op {
		case token.MUL:
			inner := Render(x.X, depth)
			if strings.HasPrefix(inner, "&") {
				return inner[1:]
			}
			return "*" + inner
		case token.ARROW:
			return "<-" + Render(x.X, depth-1)
		default:
			return x.Op.String() + Render(x.X, depth-1)
		}
	case *ssa.BinOp:
		return "(" + Render(x.X, depth-1) + " " + x.Op.String() + " " + Render(x.Y, depth-1) + ")"
	case *ssa.Call:
		return renderCall(&x.Call, depth)
	case *ssa.Extract:
		return Render(x.Tuple, depth) + "#" + fmt.Sprint(x.Index)
	case *ssa.Phi:
		parts := make([]string, len(x.Edges))
		for i, e := range x.Edges {
			parts[i] = Render(e, depth-2)
		}
		return "phi(" + strings.Join(parts, ", ") + ")"
	case *ssa.Convert:
		return types.TypeString(x.Type(), shortQual) + "(" + Render(x.X, depth-1) + ")"
	case *ssa.ChangeType:
		return Render(x.X, depth)
	case *ssa.ChangeInterface:
		return Render(x.X, depth)
	case *ssa.MakeInterface:
		return Render(x.X, depth)
	case *ssa.Slice:
		s := Render(x.X, depth-1) + "["
		if x.Low != nil {
			s += Render(x.Low, depth-1)
		}
		s += ":"
		if x.High != nil {
			s += Render(x.High, depth-1)
		}
		if x.Max != nil {
			s += ":" + Render(x.Max, depth-1)
		}
		return s + "]"
	case *ssa.IndexAddr:
		return "&" + Render(x.X, depth-1) + "[" + Render(x.Index, depth-1) + "]"
	case *ssa.Index:
		return Render(x.X, depth-1) + "[" + Render(x.Index, depth-1) + "]"
	case *ssa.Lookup:
		return Render(x.X, depth-1) + "[" + Render(x.Index, depth-1) + "]"
	case *ssa.TypeAssert:
		return Render(x.X, depth-1) + ".(" + types.TypeString(x.AssertedType, shortQual) + ")"
	case *ssa.MakeClosure:
		return "closure(" + Render(x.Fn, depth) + ")"
	case *ssa.MakeSlice:
		return "make(" + types.TypeString(x.Type(), shortQual) + ", " + Render(x.Len, depth-1) + ", " + Render(x.Cap, depth-1) + ")"
	case *ssa.MakeChan:
		return "make(" + types.TypeString(x.Type(), shortQual) + ", " + Render(x.Size, depth-1) + ")"
	case *ssa.MakeMap:
		return "make(" + types.TypeString(x.Type(), shortQual) + ")"
	case *ssa.Select:
		return "select"
	case *ssa.Next:
		return "next(" + Render(x.Iter, depth-1) + ")"
	case *ssa.Range:
		return "range(" + Render(x.X, depth-1) + ")"
	}
	return v.Name()
}

func shortQual(p *types.Package) string { return p.Name() }

func pathRender(v ssa.Value, depth int) string {
	p := PathOf(v)
	root := rootName(p.Root)
	switch p.Root.(type) {
	case *ssa.Parameter, *ssa.FreeVar, *ssa.Global, *ssa.Alloc:
	default:
		root = Render(p.Root, depth-1)
	}
	if len(p.Fields) == 0 {
		return root
	}
	return root + "." + p.FieldString()
}

func renderCall(c *ssa.CallCommon, depth int) string {
	var sb strings.Builder
	if c.IsInvoke() {
		sb.WriteString(Render(c.Value, depth-1))
		sb.WriteByte('.')
		sb.WriteString(c.Method.Name())
	} else if fn := c.StaticCallee(); fn != nil {
		sb.WriteString(ShortFunc(fn))
	} else {
		sb.WriteString(Render(c.Value, depth-1))
	}
	sb.WriteByte('(')
	for i, a := range c.Args {
		if i > 0 {
			sb.WriteString(", ")
		}
		sb.WriteString(Render(a, depth-1))
	}
	sb.WriteByte(')')
	return sb.String()
}

// R renders with the default depth.
func R(v ssa.Value) string { return Render(v, 6) }

// ---------------------------------------------------------------------------
// calls

// CalleeObj returns the resolved *types.Func of a call: the static callee's
// object, or the interface method for invoke-mode calls. For instantiated
// generics it returns the origin.
func CalleeObj(c *ssa.CallCommon) *types.Func {
	if c.IsInvoke() {
		return c.Method
	}
	if fn := c.StaticCallee(); fn != nil {
		return FuncObjOf(fn)
	}
	return nil
}

// FuncObjOf returns the types.Func behind an SSA function (origin for instances;
// the wrapped method for bound-method closures and thunks).
func FuncObjOf(fn *ssa.Function) *types.Func {
	if fn == nil {
		return nil
	}
	if o := fn.Origin(); o != nil {
		fn = o
	}
	if obj, ok := fn.Object().(*types.Func); ok && obj != nil {
		return obj.Origin()
	}
	return nil
}

// IsCallTo reports whether the call's resolved callee is obj.
func IsCallTo(c *ssa.CallCommon, obj *types.Func) bool {
	if obj == nil {
		return false
	}
	co := CalleeObj(c)
	return co != nil && co.Origin() == obj.Origin()
}

// CallSite is one call instruction (call, defer or go) together with the
// function it occurs in.
type CallSite struct {
	Instr ssa.CallInstruction
	In    *ssa.Function
}

// Common returns the call's common part.
func (c CallSite) Common() *ssa.CallCommon { return c.Instr.Common() }

// Recv returns the receiver argument of a method call (static or invoke).
func Recv(c *ssa.CallCommon) ssa.Value {
	if c.IsInvoke() {
		return c.Value
	}
	if sig := c.Signature(); sig != nil && sig.Recv() != nil && len(c.Args) > 0 {
		return c.Args[0]
	}
	return nil
}

// Arg returns the i-th non-receiver argument.
func Arg(c *ssa.CallCommon, i int) ssa.Value {
	off := 0
	if !c.IsInvoke() {
		if sig := c.Signature(); sig != nil && sig.Recv() != nil {
			off = 1
		}
	}
	if off+i < len(c.Args) {
		return c.Args[off+i]
	}
	return nil
}

// Calls returns the call sites in fn (optionally including nested anonymous
// functions) for which match returns true.
func Calls(fn *ssa.Function, nested bool, match func(c *ssa.CallCommon) bool) []CallSite {
	var out []CallSite
	var walk func(f *ssa.Function)
	walk = func(f *ssa.Function) {
		for _, b := range f.Blocks {
			for _, in := range b.Instrs {
				if ci, ok := in.(ssa.CallInstruction); ok {
					if match(ci.Common()) {
						out = append(out, CallSite{ci, f})
					}
				}
			}
		}
		if nested {
			for _, a := range f.AnonFuncs {
				walk(a)
			}
		}
	}
	walk(fn)
	return out
}

// CallsTo returns the sites in fn calling obj.
func CallsTo(fn *ssa.Function, nested bool, obj *types.Func) []CallSite {
	return Calls(fn, nested, func(c *ssa.CallCommon) bool { return IsCallTo(c, obj) })
}

// Instrs iterates over all instructions of fn.
func Instrs(fn *ssa.Function, f func(in ssa.Instruction)) {
	for _, b := range fn.Blocks {
		for _, in := range b.Instrs {
			f(in)
		}
	}
}

// WithAnon returns fn and all its nested anonymous functions.
func WithAnon(fn *ssa.Function) []*ssa.Function {
	out := []*ssa.Function{fn}
	for _, a := range fn.AnonFuncs {
		out = append(out, WithAnon(a)...)
	}
	return out
}

// ConstInt returns the integer value of a constant SSA value.
func ConstInt(v ssa.Value) (int64, bool) {
	for {
		switch x := v.(type) {
		case *ssa.Convert:
			v = x.X
			continue
		case *ssa.ChangeType:
			v = x.X
			continue
		}
		break
	}
	// go/ssa does not fold arithmetic on constants that only became constants through a lifted local
	// (limit := maxSize; limit+1 after a helper taking the limit was inlined)
	if b, isB := v.(*ssa.BinOp); isB {
		x, okX := ConstInt(b.X)
		y, okY := ConstInt(b.Y)
		if okX && okY {
			switch b.Op {
			case token.ADD:
				return x + y, true
			case token.SUB:
				return x - y, true
			case token.MUL:
				return x * y, true
			case token.SHL:
				if y >= 0 && y < 63 {
					return x << uint(y), true
				}
			}
		}
		return 0, false
	}
	c, ok := v.(*ssa.Const)
	if !ok || c.Value == nil {
		return 0, false
	}
	if c.Value.Kind() != constant.Int {
		return 0, false
	}
	i, exact := constant.Int64Val(c.Value)
	if !exact {
		// large unsigned
		u, ok := constant.Uint64Val(c.Value)
		if ok {
			return int64(u), true
		}
		return 0, false
	}
	return i, true
}

// IsNilConst reports whether v is the nil constant.
func IsNilConst(v ssa.Value) bool {
	c, ok := v.(*ssa.Const)
	return ok && c.Value == nil
}

// Unwrap strips conversions and interface changes.
func Unwrap(v ssa.Value) ssa.Value {
	for {
		switch x := v.(type) {
		case *ssa.ChangeType:
			v = x.X
		case *ssa.ChangeInterface:
			v = x.X
		case *ssa.MakeInterface:
			v = x.X
		case *ssa.Convert:
			v = x.X
		default:
			return v
		}
	}
}

// AtomicAccess is one sync/atomic operation, in function form
// (atomic.LoadUint32(&x.f)) or method form on a typed atomic (x.f.Load()).
type AtomicAccess struct {
	Kind string    // load | store | add | swap | cas | and | or
	Addr ssa.Value // address of the word
	Val  ssa.Value // stored / added / new value (nil for loads)
}

// AtomicOpOf recognises a sync/atomic operation.
func AtomicOpOf(cc *ssa.CallCommon) (AtomicAccess, bool) {
	obj := CalleeObj(cc)
	if obj == nil || obj.Pkg() == nil || obj.Pkg().Path() != "sync/atomic" || len(cc.Args) == 0 || cc.IsInvoke() {
		return AtomicAccess{}, false
	}
	name := obj.Name()
	kind := ""
	for _, k := range [][2]string{{"CompareAndSwap", "cas"}, {"Load", "load"}, {"Store", "store"}, {"Add", "add"}, {"Swap", "swap"}, {"And", "and"}, {"Or", "or"}} {
		if strings.HasPrefix(name, k[0]) {
			kind = k[1]
			break
		}
	}
	if kind == "" {
		return AtomicAccess{}, false
	}
	a := AtomicAccess{Kind: kind, Addr: cc.Args[0]}
	switch kind {
	case "store", "add", "swap", "and", "or":
		if len(cc.Args) >= 2 {
			a.Val = cc.Args[1]
		}
	case "cas":
		if len(cc.Args) >= 3 {
			a.Val = cc.Args[2]
		}
	}
	return a, true
}

// AtomicOn reports the atomic operation of an instruction if it targets the given field.
func AtomicOn(in ssa.Instruction, f *types.Var) (AtomicAccess, bool) {
	ci, ok := in.(ssa.CallInstruction)
	if !ok {
		return AtomicAccess{}, false
	}
	a, ok := AtomicOpOf(ci.Common())
	if !ok {
		return AtomicAccess{}, false
	}
	if fv := PathOf(a.Addr).Last(); fv == nil || fv.Origin() != f.Origin() {
		return AtomicAccess{}, false
	}
	return a, true
}
