package an

import (
	"bufio"
	"encoding/json"
	"fmt"
	"os"
	"path/filepath"
	"regexp"
	"sort"
	"strconv"
	"strings"
	"time"

	"golang.org/x/tools/go/ssa"
)

// Verdicts of an obligation.
const (
	Discharged = "discharged"
	Violated   = "violated"
	Known      = "known-finding"
)

// Obligation is one decided instance of a rule on one resolved construct.
type Obligation struct {
	Rule      string `json:"rule"`
	Construct string `json:"construct"` // stable key: resolved function + resolved object, never a line
	Pos       string `json:"pos"`
	Verdict   string `json:"verdict"`
	Detail    string `json:"detail,omitempty"`
	Config    string `json:"config,omitempty"`
	Trivial   bool   `json:"-"`
}

// Key is the identity used for known findings and de-duplication.
func (o *Obligation) Key() string { return o.Rule + " | " + o.Construct }

// Report collects what one run decided.
type Report struct {
	Prop       string
	Tier       string
	Obls       []*Obligation
	Undecided  []string
	Notes      []string
	Funcs      map[string]bool // functions analysed
	Configs    []string
	RuleDocs   map[string]string
	Canaries   int
	CanaryFail []string
	Extra      map[string]any
}

// NewReport makes an empty report.
func NewReport(prop, tier string) *Report {
	return &Report{Prop: prop, Tier: tier, Funcs: map[string]bool{}, RuleDocs: map[string]string{}, Extra: map[string]any{}}
}

// Ctx is what a rule sees.
type Ctx struct {
	P    *Prog
	Rep  *Report
	Rule string // current rule id
}

// Doc records the one-line statement of the current rule.
func (c *Ctx) Doc(s string) { c.Rep.RuleDocs[c.Rule] = s }

// Analysed records that a function body was analysed.
func (c *Ctx) Analysed(fns ...*ssa.Function) {
	for _, fn := range fns {
		if fn != nil {
			c.Rep.Funcs[c.P.FuncName(fn)] = true
		}
	}
}

func (c *Ctx) add(verdict, construct, pos, detail string) *Obligation {
	o := &Obligation{Rule: c.Rule, Construct: construct, Pos: pos, Verdict: verdict, Detail: detail, Config: c.P.Cfg.short()}
	c.Rep.Obls = append(c.Rep.Obls, o)
	return o
}

func (cfg Config) short() string {
	t := cfg.Tags
	if t == "" {
		t = "-"
	}
	return fmt.Sprintf("%s:%s/%s:%s", filepath.Base(cfg.Dir), cfg.GOOS, cfg.GOARCH, t)
}

// Ok records a discharged obligation.
func (c *Ctx) Ok(construct, pos, detail string) { c.add(Discharged, construct, pos, detail) }

// Bad records a violated obligation.
func (c *Ctx) Bad(construct, pos, detail string) { c.add(Violated, construct, pos, detail) }

// Check records discharged or violated depending on ok.
func (c *Ctx) Check(ok bool, construct, pos, good, bad string) bool {
	if ok {
		c.Ok(construct, pos, good)
	} else {
		c.Bad(construct, pos, bad)
	}
	return ok
}

// Undecided records that the rule could not be decided (exit 2, never a VIOLATION).
func (c *Ctx) Undecided(format string, args ...any) {
	c.Rep.Undecided = append(c.Rep.Undecided, c.Rule+": "+fmt.Sprintf(format, args...))
}

// Note adds a free-text note to the evidence.
func (c *Ctx) Note(format string, args ...any) {
	c.Rep.Notes = append(c.Rep.Notes, c.Rule+": "+fmt.Sprintf(format, args...))
}

// Floor demands a minimum number of matched sites for a rule: below it the
// rule no longer sees the construct it was written for.
func (c *Ctx) Floor(what string, want, got int) bool {
	if got < want {
		c.Undecided("floor not met: %s expected>=%d got %d", what, want, got)
		return false
	}
	return true
}

// Fn resolves an anchor function or panics with *Unresolved (reported as UNDECIDED).
func (c *Ctx) Fn(pkg, name string) *ssa.Function {
	fn, err := c.P.Func(pkg, name)
	if err != nil {
		panic(err)
	}
	if len(fn.Blocks) == 0 {
		panic(&Unresolved{pkg + "." + name + " has no body"})
	}
	c.Analysed(fn)
	return fn
}

// At renders the position of an instruction.
func (c *Ctx) At(in ssa.Instruction) string { return c.P.InstrPos(in) }

// ---------------------------------------------------------------------------
// known findings

// Finding is one line of /verif/known_findings.txt.
type Finding struct {
	Status   string // known | fixed
	Property string
	Key      string // rule | construct  (known only; optional for fixed)
	Commit   string
	What     string
}

var kvRe = regexp.MustCompile(`^(known|fixed):\s+property=(C[0-9]+)\s+(.*)$`)

// LoadFindings parses the known-findings file. Missing file = no findings.
func LoadFindings(path string) ([]Finding, error) {
	f, err := os.Open(path)
	if err != nil {
		if os.IsNotExist(err) {
			return nil, nil
		}
		return nil, err
	}
	defer f.Close()
	var out []Finding
	sc := bufio.NewScanner(f)
	sc.Buffer(make([]byte, 1<<20), 1<<20)
	for sc.Scan() {
		line := strings.TrimSpace(sc.Text())
		if line == "" || strings.HasPrefix(line, "#") {
			continue
		}
		m := kvRe.FindStringSubmatch(line)
		if m == nil {
			return nil, fmt.Errorf("known findings: cannot parse line %q", line)
		}
		fd := Finding{Status: m[1], Property: m[2]}
		rest := m[3]
		if fd.Status == "known" {
			// known: property=Cxx key=<rule | construct> :: what fails
			if !strings.HasPrefix(rest, "key=") {
				return nil, fmt.Errorf("known findings: known entry without key: %q", line)
			}
			rest = strings.TrimPrefix(rest, "key=")
			parts := strings.SplitN(rest, " :: ", 2)
			fd.Key = strings.TrimSpace(parts[0])
			if len(parts) > 1 {
				fd.What = strings.TrimSpace(parts[1])
			}
		} else {
			parts := strings.SplitN(rest, " ", 2)
			fd.Commit = parts[0]
			if len(parts) > 1 {
				fd.What = parts[1]
			}
		}
		out = append(out, fd)
	}
	return out, sc.Err()
}

// ---------------------------------------------------------------------------
// finishing a run

// Result is the serialisable outcome of one configuration run.
type Result struct {
	Prop      string            `json:"prop"`
	Config    string            `json:"config"`
	Obls      []*Obligation     `json:"obligations"`
	Undecided []string          `json:"undecided"`
	Notes     []string          `json:"notes"`
	Funcs     []string          `json:"funcs"`
	RuleDocs  map[string]string `json:"rule_docs"`
	Extra     map[string]any    `json:"extra,omitempty"`
}

// ToResult converts a report.
func (r *Report) ToResult(cfg string) *Result {
	res := &Result{Prop: r.Prop, Config: cfg, Obls: r.Obls, Undecided: r.Undecided, Notes: r.Notes, RuleDocs: r.RuleDocs, Extra: r.Extra}
	for f := range r.Funcs {
		res.Funcs = append(res.Funcs, f)
	}
	sort.Strings(res.Funcs)
	return res
}

// Merge folds another configuration's result into the report.
func (r *Report) Merge(res *Result) {
	r.Obls = append(r.Obls, res.Obls...)
	for _, u := range res.Undecided {
		r.Undecided = append(r.Undecided, "["+res.Config+"] "+u)
	}
	for _, n := range res.Notes {
		r.Notes = append(r.Notes, "["+res.Config+"] "+n)
	}
	for _, f := range res.Funcs {
		r.Funcs[f] = true
	}
	for k, v := range res.RuleDocs {
		r.RuleDocs[k] = v
	}
	for k, v := range res.Extra {
		if _, ok := r.Extra[k]; !ok {
			r.Extra[k] = v
		}
	}
	r.Configs = append(r.Configs, res.Config)
}

var posRe = regexp.MustCompile(`^(.*):(\d+)$`)

func posLess(a, b string) bool {
	ma, mb := posRe.FindStringSubmatch(a), posRe.FindStringSubmatch(b)
	if ma == nil || mb == nil {
		return a < b
	}
	if ma[1] != mb[1] {
		return ma[1] < mb[1]
	}
	la, _ := strconv.Atoi(ma[2])
	lb, _ := strconv.Atoi(mb[2])
	return la < lb
}

// Finish applies known findings, prints the report, writes evidence and the
// violations file, and returns the exit code.
func (r *Report) Finish(verifDir string, seed int64, start time.Time, levelText string, assumptions, trusted []string, checkerCmd string) int {
	findings, ferr := LoadFindings(filepath.Join(verifDir, "known_findings.txt"))
	if ferr != nil {
		r.Undecided = append(r.Undecided, "known findings file: "+ferr.Error())
	}
	knownKeys := map[string]Finding{}
	for _, f := range findings {
		if f.Status == "known" && f.Property == r.Prop {
			knownKeys[f.Key] = f
		}
	}
	sort.SliceStable(r.Obls, func(i, j int) bool {
		a, b := r.Obls[i], r.Obls[j]
		if a.Pos != b.Pos {
			return posLess(a.Pos, b.Pos)
		}
		if a.Rule != b.Rule {
			return a.Rule < b.Rule
		}
		if a.Construct != b.Construct {
			return a.Construct < b.Construct
		}
		return a.Config < b.Config
	})
	// de-duplicate across configurations for printing; count all
	type agg struct {
		o    *Obligation
		cfgs []string
	}
	seen := map[string]*agg{}
	var order []string
	for _, o := range r.Obls {
		if o.Verdict == Violated {
			if _, ok := knownKeys[o.Key()]; ok {
				o.Verdict = Known
			}
		}
		k := o.Key() + " | " + o.Verdict
		if a, ok := seen[k]; ok {
			a.cfgs = append(a.cfgs, o.Config)
			continue
		}
		seen[k] = &agg{o: o, cfgs: []string{o.Config}}
		order = append(order, k)
	}
	nViol, nKnown, nDis := 0, 0, 0
	var viols []*Obligation
	knownPrinted := map[string]bool{}
	for _, k := range order {
		a := seen[k]
		o := a.o
		cfgNote := ""
		if len(r.Configs) > 1 {
			cfgNote = fmt.Sprintf("  [%d cfg]", len(a.cfgs))
		}
		fmt.Printf("%-34s %-9s %-13s %s%s\n", o.Pos, o.Rule, o.Verdict, o.Construct, cfgNote)
		if o.Detail != "" && o.Verdict != Discharged {
			fmt.Printf("    %s\n", o.Detail)
		}
		switch o.Verdict {
		case Violated:
			nViol++
			viols = append(viols, o)
		case Known:
			nKnown++
			if !knownPrinted[o.Key()] {
				knownPrinted[o.Key()] = true
				f := knownKeys[o.Key()]
				fmt.Printf("KNOWN-FINDING: property=%s %s :: %s (%s)\n", r.Prop, o.Key(), f.What, o.Pos)
			}
		default:
			nDis++
		}
	}
	total := len(order)
	rules := map[string][2]int{}
	for _, k := range order {
		o := seen[k].o
		c := rules[o.Rule]
		c[0]++
		if o.Verdict == Discharged {
			c[1]++
		}
		rules[o.Rule] = c
	}
	var ruleIDs []string
	for id := range rules {
		ruleIDs = append(ruleIDs, id)
	}
	sort.Strings(ruleIDs)
	fmt.Printf("-- %s tier=%s: %d obligations over %d functions in %d configuration(s): %d discharged, %d known-finding, %d violated, %d undecided\n",
		r.Prop, r.Tier, total, len(r.Funcs), len(r.Configs), nDis, nKnown, nViol, len(r.Undecided))
	for _, id := range ruleIDs {
		fmt.Printf("   %-9s %3d/%-3d %s\n", id, rules[id][1], rules[id][0], r.RuleDocs[id])
	}
	for _, u := range r.Undecided {
		fmt.Printf("UNDECIDED %s\n", u)
	}
	for _, c := range r.CanaryFail {
		fmt.Printf("UNDECIDED canary silent: %s\n", c)
	}

	// violations file
	outDir := filepath.Join(verifDir, "out")
	_ = os.MkdirAll(outDir, 0o755)
	violPath := filepath.Join(outDir, r.Prop+".violations.json")
	if nViol > 0 {
		b, _ := json.MarshalIndent(map[string]any{"property": r.Prop, "tier": r.Tier, "violations": viols}, "", " ")
		_ = os.WriteFile(violPath, b, 0o644)
	} else {
		_ = os.Remove(violPath)
	}

	// evidence
	var samples []any
	perRule := map[string]int{}
	for _, k := range order {
		o := seen[k].o
		if perRule[o.Rule] >= 3 {
			continue
		}
		perRule[o.Rule]++
		samples = append(samples, map[string]string{"rule": o.Rule, "construct": o.Construct, "pos": o.Pos, "verdict": o.Verdict, "detail": o.Detail})
	}
	ruleCov := map[string]any{}
	for _, id := range ruleIDs {
		ruleCov[id] = map[string]any{"statement": r.RuleDocs[id], "obligations": rules[id][0], "discharged": rules[id][1]}
	}
	var funcs []string
	for f := range r.Funcs {
		funcs = append(funcs, f)
	}
	sort.Strings(funcs)
	distinct := map[string]bool{}
	for _, k := range order {
		o := seen[k].o
		if !o.Trivial {
			distinct[o.Key()] = true
		}
	}
	var knownList []string
	for k := range knownPrinted {
		knownList = append(knownList, k)
	}
	sort.Strings(knownList)
	cov := map[string]any{
		"explanation":         levelText,
		"obligations":         total,
		"discharged":          nDis,
		"known_findings":      knownList,
		"evaluations":         len(r.Obls),
		"distinct_nontrivial": len(distinct),
		"rule":                "one obligation per (rule, resolved construct) pair per build configuration; evaluations counts all of them, distinct_nontrivial the distinct (rule, construct) keys",
		"samples":             samples,
		"checker_cmd":         checkerCmd,
		"trusted_base":        trusted,
		"rules":               ruleCov,
		"functions_analysed":  funcs,
		"configurations":      r.Configs,
		"canaries_run":        r.Canaries,
		"canaries_silent":     r.CanaryFail,
		"undecided":           r.Undecided,
		"notes":               r.Notes,
		"exhaustive":          false,
	}
	for k, v := range r.Extra {
		cov[k] = v
	}
	ev := map[string]any{
		"property_id": r.Prop,
		"tier":        r.Tier,
		"seed":        seed,
		"level":       "other",
		"coverage":    cov,
		"assumptions": assumptions,
		"wall_s":      time.Since(start).Seconds(),
		"violations":  nViol,
	}
	evDir := filepath.Join(verifDir, "evidence")
	_ = os.MkdirAll(evDir, 0o755)
	b, _ := json.MarshalIndent(ev, "", " ")
	if err := os.WriteFile(filepath.Join(evDir, r.Prop+".json"), append(b, '\n'), 0o644); err != nil {
		fmt.Printf("UNDECIDED cannot write evidence: %v\n", err)
		return 2
	}

	if nViol > 0 {
		fmt.Printf("VIOLATION property=%s replay=%s\n", r.Prop, violPath)
		return 1
	}
	if len(r.Undecided) > 0 || len(r.CanaryFail) > 0 {
		return 2
	}
	return 0
}
