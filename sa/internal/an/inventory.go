package an

// The typed inventory of the reviewed tree (knowninv.txt) lets the loader
// recognise consistent renames: a function (or struct field) of the inventory
// that is gone while exactly one new one with the same receiver and signature
// (the same struct and type) appeared is the same entity under a new name.
// Anchors given by name then resolve to the renamed entity, reviewed tables
// keyed by name keep matching, and the renamed function is not mistaken for a
// new helper by the normaliser.

import (
	_ "embed"
	"fmt"
	"go/ast"
	"go/types"
	"sort"
	"strings"

	"golang.org/x/tools/go/packages"
)

//go:embed knowninv.txt
var knownInvTxt string

type invFunc struct {
	pkg, name, sig string
	calls          []string // names of the functions it references (call fingerprint)
}
type invConst struct{ pkg, name, ty, val string }
type invType struct{ pkg, name, fp string }
type invField struct {
	pkg, typ string
	idx      int
	name, ty string
}

var (
	invFuncs  []invFunc
	invFields []invField
	invConsts []invConst
	invTypes  []invType
)

func init() {
	for _, l := range strings.Split(knownInvTxt, "\n") {
		f := strings.Split(l, "\t")
		switch {
		case (len(f) == 4 || len(f) == 5) && f[0] == "F":
			fn := invFunc{pkg: f[1], name: f[2], sig: f[3]}
			if len(f) == 5 && f[4] != "" {
				fn.calls = strings.Split(f[4], ",")
			}
			invFuncs = append(invFuncs, fn)
		case len(f) == 4 && f[0] == "T":
			invTypes = append(invTypes, invType{f[1], f[2], f[3]})
		case len(f) == 5 && f[0] == "K":
			invConsts = append(invConsts, invConst{f[1], f[2], f[3], f[4]})
		case len(f) == 6 && f[0] == "S":
			var idx int
			fmt.Sscan(f[3], &idx)
			invFields = append(invFields, invField{f[1], f[2], idx, f[4], f[5]})
		}
	}
}

func fullQual(p *types.Package) string { return p.Path() }

// sigString renders a signature without parameter names.
func sigString(sig *types.Signature) string {
	var sb strings.Builder
	tuple := func(t *types.Tuple, variadic bool) {
		sb.WriteString("(")
		for i := 0; i < t.Len(); i++ {
			if i > 0 {
				sb.WriteString(", ")
			}
			ty := t.At(i).Type()
			if variadic && i == t.Len()-1 {
				if sl, ok := ty.(*types.Slice); ok {
					sb.WriteString("..." + types.TypeString(sl.Elem(), fullQual))
					continue
				}
			}
			sb.WriteString(types.TypeString(ty, fullQual))
		}
		sb.WriteString(")")
	}
	tuple(sig.Params(), sig.Variadic())
	tuple(sig.Results(), false)
	return sb.String()
}

// funcName is the inventory name of a function object: "name" or "Recv.name".
func funcName(f *types.Func) string {
	sig, _ := f.Type().(*types.Signature)
	if sig != nil && sig.Recv() != nil {
		t := sig.Recv().Type()
		if p, ok := t.(*types.Pointer); ok {
			t = p.Elem()
		}
		if n, ok := t.(*types.Named); ok {
			return n.Obj().Name() + "." + f.Name()
		}
	}
	return f.Name()
}

// declaredFuncs lists the functions and methods declared in a package.
func declaredFuncs(tp *types.Package) []*types.Func {
	var out []*types.Func
	sc := tp.Scope()
	for _, nm := range sc.Names() {
		switch o := sc.Lookup(nm).(type) {
		case *types.Func:
			out = append(out, o)
		case *types.TypeName:
			if o.IsAlias() {
				continue
			}
			if n, ok := o.Type().(*types.Named); ok {
				for i := 0; i < n.NumMethods(); i++ {
					out = append(out, n.Method(i))
				}
			}
		}
	}
	return out
}

// InventoryLines renders the typed inventory of the given packages.
func InventoryLines(pkgs []*packages.Package) []string {
	var out []string
	for _, pk := range pkgs {
		if pk.Types == nil {
			continue
		}
		fps := callFingerprints(pk)
		for _, f := range declaredFuncs(pk.Types) {
			sig, _ := f.Type().(*types.Signature)
			if sig == nil {
				continue
			}
			out = append(out, fmt.Sprintf("F\t%s\t%s\t%s\t%s", pk.PkgPath, funcName(f), sigString(sig), strings.Join(fps[f], ",")))
		}
		sc := pk.Types.Scope()
		for _, nm := range sc.Names() {
			tn, ok := sc.Lookup(nm).(*types.TypeName)
			if !ok || tn.IsAlias() {
				continue
			}
			st, ok := tn.Type().Underlying().(*types.Struct)
			if !ok {
				continue
			}
			walkStruct(st, tn.Name(), 0, func(owner string, i int, f *types.Var) {
				out = append(out, fmt.Sprintf("S\t%s\t%s\t%d\t%s\t%s", pk.PkgPath, owner, i, f.Name(), types.TypeString(types.Unalias(f.Type()), fullQual)))
			})
		}
		for _, nm := range sc.Names() {
			if tn, ok := sc.Lookup(nm).(*types.TypeName); ok && !tn.IsAlias() {
				out = append(out, fmt.Sprintf("T\t%s\t%s\t%s", pk.PkgPath, tn.Name(), typeFingerprint(tn)))
			}
		}
		for _, nm := range sc.Names() {
			if k, ok := sc.Lookup(nm).(*types.Const); ok {
				out = append(out, fmt.Sprintf("K\t%s\t%s\t%s\t%s", pk.PkgPath, k.Name(), types.TypeString(k.Type(), fullQual), k.Val().ExactString()))
			}
		}
	}
	sort.Strings(out)
	return out
}

// callFingerprints returns, per declared function, the sorted names of the functions and methods its
// body refers to. A renamed function keeps (most of) them; an unrelated function with the same signature does not.
func callFingerprints(pk *packages.Package) map[*types.Func][]string {
	out := map[*types.Func][]string{}
	if pk.TypesInfo == nil {
		return out
	}
	for _, file := range pk.Syntax {
		for _, d := range file.Decls {
			fd, ok := d.(*ast.FuncDecl)
			if !ok || fd.Body == nil {
				continue
			}
			obj, _ := pk.TypesInfo.Defs[fd.Name].(*types.Func)
			if obj == nil {
				continue
			}
			set := map[string]bool{}
			ast.Inspect(fd.Body, func(x ast.Node) bool {
				id, ok := x.(*ast.Ident)
				if !ok {
					return true
				}
				if f, ok := pk.TypesInfo.Uses[id].(*types.Func); ok {
					set[f.Name()] = true
				}
				return true
			})
			var l []string
			for k := range set {
				l = append(l, k)
			}
			sort.Strings(l)
			out[obj] = l
		}
	}
	return out
}

func jaccard(a, b []string) float64 {
	if len(a) == 0 && len(b) == 0 {
		return 1
	}
	in := map[string]bool{}
	for _, x := range a {
		in[x] = true
	}
	n := 0
	for _, x := range b {
		if in[x] {
			n++
		}
	}
	return float64(n) / float64(len(a)+len(b)-n)
}

// typeFingerprint describes a named type independently of its own name: the
// underlying type (with the type's name blanked) and its method names.
func typeFingerprint(tn *types.TypeName) string {
	self := tn.Name()
	qual := func(p *types.Package) string { return p.Path() }
	u := types.TypeString(tn.Type().Underlying(), qual)
	full := ""
	if tn.Pkg() != nil {
		full = tn.Pkg().Path() + "." + self
	}
	if full != "" {
		u = strings.ReplaceAll(u, full, "·")
	}
	var ms []string
	if n, ok := tn.Type().(*types.Named); ok {
		for i := 0; i < n.NumMethods(); i++ {
			ms = append(ms, n.Method(i).Name())
		}
	}
	sort.Strings(ms)
	return u + " {" + strings.Join(ms, ",") + "}"
}

// walkStruct visits the fields of a struct and of the anonymous struct types
// nested in it; owner is "Type" or "Type.field.field".
func walkStruct(st *types.Struct, owner string, depth int, visit func(owner string, i int, f *types.Var)) {
	for i := 0; i < st.NumFields(); i++ {
		f := st.Field(i)
		visit(owner, i, f)
		if inner, ok := f.Type().(*types.Struct); ok && depth < 4 {
			walkStruct(inner, owner+"."+f.Name(), depth+1, visit)
		}
	}
}

// Renames maps renamed entities back to their inventory names.
type Renames struct {
	Funcs     map[string]*types.Func     // "pkg\tOldName" -> renamed function
	Fields    map[string]*types.Var      // "pkg\tType\toldField" -> renamed field
	Consts    map[string]*types.Const    // "pkg\toldName" -> renamed constant
	Types     map[string]*types.TypeName // "pkg\toldName" -> renamed type
	CanonT    map[*types.TypeName]string // renamed type -> old name
	CanonF    map[*types.Func]string     // renamed function -> old simple name (method or function name)
	CanonV    map[*types.Var]string      // renamed field -> old name
	NewNames  map[string]bool            // "pkg\tRecv.new" keys that are renames (not new helpers)
	CanonFull map[*types.Func]string     // function that used to be a method (or the reverse) -> its inventory display name
	RecvOld   map[string]string          // "pkg\tNewTypeName" -> inventory name of the type
	Notes     []string
}

// canon is consulted by ShortFunc / FieldName / CanonName.
var canon = &Renames{}

// CanonName returns the inventory name of a (possibly renamed) module entity.
func CanonName(o types.Object) string {
	switch x := o.(type) {
	case *types.Func:
		if s, ok := canon.CanonF[x.Origin()]; ok {
			return s
		}
	case *types.Var:
		if s, ok := canon.CanonV[x.Origin()]; ok {
			return s
		}
	}
	if o == nil {
		return ""
	}
	return o.Name()
}

// FindRenames compares the loaded packages with the inventory.
func FindRenames(pkgs []*packages.Package) *Renames {
	r := &Renames{RecvOld: map[string]string{}, Types: map[string]*types.TypeName{}, CanonT: map[*types.TypeName]string{}, Consts: map[string]*types.Const{}, Funcs: map[string]*types.Func{}, Fields: map[string]*types.Var{}, CanonF: map[*types.Func]string{}, CanonV: map[*types.Var]string{}, NewNames: map[string]bool{}, CanonFull: map[*types.Func]string{}}
	invByPkg := map[string][]invFunc{}
	for _, f := range invFuncs {
		invByPkg[f.pkg] = append(invByPkg[f.pkg], f)
	}
	fldByType := map[string][]invField{}
	for _, f := range invFields {
		fldByType[f.pkg+"\t"+f.typ] = append(fldByType[f.pkg+"\t"+f.typ], f)
	}
	for _, pk := range pkgs {
		if pk.Types == nil {
			continue
		}
		// renamed types: same structure and method names under a new name
		{
			sc := pk.Types.Scope()
			var inv []invType
			known := map[string]bool{}
			for _, t := range invTypes {
				if t.pkg == pk.PkgPath {
					inv = append(inv, t)
					known[t.name] = true
				}
			}
			for _, m := range inv {
				if sc.Lookup(m.name) != nil {
					continue
				}
				var cands []*types.TypeName
				for _, nm := range sc.Names() {
					tn, ok := sc.Lookup(nm).(*types.TypeName)
					if !ok || tn.IsAlias() || known[tn.Name()] {
						continue
					}
					if typeFingerprint(tn) == m.fp {
						cands = append(cands, tn)
					}
				}
				same := 0
				for _, m2 := range inv {
					if sc.Lookup(m2.name) == nil && m2.fp == m.fp {
						same++
					}
				}
				if len(cands) == 1 && same == 1 {
					r.Types[pk.PkgPath+"\t"+m.name] = cands[0]
					r.CanonT[cands[0]] = m.name
					r.RecvOld[pk.PkgPath+"\t"+cands[0].Name()] = m.name
					r.Notes = append(r.Notes, fmt.Sprintf("%s.%s is type %s renamed (same structure and methods)", pk.PkgPath, cands[0].Name(), m.name))
				}
			}
		}
		canonRecv := func(name string) string {
			// "Recv.method" with the receiver's inventory name
			i := strings.Index(name, ".")
			if i < 0 {
				return name
			}
			if tn, ok := pk.Types.Scope().Lookup(name[:i]).(*types.TypeName); ok {
				if old, ok := r.CanonT[tn]; ok {
					return old + name[i:]
				}
			}
			return name
		}
		inv := invByPkg[pk.PkgPath]
		if len(inv) > 0 {
			known := map[string]invFunc{}
			for _, f := range inv {
				known[f.name] = f
			}
			cur := map[string]*types.Func{}
			for _, f := range declaredFuncs(pk.Types) {
				cur[canonRecv(funcName(f))] = f
			}
			var missing []invFunc
			for _, f := range inv {
				if _, ok := cur[f.name]; !ok {
					missing = append(missing, f)
				}
			}
			var extra []*types.Func
			for nm, f := range cur {
				if _, ok := known[nm]; !ok {
					extra = append(extra, f)
				}
			}
			recvOf := func(name string) string {
				if i := strings.Index(name, "."); i >= 0 {
					return name[:i]
				}
				return ""
			}
			fps := callFingerprints(pk)
			// the renamed function's own old name may occur in its callers' fingerprints only; in its own
			// body (recursion aside) names are stable, so compare directly
			for _, m := range missing {
				var cands []*types.Func
				for _, e := range extra {
					sig, _ := e.Type().(*types.Signature)
					if sig == nil || recvOf(canonRecv(funcName(e))) != recvOf(m.name) || sigString(sig) != m.sig {
						continue
					}
					if jaccard(m.calls, fps[e]) < 0.5 {
						continue // same shape, different body: another function, not a rename
					}
					cands = append(cands, e)
				}
				// the candidate must not be claimed by another missing function with the same shape
				same := 0
				for _, m2 := range missing {
					if recvOf(m2.name) == recvOf(m.name) && m2.sig == m.sig {
						same++
					}
				}
				// a method turned into a function of the same name that takes the former receiver as its first
				// argument (or the reverse): same name, same remaining signature, same body
				if len(cands) == 0 {
					base, rcv := m.name, recvOf(m.name)
					if rcv != "" {
						base = m.name[len(rcv)+1:]
					}
					for _, e := range extra {
						sig, _ := e.Type().(*types.Signature)
						if sig == nil || e.Name() != base || jaccard(m.calls, fps[e]) < 0.5 {
							continue
						}
						es := sigString(sig)
						if rcv != "" && sig.Recv() == nil {
							// method -> function: "(recv, params)(results)"
							rest := strings.TrimPrefix(m.sig, "(")
							for _, star := range []string{"*", ""} {
								want := "(" + star + pk.PkgPath + "." + rcv
								if strings.HasPrefix(rest, ")") {
									want += rest
								} else {
									want += ", " + rest
								}
								if es == want {
									cands = append(cands, e)
									r.CanonFull[e.Origin()] = "(" + star + rcv + ")." + base
								}
							}
						}
						if rcv == "" && sig.Recv() != nil {
							// function -> method: the inventory signature starts with the receiver type
							rn := recvOf(canonRecv(funcName(e)))
							for _, star := range []string{"*", ""} {
								pre := "(" + star + pk.PkgPath + "." + rn
								if strings.HasPrefix(m.sig, pre+", ") && "("+strings.TrimPrefix(m.sig, pre+", ") == es {
									cands = append(cands, e)
								}
								if strings.HasPrefix(m.sig, pre+")") && "()"+strings.TrimPrefix(m.sig, pre+")") == es {
									cands = append(cands, e)
								}
							}
						}
					}
					if len(cands) == 1 {
						same = 1
					}
				}
				if len(cands) == 1 && same == 1 {
					e := cands[0]
					r.Funcs[pk.PkgPath+"\t"+m.name] = e
					old := m.name
					if i := strings.Index(old, "."); i >= 0 {
						old = old[i+1:]
					}
					r.CanonF[e.Origin()] = old
					r.NewNames[pk.PkgPath+"\t"+funcName(e)] = true
					r.Notes = append(r.Notes, fmt.Sprintf("%s.%s is %s renamed (same receiver and signature)", pk.PkgPath, funcName(e), m.name))
				}
			}
		}
		sc := pk.Types.Scope()
		for _, nm := range sc.Names() {
			tn, ok := sc.Lookup(nm).(*types.TypeName)
			if !ok || tn.IsAlias() {
				continue
			}
			st, ok := tn.Type().Underlying().(*types.Struct)
			if !ok {
				continue
			}
			// current fields per owner ("Type", "Type.nested")
			curBy := map[string][]*types.Var{}
			walkStruct(st, tn.Name(), 0, func(owner string, i int, f *types.Var) {
				curBy[owner] = append(curBy[owner], f)
			})
			for owner, fields := range curBy {
				inv := fldByType[pk.PkgPath+"\t"+owner]
				if len(inv) == 0 {
					continue
				}
				known := map[string]bool{}
				for _, f := range inv {
					known[f.name] = true
				}
				cur := map[string]*types.Var{}
				for _, f := range fields {
					cur[f.Name()] = f
				}
				for _, m := range inv {
					if _, ok := cur[m.name]; ok {
						continue
					}
					var cands []*types.Var
					for _, f := range fields {
						if known[f.Name()] || types.TypeString(types.Unalias(f.Type()), fullQual) != m.ty {
							continue
						}
						cands = append(cands, f)
					}
					same := 0
					for _, m2 := range inv {
						if _, ok := cur[m2.name]; !ok && m2.ty == m.ty {
							same++
						}
					}
					if len(cands) == 1 && same == 1 {
						r.Fields[pk.PkgPath+"\t"+owner+"\t"+m.name] = cands[0]
						r.CanonV[cands[0].Origin()] = m.name
						r.Notes = append(r.Notes, fmt.Sprintf("%s.%s.%s is field %s renamed (same struct and type)", pk.PkgPath, owner, cands[0].Name(), m.name))
					}
				}
			}
		}
		// constants: same type and value under a new name
		{
			var inv []invConst
			for _, k := range invConsts {
				if k.pkg == pk.PkgPath {
					inv = append(inv, k)
				}
			}
			known := map[string]bool{}
			for _, k := range inv {
				known[k.name] = true
			}
			for _, m := range inv {
				if sc.Lookup(m.name) != nil {
					continue
				}
				var cands []*types.Const
				for _, nm := range sc.Names() {
					k, ok := sc.Lookup(nm).(*types.Const)
					if !ok || known[k.Name()] {
						continue
					}
					if types.TypeString(k.Type(), fullQual) == m.ty && k.Val().ExactString() == m.val {
						cands = append(cands, k)
					}
				}
				same := 0
				for _, m2 := range inv {
					if sc.Lookup(m2.name) == nil && m2.ty == m.ty && m2.val == m.val {
						same++
					}
				}
				if len(cands) == 1 && same == 1 {
					r.Consts[pk.PkgPath+"\t"+m.name] = cands[0]
					r.Notes = append(r.Notes, fmt.Sprintf("%s.%s is constant %s renamed (same type and value)", pk.PkgPath, cands[0].Name(), m.name))
				}
			}
		}
	}
	sort.Strings(r.Notes)
	return r
}
