package an

import (
	"go/types"
	"sync"

	"golang.org/x/tools/go/ssa"
)

// Statistics counters: a struct field that is only ever added to / stored atomically and whose loads flow nowhere
// but into return values (a Stats() accessor). Updating one is invisible to the protocol: no decision reads it.

var (
	counterMu    sync.Mutex
	counterCache = map[*Prog]map[*types.Var]bool{}
)

// IsCounterOp reports whether the call is an atomic add/store on such a write-only statistics field, with its own
// result unused.
func (p *Prog) IsCounterOp(ci ssa.CallInstruction) bool {
	a, ok := AtomicOpOf(ci.Common())
	if !ok || (a.Kind != "add" && a.Kind != "store") {
		return false
	}
	if v := ci.Value(); v != nil && v.Referrers() != nil && len(*v.Referrers()) > 0 {
		return false
	}
	f := PathOf(a.Addr).Last()
	if f == nil {
		return false
	}
	return p.isCounterField(f.Origin())
}

func (p *Prog) isCounterField(f *types.Var) bool {
	counterMu.Lock()
	defer counterMu.Unlock()
	m := counterCache[p]
	if m == nil {
		m = map[*types.Var]bool{}
		counterCache[p] = m
	}
	if v, ok := m[f]; ok {
		return v
	}
	ok := true
	for fn := range p.AllFunctions() {
		if !ok {
			break
		}
		Instrs(fn, func(in ssa.Instruction) {
			fa, isFA := in.(*ssa.FieldAddr)
			if !isFA || !ok {
				return
			}
			if fv := PathOf(fa).Last(); fv == nil || fv.Origin() != f {
				return
			}
			// every use of the field's address is an atomic add/store/load; loads only feed returns
			for _, r := range *fa.Referrers() {
				ci, isCall := r.(ssa.CallInstruction)
				if !isCall {
					ok = false
					return
				}
				acc, isAt := AtomicOpOf(ci.Common())
				if !isAt || acc.Addr != ssa.Value(fa) {
					ok = false
					return
				}
				switch acc.Kind {
				case "add", "store":
					if v := ci.Value(); v != nil && len(*v.Referrers()) > 0 {
						ok = false
					}
				case "load":
					if v := ci.Value(); v == nil || !onlyReported(v, 0) {
						ok = false
					}
				default:
					ok = false
				}
			}
		})
	}
	m[f] = ok
	return ok
}

// onlyReported: the value flows only into return values, possibly through conversions, arithmetic and the fields of a
// local struct that is itself only returned.
func onlyReported(v ssa.Value, depth int) bool {
	if depth > 4 || v.Referrers() == nil {
		return false
	}
	for _, r := range *v.Referrers() {
		switch x := r.(type) {
		case *ssa.Return:
		case *ssa.Convert:
			if !onlyReported(x, depth+1) {
				return false
			}
		case *ssa.BinOp:
			if !onlyReported(x, depth+1) {
				return false
			}
		case *ssa.Store:
			if x.Val != v {
				return false
			}
			root := x.Addr
			for {
				if fa, ok := root.(*ssa.FieldAddr); ok {
					root = fa.X
					continue
				}
				break
			}
			al, ok := root.(*ssa.Alloc)
			if !ok {
				return false
			}
			// the local struct: loaded as a whole for the return, or its fields stored
			for _, ar := range *al.Referrers() {
				switch y := ar.(type) {
				case *ssa.FieldAddr, *ssa.DebugRef:
				case *ssa.UnOp:
					if !onlyReported(y, depth+1) {
						return false
					}
				case *ssa.Store:
					if y.Addr != ssa.Value(al) {
						return false
					}
				default:
					return false
				}
			}
		case *ssa.DebugRef:
		default:
			return false
		}
	}
	return true
}
