// Package an holds the loader, the shared program queries and the analysis
// engines used by the rule tables in package rules.
package an

import (
	"fmt"
	"go/ast"
	"go/token"
	"go/types"
	"os"
	"path/filepath"
	"sort"
	"strings"
	"sync"

	"golang.org/x/tools/go/callgraph"
	"golang.org/x/tools/go/callgraph/cha"
	"golang.org/x/tools/go/callgraph/vta"
	"golang.org/x/tools/go/packages"
	"golang.org/x/tools/go/ssa"
	"golang.org/x/tools/go/ssa/ssautil"
)

// Config describes one build configuration of one module to analyse.
type Config struct {
	Dir      string   // module directory
	Patterns []string // go list patterns
	GOOS     string
	GOARCH   string
	Tags     string
	Tests    bool
	NoNorm   bool // analyse the source as written (no inlining of helpers outside the inventory)
}

func (c Config) String() string {
	t := c.Tags
	if t == "" {
		t = "-"
	}
	return fmt.Sprintf("%s %s/%s tags=%s", c.Dir, c.GOOS, c.GOARCH, t)
}

// Prog is a loaded, type-checked program in SSA form.
type Prog struct {
	Cfg     Config
	Fset    *token.FileSet
	Pkgs    []*packages.Package          // all packages, deps included
	ByPath  map[string]*packages.Package // import path -> package
	SSA     *ssa.Program
	SSAPkgs map[string]*ssa.Package
	ModPath string // module path of the root module (e.g. storj.io/drpc)
	Norm    *NormReport
	Ren     *Renames

	cgOnce sync.Once
	cg     *callgraph.Graph

	allFns map[*ssa.Function]bool
}

// GoEnv returns the environment used for every go command.
func GoEnv(goos, goarch string) []string {
	env := []string{}
	for _, kv := range os.Environ() {
		k := strings.SplitN(kv, "=", 2)[0]
		switch k {
		case "GOFLAGS", "GOPROXY", "GOSUMDB", "GOTOOLCHAIN", "GOWORK", "GOOS", "GOARCH", "PATH", "CGO_ENABLED":
			continue
		}
		env = append(env, kv)
	}
	path := os.Getenv("PATH")
	if _, err := os.Stat("/opt/veriftools/go1.26.8/bin/go"); err == nil {
		path = "/opt/veriftools/go1.26.8/bin:" + path
	}
	env = append(env,
		"PATH="+path,
		"GOFLAGS=-mod=mod", "GOPROXY=off", "GOSUMDB=off", "GOTOOLCHAIN=local", "GOWORK=off",
		"CGO_ENABLED=0",
	)
	if goos != "" {
		env = append(env, "GOOS="+goos)
	}
	if goarch != "" {
		env = append(env, "GOARCH="+goarch)
	}
	return env
}

// Load loads and builds one configuration. Any load or type error is
// returned as an error: an unanalysable tree is undecided, never passing.
func Load(cfg Config) (*Prog, error) {
	fset := token.NewFileSet()
	pc := &packages.Config{
		Mode:  packages.LoadAllSyntax | packages.NeedModule,
		Dir:   cfg.Dir,
		Fset:  fset,
		Env:   GoEnv(cfg.GOOS, cfg.GOARCH),
		Tests: cfg.Tests,
	}
	if cfg.Tags != "" {
		pc.BuildFlags = []string{"-tags=" + cfg.Tags}
	}
	pats := cfg.Patterns
	if len(pats) == 0 {
		pats = []string{"./..."}
	}
	var norm *NormReport
	if !cfg.NoNorm && os.Getenv("SA_NONORM") == "" {
		var ov map[string][]byte
		ov, norm = BuildOverlay(cfg)
		if ov != nil {
			pc.Overlay = ov
		}
	}
	roots, err := packages.Load(pc, pats...)
	if err != nil {
		return nil, fmt.Errorf("load %s: %w", cfg, err)
	}
	if len(roots) == 0 {
		return nil, fmt.Errorf("load %s: zero packages", cfg)
	}
	var errsFound []string
	collect := func() {
		errsFound = nil
		packages.Visit(roots, nil, func(p *packages.Package) {
			for _, e := range p.Errors {
				errsFound = append(errsFound, e.Error())
			}
		})
	}
	collect()
	if len(errsFound) > 0 && pc.Overlay != nil {
		// the normalised source is not loadable: analyse the tree as written
		norm.Failed = "normalised source does not load (" + errsFound[0] + "); analysed as written"
		pc.Overlay = nil
		fset = token.NewFileSet()
		pc.Fset = fset
		roots, err = packages.Load(pc, pats...)
		if err != nil {
			return nil, fmt.Errorf("load %s: %w", cfg, err)
		}
		collect()
	}
	if len(errsFound) > 0 {
		sort.Strings(errsFound)
		if len(errsFound) > 8 {
			errsFound = errsFound[:8]
		}
		return nil, fmt.Errorf("load %s: package errors: %s", cfg, strings.Join(errsFound, "; "))
	}
	ren := FindRenames(roots)
	canon = ren
	p := &Prog{Cfg: cfg, Fset: fset, Norm: norm, Ren: ren, ByPath: map[string]*packages.Package{}, SSAPkgs: map[string]*ssa.Package{}}
	packages.Visit(roots, nil, func(pk *packages.Package) {
		p.Pkgs = append(p.Pkgs, pk)
		p.ByPath[pk.PkgPath] = pk
	})
	for _, r := range roots {
		if r.Module != nil && r.Module.Main {
			p.ModPath = r.Module.Path
			break
		}
	}
	prog, _ := ssautil.AllPackages(roots, ssa.InstantiateGenerics)
	prog.Build()
	p.SSA = prog
	for _, sp := range prog.AllPackages() {
		p.SSAPkgs[sp.Pkg.Path()] = sp
	}
	p.installStableFields()
	return p, nil
}

// installStableFields computes the module's struct fields that are only ever written while their object is
// being constructed (a store through a fresh local or composite literal), and tells the path-fact engine.
func (p *Prog) installStableFields() {
	unstable := map[*types.Var]bool{}
	for fn := range ssautil.AllFunctions(p.SSA) {
		if fn.Pkg == nil || !p.InModule(fn.Pkg.Pkg.Path()) {
			if par := fn; par.Parent() == nil || par.Parent().Pkg == nil || !p.InModule(par.Parent().Pkg.Pkg.Path()) {
				continue
			}
		}
		for _, b := range fn.Blocks {
			for _, in := range b.Instrs {
				var addr ssa.Value
				switch x := in.(type) {
				case *ssa.Store:
					addr = x.Addr
				case ssa.CallInstruction:
					// an address handed to a call (atomic store, method with pointer receiver) may be written there
					for _, a := range x.Common().Args {
						if _, isFA := a.(*ssa.FieldAddr); isFA {
							if f := PathOf(a).Last(); f != nil {
								unstable[f.Origin()] = true
							}
						}
					}
					continue
				default:
					continue
				}
				path := PathOf(addr)
				if len(path.Fields) == 0 {
					continue
				}
				if al, ok := path.Root.(*ssa.Alloc); ok && spilledParam(al) == nil {
					continue // construction of a fresh object
				}
				for _, f := range path.Fields {
					unstable[f.Origin()] = true
				}
			}
		}
	}
	StableField = func(f *types.Var) bool {
		if f == nil || f.Pkg() == nil || !p.InModule(f.Pkg().Path()) {
			return false
		}
		return !unstable[f.Origin()]
	}
}

// InModule reports whether the package path belongs to the analysed module.
func (p *Prog) InModule(path string) bool {
	return path == p.ModPath || strings.HasPrefix(path, p.ModPath+"/")
}

// LibPackages returns the import paths of the module's packages that are
// library code (not internal test helpers, examples or commands).
func (p *Prog) ModulePackages() []string {
	var out []string
	for path := range p.ByPath {
		if p.InModule(path) {
			out = append(out, path)
		}
	}
	sort.Strings(out)
	return out
}

// CallGraph returns the VTA call graph seeded with CHA.
func (p *Prog) CallGraph() *callgraph.Graph {
	p.cgOnce.Do(func() {
		fns := ssautil.AllFunctions(p.SSA)
		p.allFns = fns
		p.cg = vta.CallGraph(fns, cha.CallGraph(p.SSA))
	})
	return p.cg
}

// AllFunctions returns every function of the program (incl. anonymous).
func (p *Prog) AllFunctions() map[*ssa.Function]bool {
	if p.allFns == nil {
		p.allFns = ssautil.AllFunctions(p.SSA)
	}
	return p.allFns
}

// Pos renders a position relative to the module dir.
func (p *Prog) Pos(pos token.Pos) string {
	if !pos.IsValid() {
		return "-"
	}
	ps := p.Fset.Position(pos)
	rel, err := filepath.Rel(p.Cfg.Dir, ps.Filename)
	if err != nil || strings.HasPrefix(rel, "..") {
		rel = ps.Filename
	}
	return fmt.Sprintf("%s:%d", rel, ps.Line)
}

// InstrPos returns the best position for an instruction.
func (p *Prog) InstrPos(in ssa.Instruction) string {
	if in == nil {
		return "-"
	}
	pos := in.Pos()
	if !pos.IsValid() {
		// fall back to the first valid position in the block, then the function
		if b := in.Block(); b != nil {
			for _, o := range b.Instrs {
				if o.Pos().IsValid() {
					pos = o.Pos()
					break
				}
			}
		}
		if !pos.IsValid() && in.Parent() != nil {
			pos = in.Parent().Pos()
		}
	}
	return p.Pos(pos)
}

// ---------------------------------------------------------------------------
// anchors: resolution of named program entities through go/types

// Unresolved is the error type returned when an anchor does not resolve.
type Unresolved struct{ What string }

func (u *Unresolved) Error() string { return "unresolved anchor: " + u.What }

// TypePkg returns the types.Package for a module-relative package ("drpcstream")
// or a full import path.
func (p *Prog) TypePkg(pkg string) (*types.Package, error) {
	full := pkg
	if !strings.Contains(pkg, ".") && p.ModPath != "" {
		if pkg == "" {
			full = p.ModPath
		} else {
			full = p.ModPath + "/" + pkg
		}
	}
	if pk, ok := p.ByPath[full]; ok && pk.Types != nil {
		return pk.Types, nil
	}
	if pk, ok := p.ByPath[pkg]; ok && pk.Types != nil {
		return pk.Types, nil
	}
	return nil, &Unresolved{"package " + pkg}
}

// Named resolves a named type.
func (p *Prog) Named(pkg, name string) (*types.Named, error) {
	tp, err := p.TypePkg(pkg)
	if err != nil {
		return nil, err
	}
	obj := tp.Scope().Lookup(name)
	tn, ok := obj.(*types.TypeName)
	if !ok && p.Ren != nil {
		tn, ok = p.Ren.Types[tp.Path()+"\t"+name]
	}
	if !ok {
		return nil, &Unresolved{pkg + "." + name}
	}
	n, ok := tn.Type().(*types.Named)
	if !ok {
		return nil, &Unresolved{pkg + "." + name + " (not a named type)"}
	}
	return n, nil
}

// Field resolves a struct field by dotted path: Field("drpcstream","Stream","sigs.term").
func (p *Prog) Field(pkg, typ, path string) (*types.Var, error) {
	n, err := p.Named(pkg, typ)
	if err != nil {
		return nil, err
	}
	var t types.Type = n
	var fv *types.Var
	owner, ownerPkg := n.Obj().Name(), ""
	if n.Obj().Pkg() != nil {
		ownerPkg = n.Obj().Pkg().Path()
	}
	for _, part := range strings.Split(path, ".") {
		st, ok := deref(t).Underlying().(*types.Struct)
		if !ok {
			return nil, &Unresolved{fmt.Sprintf("%s.%s.%s (not a struct at %s)", pkg, typ, path, part)}
		}
		fv = nil
		for i := 0; i < st.NumFields(); i++ {
			if st.Field(i).Name() == part {
				fv = st.Field(i)
				break
			}
		}
		if fv == nil && p.Ren != nil {
			fv = p.Ren.Fields[ownerPkg+"\t"+owner+"\t"+part]
		}
		if fv == nil {
			return nil, &Unresolved{fmt.Sprintf("%s.%s.%s (no field %s)", pkg, typ, path, part)}
		}
		t = fv.Type()
		if nt, ok := deref(t).(*types.Named); ok {
			owner = nt.Obj().Name()
			if nt.Obj().Pkg() != nil {
				ownerPkg = nt.Obj().Pkg().Path()
			}
		} else {
			// an anonymous struct nested in the owner: inventory name of the field (the path is given in inventory names)
			owner = owner + "." + part
		}
	}
	return fv, nil
}

func deref(t types.Type) types.Type {
	if pt, ok := t.Underlying().(*types.Pointer); ok {
		return pt.Elem()
	}
	return t
}

// Func resolves a function or method to its SSA function.
// name is "Func", "Type.Method" or "(*Type).Method".
func (p *Prog) Func(pkg, name string) (*ssa.Function, error) {
	obj, err := p.FuncObj(pkg, name)
	if err != nil {
		return nil, err
	}
	fn := p.SSA.FuncValue(obj)
	if fn == nil {
		return nil, &Unresolved{pkg + "." + name + " (no SSA function)"}
	}
	if len(fn.Blocks) == 0 && fn.Synthetic == "" {
		// declared without body (assembly) is fine for callee identity only
	}
	return fn, nil
}

// FuncObj resolves a function or method object.
func (p *Prog) FuncObj(pkg, name string) (*types.Func, error) {
	f, err := p.funcObj(pkg, name)
	if err != nil && p.Ren != nil {
		if tp, e2 := p.TypePkg(pkg); e2 == nil {
			key := name
			key = strings.Replace(key, "(*", "", 1)
			key = strings.Replace(key, "(", "", 1)
			key = strings.Replace(key, ")", "", 1)
			if nf, ok := p.Ren.Funcs[tp.Path()+"\t"+key]; ok {
				return nf, nil
			}
		}
	}
	return f, err
}

func (p *Prog) funcObj(pkg, name string) (*types.Func, error) {
	tp, err := p.TypePkg(pkg)
	if err != nil {
		return nil, err
	}
	recv, meth := "", name
	if i := strings.LastIndex(name, "."); i >= 0 {
		recv, meth = name[:i], name[i+1:]
		recv = strings.TrimPrefix(recv, "(")
		recv = strings.TrimSuffix(recv, ")")
		recv = strings.TrimPrefix(recv, "*")
	}
	if recv == "" {
		f, ok := tp.Scope().Lookup(meth).(*types.Func)
		if !ok {
			return nil, &Unresolved{pkg + "." + name}
		}
		return f, nil
	}
	tn, ok := tp.Scope().Lookup(recv).(*types.TypeName)
	if !ok && p.Ren != nil {
		tn, ok = p.Ren.Types[tp.Path()+"\t"+recv]
	}
	if !ok {
		return nil, &Unresolved{pkg + "." + recv}
	}
	named, ok := tn.Type().(*types.Named)
	if !ok {
		return nil, &Unresolved{pkg + "." + recv + " (not named)"}
	}
	for i := 0; i < named.NumMethods(); i++ {
		if m := named.Method(i); m.Name() == meth {
			return m, nil
		}
	}
	// interface method
	if it, ok := named.Underlying().(*types.Interface); ok {
		for i := 0; i < it.NumMethods(); i++ {
			if m := it.Method(i); m.Name() == meth {
				return m, nil
			}
		}
	}
	return nil, &Unresolved{pkg + "." + name}
}

// PkgFuncs returns every source function of a package (methods and
// anonymous functions included), sorted by position.
func (p *Prog) PkgFuncs(pkg string) ([]*ssa.Function, error) {
	tp, err := p.TypePkg(pkg)
	if err != nil {
		return nil, err
	}
	var out []*ssa.Function
	cand := map[*ssa.Function]bool{}
	for fn := range p.AllFunctions() {
		cand[fn] = true
	}
	// methods of generic types are not runtime types and are not enumerated by
	// AllFunctions: add every declared function and method of the package.
	sc := tp.Scope()
	for _, nm := range sc.Names() {
		switch o := sc.Lookup(nm).(type) {
		case *types.Func:
			if f := p.SSA.FuncValue(o); f != nil {
				for _, x := range WithAnon(f) {
					cand[x] = true
				}
			}
		case *types.TypeName:
			if named, ok := o.Type().(*types.Named); ok {
				for i := 0; i < named.NumMethods(); i++ {
					if f := p.SSA.FuncValue(named.Method(i)); f != nil {
						for _, x := range WithAnon(f) {
							cand[x] = true
						}
					}
				}
			}
		}
	}
	for fn := range cand {
		if fn.Pkg == nil || fn.Pkg.Pkg != tp {
			// anonymous functions and instantiations have Pkg of their parent/origin
			if o := originPkg(fn); o != tp {
				continue
			}
		}
		if fn.Synthetic != "" && !strings.HasPrefix(fn.Synthetic, "instance of") {
			continue
		}
		if len(fn.Blocks) == 0 {
			continue
		}
		if isTestFile(p.Fset, fn.Pos()) {
			continue
		}
		out = append(out, fn)
	}
	sort.Slice(out, func(i, j int) bool {
		if out[i].Pos() != out[j].Pos() {
			return out[i].Pos() < out[j].Pos()
		}
		return out[i].String() < out[j].String()
	})
	return out, nil
}

func originPkg(fn *ssa.Function) *types.Package {
	for f := fn; f != nil; f = f.Parent() {
		if f.Pkg != nil {
			return f.Pkg.Pkg
		}
		if o := f.Origin(); o != nil && o.Pkg != nil {
			return o.Pkg.Pkg
		}
	}
	return nil
}

func isTestFile(fset *token.FileSet, pos token.Pos) bool {
	if !pos.IsValid() {
		return false
	}
	return strings.HasSuffix(fset.Position(pos).Filename, "_test.go")
}

// SourceFuncs returns the non-instantiated source functions of a package:
// generic origins rather than their instances, so that each body is
// analysed once.
func (p *Prog) SourceFuncs(pkg string) ([]*ssa.Function, error) {
	fns, err := p.PkgFuncs(pkg)
	if err != nil {
		return nil, err
	}
	var out []*ssa.Function
	for _, fn := range fns {
		if isInstance(fn) {
			continue
		}
		out = append(out, fn)
	}
	return out, nil
}

func isInstance(fn *ssa.Function) bool {
	for f := fn; f != nil; f = f.Parent() {
		if f.Origin() != nil {
			return true
		}
	}
	return false
}

// FuncName renders a function name relative to the module: drpcstream.(*Stream).Close
func (p *Prog) FuncName(fn *ssa.Function) string {
	if fn == nil {
		return "<nil>"
	}
	s := fn.String()
	s = strings.ReplaceAll(s, p.ModPath+"/", "")
	return s
}

// ShortFunc renders (*Stream).Close or NewWithOptions, plus $n for closures.
func ShortFunc(fn *ssa.Function) string {
	if fn == nil {
		return "<nil>"
	}
	s := fn.RelString(originPkg(fn))
	if len(canon.CanonT) > 0 {
		top := fn
		for top.Parent() != nil {
			top = top.Parent()
		}
		if sig := top.Signature; sig != nil && sig.Recv() != nil {
			t := sig.Recv().Type()
			if pt, ok := t.(*types.Pointer); ok {
				t = pt.Elem()
			}
			if nt, ok := t.(*types.Named); ok {
				if old, ok := canon.CanonT[nt.Obj()]; ok {
					s = strings.Replace(s, nt.Obj().Name()+")", old+")", 1)
				}
			}
		}
	}
	if len(canon.CanonF) > 0 || len(canon.CanonFull) > 0 {
		// a renamed function is reported (and looked up in reviewed tables) under its inventory name
		top := fn
		for top.Parent() != nil {
			top = top.Parent()
		}
		if obj, ok := top.Object().(*types.Func); ok {
			if full, ok := canon.CanonFull[obj.Origin()]; ok {
				// a function that is a method of the inventory with the receiver as first argument
				topS := top.RelString(originPkg(top))
				return full + s[len(topS):]
			}
			if old, ok := canon.CanonF[obj.Origin()]; ok && old != obj.Name() {
				topS := top.RelString(originPkg(top))
				if i := strings.LastIndex(topS, obj.Name()); i >= 0 {
					s = topS[:i] + old + topS[i+len(obj.Name()):] + s[len(topS):]
				}
			}
		}
	}
	return s
}

// FileOf returns the syntax file containing pos.
func (p *Prog) FileOf(pos token.Pos) *ast.File {
	for _, pk := range p.Pkgs {
		for _, f := range pk.Syntax {
			if f.FileStart <= pos && pos <= f.FileEnd {
				return f
			}
		}
	}
	return nil
}

// PkgOfFunc returns the packages.Package of fn.
func (p *Prog) PkgOfFunc(fn *ssa.Function) *packages.Package {
	tp := originPkg(fn)
	if tp == nil {
		return nil
	}
	return p.ByPath[tp.Path()]
}
