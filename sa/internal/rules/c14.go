package rules

import (
	"fmt"
	"go/ast"
	"go/constant"
	"go/parser"
	"go/token"
	"go/types"
	"os"
	"path/filepath"
	"sort"
	"strconv"
	"strings"

	"golang.org/x/tools/go/ssa"

	"verif/sa/internal/an"
)

func init() {
	register(&Property{
		ID:        "C14",
		Technique: "constant and table extraction (limit pairs, protocol table, status map) compared with the Twirp source in the module cache, codec layout agreement of the grpc-web frame header (length equation proved by the difference-constraint prover), sanitiser must-pass value flow for trailer text, guard dominance on status writes; tested-then-dropped error (contradiction) check and interprocedural lock-pairing check over the packages the property is anchored in; interval/offset table read off the comparison guards of the hex-digit test and compared with the hexadecimal digits over all 256 byte values; structural check of the escape decoder and the key=value split; sticky-error typestate of the Twirp stream",
		Explanation: "Statically decidable part of 'the HTTP gateway maps outcomes faithfully': " +
			"(R1) limit agreement: wherever a LimitReader bound N is followed by a length test against M, N > M (otherwise oversize bodies are truncated instead of rejected); announced grpc-web sizes are compared with the limit before reading/writing; " +
			"(R2) the protocol table: every content type maps to a protocol whose response content type is that key, JSON types use the JSON codecs, -text types the base64 reader/writer, and the fallback '*' exists; " +
			"(R3) every buffer handed to the grpc-web write function is a frame: byte 0 is the flag, [1:5] the big-endian uint32 of a value proved equal to len(buffer)-5, however the buffer is put together; the reader takes a 5-byte header and the big-endian uint32 at [1:5]; messages use flag 0, trailers flag 0x80; " +
			"(R4) every non-constant string written to the trailer block passes through the CR/LF replacer (whose table maps both CR and LF), and the Twirp error body is produced by the JSON marshaller; " +
			"(R5) the effective error-code -> HTTP status function (map plus the 500 fallback) equals Twirp's ServerHTTPStatusFromErrorCode for every Twirp code (read from the Twirp source in the module cache when present); 200 is written only when there is no error; a failed RPC never reports grpc-status 0; " +
			"plus the percent-decoding and reflect panic-freedom rules of C13.",
		NotDecided:  "response bytes for all outcomes and message counts; base64 framing of text mode; that percent-decoding equals a reference decoder; most of C14 is input/output behaviour.",
		Assumptions: []string{"the transcribed Twirp status table (used when the module-cache source is absent) matches Twirp v8"},
		Rules: append([]Rule{
			{ID: "C14.R1", Doc: "LimitReader bound exceeds the limit it is tested against; grpc-web sizes are compared with maxSize before reading / writing", Run: c14r1},
			{ID: "C14.R2", Doc: "defaultProtocols: key == response content type; +json <-> JSON codecs; -text <-> base64 reader/writer; '*' fallback present", Run: c14r2},
			{ID: "C14.R3", Doc: "grpc-web frame header: writer and reader agree (5 bytes, flags, big-endian uint32 at [1:5]); message flag 0, trailer flag 0x80", Run: c14r3},
			{ID: "C14.R4", Doc: "trailer text passes through the CR/LF replacer; the replacer maps both; Twirp error body comes from json.Marshal*", Run: c14r4},
			{ID: "C14.R5", Doc: "status function equals Twirp's table; 200 only without error; failed RPC never reports grpc-status 0", Run: c14r5},
			{ID: "C14.S1", Alias: "C13.R1"},
			{ID: "C14.S2", Alias: "C13.R2"},
			{ID: "C14.S3", Alias: "C13.R4"},
			{ID: "C14.R7", Doc: "the Twirp stream is one-shot per direction: MsgSend/MsgRecv test their sticky error first and leave it non-nil (the operation's error or io.EOF) on every way out", Run: c14r7},
			{ID: "C14.R6", Doc: "metadata header decoding: unhex accepts exactly the hexadecimal digits with their values (table read off its comparisons, all 256 bytes); an escape is 16*high+low of the two bytes after '%', malformed escapes are errors; key/value are the decoded text before/after the first '='", Run: c14r6},
			{ID: "C14.S4", Doc: "error codes are found below Cause()- and Unwrap()-style wrappers alike (getCode and drpcerr.Code)", Alias: "C10.R6"},
		}, disciplineRules("C14", "drpchttp")...),
	})
}

func maxSizeConst(c *an.Ctx) int64 {
	tp := must(c.P.TypePkg("drpchttp"))
	obj, ok := tp.Scope().Lookup("maxSize").(*types.Const)
	if !ok {
		panic(&an.Unresolved{What: "drpchttp.maxSize"})
	}
	v, _ := constant.Int64Val(obj.Val())
	return v
}

func c14r1(c *an.Ctx) {
	maxSize := maxSizeConst(c)
	n := 0
	for _, fn := range must(c.P.SourceFuncs("drpchttp")) {
		an.Instrs(fn, func(in ssa.Instruction) {
			call, ok := in.(*ssa.Call)
			if !ok {
				return
			}
			obj := an.CalleeObj(call.Common())
			if obj != nil && obj.FullName() == "net/http.MaxBytesReader" {
				// the standard library's limiter: a read past the limit fails with *http.MaxBytesError instead of
				// ending the stream, so nothing is truncated as long as the read's error is looked at
				n++
				N, isC := an.ConstInt(call.Common().Args[2])
				c.Check(isC && N == maxSize, an.ShortFunc(fn)+" | MaxBytesReader limit is maxSize", c.At(in), "", "the request body limit differs from maxSize")
				used := false
				var follow func(v ssa.Value, depth int)
				follow = func(v ssa.Value, depth int) {
					if v == nil || v.Referrers() == nil || depth > 4 {
						return
					}
					for _, r := range *v.Referrers() {
						switch x := r.(type) {
						case *ssa.Call:
							if o := an.CalleeObj(x.Common()); o != nil && o.FullName() == "io.ReadAll" {
								for _, r2 := range *x.Referrers() {
									if ex, isEx := r2.(*ssa.Extract); isEx && ex.Index == 1 && ex.Referrers() != nil && len(*ex.Referrers()) > 0 {
										used = true
									}
								}
							}
						case *ssa.MakeInterface:
							follow(x, depth+1)
						case *ssa.ChangeInterface:
							follow(x, depth+1)
						}
					}
				}
				follow(call, 0)
				c.Check(used, an.ShortFunc(fn)+" | the limited read's error is examined", c.At(in), "", "the error of the read through http.MaxBytesReader is dropped: an oversize body is cut at the limit and accepted")
				return
			}
			if obj == nil || obj.FullName() != "io.LimitReader" {
				return
			}
			n++
			N, isC := an.ConstInt(call.Common().Args[1])
			if !isC {
				c.Bad(an.ShortFunc(fn)+" | LimitReader bound is a constant", c.At(in), "the read limit is computed")
				return
			}
			// find the length test on the data read through it
			var M int64 = -1
			an.Instrs(fn, func(i2 ssa.Instruction) {
				b, ok := i2.(*ssa.BinOp)
				if !ok || b.Op != token.GTR {
					return
				}
				if k, isK := an.ConstInt(b.Y); isK && lenOperand(b.X) != nil {
					M = k
				}
			})
			if !c.Check(M >= 0, an.ShortFunc(fn)+" | the limited read is followed by a length test", c.At(in), "", "no len(data) > limit test after the limited read: an oversize body is silently truncated") {
				return
			}
			c.Check(N > M, fmt.Sprintf("%s | LimitReader bound (%d) exceeds the tested limit (%d)", an.ShortFunc(fn), N, M), c.At(in), "",
				fmt.Sprintf("io.LimitReader(r, %d) can never yield more than %d bytes, so the test len(data) > %d is dead: a request body over the limit is cut to the limit and accepted instead of rejected", N, N, M))
			c.Check(M == maxSize, fmt.Sprintf("%s | the tested limit is maxSize", an.ShortFunc(fn)), c.At(in), "", "the limit differs from maxSize")
			// the over-limit side of that test rejects: every way of returning on which len(data) > M is known carries an error
			okRej, nOver := true, 0
			var at ssa.Instruction
			for _, rc := range an.ReturnCases(fn) {
				if !retReachable(fn, rc.Ret) {
					continue
				}
				over := false
				for _, g := range rc.Guards {
					if b, ok := g.Cond.(*ssa.BinOp); ok && b.Op == token.GTR && g.True && lenOperand(b.X) != nil {
						if k, isK := an.ConstInt(b.Y); isK && k == M {
							over = true
						}
					}
				}
				if !over {
					continue
				}
				nOver++
				if len(rc.Vals) == 0 || !provablyNonNilCase(rc.Vals[len(rc.Vals)-1], rc) {
					okRej, at = false, rc.Ret
				}
			}
			pos := c.At(in)
			if at != nil {
				pos = c.At(at)
			}
			c.Check(okRej && nOver > 0, an.ShortFunc(fn)+" | a body over the limit is an error", pos, "", "the function can return without an error on the side of the test where the body is known to exceed the limit: an oversize request is handed on (empty or truncated) instead of being rejected")
		})
	}
	c.Floor("LimitReader sites in drpchttp", 1, n)
	// grpcRead: size compared with maxSize before readExactly(size)
	gr := c.Fn("drpchttp", "grpcRead")
	okRead := false
	an.Instrs(gr, func(in ssa.Instruction) {
		call, ok := in.(*ssa.Call)
		if !ok || call.Common().StaticCallee() == nil || nameOf(call.Common().StaticCallee()) != "readExactly" {
			return
		}
		if _, isC := an.ConstInt(call.Common().Args[1]); isC {
			return
		}
		if boundedValue(call.Common().Args[1], in.Block()) {
			okRead = true
		}
	})
	c.Check(okRead, "grpcRead | announced size compared with maxSize before reading", c.P.Pos(gr.Pos()), "", "a grpc-web frame's announced length is not limited before the body is read")
	// over the limit means rejected: every return that can report success (nil error) comes after the body was read
	{
		var bodyRead ssa.Instruction
		an.Instrs(gr, func(in ssa.Instruction) {
			if call, ok := in.(*ssa.Call); ok && call.Common().StaticCallee() != nil && nameOf(call.Common().StaticCallee()) == "readExactly" {
				if _, isC := an.ConstInt(call.Common().Args[1]); !isC {
					bodyRead = in
				}
			}
		})
		okRej := bodyRead != nil
		var at ssa.Instruction
		for _, rc := range an.ReturnCases(gr) {
			if len(rc.Vals) != 2 || !retReachable(gr, rc.Ret) {
				continue
			}
			if bodyRead != nil && an.InstrDominates(bodyRead, rc.Ret) {
				continue
			}
			if !provablyNonNilCase(rc.Vals[1], rc) {
				okRej, at = false, rc.Ret
			}
		}
		pos := c.P.Pos(gr.Pos())
		if at != nil {
			pos = c.At(at)
		}
		c.Check(okRej, "grpcRead | a frame that is not read (too large, short header) is an error", pos, "", "grpcRead can return without an error although it has not read the frame's body: an oversize request is handed to the handler as an empty message instead of being rejected")
	}
	// MsgSend: len(data) compared with maxSize before framedWrite
	ms := c.Fn("drpchttp", "(*grpcWebStream).MsgSend")
	okSend := false
	an.Instrs(ms, func(in ssa.Instruction) {
		call, ok := in.(*ssa.Call)
		if !ok || call.Common().StaticCallee() == nil || nameOf(call.Common().StaticCallee()) != "framedWrite" {
			return
		}
		for _, g := range an.GuardsOf(in.Block()) {
			if cmp, ok := an.CmpOf(g); ok {
				isLen := func(v ssa.Value) bool { return lenOperand(v) != nil }
				isMax := func(v ssa.Value) bool {
					k, isK := an.ConstInt(v)
					return isK && k == maxSize
				}
				if cmp.Is(token.LSS, isLen, isMax) || cmp.Is(token.LEQ, isLen, isMax) {
					okSend = true
				}
			}
		}
	})
	c.Check(okSend, "(*grpcWebStream).MsgSend | response message size compared with maxSize before writing", c.P.Pos(ms.Pos()), "", "oversize response messages are written (the 32-bit length would wrap / the client limit is exceeded)")
}

func c14r2(c *an.Ctx) {
	pk := c.P.ByPath[c.P.ModPath+"/drpchttp"]
	if pk == nil {
		panic(&an.Unresolved{What: "package drpchttp"})
	}
	var lit *ast.CompositeLit
	for _, f := range pk.Syntax {
		for _, d := range f.Decls {
			fd, ok := d.(*ast.FuncDecl)
			if !ok || fd.Name.Name != "defaultProtocols" || fd.Body == nil {
				continue
			}
			ast.Inspect(fd.Body, func(n ast.Node) bool {
				if cl, ok := n.(*ast.CompositeLit); ok && lit == nil {
					if _, isMap := pk.TypesInfo.TypeOf(cl).Underlying().(*types.Map); isMap {
						lit = cl
					}
				}
				return true
			})
		}
	}
	if lit == nil {
		panic(&an.Unresolved{What: "defaultProtocols map literal"})
	}
	name := func(e ast.Expr) string {
		switch x := e.(type) {
		case *ast.Ident:
			return x.Name
		case *ast.CallExpr:
			parts := []string{}
			if id, ok := x.Fun.(*ast.Ident); ok {
				parts = append(parts, id.Name)
			}
			for _, a := range x.Args {
				if id, ok := a.(*ast.Ident); ok {
					parts = append(parts, id.Name)
				}
			}
			return strings.Join(parts, "(") + strings.Repeat(")", len(parts)-1)
		}
		return "?"
	}
	hasStar := false
	n := 0
	for _, el := range lit.Elts {
		kv, ok := el.(*ast.KeyValueExpr)
		if !ok {
			continue
		}
		tv := pk.TypesInfo.Types[kv.Key]
		if tv.Value == nil {
			continue
		}
		key := constant.StringVal(tv.Value)
		val, ok := kv.Value.(*ast.CompositeLit)
		if !ok {
			continue
		}
		n++
		typ := types.TypeString(pk.TypesInfo.TypeOf(val), func(*types.Package) string { return "" })
		fields := map[string]string{}
		for _, fe := range val.Elts {
			if fkv, ok := fe.(*ast.KeyValueExpr); ok {
				fname := fkv.Key.(*ast.Ident).Name
				if ftv := pk.TypesInfo.Types[fkv.Value]; ftv.Value != nil {
					fields[fname] = constant.StringVal(ftv.Value)
				} else {
					fields[fname] = name(fkv.Value)
				}
			}
		}
		pos := c.P.Pos(kv.Pos())
		if key == "*" {
			hasStar = true
		} else {
			c.Check(fields["ct"] == key, "defaultProtocols["+key+"] | response content type equals the key", pos, "", "requests with Content-Type "+key+" are answered with "+fields["ct"])
		}
		isJSON := strings.HasSuffix(key, "json")
		wantM, wantU := "protoMarshal", "protoUnmarshal"
		if isJSON {
			wantM, wantU = "JSONMarshal", "JSONUnmarshal"
		}
		c.Check(fields["marshal"] == wantM && fields["unmarshal"] == wantU, "defaultProtocols["+key+"] | codec matches the content type", pos, "", fmt.Sprintf("content type %s uses %s/%s, want %s/%s", key, fields["marshal"], fields["unmarshal"], wantM, wantU))
		isGW := strings.Contains(key, "grpc-web")
		c.Check(isGW == (typ == "grpcWebProtocol"), "defaultProtocols["+key+"] | protocol kind matches the content type", pos, typ, "content type "+key+" is served by "+typ)
		if isGW {
			wantR, wantW := "grpcRead", "normalWrite"
			if strings.Contains(key, "-text") {
				wantR, wantW = "base64Read(grpcRead)", "base64Write(normalWrite)"
			}
			c.Check(fields["read"] == wantR && fields["write"] == wantW, "defaultProtocols["+key+"] | framing reader/writer matches text/binary mode", pos, "", fmt.Sprintf("content type %s reads with %s and writes with %s, want %s / %s", key, fields["read"], fields["write"], wantR, wantW))
		}
	}
	c.Check(hasStar, "defaultProtocols | fallback entry \"*\" exists", c.P.Pos(lit.Pos()), "", "ServeHTTP falls back to protocols[\"*\"], which is missing: nil protocol dereference for unknown content types")
	c.Floor("entries in defaultProtocols", 1, n)
	// ServeHTTP uses the "*" fallback on a miss
	sh := c.Fn("drpchttp", "(wrapper).ServeHTTP")
	okFallback := false
	an.Instrs(sh, func(in ssa.Instruction) {
		if lk, ok := in.(*ssa.Lookup); ok {
			if cst, isC := lk.Index.(*ssa.Const); isC && cst.Value != nil && constant.StringVal(cst.Value) == "*" {
				okFallback = true
			}
		}
	})
	c.Check(okFallback, "(wrapper).ServeHTTP | unknown content types use protocols[\"*\"]", c.P.Pos(sh.Pos()), "", "no fallback lookup")
}

// gwFrame describes one emission of a grpc-web frame: a buffer handed to the protocol's write function.
type gwFrame struct {
	fn      *ssa.Function
	call    *ssa.Call
	w       ssa.Value // the written buffer
	flag    ssa.Value // what byte 0 is set to (nil if not found)
	length  ssa.Value // the value encoded at [1:5], conversions stripped (nil if not found)
	lenEq   bool      // length == len(w) - 5 on every path
	payload ssa.Value // what follows the header when it is a single value (append/copy of it), or nil
}

// gwFrames finds every buffer written through grpcWebProtocol.write in drpchttp and reads off how its 5-byte header
// is filled: by stores to element 0 and a big-endian PutUint32 at [1:5] of the same backing array, wherever and in
// whatever order the frame is put together (a [5]byte that the payload is appended to, one exact-size allocation the
// payload is copied into, a buffer that reserves the header and back-patches it).
func gwFrames(c *an.Ctx) []gwFrame {
	a := A(c)
	writeF := a.field("drpchttp", "grpcWebProtocol", "write")
	var out []gwFrame
	for _, fn := range must(c.P.SourceFuncs("drpchttp")) {
		an.Instrs(fn, func(in ssa.Instruction) {
			call, ok := in.(*ssa.Call)
			if !ok || call.Common().IsInvoke() || !isLoadOfField(call.Common().Value, writeF) || len(call.Common().Args) != 2 {
				return
			}
			fr := gwFrame{fn: fn, call: call, w: call.Common().Args[1]}
			// values that denote the start of the written buffer's backing array
			bases := map[ssa.Value]bool{}
			var addBase func(v ssa.Value, depth int)
			addBase = func(v ssa.Value, depth int) {
				if v == nil || depth > 6 || bases[v] {
					return
				}
				bases[v] = true
				switch x := v.(type) {
				case *ssa.UnOp:
					// other loads of the same variable with nothing written in between
					if x.Op == token.MUL {
						an.Instrs(fn, func(i2 ssa.Instruction) {
							if u2, isU := i2.(*ssa.UnOp); isU && u2.Op == token.MUL && u2.X == x.X && u2 != x && an.SameLoad(u2, x) {
								bases[u2] = true
							}
						})
					}
				case *ssa.Call:
					if b, isB := x.Common().Value.(*ssa.Builtin); isB && b.Name() == "append" {
						// the result starts with its first operand (same array or a copy of it)
						addBase(x.Common().Args[0], depth+1)
						if len(x.Common().Args) == 2 {
							fr.payload = x.Common().Args[1]
						}
					}
				case *ssa.Slice:
					if x.Low == nil {
						addBase(x.X, depth+1)
						// the array may have been initialised from a composite literal copied into it
						if al, isAl := x.X.(*ssa.Alloc); isAl {
							for _, r := range *al.Referrers() {
								if st, isSt := r.(*ssa.Store); isSt && st.Addr == ssa.Value(al) {
									if ld, isLd := st.Val.(*ssa.UnOp); isLd {
										bases[ld.X] = true
									}
								}
							}
						}
					}
				}
			}
			addBase(fr.w, 0)
			an.Instrs(fn, func(i2 ssa.Instruction) {
				switch x := i2.(type) {
				case *ssa.Store:
					if ia, isIA := x.Addr.(*ssa.IndexAddr); isIA && bases[ia.X] {
						if k, isC := an.ConstInt(ia.Index); isC && k == 0 {
							fr.flag = x.Val
						}
					}
				case *ssa.Call:
					obj := an.CalleeObj(x.Common())
					if obj != nil && obj.Name() == "PutUint32" && strings.Contains(obj.FullName(), "bigEndian") {
						if sl, isSl := x.Common().Args[1].(*ssa.Slice); isSl && bases[sl.X] {
							lo, _ := an.ConstInt(sl.Low)
							hi, _ := an.ConstInt(sl.High)
							if lo == 1 && hi == 5 {
								v := x.Common().Args[2]
								for {
									if cv, isCv := v.(*ssa.Convert); isCv {
										v = cv.X
										continue
									}
									break
								}
								fr.length = v
							}
						}
					}
					if b, isB := x.Common().Value.(*ssa.Builtin); isB && b.Name() == "copy" {
						if sl, isSl := x.Common().Args[0].(*ssa.Slice); isSl && bases[sl.X] && sl.High == nil {
							if lo, isC := an.ConstInt(sl.Low); isC && lo == 5 {
								fr.payload = x.Common().Args[1]
							}
						}
					}
				}
			})
			if fr.length != nil {
				le, ge := an.ProveRel(call, fr.length, false, fr.w, true, -5, 64)
				fr.lenEq = le && ge
			}
			out = append(out, fr)
		})
	}
	return out
}

func c14r3(c *an.Ctx) {
	fw := c.Fn("drpchttp", "(grpcWebProtocol).framedWrite")
	gr := c.Fn("drpchttp", "grpcRead")
	frames := gwFrames(c)
	c.Floor("buffers written through grpcWebProtocol.write", 1, len(frames))
	fwObj := an.FuncObjOf(fw)
	// flags[f] = the constant flag bytes of the frames function f emits, directly or by calling a framing helper
	flags := map[string][]int64{}
	for _, fr := range frames {
		name := an.ShortFunc(fr.fn)
		pos := c.At(fr.call)
		_, isParam := fr.flag.(*ssa.Parameter)
		_, isConst := fr.flag.(*ssa.Const)
		c.Check(fr.flag != nil && (isParam || isConst), strings.TrimPrefix(name, "(grpcWebProtocol).")+" | byte 0 is the flag", pos, "", "the frame's first byte is not the flag argument")
		c.Check(fr.length != nil && fr.lenEq, strings.TrimPrefix(name, "(grpcWebProtocol).")+" | bytes [1:5] are the big-endian uint32 payload length", pos, "", "the frame length is not a big-endian uint32 of len(payload) at [1:5]: it must equal the number of bytes written after the 5-byte header")
		if an.FuncObjOf(fr.fn) == fwObj {
			okPayload := fr.payload != nil && len(fw.Params) >= 4 && an.Resolve(fr.payload) == ssa.Value(fw.Params[3])
			c.Check(okPayload, "framedWrite | header is followed by the payload", pos, "", "the payload does not follow the 5-byte header")
		}
		if k, isC := an.ConstInt(fr.flag); isC && isConst {
			flags[name] = append(flags[name], k)
		}
		if p, ok := fr.flag.(*ssa.Parameter); ok {
			// the flag is the helper's argument: read it off at the call sites
			idx := -1
			for i, q := range fr.fn.Params {
				if q == p {
					idx = i
				}
			}
			obj := an.FuncObjOf(fr.fn)
			for _, caller := range must(c.P.SourceFuncs("drpchttp")) {
				if obj == nil || idx < 0 {
					break
				}
				for _, cs := range an.CallsTo(caller, true, obj) {
					argIdx := idx
					if k, isC := an.ConstInt(cs.Common().Args[argIdx]); isC {
						flags[an.ShortFunc(caller)] = append(flags[an.ShortFunc(caller)], k)
					} else {
						flags[an.ShortFunc(caller)] = append(flags[an.ShortFunc(caller)], -1)
					}
				}
			}
		}
	}
	okFlags := len(flags["(*grpcWebStream).MsgSend"]) > 0 && len(flags["(*grpcWebStream).Finish"]) > 0
	for name, ks := range flags {
		for _, k := range ks {
			want := int64(0)
			if name == "(*grpcWebStream).Finish" {
				want = 128
			}
			if k != want {
				okFlags = false
			}
		}
	}
	c.Check(okFlags, "grpc-web | message frames use flag 0, the trailer frame flag 0x80", c.P.Pos(fw.Pos()), fmt.Sprint(flags), fmt.Sprintf("frame flags by caller: %v", flags))
	// reader
	okR5, okU32 := false, false
	an.Instrs(gr, func(in ssa.Instruction) {
		call, ok := in.(*ssa.Call)
		if !ok {
			return
		}
		if callee := call.Common().StaticCallee(); callee != nil && nameOf(callee) == "readExactly" {
			if k, isC := an.ConstInt(call.Common().Args[1]); isC && k == 5 {
				okR5 = true
			}
		}
		obj := an.CalleeObj(call.Common())
		if obj != nil && obj.Name() == "Uint32" && strings.Contains(obj.FullName(), "bigEndian") {
			if sl, isSl := call.Common().Args[1].(*ssa.Slice); isSl {
				lo, _ := an.ConstInt(sl.Low)
				hi, _ := an.ConstInt(sl.High)
				if lo == 1 && hi == 5 {
					okU32 = true
				}
			}
		}
	})
	c.Check(okR5 && okU32, "grpcRead | reads a 5-byte header and takes the big-endian uint32 at [1:5]", c.P.Pos(gr.Pos()), "", "the frame reader does not mirror the writer's header layout")
}

func c14r4(c *an.Ctx) {
	fin := c.Fn("drpchttp", "(*grpcWebStream).Finish")
	// the replacer's table
	tp := must(c.P.TypePkg("drpchttp"))
	sp := c.P.SSAPkgs[tp.Path()]
	var repl *ssa.Global
	if sp != nil {
		repl, _ = sp.Members["nlSpace"].(*ssa.Global)
	}
	if repl == nil && sp != nil {
		// whatever it is called: the one package-level *strings.Replacer of the package
		n := 0
		for _, m := range sp.Members {
			if g, ok := m.(*ssa.Global); ok && strings.HasSuffix(g.Type().String(), "*strings.Replacer") {
				repl = g
				n++
			}
		}
		if n != 1 {
			repl = nil
		}
	}
	if repl == nil {
		panic(&an.Unresolved{What: "drpchttp.nlSpace"})
	}
	mapsCR, mapsLF, cleanTargets := false, false, true
	if initFn := sp.Func("init"); initFn != nil {
		an.Instrs(initFn, func(in ssa.Instruction) {
			call, ok := in.(*ssa.Call)
			if !ok {
				return
			}
			obj := an.CalleeObj(call.Common())
			if obj == nil || obj.FullName() != "strings.NewReplacer" {
				return
			}
			stored := false
			for _, r := range *call.Referrers() {
				if st, isSt := r.(*ssa.Store); isSt && st.Addr == ssa.Value(repl) {
					stored = true
				}
			}
			if !stored {
				return
			}
			var pairs []string
			sl, _ := call.Common().Args[0].(*ssa.Slice)
			if sl != nil {
				if al, isAl := sl.X.(*ssa.Alloc); isAl {
					type el struct {
						i int64
						s string
					}
					var els []el
					for _, r := range *al.Referrers() {
						if ia, isIA := r.(*ssa.IndexAddr); isIA {
							idx, _ := an.ConstInt(ia.Index)
							for _, r2 := range *ia.Referrers() {
								if st, isSt := r2.(*ssa.Store); isSt {
									if cst, isC := st.Val.(*ssa.Const); isC && cst.Value != nil {
										els = append(els, el{idx, constant.StringVal(cst.Value)})
									}
								}
							}
						}
					}
					sort.Slice(els, func(i, j int) bool { return els[i].i < els[j].i })
					for _, e := range els {
						pairs = append(pairs, e.s)
					}
				}
			}
			for i := 0; i+1 < len(pairs); i += 2 {
				if pairs[i] == "\r" {
					mapsCR = true
				}
				if pairs[i] == "\n" {
					mapsLF = true
				}
				if strings.ContainsAny(pairs[i+1], "\r\n") {
					cleanTargets = false
				}
			}
		})
	}
	c.Check(mapsCR && mapsLF && cleanTargets, "nlSpace | replaces both CR and LF with something free of CR/LF", c.P.Pos(repl.Pos()), "", "the trailer sanitiser's table does not neutralise both carriage return and line feed")
	// every WriteString into the trailer buffer
	n := 0
	for _, fn := range an.WithAnon(fin) {
		an.Instrs(fn, func(in ssa.Instruction) {
			call, ok := in.(*ssa.Call)
			if !ok {
				return
			}
			obj := an.CalleeObj(call.Common())
			isSink := false
			if obj != nil {
				switch obj.FullName() {
				case "(*bytes.Buffer).WriteString", "(*bytes.Buffer).Write", "(*bytes.Buffer).WriteByte",
					"(*strings.Builder).WriteString", "(*strings.Builder).Write", "(*strings.Builder).WriteByte":
					isSink = true
				}
			}
			// the trailer block built directly in a byte slice: append(buf, text...)
			if b, isB := call.Common().Value.(*ssa.Builtin); isB && b.Name() == "append" && len(call.Common().Args) == 2 {
				if st, isSl := call.Type().Underlying().(*types.Slice); isSl {
					if bt, isBasic := st.Elem().Underlying().(*types.Basic); isBasic && bt.Kind() == types.Uint8 {
						isSink = true
					}
				}
			}
			if !isSink {
				return
			}
			n++
			arg := call.Common().Args[1]
			ok2, why := sanitised(arg, fn, repl, 0)
			c.Check(ok2, fmt.Sprintf("%s | trailer text %s is constant or sanitised", an.ShortFunc(fn), an.Render(arg, 3)), c.At(in), why,
				"a string reaches the grpc-web trailer block without passing through the CR/LF replacer on every path: error text or a string code containing a line break injects extra trailer lines (e.g. a second grpc-status)")
		})
	}
	c.Floor("writes into the trailer buffer", 1, n)
	// twirp Finish: the error body is the result of json.Marshal*
	tf := c.Fn("drpchttp", "(*twirpStream).Finish")
	okBody := true
	nW := 0
	an.Instrs(tf, func(in ssa.Instruction) {
		call, ok := in.(*ssa.Call)
		if !ok || !call.Common().IsInvoke() || call.Common().Method.Name() != "Write" {
			return
		}
		nW++
		arg := an.Resolve(call.Common().Args[0])
		if p := an.PathOf(arg); p.Last() != nil && nameOf(p.Last()) == "response" {
			return // success body
		}
		if ex, isEx := arg.(*ssa.Extract); isEx {
			if m, isCall := ex.Tuple.(*ssa.Call); isCall {
				if obj := an.CalleeObj(m.Common()); obj != nil && obj.Pkg() != nil && obj.Pkg().Path() == "encoding/json" {
					return
				}
			}
		}
		okBody = false
	})
	c.Check(okBody && nW >= 2, "(*twirpStream).Finish | bodies are the marshalled response or json.Marshal* output", c.P.Pos(tf.Pos()), "", "the Twirp error body is assembled by hand: message text could break the JSON")
}

// sanitised: v is a constant, a parameter that only ever receives constants, or Trim(Replace(nlSpace, x)).
func sanitised(v ssa.Value, fn *ssa.Function, repl *ssa.Global, depth int) (bool, string) {
	if depth > 5 {
		return false, ""
	}
	switch x := v.(type) {
	case *ssa.Const:
		return true, "constant"
	case *ssa.Parameter:
		// closure parameter: every call site passes a constant for it
		idx := -1
		for i, p := range fn.Params {
			if p == x {
				idx = i
			}
		}
		if fn.Parent() == nil || idx < 0 {
			return false, ""
		}
		all, nCalls := true, 0
		for _, host := range an.WithAnon(fn.Parent()) {
			an.Instrs(host, func(in ssa.Instruction) {
				call, ok := in.(*ssa.Call)
				if !ok || call.Common().IsInvoke() {
					return
				}
				// calls through the closure value
				if mc, isMC := an.Resolve(call.Common().Value).(*ssa.MakeClosure); isMC && mc.Fn == ssa.Value(fn) {
					nCalls++
					if _, isC := call.Common().Args[idx].(*ssa.Const); !isC {
						all = false
					}
				}
			})
		}
		return all && nCalls > 0, "closure parameter that only receives constants"
	case *ssa.Call:
		obj := an.CalleeObj(x.Common())
		if obj == nil {
			return false, ""
		}
		switch obj.FullName() {
		case "net/textproto.TrimString", "strings.TrimSpace":
			return sanitised(x.Common().Args[0], fn, repl, depth+1)
		case "(*strings.Replacer).Replace":
			if ld, ok := x.Common().Args[0].(*ssa.UnOp); ok && ld.X == ssa.Value(repl) {
				return true, "passes through nlSpace.Replace"
			}
		}
	case *ssa.Phi:
		for _, e := range x.Edges {
			if ok, _ := sanitised(e, fn, repl, depth+1); !ok {
				return false, ""
			}
		}
		return true, "sanitised on every path"
	case *ssa.Convert:
		return sanitised(x.X, fn, repl, depth+1)
	}
	return false, ""
}

// twirpTable is the transcribed ServerHTTPStatusFromErrorCode of Twirp v8.
var twirpTable = map[string]int{
	"canceled": 408, "unknown": 500, "invalid_argument": 400, "malformed": 400, "deadline_exceeded": 408, "not_found": 404,
	"bad_route": 404, "already_exists": 409, "permission_denied": 403, "unauthenticated": 401, "resource_exhausted": 429,
	"failed_precondition": 412, "aborted": 409, "out_of_range": 400, "unimplemented": 501, "internal": 500, "unavailable": 503, "data_loss": 500,
}

// twirpFromModuleCache parses Twirp's errors.go from the module cache: code constants and the status switch.
func twirpFromModuleCache() (map[string]int, string) {
	home, _ := os.UserHomeDir()
	for _, root := range []string{os.Getenv("GOMODCACHE"), filepath.Join(os.Getenv("GOPATH"), "pkg/mod"), filepath.Join(home, "go/pkg/mod")} {
		if root == "" {
			continue
		}
		matches, _ := filepath.Glob(filepath.Join(root, "github.com/twitchtv/twirp@*", "errors.go"))
		for _, m := range matches {
			fset := token.NewFileSet()
			f, err := parser.ParseFile(fset, m, nil, 0)
			if err != nil {
				continue
			}
			consts := map[string]string{}
			for _, d := range f.Decls {
				gd, ok := d.(*ast.GenDecl)
				if !ok || gd.Tok != token.CONST {
					continue
				}
				for _, sp := range gd.Specs {
					vs := sp.(*ast.ValueSpec)
					for i, nm := range vs.Names {
						if i < len(vs.Values) {
							if bl, ok := vs.Values[i].(*ast.BasicLit); ok && bl.Kind == token.STRING {
								s, _ := strconv.Unquote(bl.Value)
								consts[nm.Name] = s
							}
						}
					}
				}
			}
			table := map[string]int{}
			for _, d := range f.Decls {
				fd, ok := d.(*ast.FuncDecl)
				if !ok || fd.Name.Name != "ServerHTTPStatusFromErrorCode" {
					continue
				}
				ast.Inspect(fd.Body, func(n ast.Node) bool {
					cc, ok := n.(*ast.CaseClause)
					if !ok {
						return true
					}
					status := -1
					for _, st := range cc.Body {
						if rs, ok := st.(*ast.ReturnStmt); ok && len(rs.Results) == 1 {
							if bl, ok := rs.Results[0].(*ast.BasicLit); ok {
								status, _ = strconv.Atoi(bl.Value)
							}
						}
					}
					for _, e := range cc.List {
						if id, ok := e.(*ast.Ident); ok {
							if s, ok := consts[id.Name]; ok && status > 0 {
								table[s] = status
							}
						}
					}
					return true
				})
			}
			if len(table) >= 10 {
				return table, m
			}
		}
	}
	return nil, ""
}

func c14r5(c *an.Ctx) {
	tp := must(c.P.TypePkg("drpchttp"))
	sp := c.P.SSAPkgs[tp.Path()]
	g, _ := sp.Members["twirpStatus"].(*ssa.Global)
	if g == nil {
		panic(&an.Unresolved{What: "drpchttp.twirpStatus"})
	}
	got := map[string]int{}
	if initFn := sp.Func("init"); initFn != nil {
		an.Instrs(initFn, func(in ssa.Instruction) {
			mu, ok := in.(*ssa.MapUpdate)
			if !ok {
				return
			}
			// the map being filled is the one stored to the global
			isOurs := false
			if mk, isMk := mu.Map.(*ssa.MakeMap); isMk {
				for _, r := range *mk.Referrers() {
					if st, isSt := r.(*ssa.Store); isSt && st.Addr == ssa.Value(g) {
						isOurs = true
					}
				}
			}
			if !isOurs {
				return
			}
			k, okK := mu.Key.(*ssa.Const)
			v, okV := an.ConstInt(mu.Value)
			if okK && okV && k.Value != nil {
				got[constant.StringVal(k.Value)] = int(v)
			}
		})
	}
	c.Floor("entries of twirpStatus", 1, len(got))
	want, src := twirpFromModuleCache()
	if want == nil {
		want, src = twirpTable, "transcribed table"
	}
	c.Note("Twirp status oracle: %s (%d codes)", src, len(want))
	// fallback: status == 0 -> 500
	tf := c.Fn("drpchttp", "(*twirpStream).Finish")
	fallback := 0
	an.Instrs(tf, func(in ssa.Instruction) {
		phi, ok := in.(*ssa.Phi)
		if !ok {
			return
		}
		for i, e := range phi.Edges {
			if k, isC := an.ConstInt(e); isC {
				for _, gd := range an.GuardsOfEdge(phi.Block().Preds[i], phi.Block()) {
					if cmp, isCmp := an.CmpOf(gd); isCmp && cmp.Op == token.EQL {
						if z, isZ := an.ConstInt(cmp.Y); isZ && z == 0 {
							fallback = int(k)
						}
					}
				}
			}
		}
	})
	c.Check(fallback >= 400, fmt.Sprintf("(*twirpStream).Finish | unknown codes fall back to an error status (%d)", fallback), c.P.Pos(tf.Pos()), "", "codes missing from the table produce status 0 / a success status")
	eff := func(code string) int {
		if v, ok := got[code]; ok && v != 0 {
			return v
		}
		return fallback
	}
	var codes []string
	for k := range want {
		codes = append(codes, k)
	}
	sort.Strings(codes)
	for _, code := range codes {
		if code == "" {
			continue // NoError: never produced on the error path
		}
		c.Check(eff(code) == want[code], fmt.Sprintf("twirp status | %s -> %d", code, want[code]), c.P.Pos(g.Pos()), "", fmt.Sprintf("error code %q maps to HTTP %d, Twirp's ServerHTTPStatusFromErrorCode says %d", code, eff(code), want[code]))
	}
	for k, v := range got {
		c.Check(v >= 400 && v < 600, fmt.Sprintf("twirp status | table entry %s is an error status", k), c.P.Pos(g.Pos()), "", fmt.Sprintf("table entry %q -> %d is not an HTTP error status", k, v))
	}
	// 200 only when err == nil
	errParam := tf.Params[1]
	n200 := 0
	an.Instrs(tf, func(in ssa.Instruction) {
		call, ok := in.(*ssa.Call)
		if !ok || !call.Common().IsInvoke() || call.Common().Method.Name() != "WriteHeader" {
			return
		}
		k, isC := an.ConstInt(call.Common().Args[0])
		if !isC || k != 200 {
			return
		}
		n200++
		okNil := false
		for _, gd := range an.GuardsOf(in.Block()) {
			if x, trueNonNil, isNil := nilTestOf(gd.Cond); isNil && an.Resolve(x) == ssa.Value(errParam) && gd.True != trueNonNil {
				okNil = true
			}
		}
		c.Check(okNil, "(*twirpStream).Finish | status 200 only when the RPC returned no error", c.At(in), "", "a failed RPC can be answered with 200 OK")
	})
	c.Floor("200 responses in twirp Finish", 1, n200)
	// ... and always when it returned no error: the outcome is decided by the handler's error alone
	{
		learn := func(st string, cond ssa.Value, val bool) (string, bool) {
			cnd, neg := an.StripNot(cond)
			if x, trueNonNil, isNil := nilTestOf(cnd); isNil && an.Resolve(x) == ssa.Value(errParam) {
				if (val != neg) != trueNonNil {
					return addTag(st, "noerr"), true
				}
			}
			return st, true
		}
		flow := &an.Flow{Fn: tf, Inline: an.InlineSamePackage(tf), Init: []string{""},
			Step: func(st string, in ssa.Instruction) []string {
				call, ok := in.(*ssa.Call)
				if !ok {
					return nil
				}
				if call.Common().IsInvoke() && call.Common().Method.Name() == "WriteHeader" {
					if k, isC := an.ConstInt(call.Common().Args[0]); isC && k == 200 {
						return []string{addTag(st, "w200")}
					}
					return []string{addTag(st, "werr")}
				}
				if obj := an.CalleeObj(call.Common()); obj != nil && obj.FullName() == "net/http.Error" {
					return []string{addTag(st, "werr")}
				}
				return nil
			},
			Branch: func(st string, br *ssa.If, idx int) (string, bool) { return learn(st, br.Cond, idx == 0) },
			OnFact: learn,
		}
		res := flow.Run()
		nOK := 0
		for _, ret := range an.Returns(tf) {
			if !res.Reachable(ret.Block()) {
				continue
			}
			for _, st := range res.Before(ret) {
				if !hasTag(st, "noerr") {
					continue
				}
				nOK++
				c.Check(hasTag(st, "w200") && !hasTag(st, "werr"), "(*twirpStream).Finish | an RPC that returned no error is answered with 200", c.At(ret), "",
					"an RPC whose handler returned nil can be answered with an error status (or no status): the outcome depends on something other than the handler's error, for instance on the response being empty")
			}
		}
		c.Floor("error-free ways out of twirp Finish", 1, nOK)
	}
	// grpc-web: err != nil && status == "0" -> non-zero
	gf := c.Fn("drpchttp", "(*grpcWebStream).Finish")
	gerr := gf.Params[1]
	okRewrite := false
	for _, fn := range an.WithAnon(gf) {
		an.Instrs(fn, func(in ssa.Instruction) {
			check := func(val ssa.Value, blk *ssa.BasicBlock) {
				cst, ok := val.(*ssa.Const)
				if !ok || cst.Value == nil {
					return
				}
				// the status as a number, fixed up before it is formatted
				if cst.Value.Kind() == constant.Int {
					if k, isK := constant.Int64Val(cst.Value); isK && k != 0 {
						nonNil, isZero := false, false
						for _, gd := range an.GuardsOf(blk) {
							if x, trueNonNil, isNil := nilTestOf(gd.Cond); isNil && gd.True == trueNonNil && sameErrParam(x, gerr) {
								nonNil = true
							}
							if cmp, isCmp := an.CmpOf(gd); isCmp && cmp.Op == token.EQL {
								if z, isZ := an.ConstInt(cmp.Y); isZ && z == 0 {
									if call, isCall := an.Unwrap(cmp.X).(*ssa.Call); isCall && call.Common().StaticCallee() != nil && call.Common().StaticCallee().Name() == "Code" {
										isZero = true
									}
								}
							}
						}
						if nonNil && isZero {
							okRewrite = true
						}
					}
					return
				}
				if cst.Value.Kind() != constant.String {
					return
				}
				s := constant.StringVal(cst.Value)
				if s == "0" || s == "" {
					return
				}
				nonNil, isZero := false, false
				for _, gd := range an.GuardsOf(blk) {
					if x, trueNonNil, isNil := nilTestOf(gd.Cond); isNil && gd.True == trueNonNil && sameErrParam(x, gerr) {
						nonNil = true
					}
					if b, isB := gd.Cond.(*ssa.BinOp); isB && gd.True && b.Op == token.EQL {
						if z, isZ := b.Y.(*ssa.Const); isZ && z.Value != nil && z.Value.Kind() == constant.String && constant.StringVal(z.Value) == "0" {
							isZero = true
						}
					}
				}
				if nonNil && isZero {
					okRewrite = true
				}
			}
			switch x := in.(type) {
			case *ssa.Phi:
				for i, e := range x.Edges {
					check(e, x.Block().Preds[i])
				}
			case *ssa.Store:
				check(x.Val, x.Block())
			}
		})
	}
	c.Check(okRewrite, "(*grpcWebStream).Finish | a failed RPC whose code is 0 is reported with a non-zero grpc-status", c.P.Pos(gf.Pos()), "", "an error without a code is sent as grpc-status 0 (success)")
}

func sameErrParam(x ssa.Value, p *ssa.Parameter) bool {
	r := an.Resolve(x)
	if r == ssa.Value(p) {
		return true
	}
	if u, ok := x.(*ssa.UnOp); ok {
		if al, ok := u.X.(*ssa.Alloc); ok && al.Comment == p.Name() {
			return true
		}
		if fv, ok := u.X.(*ssa.FreeVar); ok && fv.Name() == p.Name() {
			return true
		}
	}
	return false
}
