package rules

import (
	"fmt"
	"go/token"
	"go/types"
	"sort"
	"strings"

	"golang.org/x/tools/go/ssa"

	"verif/sa/internal/an"
)

func init() {
	register(&Property{
		ID:        "C04",
		Technique: "may-lockset + transitive blocking-operation summaries (lock-order / wait-for graph over lock classes), typestate over the stream watcher, value flow of write errors, call-path closure of the stream constructors with a who-must-wait-on (caller ctx.Done) rule for every blocking select on it; tested-then-dropped error (contradiction) check and interprocedural lock-pairing check over the packages the property is anchored in",
		Explanation: "Structural conditions of 'cancel unblocks everything': " +
			"(W1) wait-for analysis: for every lock the cancel path (Stream.Cancel, Manager.terminate) can block on, nothing that executes while that lock is held — transitively through further locks — is transport I/O, a wait on the application, or an unclassified blocking operation; three edges of today's tree violate this and are listed as known finding D9; " +
			"(R2) SendCancel takes Stream.mu and Stream.write only with TryLock; " +
			"(R3) the stream watcher cancels the stream on the ctx/term branches before waiting for the finished token, and terminates the manager whenever the stream was not finished (hard mode) or the soft cancel failed/was busy; " +
			"(R4) Manager.terminate closes the transport and the stream buffer in its first-set-wins branch; Stream.Cancel sets cancel, send=EOF and terminates unless finished; " +
			"(R5) every error that originates from the shared writer and is returned by a Stream method passes through checkCancelError; " +
			"(R6) every blocking select in drpcmanager has a term or ctx.Done case, and every bare blocking operation there is one of the reviewed, paired ones; " +
			"(R8) every blocking select on the call path of NewClientStream/NewServerStream (plain calls, not goroutines) waits on Done() of the caller's own context, not only on the manager's term signal; " +
			"(R7) in drpcconn no mutex is held at a call of Manager.NewClientStream: a second call that has to wait for the stream slot waits in acquireSemaphore's select (which has the ctx.Done case), not in sync.Mutex.Lock behind the first call.",
		NotDecided: "that every blocked call actually returns for every in-flight set of operations; peer-side cancellation; usability of the connection afterwards; the soft-cancel busy race (try-lock failing for a non-blocking holder) noted in DESIGN.md.",
		Assumptions: []string{
			"packetBuffer.Close's wait for a held buffer is bounded by one enc.Unmarshal call of the application",
			"Transport.Close does not block indefinitely and unblocks pending Read/Write (transport contract)",
			"logging callbacks (drpcdebug, trace) do not block",
		},
		Rules: append([]Rule{
			{ID: "C04.W1", Doc: "no transport I/O or unclassified wait is reachable while holding a lock the cancel path can block on (transitively)", Run: c04w1},
			{ID: "C04.W2", Doc: "the lock-order graph of blocking acquisitions in the connection packages is acyclic (no two sites take two locks in opposite orders)", Run: c04w2},
			{ID: "C04.R2", Doc: "SendCancel acquires Stream.mu and Stream.write only through TryLock", Run: c04r2},
			{ID: "C04.R3", Doc: "manageStream: cancel before waiting for the finished token; terminate the manager unless the stream finished / the soft cancel went through", Run: c04r3},
			{ID: "C04.R4", Doc: "Manager.terminate closes transport and stream buffer in the first-wins branch; Stream.Cancel sets cancel, send=EOF, terminates unless finished", Run: c04r4},
			{ID: "C04.R5", Doc: "write errors returned by Stream methods pass through checkCancelError (blocked sends report the context's error)", Run: c04r5},
			{ID: "C04.R6", Doc: "every blocking select in drpcmanager has a term/ctx.Done case; bare blocking operations are the reviewed, paired set", Run: c04r6},
			{ID: "C04.R7", Doc: "a client call waits for the connection's stream slot holding no mutex of the Conn (the wait in NewClientStream is the one a cancelled context can leave)", Run: c04r7},
			{ID: "C04.R8", Doc: "the stream constructors wait cancellably: every blocking select reached from NewClientStream / NewServerStream by plain calls inside drpcmanager has a case on Done() of the context the caller passed in (a term-only select leaves a cancelled caller parked behind a previous stream that a stalled transport keeps from finishing)", Run: c04r8},
			{ID: "C04.S1", Doc: "the lent receive buffer is always handed back (packetBuffer.Close waits for it while Stream.Cancel holds Stream.mu)", Alias: "C01.R3"},
			{ID: "C04.S2", Doc: "packet-buffer wake-ups: a cancelled receiver parked in Get is woken by Close", Alias: "C01.R4"},
			{ID: "C04.S3", Doc: "cancel sets the state signals under Stream.mu", Alias: "C03.R1"},
			{ID: "C04.S4", Doc: "exactly one finished token per stream: a stale token would make the watcher of the next stream return before that stream finished, so its cancellation is never delivered", Alias: "C02.R6"},
		}, disciplineRules("C04", "drpcstream", "drpcmanager", "drpcconn")...),
	})
}

const connPkgs = "drpcstream+drpcmanager+drpcwire+drpcsignal"

type blockingShared struct {
	bl        *an.Blocking
	condMutex map[*types.Var]*types.Var
	edges     []an.HeldEdge
}

var blockingCache = map[*an.Prog]*blockingShared{}

func blockingOf(c *an.Ctx) *blockingShared {
	sharedMu.Lock()
	bs := blockingCache[c.P]
	sharedMu.Unlock()
	if bs != nil {
		return bs
	}
	pl := locksOf(c, connPkgs)
	bl := an.NewBlocking(c.P, pl)
	cm := map[*types.Var]*types.Var{}
	for _, fn := range pl.Funcs {
		an.Instrs(fn, func(in ssa.Instruction) {
			st, ok := in.(*ssa.Store)
			if !ok {
				return
			}
			p := an.PathOf(st.Addr)
			if len(p.Fields) < 2 || p.Last().Name() != "L" {
				return
			}
			condF := p.Fields[len(p.Fields)-2]
			if n, ok := condF.Type().(*types.Named); !ok || n.Obj().Name() != "Cond" {
				return
			}
			mp := an.PathOf(an.Unwrap(st.Val))
			if mp.Last() != nil {
				cm[condF.Origin()] = mp.Last().Origin()
			}
		})
	}
	bs = &blockingShared{bl: bl, condMutex: cm, edges: bl.HeldAcross(cm)}
	sharedMu.Lock()
	blockingCache[c.P] = bs
	sharedMu.Unlock()
	return bs
}

func c04w1(c *an.Ctx) {
	bs := blockingOf(c)
	bl := bs.bl
	p := c.P
	for cnd, mu := range bs.condMutex {
		c.Note("cond %s uses mutex %s", p.FieldName(cnd), p.FieldName(mu))
	}
	entries := []*ssa.Function{c.Fn("drpcstream", "(*Stream).Cancel"), c.Fn("drpcmanager", "(*Manager).terminate")}
	byHeld := map[*types.Var][]an.HeldEdge{}
	for _, e := range bs.edges {
		byHeld[e.Held] = append(byHeld[e.Held], e)
	}
	// allowed non-lock ops, by op identity and the function containing the primitive site
	allowed := func(op an.BlockOp) (string, bool) {
		in := ""
		if op.At != nil {
			in = an.ShortFunc(op.At.Parent())
		}
		id := op.ID(p)
		switch {
		case op.Kind == "io-close":
			return "closing the transport is the interrupt itself", true
		case strings.HasPrefix(id, "cond-wait(drpcstream.packetBuffer.") && in == "(*packetBuffer).Close":
			return "waits for the receiver to hand back the lent buffer: bounded by one Unmarshal (assumption)", true
		case id == "chan-send(drpcstream.Stream.fin)" && in == "(*Stream).checkFinished":
			return "finished token: capacity 1 and sent exactly once per stream (C03.R5, C02.R6)", true
		}
		return "", false
	}
	forbiddenKind := func(k string) bool { return k != "lock" }
	// closure over lock classes: does holding L (transitively) span a forbidden op?
	memo := map[*types.Var]*an.BlockOp{}
	visiting := map[*types.Var]bool{}
	var spans func(L *types.Var) *an.BlockOp
	spans = func(L *types.Var) *an.BlockOp {
		if r, ok := memo[L]; ok {
			return r
		}
		if visiting[L] {
			return nil
		}
		visiting[L] = true
		defer func() { visiting[L] = false }()
		var found *an.BlockOp
		for _, e := range byHeld[L] {
			op := e.Op
			if op.Kind == "lock" {
				if op.Class == nil || op.Class == L {
					continue
				}
				if w := spans(op.Class); w != nil {
					w2 := *w
					w2.Via = append([]string{"[holding " + p.FieldName(op.Class) + "]"}, w.Via...)
					found = &w2
					break
				}
				continue
			}
			if _, ok := allowed(op); ok {
				continue
			}
			if forbiddenKind(op.Kind) {
				o := op
				found = &o
				break
			}
		}
		memo[L] = found
		return found
	}
	// locks the cancel path can block on
	cancelLocks := map[*types.Var]string{}
	for _, ent := range entries {
		for _, op := range bl.Summary(ent) {
			if op.Kind == "lock" && op.Class != nil {
				if _, ok := cancelLocks[op.Class]; !ok {
					cancelLocks[op.Class] = an.ShortFunc(ent)
				}
			}
		}
	}
	// Only these locks are examined: an edge from one of them into a lock that
	// spans I/O is the violation; the I/O-spanning locks themselves (Stream.write,
	// Writer.mu) are by design held across transport writes and are not reported
	// edge by edge.
	var Ls []*types.Var
	for L := range cancelLocks {
		Ls = append(Ls, L)
	}
	sort.Slice(Ls, func(i, j int) bool { return p.FieldName(Ls[i]) < p.FieldName(Ls[j]) })
	c.Floor("lock classes the cancel path can block on", 1, len(Ls))
	seen := map[string]bool{}
	nEdges := 0
	for _, L := range Ls {
		c.Note("cancel path can block on %s (via %s)", p.FieldName(L), cancelLocks[L])
		for _, e := range byHeld[L] {
			op := e.Op
			var key, detail string
			bad := false
			switch {
			case op.Kind == "lock":
				if op.Class == nil || op.Class == L {
					continue
				}
				key = fmt.Sprintf("%s | Lock(%s) while holding %s", an.ShortFunc(e.In), p.FieldName(op.Class), p.FieldName(L))
				if w := spans(op.Class); w != nil {
					bad = true
					detail = fmt.Sprintf("the cancel path (%s) needs %s; this function blocks on %s while holding it, and %s is held across %s — so a stalled transport/application keeps the cancel from ever running",
						cancelLocks[L], p.FieldName(L), p.FieldName(op.Class), p.FieldName(op.Class), w.Describe(p))
				}
			default:
				key = fmt.Sprintf("%s | %s while holding %s", an.ShortFunc(e.In), op.ID(p), p.FieldName(L))
				if why, ok := allowed(op); ok {
					detail = "allowed: " + why
				} else {
					bad = true
					detail = fmt.Sprintf("the cancel path (%s) needs %s, which is held across %s", cancelLocks[L], p.FieldName(L), op.Describe(p))
				}
			}
			if seen[key] {
				continue
			}
			seen[key] = true
			nEdges++
			c.Analysed(e.In)
			if bad {
				c.Bad(key, c.At(e.Site), detail)
			} else {
				c.Ok(key, c.At(e.Site), detail)
			}
		}
	}
	c.Floor("held-across edges examined", 1, nEdges)
	// the cancel entry points themselves must not block on anything unclassified outside locks
	for _, ent := range entries {
		for _, op := range bl.Summary(ent) {
			if op.Kind == "lock" {
				continue
			}
			key := fmt.Sprintf("%s | may block on %s", an.ShortFunc(ent), op.ID(p))
			if seen[key] {
				continue
			}
			seen[key] = true
			why, ok := allowed(op)
			pos := "-"
			if op.At != nil {
				pos = c.At(op.At)
			}
			c.Check(ok, key, pos, "allowed: "+why, "the cancel path itself can block on "+op.Describe(p))
		}
	}
}

func c04r2(c *an.Ctx) {
	sa := streamA(c)
	pl := locksOf(c, "drpcstream")
	fn := c.Fn("drpcstream", "(*Stream).SendCancel")
	n := 0
	an.Instrs(fn, func(in ssa.Instruction) {
		ci, ok := in.(ssa.CallInstruction)
		if !ok {
			return
		}
		op, ok := pl.LT.OpOf(ci.Common())
		if !ok {
			return
		}
		cls := op.Lock.Class()
		if cls != sa.mu.Origin() && cls != sa.write.Origin() {
			return
		}
		if op.Kind == "unlock" {
			return
		}
		n++
		c.Check(op.Kind == "trylock", fmt.Sprintf("(*Stream).SendCancel | acquires Stream.%s with %s", cls.Name(), op.Kind), c.At(in), "", "SendCancel waits for Stream."+cls.Name()+": the stream watcher blocks behind a writer parked in the transport instead of falling back to a hard cancel")
	})
	c.Floor("lock acquisitions in SendCancel", 1, n)
}

func c04r3(c *an.Ctx) {
	a := A(c)
	ms := c.Fn("drpcmanager", "(*Manager).manageStream")
	cancel := a.obj("drpcstream", "(*Stream).Cancel")
	sendCancel := a.obj("drpcstream", "(*Stream).SendCancel")
	terminate := a.obj("drpcmanager", "(*Manager).terminate")
	sfinF := a.field("drpcmanager", "Manager", "sfin")
	termF := a.field("drpcmanager", "Manager", "sigs.term")
	caseOf := func(st *ssa.SelectState) string {
		if st.Dir != types.RecvOnly {
			return ""
		}
		if isLoadOfField(st.Chan, sfinF) {
			return "fin"
		}
		if call, ok := st.Chan.(*ssa.Call); ok {
			if call.Common().IsInvoke() && call.Common().Method.Name() == "Done" {
				return "ctx"
			}
			if f := recvField(call.Common()); f != nil && f == termF.Origin() {
				return "term"
			}
		}
		return ""
	}
	flow := &an.Flow{Fn: ms, Inline: an.InlineSamePackage(ms), Init: []string{""},
		Step: func(st string, in ssa.Instruction) []string {
			call, ok := in.(*ssa.Call)
			if !ok {
				return nil
			}
			switch {
			case an.IsCallTo(call.Common(), cancel):
				return []string{addTag(st, "cancel")}
			case an.IsCallTo(call.Common(), terminate):
				return []string{addTag(st, "terminated")}
			case an.IsCallTo(call.Common(), sendCancel):
				return []string{addTag(st, "softsent")}
			}
			return nil
		},
		Branch: func(st string, br *ssa.If, idx int) (string, bool) {
			if sc, ok := an.SelectBranch(br, idx); ok {
				if k := caseOf(sc.State()); k != "" {
					return addTag(st, "case:"+k), true
				}
				return st, true
			}
			cond, neg := an.StripNot(br.Cond)
			truth := (idx == 0) != neg
			if call, ok := cond.(*ssa.Call); ok && an.IsCallTo(call.Common(), cancel) {
				if !truth {
					return addTag(st, "notfinished"), true
				}
				return addTag(st, "wasfinished"), true
			}
			if ex, ok := cond.(*ssa.Extract); ok {
				if call, ok := ex.Tuple.(*ssa.Call); ok && an.IsCallTo(call.Common(), sendCancel) && ex.Index == 0 && truth {
					return addTag(st, "busy"), true
				}
			}
			if x, trueNonNil, ok := nilTestOf(br.Cond); ok {
				if ex, ok := x.(*ssa.Extract); ok {
					if call, ok := ex.Tuple.(*ssa.Call); ok && an.IsCallTo(call.Common(), sendCancel) && ex.Index == 1 {
						// a second test of the same error agrees with the first one
						if (idx == 0) == trueNonNil {
							if hasTag(st, "softnil") {
								return st, false
							}
							return addTag(st, "softerr"), true
						}
						if hasTag(st, "softerr") {
							return st, false
						}
						return addTag(st, "softnil"), true
					}
				}
			}
			return st, true
		},
	}
	res := flow.Run()
	n := 0
	an.Instrs(ms, func(in ssa.Instruction) {
		u, ok := in.(*ssa.UnOp)
		if !ok || u.Op != token.ARROW || !isLoadOfField(u.X, sfinF) {
			return
		}
		for _, st := range res.Before(in) {
			n++
			which := "?"
			for _, t := range splitTags(st) {
				if strings.HasPrefix(t, "case:") {
					which = t[5:]
				}
			}
			base := "manageStream[" + which + " branch]"
			c.Check(hasTag(st, "cancel"), base+" | stream.Cancel before waiting for the finished token ("+st+")", c.At(in), "", "the watcher waits for the stream to finish without cancelling it: operations blocked on the stream are never woken")
			if hasTag(st, "notfinished") || hasTag(st, "busy") || hasTag(st, "softerr") {
				c.Check(hasTag(st, "terminated"), base+" | manager terminated when the stream could not be cancelled cleanly ("+st+")", c.At(in), "", "the stream was not finished / the soft cancel failed, but the transport is not closed: a write parked in the transport never returns")
			}
		}
	})
	c.Floor("waits for the finished token with their path states", 1, n)
	// the soft branch must cancel locally even when the soft cancel was sent
	hasSoft := false
	an.Instrs(ms, func(in ssa.Instruction) {
		if call, ok := in.(*ssa.Call); ok && an.IsCallTo(call.Common(), sendCancel) {
			hasSoft = true
		}
	})
	c.Check(hasSoft, "manageStream | soft cancel path exists", c.P.Pos(ms.Pos()), "", "SendCancel is no longer used by the watcher")
}

func c04r4(c *an.Ctx) {
	sa := streamA(c)
	a := A(c)
	mt := c.Fn("drpcmanager", "(*Manager).terminate")
	termF := a.field("drpcmanager", "Manager", "sigs.term")
	tportF := a.field("drpcmanager", "Manager", "sigs.tport")
	trF := a.field("drpcmanager", "Manager", "tr")
	sbufClose := a.obj("drpcmanager", "(*streamBuffer).Close")
	var setCall *ssa.Call
	an.Instrs(mt, func(in ssa.Instruction) {
		if call, ok := in.(*ssa.Call); ok && an.IsCallTo(call.Common(), sa.sigSet) && recvField(call.Common()) == termF.Origin() {
			setCall = call
		}
	})
	if !c.Check(setCall != nil, "(*Manager).terminate | sets sigs.term", c.P.Pos(mt.Pos()), "", "terminate no longer sets the term signal") {
		return
	}
	won := func(b *ssa.BasicBlock) bool {
		for _, g := range an.GuardsOf(b) {
			if g.True && g.Cond == ssa.Value(setCall) {
				return true
			}
		}
		return false
	}
	var trClose, tportSet, sbc ssa.Instruction
	an.Instrs(mt, func(in ssa.Instruction) {
		call, ok := in.(*ssa.Call)
		if !ok {
			return
		}
		cc := call.Common()
		if cc.IsInvoke() && cc.Method.Name() == "Close" && isLoadOfField(cc.Value, trF) {
			trClose = in
		}
		if an.IsCallTo(cc, sa.sigSet) && recvField(cc) == tportF.Origin() {
			tportSet = in
		}
		if an.IsCallTo(cc, sbufClose) {
			sbc = in
		}
	})
	c.Check(trClose != nil && won(trClose.Block()), "(*Manager).terminate | transport closed exactly in the first-set-wins branch", c.P.Pos(mt.Pos()), "", "the transport is not closed on termination, or can be closed more than once")
	okT := false
	if tportSet != nil && trClose != nil {
		if call, ok := an.Arg(tportSet.(*ssa.Call).Common(), 0).(*ssa.Call); ok && ssa.Instruction(call) == trClose {
			okT = true
		}
	}
	c.Check(okT, "(*Manager).terminate | tport signal set with the result of tr.Close()", c.P.Pos(mt.Pos()), "", "Close would wait forever on (or report the wrong error from) the transport-closed signal")
	c.Check(sbc != nil && won(sbc.Block()), "(*Manager).terminate | stream buffer closed (wakes a reader parked in Wait)", c.P.Pos(mt.Pos()), "", "a reader parked in streamBuffer.Wait is never woken on termination")

	// Stream.Cancel
	cf := c.Fn("drpcstream", "(*Stream).Cancel")
	isFin := a.obj("drpcstream", "(*Stream).IsFinished")
	var cset, sset, term ssa.Instruction
	an.Instrs(cf, func(in ssa.Instruction) {
		call, ok := in.(*ssa.Call)
		if !ok {
			return
		}
		cc := call.Common()
		switch {
		case an.IsCallTo(cc, sa.sigSet) && recvField(cc) == sa.canc.Origin():
			cset = in
		case an.IsCallTo(cc, sa.sigSet) && recvField(cc) == sa.send.Origin() && isLoadOfGlobal(an.Arg(cc, 0), "io", "EOF"):
			sset = in
		case an.IsCallTo(cc, sa.terminate):
			term = in
		}
	})
	ok := cset != nil && sset != nil && term != nil && an.InstrDominates(cset, term) && an.InstrDominates(sset, term)
	c.Check(ok, "(*Stream).Cancel | cancel.Set; send.Set(io.EOF); terminate", c.P.Pos(cf.Pos()), "", "Cancel does not record the cancel cause before terminating (blocked writers would report the transport error instead of the context's)")
	if term != nil {
		// every return false passes terminate; return true only if finished
		for _, ret := range an.Returns(cf) {
			if !retReachable(cf, ret) {
				continue
			}
			for _, v := range returnedValues(ret, 0) {
				cst, isC := v.(*ssa.Const)
				if !isC {
					c.Bad("(*Stream).Cancel | returns a constant verdict", c.At(ret), "cannot decide the returned value: "+describeRet(v))
					continue
				}
				if cst.Value.String() == "false" {
					c.Check(an.InstrDominates(term, ret), "(*Stream).Cancel | 'not finished' is reported only after terminating", c.At(ret), "", "Cancel reports not-finished without terminating the stream")
				} else {
					okF := false
					for _, g := range an.GuardsOf(ret.Block()) {
						if call, ok := g.Cond.(*ssa.Call); ok && g.True && (an.IsCallTo(call.Common(), isFin) || (an.IsCallTo(call.Common(), sa.sigIsSet) && recvField(call.Common()) == sa.fin.Origin())) {
							okF = true
						}
					}
					c.Check(okF, "(*Stream).Cancel | 'finished' is reported only if IsFinished()", c.At(ret), "", "Cancel reports finished for a stream that may still have operations in flight: the watcher then keeps the transport open under a parked write")
				}
			}
		}
	}
	_ = cset
}

func retReachable(fn *ssa.Function, ret *ssa.Return) bool {
	return !(len(ret.Block().Preds) == 0 && ret.Block() != fn.Blocks[0])
}

func c04r5(c *an.Ctx) {
	a := A(c)
	wf := a.obj("drpcwire", "(*Writer).WriteFrame")
	fl := a.obj("drpcwire", "(*Writer).Flush")
	spl := a.obj("drpcstream", "(*Stream).sendPacketLocked")
	cce := a.obj("drpcstream", "(*Stream).checkCancelError")
	wapi := writerAPI(c)
	isSource := func(v ssa.Value) bool {
		call, ok := v.(*ssa.Call)
		if !ok {
			return false
		}
		cc := call.Common()
		return an.IsCallTo(cc, wf) || an.IsCallTo(cc, fl) || an.IsCallTo(cc, spl) || wapi.emits(cc) || wapi.flushes(cc)
	}
	// derives: does v derive from a writer error without passing checkCancelError?
	var raw func(v ssa.Value, depth int) ssa.Value
	raw = func(v ssa.Value, depth int) ssa.Value {
		if v == nil || depth > 8 {
			return nil
		}
		v = an.Resolve(v)
		if isSource(v) {
			return v
		}
		switch x := v.(type) {
		case *ssa.Call:
			if an.IsCallTo(x.Common(), cce) {
				return nil
			}
			if arg, ok := errsWrapLike(x.Common()); ok {
				return raw(arg, depth+1)
			}
		case *ssa.Phi:
			for _, e := range x.Edges {
				if r := raw(e, depth+1); r != nil {
					return r
				}
			}
		case *ssa.MakeInterface:
			return raw(x.X, depth+1)
		}
		return nil
	}
	n := 0
	for _, fn := range must(c.P.SourceFuncs("drpcstream")) {
		if an.FuncObjOf(fn) == spl {
			continue // its callers wrap it
		}
		for _, ret := range an.Returns(fn) {
			if !retReachable(fn, ret) {
				continue
			}
			for i := range ret.Results {
				for _, v := range returnedValues(ret, i) {
					if v == nil {
						continue
					}
					if !types.Identical(v.Type(), types.Universe.Lookup("error").Type()) {
						continue
					}
					src := raw(v, 0)
					passes := false
					if call, ok := an.Resolve(v).(*ssa.Call); ok && an.IsCallTo(call.Common(), cce) {
						// count it when its argument derives from a writer error
						if raw(an.Arg(call.Common(), 0), 0) != nil {
							passes = true
						}
					}
					if src == nil && !passes {
						continue
					}
					n++
					c.Analysed(fn)
					c.Check(src == nil, fmt.Sprintf("%s | writer error returned through checkCancelError", an.ShortFunc(fn)), c.At(ret), "", "a write error is returned without checkCancelError: a send blocked in the transport when the context is cancelled reports the transport's close error instead of the context's ("+describeRet(src)+")")
				}
			}
		}
	}
	c.Floor("returns of writer errors in drpcstream", 1, n)
}

func c04r6(c *an.Ctx) {
	a := A(c)
	termF := a.field("drpcmanager", "Manager", "sigs.term")
	fns := must(c.P.SourceFuncs("drpcmanager"))
	bs := blockingOf(c)
	_ = bs
	nSel := 0
	// reviewed bare blocking operations: function -> op id -> reason
	reviewed := map[string]map[string]string{
		"(*Manager).manageReader": {
			"call (*Chan).Recv on Manager.pdone": "paired: NewServerStream sends pdone after every receive from m.pkts (C06.R5)",
			"call (*streamBuffer).Wait":          "woken by streamBuffer.Set and by streamBuffer.Close on terminate (C04.R4); entered only for a forwarded invoke (C06.R3)",
		},
		"(*Manager).manageStream": {
			"recv Manager.sfin":                "finished token: sent exactly once per stream (C03.R5) after the cancel issued on this path (C04.R3)",
			"call (*Chan).Recv on Manager.sem": "releases the semaphore this stream holds: never blocks (C02.R6)",
		},
		"(*Manager).NewServerStream": { // closures of a function are looked up under the function
			"call (*Chan).Send on Manager.pdone": "capacity 1, one send per receive from m.pkts (C06.R5)",
		},
		"(*Manager).Close": {
			"call (*Signal).Wait on Manager.sigs.stream": "set by manageStreams' first defer (C12.R1)",
			"call (*Signal).Wait on Manager.sigs.read":   "set by manageReader's first defer (C12.R1)",
			"call (*Signal).Wait on Manager.sigs.tport":  "set in terminate's first-wins branch (C04.R4)",
		},
		"(*streamBuffer).Wait": {
			"call (*Cond).Wait on streamBuffer.cond": "woken by Set/Close which broadcast under the same mutex",
		},
	}
	chanRecv := a.obj("drpcsignal", "(*Chan).Recv")
	chanSend := a.obj("drpcsignal", "(*Chan).Send")
	sigWait := a.obj("drpcsignal", "(*Signal).Wait")
	sbWait := a.obj("drpcmanager", "(*streamBuffer).Wait")
	condWait := a.obj("sync", "(*Cond).Wait")
	nBare := 0
	held := map[*ssa.Function]map[ssa.Instruction]bool{}
	for _, fn := range fns {
		an.Instrs(fn, func(in ssa.Instruction) {
			id := ""
			switch x := in.(type) {
			case *ssa.Select:
				if !x.Blocking {
					return
				}
				nSel++
				ok := false
				isTermOrDone := func(v ssa.Value) bool {
					call, isCall := v.(*ssa.Call)
					if !isCall {
						return false
					}
					if call.Common().IsInvoke() && call.Common().Method.Name() == "Done" {
						return true
					}
					f := recvField(call.Common())
					return f != nil && f == termF.Origin()
				}
				for _, st := range x.States {
					if st.Dir != types.RecvOnly {
						continue
					}
					if isTermOrDone(st.Chan) {
						ok = true
					}
					// the channel is a parameter: every caller in the package passes the term signal / ctx.Done()
					if prm, isParam := st.Chan.(*ssa.Parameter); isParam {
						idx := -1
						for i, q := range fn.Params {
							if q == prm {
								idx = i
							}
						}
						nCalls, all := 0, idx >= 0
						if obj := an.FuncObjOf(fn); obj != nil && idx >= 0 {
							for _, caller := range fns {
								for _, cs := range an.CallsTo(caller, true, obj) {
									nCalls++
									args := cs.Common().Args
									if idx >= len(args) || !isTermOrDone(an.Unwrap(args[idx])) {
										all = false
									}
								}
							}
						}
						if all && nCalls > 0 {
							ok = true
						}
					}
				}
				c.Analysed(fn)
				c.Check(ok, an.ShortFunc(fn)+" | blocking select has a term or ctx.Done case", c.At(in), "", "a connection goroutine (or a caller) can block in this select with nothing to wake it on termination/cancel")
				return
			case *ssa.UnOp:
				if x.Op == token.ARROW {
					f, _ := chanFieldOf(x.X)
					id = "recv " + f
				}
			case *ssa.Send:
				f, _ := chanFieldOf(x.Chan)
				id = "send " + f
			case *ssa.Call:
				cc := x.Common()
				for _, m := range []*types.Func{chanRecv, chanSend, sigWait, condWait} {
					if an.IsCallTo(cc, m) {
						f := recvField(cc)
						fname := "?"
						if f != nil {
							fname = c.P.FieldName(f)
							fname = strings.TrimPrefix(fname, "drpcmanager.")
						}
						id = "call " + an.ShortFunc(must(c.P.Func(pkgOfObj(m), recvName(m)))) + " on " + fname
					}
				}
				if an.IsCallTo(cc, sbWait) {
					id = "call (*streamBuffer).Wait"
				}
			}
			if id == "" {
				return
			}
			nBare++
			owner := an.ShortFunc(fn)
			if i := strings.Index(owner, "$"); i >= 0 {
				owner = owner[:i]
			}
			why, ok := reviewed[owner][id]
			if !ok && strings.HasPrefix(id, "recv ") {
				// a receive from a channel kept in a field of the method's own receiver type that the type's Close
				// closes: Close is what terminate calls (C04.R4), so the wait ends with the manager at the latest
				if u, isU := in.(*ssa.UnOp); isU {
					if w, how := closedByOwnClose(c, fn, u.X, fns); w {
						why, ok = how, true
					}
				}
			}
			if !ok && id == "call (*Chan).Recv on Manager.sem" {
				// a release of the semaphore on paths that hold it cannot block (capacity 1, C02.R6)
				root := fn
				for root.Parent() != nil {
					root = root.Parent()
				}
				if held[root] == nil {
					held[root] = semReleasesHeld(c, root)
					if held[root] == nil {
						held[root] = map[ssa.Instruction]bool{}
					}
				}
				if held[root][in] {
					why, ok = "releases the semaphore held on every path reaching it: never blocks (capacity 1, C02.R6)", true
				}
			}
			c.Check(ok, owner+" | bare blocking op: "+id, c.At(in), why, "a blocking operation without a term/ctx alternative that is not in the reviewed, paired set: nothing is known to wake it")
		})
	}
	c.Floor("blocking selects in drpcmanager", 1, nSel)
	c.Floor("bare blocking operations in drpcmanager", 1, nBare)
}

func pkgOfObj(f *types.Func) string { return f.Pkg().Path() }

func recvName(f *types.Func) string {
	sig := f.Type().(*types.Signature)
	if sig.Recv() == nil {
		return f.Name()
	}
	t := sig.Recv().Type()
	ptr := ""
	if p, ok := t.(*types.Pointer); ok {
		t = p.Elem()
		ptr = "*"
	}
	n := t.(*types.Named)
	if ptr != "" {
		return "(*" + n.Obj().Name() + ")." + f.Name()
	}
	return n.Obj().Name() + "." + f.Name()
}

func chanFieldOf(v ssa.Value) (string, bool) {
	v = an.Unwrap(v)
	if u, ok := v.(*ssa.UnOp); ok && u.Op == token.MUL {
		p := an.PathOf(u.X)
		if l := p.Last(); l != nil {
			t := deref(p.Root.Type())
			tn := ""
			if n, ok := t.(*types.Named); ok {
				tn = n.Obj().Name() + "."
			}
			return tn + p.FieldString(), true
		}
	}
	return an.Render(v, 3), false
}

// c04w2: classic lock-order check over lock classes. An edge L -> L' exists if some function blocks on
// Lock(L') while L may be held (TryLock does not create an edge: it cannot wait). A cycle means two
// goroutines can each hold one lock and wait for the other.
func c04w2(c *an.Ctx) {
	bs := blockingOf(c)
	p := c.P
	type edge struct {
		from, to *types.Var
		site     an.HeldEdge
	}
	adj := map[*types.Var]map[*types.Var]an.HeldEdge{}
	n := 0
	for _, e := range bs.edges {
		if e.Op.Kind != "lock" || e.Op.Class == nil || e.Op.Class == e.Held {
			continue
		}
		if adj[e.Held] == nil {
			adj[e.Held] = map[*types.Var]an.HeldEdge{}
		}
		if _, ok := adj[e.Held][e.Op.Class]; !ok {
			adj[e.Held][e.Op.Class] = e
			n++
		}
	}
	c.Floor("lock-order edges", 1, n)
	// find cycles: for every edge a->b, is a reachable from b?
	reach := func(from, to *types.Var) []*types.Var {
		type item struct {
			v    *types.Var
			path []*types.Var
		}
		seen := map[*types.Var]bool{}
		stack := []item{{from, []*types.Var{from}}}
		for len(stack) > 0 {
			it := stack[len(stack)-1]
			stack = stack[:len(stack)-1]
			if it.v == to {
				return it.path
			}
			if seen[it.v] {
				continue
			}
			seen[it.v] = true
			for nx := range adj[it.v] {
				stack = append(stack, item{nx, append(append([]*types.Var{}, it.path...), nx)})
			}
		}
		return nil
	}
	var froms []*types.Var
	for a := range adj {
		froms = append(froms, a)
	}
	sort.Slice(froms, func(i, j int) bool { return p.FieldName(froms[i]) < p.FieldName(froms[j]) })
	for _, a := range froms {
		var tos []*types.Var
		for b := range adj[a] {
			tos = append(tos, b)
		}
		sort.Slice(tos, func(i, j int) bool { return p.FieldName(tos[i]) < p.FieldName(tos[j]) })
		for _, b := range tos {
			e := adj[a][b]
			key := fmt.Sprintf("%s | Lock(%s) while holding %s is not part of a lock-order cycle", an.ShortFunc(e.In), p.FieldName(b), p.FieldName(a))
			back := reach(b, a)
			if back == nil {
				c.Ok(key, c.At(e.Site), "")
				continue
			}
			var names []string
			for _, v := range back {
				names = append(names, p.FieldName(v))
			}
			other := adj[back[len(back)-2]][a]
			c.Bad(key, c.At(e.Site), fmt.Sprintf("lock-order cycle: this site waits for %s while holding %s, and %s waits for %s while holding %s (at %s): two goroutines can block each other forever, and every later operation that needs either lock (Cancel, HandlePacket) hangs with them; order: %s -> %s",
				p.FieldName(b), p.FieldName(a), an.ShortFunc(other.In), p.FieldName(a), p.FieldName(back[len(back)-2]), c.At(other.Site), p.FieldName(a), strings.Join(names, " -> ")))
		}
	}
}

func c04r7(c *an.Ctx) {
	a := A(c)
	ncs := a.obj("drpcmanager", "(*Manager).NewClientStream")
	pl := locksOf(c, "drpcconn")
	n := 0
	for _, fn := range must(c.P.SourceFuncs("drpcconn")) {
		lf := pl.Flow(fn)
		for _, cs := range an.CallsTo(fn, false, ncs) {
			n++
			c.Analysed(fn)
			held := []string{}
			if lf != nil {
				held = lf.May(cs.Instr)
			}
			c.Check(len(held) == 0, an.ShortFunc(fn)+" | no lock held while waiting for the stream slot", c.At(cs.Instr), "",
				fmt.Sprintf("NewClientStream is called with %v held: a concurrent call queues on that mutex instead of in the context-aware wait for the stream slot, so cancelling its context does not unblock it", held))
		}
	}
	c.Floor("NewClientStream calls in drpcconn", 1, n)
}

// closedByOwnClose: ch is (a copy of) a channel field F of the receiver type T of method fn, and T has a Close method
// that closes F.
func closedByOwnClose(c *an.Ctx, fn *ssa.Function, ch ssa.Value, fns []*ssa.Function) (bool, string) {
	v := an.Resolve(an.Unwrap(ch))
	ld, ok := v.(*ssa.UnOp)
	if !ok || ld.Op != token.MUL {
		return false, ""
	}
	f := an.PathOf(ld.X).Last()
	root := fn
	for root.Parent() != nil {
		root = root.Parent()
	}
	if f == nil || root.Signature.Recv() == nil {
		return false, ""
	}
	T := deref(root.Signature.Recv().Type())
	for _, g := range fns {
		if g.Signature.Recv() == nil || !types.Identical(deref(g.Signature.Recv().Type()), T) || g.Name() != "Close" {
			continue
		}
		found := false
		an.Instrs(g, func(in ssa.Instruction) {
			call, isCall := in.(*ssa.Call)
			if !isCall {
				return
			}
			if b, isB := call.Common().Value.(*ssa.Builtin); isB && b.Name() == "close" && isLoadOfField(call.Common().Args[0], f) {
				found = true
			}
		})
		if found {
			return true, "woken when " + an.ShortFunc(g) + " closes " + f.Name() + " (terminate closes the buffer, C04.R4)"
		}
	}
	return false, ""
}

// c04r8: on the synchronous call path of the two stream constructors every blocking select has a receive case on
// Done() of a context.Context parameter of the function it is in (the caller's context, handed down call by call).
func c04r8(c *an.Ctx) {
	fns := must(c.P.SourceFuncs("drpcmanager"))
	inPkg := map[*ssa.Function]bool{}
	for _, f := range fns {
		inPkg[f] = true
	}
	isCtx := func(t types.Type) bool {
		n, ok := t.(*types.Named)
		return ok && n.Obj().Pkg() != nil && n.Obj().Pkg().Path() == "context" && n.Obj().Name() == "Context"
	}
	nSel := 0
	for _, entry := range []string{"(*Manager).NewClientStream", "(*Manager).NewServerStream"} {
		root := c.Fn("drpcmanager", entry)
		seen := map[*ssa.Function]bool{root: true}
		work := []*ssa.Function{root}
		for len(work) > 0 {
			fn := work[0]
			work = work[1:]
			c.Analysed(fn)
			for _, b := range fn.Blocks {
				for _, in := range b.Instrs {
					switch x := in.(type) {
					case *ssa.Call:
						if cal := x.Common().StaticCallee(); cal != nil && inPkg[cal] && !seen[cal] {
							seen[cal] = true
							work = append(work, cal)
						}
					case *ssa.Select:
						if !x.Blocking {
							continue
						}
						nSel++
						ok := false
						for _, st := range x.States {
							if st.Dir != types.RecvOnly {
								continue
							}
							call, isCall := an.Unwrap(st.Chan).(*ssa.Call)
							if !isCall || !call.Common().IsInvoke() || call.Common().Method.Name() != "Done" {
								continue
							}
							v := an.Unwrap(call.Common().Value)
							if prm, isP := v.(*ssa.Parameter); isP && isCtx(prm.Type()) {
								ok = true
							}
							if fv, isF := v.(*ssa.FreeVar); isF && isCtx(fv.Type()) {
								ok = true
							}
						}
						// reviewed exception, keyed by the channel: the hand-over of the new stream to manageStreams. It is
						// entered only after waitForPreviousStream saw the previous stream absent or finished, and the
						// previous watcher returns without further blocking once its stream is finished (C04.R3, C03.R5)
						handover := false
						for _, st := range x.States {
							if st.Dir == types.SendOnly {
								if ld, isLd := an.Resolve(an.Unwrap(st.Chan)).(*ssa.UnOp); isLd && ld.Op == token.MUL {
									if f := an.PathOf(ld.X).Last(); f != nil && f.Name() == "streams" {
										handover = true
									}
								}
							}
						}
						if handover && !ok {
							c.Ok(fmt.Sprintf("%s via %s | hand-over of the new stream to the watcher", an.ShortFunc(fn), entry), c.At(in), "reviewed: send on Manager.streams; the receiver is free once the previous stream finished, which the constructor has already waited for cancellably")
							continue
						}
						c.Check(ok, fmt.Sprintf("%s via %s | blocking select waits on the caller's ctx.Done()", an.ShortFunc(fn), entry), c.At(in), "",
							"this select is on the synchronous path of "+entry+" and has no case on Done() of the context handed to the function: a caller whose context is cancelled stays parked here until the manager terminates or the previous stream finishes, which a stalled transport can postpone indefinitely")
					}
				}
			}
		}
	}
	c.Floor("blocking selects on the stream constructors' call paths", 3, nSel)
}
