package rules

import (
	"fmt"
	"go/token"
	"go/types"

	"golang.org/x/tools/go/ssa"

	"verif/sa/internal/an"
)

func init() {
	register(&Property{
		ID:        "C02",
		Technique: "guard dominance and path-sensitive typestate on go/ssa (dispatch guards, semaphore pairing), value flow for stream ids, who-may-call; tested-then-dropped error (contradiction) check and interprocedural lock-pairing check over the packages the property is anchored in",
		Explanation: "Structural conditions of stream isolation on a reused connection: " +
			"(R1) every effect of Stream.HandlePacket is behind the stream-id equality test and (except stats) the not-terminated test; " +
			"(R2) the reader delivers a packet to the current stream only under curr != nil && id == curr.ID() on the same stream value, and every later effect of the dispatch (cancelling the current stream, forwarding an invoke, waiting for a stream) is behind 'not an older stream id'; " +
			"(R3) a stream is created only after the semaphore was acquired and the previous stream finished; " +
			"(R4) client stream ids are previous id + positive constant, server stream ids are the forwarded invoke packet's id; " +
			"(R5) the shared writer is reset when a stream is constructed, and nowhere else; " +
			"(R6) the semaphore and the finished token are released/consumed exactly once on every path of the stream watcher, and released on every failure path after acquisition; both have capacity 1; " +
			"(R7) newStream, streamBuffer.Set and writes of Stream.id have exactly the reviewed callers/writers.",
		NotDecided: "absence of cross-talk for all late-packet arrival windows and cancel points; that a unary call always returns its own response (behavioural).",
		Assumptions: []string{
			"the peer's stream ids are the ones it puts on the wire (no claim about a hostile peer re-using ids)",
		},
		Rules: append([]Rule{
			{ID: "C02.R1", Doc: "HandlePacket: all effects behind pkt.ID.Stream == s.id.Stream and !term.IsSet()", Run: c02r1},
			{ID: "C02.R2", Doc: "manageReader dispatch: deliver only to the matching current stream; later effects only for ids not below the current stream", Run: c02r2},
			{ID: "C02.R3", Doc: "stream constructors: newStream only after acquireSemaphore == nil; semaphore acquired and previous stream finished before nil is returned", Run: c02r3},
			{ID: "C02.R4", Doc: "stream id provenance: client = previous id + c (c >= 1); server = id of the forwarded invoke packet", Run: c02r4},
			{ID: "C02.R5", Doc: "Writer.Reset is called exactly when a Stream is constructed, on the writer it stores", Run: c02r5},
			{ID: "C02.R6", Doc: "semaphore / finished-token pairing in manageStream, acquireSemaphore, NewServerStream; capacities are the constant 1", Run: c02r6},
			{ID: "C02.R7", Doc: "who-may-call: newStream, streamBuffer.Set; who-may-write: Stream.id", Run: c02r7},
			{ID: "C02.R8", Doc: "the connection's request buffer Conn.wbuf and every slice aliasing it are used only under Conn.mu", Run: c02r8},
			{ID: "C02.S1", Doc: "metadata of an abandoned call is not attached to the next RPC", Alias: "C11.R2"},
			{ID: "C02.S2", Doc: "metadata bytes are private to the call that encoded them", Alias: "C11.R3"},
			{ID: "C02.S3", Doc: "a stream cannot finish (and let its successor start) before its terminal packet is written", Alias: "C03.R8"},
			{ID: "C02.S4", Alias: "C03.R9"},
			{ID: "C02.S5", Doc: "the connection reader's buffer is lent to one decoder at a time: a packet handed out by packetBuffer.Get is marked held until Done, and Put/Close wait for it (otherwise the next stream's bytes overwrite a message still being decoded)", Alias: "C01.R4"},
			{ID: "C02.S7", Doc: "bytes of an abandoned call's unfinished packet are discarded before the next call's packet is measured against the size limit", Alias: "C09.R4"},
			{ID: "C02.S6", Doc: "the reader waits only for the stream of an invoke it forwarded: a packet of an abandoned call (metadata or cancel without invoke) is dropped instead of being held for, and delivered to, the next stream", Alias: "C06.R3"},
			{ID: "C02.S8", Doc: "a terminal call on an already terminated stream succeeds: the server does not give up the connection (and the next RPC) because a handler finished after its stream did (= C03.R12)", Alias: "C03.R12"},
		}, disciplineRules("C02", "drpcmanager", "drpcconn", "drpcstream")...),
	})
}

func c02r1(c *an.Ctx) {
	sa := streamA(c)
	a := A(c)
	hp := c.Fn("drpcstream", "(*Stream).HandlePacket")
	put := a.obj("drpcstream", "(*packetBuffer).Put")
	idStream := a.field("drpcwire", "ID", "Stream")
	pktID := a.field("drpcwire", "Packet", "ID")
	sID := a.field("drpcstream", "Stream", "id")
	// id test: compares pkt.ID.Stream with s.id.Stream
	idGuard := func(b *ssa.BasicBlock) bool {
		for _, g := range an.GuardsOf(b) {
			bin, ok := g.Cond.(*ssa.BinOp)
			if !ok || (bin.Op != token.NEQ && bin.Op != token.EQL) {
				continue
			}
			isPkt := func(v ssa.Value) bool {
				p := an.PathOf(v)
				return len(p.Fields) >= 2 && p.Fields[len(p.Fields)-1].Origin() == idStream.Origin() && p.Fields[len(p.Fields)-2].Origin() == pktID.Origin()
			}
			isSelf := func(v ssa.Value) bool {
				p := an.PathOf(v)
				return len(p.Fields) >= 2 && p.Fields[len(p.Fields)-1].Origin() == idStream.Origin() && p.Fields[len(p.Fields)-2].Origin() == sID.Origin()
			}
			if !((isPkt(bin.X) && isSelf(bin.Y)) || (isPkt(bin.Y) && isSelf(bin.X))) {
				continue
			}
			equal := g.True == (bin.Op == token.EQL)
			if equal {
				return true
			}
		}
		return false
	}
	n := 0
	an.Instrs(hp, func(in ssa.Instruction) {
		ci, ok := in.(ssa.CallInstruction)
		if !ok {
			return
		}
		cc := ci.Common()
		what := ""
		stats := false
		switch {
		case an.IsCallTo(cc, put):
			what = "pbuf.Put"
		case an.IsCallTo(cc, sa.pbufClose):
			what = "pbuf.Close"
		case an.IsCallTo(cc, sa.sigSet):
			what = "Set " + recvField(cc).Name()
		case an.IsCallTo(cc, sa.terminate):
			what = "terminate"
		case an.IsCallTo(cc, sa.termBoth):
			what = "terminateIfBothClosed"
		default:
			if obj := an.CalleeObj(cc); obj != nil && obj.Pkg() != nil && obj.Pkg().Name() == "drpcstats" {
				what, stats = "stats."+obj.Name(), true
			}
		}
		if what == "" {
			return
		}
		n++
		c.Check(idGuard(in.Block()), "HandlePacket | "+what+" behind the stream-id equality test", c.At(in), "", "a packet of another stream can take effect on this stream")
		if !stats {
			_, _, ok := isSetGuard(in.Block(), sa.sigIsSet, sa.term, false)
			c.Check(ok, "HandlePacket | "+what+" behind !term.IsSet()", c.At(in), "", "a late packet can take effect on a terminated stream")
		}
	})
	c.Floor("effects in HandlePacket", 1, n)
}

func c02r2(c *an.Ctx) {
	a := A(c)
	mr := c.Fn("drpcmanager", "(*Manager).manageReader")
	handle := a.obj("drpcstream", "(*Stream).HandlePacket")
	sbufGet := a.obj("drpcmanager", "(*streamBuffer).Get")
	sbufWait := a.obj("drpcmanager", "(*streamBuffer).Wait")
	streamID := a.obj("drpcstream", "(*Stream).ID")
	cancel := a.obj("drpcstream", "(*Stream).Cancel")
	pkts := a.field("drpcmanager", "Manager", "pkts")
	idStream := a.field("drpcwire", "ID", "Stream")

	isPktStream := func(v ssa.Value) bool {
		p := an.PathOf(v)
		return len(p.Fields) >= 2 && p.Fields[len(p.Fields)-1].Origin() == idStream.Origin() && nameOf(p.Fields[len(p.Fields)-2]) == "ID"
	}
	idOf := func(v ssa.Value) ssa.Value { // curr in `curr.ID()`
		call, ok := v.(*ssa.Call)
		if !ok || !an.IsCallTo(call.Common(), streamID) {
			return nil
		}
		return call.Common().Args[0]
	}
	// (a) delivery
	n := 0
	for _, cs := range an.CallsTo(mr, false, handle) {
		n++
		curr := cs.Common().Args[0]
		nonNil, eq := false, false
		for _, g := range an.GuardsOf(cs.Instr.Block()) {
			if x, trueNonNil, ok := nilTestOf(g.Cond); ok && x == curr && g.True == trueNonNil {
				nonNil = true
			}
			if bin, ok := g.Cond.(*ssa.BinOp); ok && (bin.Op == token.EQL || bin.Op == token.NEQ) {
				eqEdge := g.True == (bin.Op == token.EQL)
				if eqEdge && ((isPktStream(bin.X) && idOf(bin.Y) == curr) || (isPktStream(bin.Y) && idOf(bin.X) == curr)) {
					eq = true
				}
			}
		}
		c.Check(nonNil, "manageReader | HandlePacket only on a non-nil current stream", c.At(cs.Instr), "", "HandlePacket may be invoked on a nil stream")
		c.Check(eq, "manageReader | HandlePacket only if pkt.ID.Stream == curr.ID() (same curr)", c.At(cs.Instr), "", "a packet is delivered to a stream whose id it does not carry")
		if call, ok := curr.(*ssa.Call); !ok || !an.IsCallTo(call.Common(), sbufGet) {
			c.Bad("manageReader | current stream comes from streamBuffer.Get", c.At(cs.Instr), "delivery target is not the manager's current stream: "+an.R(curr))
		}
	}
	c.Floor("HandlePacket calls in manageReader", 1, n)

	// (b) typestate: "not an older id" (or no current stream) established since the last sbuf.Get
	flow := &an.Flow{Fn: mr, Inline: an.InlineSamePackage(mr), Init: []string{""},
		Step: func(st string, in ssa.Instruction) []string {
			if call, ok := in.(*ssa.Call); ok && an.IsCallTo(call.Common(), sbufGet) {
				return []string{""}
			}
			return nil
		},
		Branch: func(st string, br *ssa.If, idx int) (string, bool) {
			if x, trueNonNil, ok := nilTestOf(br.Cond); ok {
				if call, isCall := x.(*ssa.Call); isCall && an.IsCallTo(call.Common(), sbufGet) {
					isNil := (idx == 0) != trueNonNil
					if isNil {
						return addTag(st, "nil"), true
					}
				}
				return st, true
			}
			bin, ok := br.Cond.(*ssa.BinOp)
			if !ok {
				return st, true
			}
			// pkt.ID.Stream < curr.ID()  (or mirrored forms)
			var lessTrue, known bool
			switch {
			case bin.Op == token.LSS && isPktStream(bin.X) && idOf(bin.Y) != nil:
				lessTrue, known = idx == 0, true
			case bin.Op == token.GEQ && isPktStream(bin.X) && idOf(bin.Y) != nil:
				lessTrue, known = idx == 1, true
			case bin.Op == token.GTR && isPktStream(bin.Y) && idOf(bin.X) != nil:
				lessTrue, known = idx == 0, true
			case bin.Op == token.LEQ && isPktStream(bin.Y) && idOf(bin.X) != nil:
				lessTrue, known = idx == 1, true
			}
			if known && !lessTrue {
				return addTag(st, "notless"), true
			}
			if known && lessTrue {
				return addTag(st, "less"), true
			}
			return st, true
		},
	}
	res := flow.Run()
	nEff := 0
	effect := func(in ssa.Instruction, what string) {
		nEff++
		ok := true
		for _, st := range res.Before(in) {
			if !(hasTag(st, "notless") || hasTag(st, "nil")) || hasTag(st, "less") {
				ok = false
			}
		}
		c.Check(ok, "manageReader | "+what+" only for ids not below the current stream", c.At(in), "", "a leftover packet of an earlier stream can "+what+" (states: "+fmt.Sprint(res.Before(in))+")")
	}
	an.Instrs(mr, func(in ssa.Instruction) {
		switch x := in.(type) {
		case *ssa.Call:
			cc := x.Common()
			if an.IsCallTo(cc, cancel) {
				effect(in, "cancel the current stream")
			}
			if an.IsCallTo(cc, sbufWait) {
				effect(in, "park the reader waiting for a stream")
			}
		case *ssa.Select:
			for _, s := range x.States {
				if s.Dir == types.SendOnly && isLoadOfField(s.Chan, pkts) {
					effect(in, "be forwarded as an invoke")
				}
			}
		}
	})
	c.Floor("dispatch effects in manageReader", 1, nEff)
	// (c) the older-id edge has no effect: it goes straight back to the loop head
	nDrop := 0
	an.Instrs(mr, func(in ssa.Instruction) {
		br, ok := in.(*ssa.If)
		if !ok {
			return
		}
		bin, ok := br.Cond.(*ssa.BinOp)
		if !ok || bin.Op != token.LSS || !isPktStream(bin.X) || idOf(bin.Y) == nil {
			return
		}
		nDrop++
		succ := br.Block().Succs[0]
		// must reach the loop head (the block testing term.IsSet) without calls
		clean := true
		for hops := 0; hops < 4; hops++ {
			hasCall := false
			for _, i2 := range succ.Instrs {
				if ci, isCall := i2.(ssa.CallInstruction); isCall && !isDebugLog(ci.Common()) && !c.P.IsCounterOp(ci) {
					hasCall = true
				}
			}
			if hasCall {
				// allowed only if this is the loop head's own term test
				if len(succ.Preds) > 2 {
					break
				}
				clean = false
				break
			}
			if len(succ.Succs) != 1 {
				break
			}
			succ = succ.Succs[0]
		}
		c.Check(clean, "manageReader | packets of older streams are dropped without effect", c.At(in), "", "the older-stream branch performs calls")
	})
	c.Floor("older-id drop branch", 1, nDrop)
}

func c02r3(c *an.Ctx) {
	a := A(c)
	acquire := a.obj("drpcmanager", "(*Manager).acquireSemaphore")
	newStream := a.obj("drpcmanager", "(*Manager).newStream")
	semF := a.field("drpcmanager", "Manager", "sem")
	chanGet := a.obj("drpcsignal", "(*Chan).Get")
	isFinished := a.obj("drpcstream", "(*Stream).IsFinished")
	finished := a.obj("drpcstream", "(*Stream).Finished")
	sbufGet := a.obj("drpcmanager", "(*streamBuffer).Get")
	n := 0
	for _, name := range []string{"(*Manager).NewClientStream", "(*Manager).NewServerStream"} {
		fn := c.Fn("drpcmanager", name)
		acq := an.CallsTo(fn, false, acquire)
		if !c.Floor("acquireSemaphore call in "+name, 1, len(acq)) {
			continue
		}
		acqVal := acq[0].Instr.(*ssa.Call)
		for _, cs := range an.CallsTo(fn, true, newStream) {
			n++
			ok := false
			for _, g := range an.GuardsOf(cs.Instr.Block()) {
				if x, trueNonNil, isNil := nilTestOf(g.Cond); isNil && an.Resolve(x) == ssa.Value(acqVal) && g.True != trueNonNil {
					ok = true
				}
			}
			c.Check(ok, name+" | newStream only after acquireSemaphore returned nil", c.At(cs.Instr), "", "a stream can be created without holding the connection's stream semaphore: two streams share the transport")
		}
	}
	c.Floor("newStream call sites", 1, n)

	// acquireSemaphore: it reports success only after the send on m.sem succeeded and, after that, the wait for
	// the previous stream was satisfied: there is none, it is already finished, or its finished signal was
	// received. Path-sensitive and through same-package helpers, so that `prev == nil || prev.IsFinished()`,
	// separate early returns, and the wait written in a helper or in place are all the same to the rule.
	af := c.Fn("drpcmanager", "(*Manager).acquireSemaphore")
	const jNone, jDone, jRecv = "no previous stream", "previous stream already finished", "received from prev.Finished()"
	nt := nilTrack{nonNil: func(v ssa.Value, at ssa.Instruction) bool { return ctxErrAfterDone(v, at) || isTermErr(c, v) }}
	wflow := &an.Flow{Fn: af, Init: []string{""}, Inline: an.InlineSamePackage(af), OnReturn: nt.onReturn,
		Step: func(st string, in ssa.Instruction) []string {
			if x, ok := in.(*ssa.Store); ok {
				if s2 := nt.store(st, x); s2 != st {
					return []string{s2}
				}
			}
			return nil
		},
		Branch: func(st string, br *ssa.If, idx int) (string, bool) {
			if sc, ok := an.SelectBranch(br, idx); ok {
				s2 := sc.State()
				if call, ok := s2.Chan.(*ssa.Call); ok {
					if s2.Dir == types.SendOnly && an.IsCallTo(call.Common(), chanGet) && recvField(call.Common()) == semF.Origin() {
						return addTag(st, "sent"), true
					}
					if s2.Dir == types.RecvOnly && an.IsCallTo(call.Common(), finished) && hasTag(st, "sent") {
						return addTag(st, jRecv), true
					}
				}
				return st, true
			}
			if x, trueNonNil, ok := nilTestOf(br.Cond); ok {
				isNil := (idx == 0) != trueNonNil
				if call, isCall := an.Resolve(x).(*ssa.Call); isCall && an.IsCallTo(call.Common(), sbufGet) {
					if isNil && hasTag(st, "sent") {
						return addTag(st, jNone), true
					}
					return st, true
				}
				if s2, handled, feasible := nt.branch(st, br, idx); handled {
					return s2, feasible
				}
				return st, true
			}
			cond, neg := an.StripNot(br.Cond)
			if call, ok := cond.(*ssa.Call); ok && an.IsCallTo(call.Common(), isFinished) && (idx == 0) != neg && hasTag(st, "sent") {
				return addTag(st, jDone), true
			}
			return st, true
		},
	}
	wres := wflow.Run()
	nn := 0
	for _, ret := range an.Returns(af) {
		if !wres.Reachable(ret.Block()) || len(ret.Results) == 0 {
			continue
		}
		e := ret.Results[0]
		for _, sf := range wres.BeforeF(ret) {
			st := sf.User
			if known, nonNil := nt.statusF(sf, e, ret); !known || nonNil {
				continue // a failure, or an error value handed through (term.Get): not a success return
			}
			nn++
			c.Check(hasTag(st, "sent"), "acquireSemaphore | nil only after a successful send on m.sem", c.At(ret), "", "acquireSemaphore reports success without holding the semaphore")
			just := ""
			for _, j := range []string{jNone, jDone, jRecv} {
				if hasTag(st, j) {
					just = j
				}
			}
			c.Check(just != "", "acquireSemaphore | success only after the previous stream is absent or finished", c.At(ret), just, "a new stream can start while the previous one still has operations in flight on the transport (acquireSemaphore can return nil although the previous stream is neither absent nor finished)")
		}
	}
	c.Floor("nil returns of acquireSemaphore", 1, nn)
}

func c02r4(c *an.Ctx) {
	a := A(c)
	newStream := a.obj("drpcmanager", "(*Manager).newStream")
	sbufGet := a.obj("drpcmanager", "(*streamBuffer).Get")
	streamID := a.obj("drpcstream", "(*Stream).ID")
	pkts := a.field("drpcmanager", "Manager", "pkts")
	idStream := a.field("drpcwire", "ID", "Stream")
	cl := c.Fn("drpcmanager", "(*Manager).NewClientStream")
	for _, cs := range an.CallsTo(cl, false, newStream) {
		sid := an.Arg(cs.Common(), 1)
		ok := false
		if bin, isBin := sid.(*ssa.BinOp); isBin && bin.Op == token.ADD {
			if k, isC := an.ConstInt(bin.Y); isC && k >= 1 {
				if idc, isCall := bin.X.(*ssa.Call); isCall && an.IsCallTo(idc.Common(), streamID) {
					if g, isG := idc.Common().Args[0].(*ssa.Call); isG && an.IsCallTo(g.Common(), sbufGet) {
						ok = true
					}
				}
			}
		}
		c.Check(ok, "NewClientStream | stream id = sbuf.Get().ID() + c, c >= 1", c.At(cs.Instr), "", "client stream ids are not strictly increasing: "+an.R(sid)+" (a re-used id lets leftovers of the previous RPC be delivered to the new one)")
	}
	sv := c.Fn("drpcmanager", "(*Manager).NewServerStream")
	for _, cs := range an.CallsTo(sv, true, newStream) {
		sid := an.Resolve(an.Arg(cs.Common(), 1))
		ok := false
		p := an.PathOf(sid)
		if len(p.Fields) >= 2 && p.Last().Origin() == idStream.Origin() {
			// the packet must be the value received from m.pkts in the select that guards this block
			for _, sc := range an.SelectGuards(cs.Instr.Block()) {
				st := sc.State()
				if st.Dir == types.RecvOnly && isLoadOfField(st.Chan, pkts) {
					ok = true
				}
			}
		}
		c.Check(ok, "NewServerStream | stream id = ID.Stream of the invoke packet received from m.pkts", c.At(cs.Instr), "", "the server stream's id is not the invoking packet's id: "+an.R(sid))
	}
}

func c02r5(c *an.Ctx) {
	a := A(c)
	reset := a.obj("drpcwire", "(*Writer).Reset")
	wrF := a.field("drpcstream", "Stream", "wr")
	ctor := c.Fn("drpcstream", "NewWithOptions")
	// callers of Reset across the module's library packages
	var callers []an.CallSite
	for _, pkg := range c.P.ModulePackages() {
		if !libraryPkg(c.P, pkg) {
			continue
		}
		for _, fn := range must(c.P.SourceFuncs(pkg)) {
			callers = append(callers, an.CallsTo(fn, false, reset)...)
		}
	}
	for _, cs := range callers {
		c.Check(cs.In == ctor, "Writer.Reset called only by drpcstream.NewWithOptions", c.At(cs.Instr), "", "Writer.Reset is called from "+an.ShortFunc(cs.In)+": buffered frames of a live stream can be dropped")
	}
	ok := false
	var wrParam ssa.Value
	for _, p := range ctor.Params {
		if p.Name() == "wr" || types.TypeString(p.Type(), nil) == "*storj.io/drpc/drpcwire.Writer" {
			wrParam = p
		}
	}
	for _, st := range fieldStores(ctor, wrF) {
		if call, isCall := st.Val.(*ssa.Call); isCall && an.IsCallTo(call.Common(), reset) && call.Common().Args[0] == wrParam {
			ok = true
		}
	}
	c.Check(ok, "drpcstream.NewWithOptions | Stream.wr = wr.Reset()", c.P.Pos(ctor.Pos()), "", "a new stream keeps the unflushed frames of its predecessor in the shared writer (they would be sent under the old stream's ids in front of the new stream's invoke)")
}

// libraryPkg: packages of the module that are library code (not cmd, internal test helpers, examples, scripts).
func libraryPkg(p *an.Prog, path string) bool {
	rel := path
	if len(path) > len(p.ModPath) {
		rel = path[len(p.ModPath)+1:]
	} else {
		rel = ""
	}
	switch {
	case rel == "":
		return true
	case hasPrefix(rel, "cmd/"), hasPrefix(rel, "examples/"), hasPrefix(rel, "scripts"), hasPrefix(rel, "internal/integration"), hasPrefix(rel, "internal/grpccompat"), hasPrefix(rel, "internal/twirpcompat"), hasPrefix(rel, "internal/backcompat"), rel == "drpctest":
		return false
	}
	return true
}

func hasPrefix(s, p string) bool { return len(s) >= len(p) && s[:len(p)] == p }

func c02r6(c *an.Ctx) {
	a := A(c)
	semF := a.field("drpcmanager", "Manager", "sem")
	sfinF := a.field("drpcmanager", "Manager", "sfin")
	chanRecv := a.obj("drpcsignal", "(*Chan).Recv")
	chanMake := a.obj("drpcsignal", "(*Chan).Make")
	isSemRecv := func(cc *ssa.CallCommon) bool {
		return an.IsCallTo(cc, chanRecv) && recvField(cc) == semF.Origin()
	}
	// manageStream: exactly one sem release and one fin token on every path
	ms := c.Fn("drpcmanager", "(*Manager).manageStream")
	enc := func(s, f int) string { return fmt.Sprintf("s%df%d", s, f) }
	dec := func(st string) (s, f int) { fmt.Sscanf(st, "s%df%d", &s, &f); return }
	flow := &an.Flow{Fn: ms, Inline: an.InlineSamePackage(ms), Init: []string{enc(0, 0)},
		Step: func(st string, in ssa.Instruction) []string {
			s, f := dec(st)
			switch x := in.(type) {
			case *ssa.Call:
				if isSemRecv(x.Common()) && s < 3 {
					return []string{enc(s+1, f)}
				}
			case *ssa.UnOp:
				if x.Op == token.ARROW && isLoadOfField(x.X, sfinF) && f < 3 {
					return []string{enc(s, f+1)}
				}
			}
			return nil
		},
		Branch: func(st string, br *ssa.If, idx int) (string, bool) {
			if sc, ok := an.SelectBranch(br, idx); ok {
				state := sc.State()
				if state.Dir == types.RecvOnly && isLoadOfField(state.Chan, sfinF) {
					s, f := dec(st)
					return enc(s, f+1), true
				}
			}
			return st, true
		},
	}
	res := flow.Run()
	nret := 0
	for _, ret := range an.Returns(ms) {
		if !res.Reachable(ret.Block()) {
			continue
		}
		for _, st := range res.Before(ret) {
			nret++
			s, f := dec(st)
			c.Check(s == 1 && f == 1, "manageStream | exactly one m.sem.Recv() and one receive from m.sfin per stream (got "+st+")", c.At(ret), "", "the stream watcher releases the semaphore "+fmt.Sprint(s)+"x and consumes "+fmt.Sprint(f)+" finished token(s) on some path: a second release lets two streams share the connection, a missing one wedges it")
		}
	}
	c.Floor("manageStream exit states", 1, nret)

	// acquireSemaphore and NewServerStream: the semaphore is released exactly on the ways out that report
	// an error after it was taken. Decided path-sensitively, so that a deferred "if err != nil { release }",
	// an explicit test before the return and a helper that does either are all the same to the rule.
	af := c.Fn("drpcmanager", "(*Manager).acquireSemaphore")
	semGet := a.obj("drpcsignal", "(*Chan).Get")
	semDiscipline(c, af, "acquireSemaphore", isSemRecv, nil, func(br *ssa.If, idx int) bool {
		sc, ok := an.SelectBranch(br, idx)
		if !ok {
			return false
		}
		stt := sc.State()
		if stt.Dir != types.SendOnly {
			return false
		}
		call, isCall := stt.Chan.(*ssa.Call)
		return isCall && an.IsCallTo(call.Common(), semGet) && recvField(call.Common()) == semF.Origin()
	}, 0)
	sv := c.Fn("drpcmanager", "(*Manager).NewServerStream")
	afObj := a.obj("drpcmanager", "(*Manager).acquireSemaphore")
	semDiscipline(c, sv, "NewServerStream", isSemRecv, afObj, nil, 2)
	// every way out of NewServerStream with a nil stream carries a non-nil error (a caller must never see (nil, "", nil))
	for _, rc := range an.ReturnCases(sv) {
		if len(rc.Vals) < 3 {
			continue
		}
		sv0, e := rc.Vals[0], rc.Vals[2]
		if !(sv0 == nil || an.IsNilConst(sv0)) {
			continue
		}
		ok := e != nil && !an.IsNilConst(e) && (provablyNonNilCase(e, rc) || ctxErrAfterDone(e, rc.Ret) || isTermErr(c, e))
		c.Check(ok, "NewServerStream | nil stream is returned with a non-nil error", c.At(rc.Ret), "", "NewServerStream can return (nil, \"\", nil) or an error not shown non-nil: "+describeRet(e)+"; the semaphore release keyed on the error is skipped")
	}

	// newStream: once the stream was handed to the watcher (send on m.streams succeeded) the watcher owns the
	// semaphore, so newStream must report success: an error return here makes the constructor's failure path
	// release the semaphore a second time.
	ns := c.Fn("drpcmanager", "(*Manager).newStream")
	streamsF := a.field("drpcmanager", "Manager", "streams")
	nHand := 0
	for _, ret := range an.Returns(ns) {
		handed := false
		for _, sc := range an.SelectGuards(ret.Block()) {
			st := sc.State()
			if st.Dir == types.SendOnly && isLoadOfField(st.Chan, streamsF) {
				handed = true
			}
		}
		if !handed {
			continue
		}
		nHand++
		okRet := true
		for _, e := range returnedValues(ret, 1) {
			if !(e == nil || an.IsNilConst(e)) {
				okRet = false
			}
		}
		for _, sv := range returnedValues(ret, 0) {
			if sv == nil || an.IsNilConst(sv) {
				okRet = false
			}
		}
		c.Check(okRet, "newStream | after handing the stream to the watcher it returns (stream, nil)", c.At(ret), "",
			"newStream reports failure after the watcher goroutine took the stream: the watcher releases the semaphore when the stream finishes AND the failing constructor releases it again (the second release blocks forever, or lets two streams share the connection)")
	}
	c.Floor("returns of newStream after the hand-off", 1, nHand)

	// capacities
	mw := c.Fn("drpcmanager", "NewWithOptions")
	okSem, okFin := false, false
	an.Instrs(mw, func(in ssa.Instruction) {
		switch x := in.(type) {
		case *ssa.Call:
			if an.IsCallTo(x.Common(), chanMake) && recvField(x.Common()) == semF.Origin() {
				if k, ok := an.ConstInt(an.Arg(x.Common(), 0)); ok && k == 1 {
					okSem = true
				}
			}
		case *ssa.Store:
			if p := an.PathOf(x.Addr); p.Last() != nil && p.Last().Origin() == sfinF.Origin() {
				if mc, ok := x.Val.(*ssa.MakeChan); ok {
					if k, ok := an.ConstInt(mc.Size); ok && k == 1 {
						okFin = true
					}
				}
			}
		}
	})
	c.Check(okSem, "drpcmanager.NewWithOptions | m.sem.Make(1)", c.P.Pos(mw.Pos()), "", "the stream semaphore's capacity is not the constant 1: more than one stream can be active on a connection")
	c.Check(okFin, "drpcmanager.NewWithOptions | sfin has capacity 1", c.P.Pos(mw.Pos()), "", "the finished-token channel's capacity is not the constant 1 (checkFinished sends under Stream.mu and must not block)")
}

// semDiscipline checks, over every path of fn, that the manager's stream semaphore is released exactly
// when fn reports an error after having taken it. The semaphore is taken either by a successful call of
// acquireCall (its error result tested nil) or on a branch edge recognised by acquireEdge. errIdx is the
// index of the error result.
func semDiscipline(c *an.Ctx, fn *ssa.Function, name string, isRelease func(*ssa.CallCommon) bool, acquireCall *types.Func, acquireEdge func(*ssa.If, int) bool, errIdx int) map[ssa.Instruction]bool {
	// relHeld: for every release the flow passes, whether every state passing it holds the semaphore and has not released it
	relHeld := map[ssa.Instruction]bool{}
	nt := nilTrack{nonNil: func(v ssa.Value, at ssa.Instruction) bool { return ctxErrAfterDone(v, at) || isTermErr(c, v) }}
	flow := &an.Flow{Fn: fn, Init: []string{""},
		Inline: func(call ssa.CallInstruction) *ssa.Function {
			callee := an.InlineSamePackage(fn)(call)
			if callee != nil && acquireCall != nil && callee.Object() == types.Object(acquireCall) {
				return nil
			}
			return callee
		},
		Step: func(st string, in ssa.Instruction) []string {
			switch x := in.(type) {
			case *ssa.Call:
				if isRelease(x.Common()) {
					good := hasTag(st, "held") && !hasTag(st, "rel")
					if prev, seen := relHeld[in]; seen {
						good = good && prev
					}
					relHeld[in] = good
					if hasTag(st, "rel") {
						return []string{addTag(st, "rel2")}
					}
					return []string{addTag(st, "rel")}
				}
			case *ssa.Store:
				if s2 := nt.store(st, x); s2 != st {
					return []string{s2}
				}
			}
			return nil
		},
		OnReturn: nt.onReturn,
		Branch: func(st string, br *ssa.If, idx int) (string, bool) {
			if acquireEdge != nil && acquireEdge(br, idx) {
				return addTag(st, "held"), true
			}
			x, trueNonNil, ok := nilTestOf(br.Cond)
			if !ok || !isErrorType(x.Type()) {
				return st, true
			}
			nonNil := (idx == 0) == trueNonNil
			if acquireCall != nil {
				if call, isCall := an.Resolve(an.Unwrap(x)).(*ssa.Call); isCall && an.IsCallTo(call.Common(), acquireCall) {
					if nonNil {
						return addTag(st, "acqfail"), true
					}
					return addTag(st, "held"), true
				}
			}
			s2, _, feasible := nt.branch(st, br, idx)
			return s2, feasible
		},
	}
	res := flow.Run()
	if res.Blowup {
		c.Undecided("%s", "semaphore discipline of "+name+": state space too large")
		return nil
	}
	nHeld := 0
	for _, ret := range an.Returns(fn) {
		if !res.Reachable(ret.Block()) || errIdx >= len(ret.Results) {
			continue
		}
		e := ret.Results[errIdx]
		for _, sf := range res.BeforeF(ret) {
			st := sf.User
			known, nonNil := nt.statusF(sf, e, ret)
			rel, twice := hasTag(st, "rel"), hasTag(st, "rel2")
			if !hasTag(st, "held") {
				c.Check(!rel, name+" | no release on a way out that never took the semaphore", c.At(ret), "", "the semaphore is released on a path that did not take it: another stream's hold is dropped and two streams share the connection")
				continue
			}
			nHeld++
			c.Check(!twice, name+" | at most one release per acquisition", c.At(ret), "", "the semaphore is released twice on one path")
			switch {
			case !known:
				c.Check(false, name+" | release of the semaphore is decided by the error result", c.At(ret), "", "cannot relate the returned error "+describeRet(e)+" to whether the semaphore was released on this path")
			case nonNil:
				c.Check(rel, name+" | failure after acquiring releases the semaphore", c.At(ret), "", name+" fails after taking the semaphore without releasing it: the connection can never start another stream")
			default:
				c.Check(!rel, name+" | success path keeps the semaphore", c.At(ret), "", "the semaphore is released although success is reported: the stream runs without holding it and the next one starts beside it")
			}
		}
	}
	c.Floor("ways out of "+name+" holding the semaphore", 1, nHeld)
	return relHeld
}

// semReleasesHeld runs the semaphore automaton over fn without recording obligations and returns, for every release
// of the stream semaphore it passes (deferred closures and same-package helpers included), whether the semaphore is
// held on every path reaching it: such a receive from the capacity-1 channel cannot block.
func semReleasesHeld(c *an.Ctx, fn *ssa.Function) map[ssa.Instruction]bool {
	a := A(c)
	semF := a.field("drpcmanager", "Manager", "sem")
	chanRecv := a.obj("drpcsignal", "(*Chan).Recv")
	semGet := a.obj("drpcsignal", "(*Chan).Get")
	isSemRecv := func(cc *ssa.CallCommon) bool {
		return an.IsCallTo(cc, chanRecv) && recvField(cc) == semF.Origin()
	}
	var acq *types.Func
	if an.ShortFunc(fn) != "(*Manager).acquireSemaphore" {
		acq = a.obj("drpcmanager", "(*Manager).acquireSemaphore")
	}
	errIdx := -1
	res := fn.Signature.Results()
	for i := 0; i < res.Len(); i++ {
		if isErrorType(res.At(i).Type()) {
			errIdx = i
		}
	}
	if errIdx < 0 {
		return nil
	}
	silent := &an.Ctx{P: c.P, Rep: an.NewReport("-", "quick"), Rule: c.Rule}
	return semDiscipline(silent, fn, an.ShortFunc(fn), isSemRecv, acq, func(br *ssa.If, idx int) bool {
		sc, ok := an.SelectBranch(br, idx)
		if !ok {
			return false
		}
		stt := sc.State()
		if stt.Dir != types.SendOnly {
			return false
		}
		call, isCall := stt.Chan.(*ssa.Call)
		return isCall && an.IsCallTo(call.Common(), semGet) && recvField(call.Common()) == semF.Origin()
	}, errIdx)
}

func isErrorType(t types.Type) bool {
	n, ok := t.(*types.Named)
	return ok && n.Obj().Pkg() == nil && n.Obj().Name() == "error"
}

func fvIndex(fn *ssa.Function, fv *ssa.FreeVar) int {
	for i, f := range fn.FreeVars {
		if f == fv {
			return i
		}
	}
	return 0
}

func isNamedResult(fn *ssa.Function, al *ssa.Alloc) bool {
	res := fn.Signature.Results()
	for i := 0; i < res.Len(); i++ {
		if res.At(i).Name() != "" && res.At(i).Name() == al.Comment {
			return true
		}
	}
	return false
}

// ctxErrAfterDone: e is ctx.Err() evaluated in a select case that received
// from ctx.Done() (contract: Err is non-nil once Done is closed).
func ctxErrAfterDone(e ssa.Value, at ssa.Instruction) bool {
	call, ok := e.(*ssa.Call)
	if !ok || !call.Common().IsInvoke() || call.Common().Method.Name() != "Err" {
		return false
	}
	ctx := call.Common().Value
	// inside a closure: the context is the enclosing function's, and the closure was created in the select case that
	// received from its Done channel (a timer callback armed after the cancellation was observed)
	if ld, isLd := an.Unwrap(ctx).(*ssa.UnOp); isLd {
		if fv, isFV := ld.X.(*ssa.FreeVar); isFV {
			fn := fv.Parent()
			idx := -1
			for i, f := range fn.FreeVars {
				if f == fv {
					idx = i
				}
			}
			found := false
			if fn.Parent() != nil && idx >= 0 {
				an.Instrs(fn.Parent(), func(in ssa.Instruction) {
					mc, isMC := in.(*ssa.MakeClosure)
					if !isMC || mc.Fn != ssa.Value(fn) || idx >= len(mc.Bindings) {
						return
					}
					bnd := mc.Bindings[idx]
					for _, sc := range an.SelectGuards(mc.Block()) {
						st := sc.State()
						if st.Dir != types.RecvOnly {
							continue
						}
						d, ok := st.Chan.(*ssa.Call)
						if !ok || !d.Common().IsInvoke() || d.Common().Method.Name() != "Done" {
							continue
						}
						v := an.Unwrap(d.Common().Value)
						if u, isU := v.(*ssa.UnOp); isU && u.X == bnd {
							found = true
						}
						if al, isAl := bnd.(*ssa.Alloc); isAl {
							for _, r := range *al.Referrers() {
								if stp, isSt := r.(*ssa.Store); isSt && stp.Addr == ssa.Value(al) && (stp.Val == v || an.Resolve(stp.Val) == an.Resolve(v)) {
									found = true
								}
							}
						}
					}
				})
			}
			if found {
				return true
			}
		}
	}
	for _, sc := range an.SelectGuards(call.Block()) {
		st := sc.State()
		if st.Dir != types.RecvOnly {
			continue
		}
		if d, ok := st.Chan.(*ssa.Call); ok && d.Common().IsInvoke() && d.Common().Method.Name() == "Done" && sameCtx(d.Common().Value, ctx) {
			return true
		}
	}
	return false
}

func sameCtx(a, b ssa.Value) bool {
	return an.Resolve(a) == an.Resolve(b) || sameValue(a, b)
}

// isTermErr: e is m.sigs.term.Err() — non-nil by C05.R6 (every terminate argument is non-nil)
// when evaluated after the term signal was observed.
func isTermErr(c *an.Ctx, e ssa.Value) bool {
	call, ok := e.(*ssa.Call)
	if !ok {
		return false
	}
	obj := an.CalleeObj(call.Common())
	if obj == nil || obj.Name() != "Err" || obj.Pkg() == nil || obj.Pkg().Name() != "drpcsignal" {
		return false
	}
	f := recvField(call.Common())
	return f != nil && nameOf(f) == "term"
}

func c02r7(c *an.Ctx) {
	a := A(c)
	newStream := a.obj("drpcmanager", "(*Manager).newStream")
	sbufSet := a.obj("drpcmanager", "(*streamBuffer).Set")
	idF := a.field("drpcstream", "Stream", "id")
	allow := map[string]map[string]bool{
		"newStream": {"(*Manager).NewClientStream": true, "(*Manager).NewServerStream": true},
		"Set":       {"(*Manager).newStream": true},
	}
	nNew, nSet := 0, 0
	for _, pkg := range c.P.ModulePackages() {
		if !libraryPkg(c.P, pkg) {
			continue
		}
		for _, fn := range must(c.P.SourceFuncs(pkg)) {
			top := fn
			for top.Parent() != nil {
				top = top.Parent()
			}
			for _, cs := range an.CallsTo(fn, false, newStream) {
				nNew++
				c.Check(allow["newStream"][an.ShortFunc(top)], "newStream called from "+an.ShortFunc(top), c.At(cs.Instr), "", "unexpected caller of Manager.newStream (streams must be created by the two constructors after acquiring the semaphore)")
			}
			for _, cs := range an.CallsTo(fn, false, sbufSet) {
				nSet++
				c.Check(allow["Set"][an.ShortFunc(top)], "streamBuffer.Set called from "+an.ShortFunc(top), c.At(cs.Instr), "", "unexpected caller of streamBuffer.Set (the current stream changes outside newStream)")
			}
			an.Instrs(fn, func(in ssa.Instruction) {
				st, ok := in.(*ssa.Store)
				if !ok {
					return
				}
				p := an.PathOf(st.Addr)
				idx := -1
				for i, f := range p.Fields {
					if f.Origin() == idF.Origin() {
						idx = i
					}
				}
				if idx < 0 {
					return
				}
				sub := ""
				if idx+1 < len(p.Fields) {
					sub = p.Fields[idx+1].Name()
				}
				okW := false
				switch {
				case isFreshObject(p.Root) && an.ShortFunc(top) == "NewWithOptions":
					okW = true
				case sub == "Message" && an.ShortFunc(top) == "(*Stream).newFrameLocked":
					okW = true
				}
				c.Check(okW, "Stream.id written by "+an.ShortFunc(top)+" ("+p.FieldString()+")", c.At(in), "", "Stream.id is written outside construction / newFrameLocked: the stream id of a live stream can change")
			})
		}
	}
	c.Floor("newStream call sites", 1, nNew)
	c.Floor("streamBuffer.Set call sites", 1, nSet)
}

func c02r8(c *an.Ctx) {
	a := A(c)
	pl := locksOf(c, "drpcconn")
	n := guardedBuffer(c, pl, must(c.P.SourceFuncs("drpcconn")), a.field("drpcconn", "Conn", "wbuf"), a.field("drpcconn", "Conn", "mu"),
		"Conn.wbuf", "Conn.mu", "a stream can finish asynchronously, letting another Invoke marshal its request into the same backing array while this call is still sending from it (a unary call would carry another call's request)")
	c.Floor("uses of Conn.wbuf and its aliases", 1, n)
}
