package rules

import (
	"fmt"
	"go/token"
	"go/types"

	"golang.org/x/tools/go/ssa"

	"verif/sa/internal/an"
)

func init() {
	register(&Property{
		ID:        "C06",
		Technique: "typestate over the server's end-of-RPC path and the invoke hand-off, guard/provenance analysis of the reader's park site, must-terminate summary of terminal calls; tested-then-dropped error (contradiction) check and interprocedural lock-pairing check over the packages the property is anchored in",
		Explanation: "Structural conditions of 'a connection whose RPCs have ended accepts the next RPC' — phrased as: who can be parked, and who would wake them: " +
			"(R1) after the handler returns the server issues exactly one terminal call (SendError on error, CloseSend otherwise); " +
			"(R2) that terminal call terminates the stream, so the connection reader cannot stay parked in packetBuffer.Put for a stream nobody reads — the CloseSend path does not (known finding D8); " +
			"(R3) the reader parks waiting for a stream to be created only for the id whose invoke it forwarded itself; " +
			"(R5) every packet received from the invoke queue is acknowledged exactly once; " +
			"(R6) the reader has already recorded the stream id of a forwarded invoke and parks the stream's next packet until that stream exists (R3), so NewServerStream creates a stream for every invoke it takes from the queue or returns: it never goes back to waiting with an invoke consumed; " +
			"plus shared pairing/finish rules (C02.R6, C02.R3, C03.R4, C03.R5, C03.R6).",
		NotDecided:  "completion of the probe RPC for all client/handler programs and cancel points (behavioural).",
		Assumptions: []string{"handlers return (the library cannot bound a handler)"},
		Rules: append([]Rule{
			{ID: "C06.R1", Doc: "handleRPC: exactly one of SendError(err) / CloseSend() after the handler returns, chosen by err != nil", Run: c06r1},
			{ID: "C06.R2", Doc: "the server's end-of-RPC call terminates the stream on every path (closing the receive buffer)", Run: c06r2},
			{ID: "C06.R3", Doc: "manageReader parks in streamBuffer.Wait only for the stream id of an invoke it forwarded", Run: c06r3},
			{ID: "C06.R5", Doc: "NewServerStream: each receive from m.pkts is followed by exactly one pdone.Send before the next receive or return", Run: c06r5},
			{ID: "C06.R6", Doc: "NewServerStream: an invoke taken from the queue always leads to newStream (or a return): it is never dropped in favour of the next packet", Run: c06r6},
			{ID: "C06.S1", Alias: "C02.R6"},
			{ID: "C06.S2", Alias: "C02.R3"},
			{ID: "C06.S3", Alias: "C03.R4"},
			{ID: "C06.S4", Alias: "C03.R5"},
			{ID: "C06.S5", Alias: "C03.R6"},
			{ID: "C06.S6", Alias: "C01.R3"},
			{ID: "C06.S7", Alias: "C01.R4"},
			{ID: "C06.S9", Doc: "a terminal call on an already terminated stream succeeds: the server does not give up the connection (and the next RPC) because a handler finished after its stream did (= C03.R12)", Alias: "C03.R12"},
		}, disciplineRules("C06", "drpcmanager", "drpcserver", "drpcmux", "drpcstream")...),
	})
}

func c06r1(c *an.Ctx) {
	a := A(c)
	fn := c.Fn("drpcserver", "(*Server).handleRPC")
	sendErr := a.obj("drpcstream", "(*Stream).SendError")
	closeSend := a.obj("drpcstream", "(*Stream).CloseSend")
	var hcall *ssa.Call
	an.Instrs(fn, func(in ssa.Instruction) {
		if call, ok := in.(*ssa.Call); ok && call.Common().IsInvoke() && call.Common().Method.Name() == "HandleRPC" {
			hcall = call
		}
	})
	if !c.Check(hcall != nil, "(*Server).handleRPC | invokes the handler", c.P.Pos(fn.Pos()), "", "handleRPC no longer calls Handler.HandleRPC") {
		return
	}
	flow := &an.Flow{Fn: fn, Inline: an.InlineSamePackage(fn), Init: []string{""},
		Step: func(st string, in ssa.Instruction) []string {
			call, ok := in.(*ssa.Call)
			if !ok {
				return nil
			}
			switch {
			case an.IsCallTo(call.Common(), sendErr):
				t := "E"
				if an.Resolve(an.Arg(call.Common(), 0)) != ssa.Value(hcall) {
					t = "E?" // not the handler's error
				}
				return []string{st + "|" + t}
			case an.IsCallTo(call.Common(), closeSend):
				return []string{st + "|C"}
			}
			return nil
		},
		Branch: func(st string, br *ssa.If, idx int) (string, bool) {
			if x, trueNonNil, ok := nilTestOf(br.Cond); ok && an.Resolve(x) == ssa.Value(hcall) {
				if (idx == 0) == trueNonNil {
					return "err" + st, true
				}
				return "nil" + st, true
			}
			return st, true
		},
	}
	res := flow.Run()
	n := 0
	for _, ret := range an.Returns(fn) {
		if !res.Reachable(ret.Block()) {
			continue
		}
		for _, st := range res.Before(ret) {
			n++
			ok := st == "err|E" || st == "nil|C"
			c.Check(ok, "(*Server).handleRPC | end of RPC: "+st, c.At(ret), "",
				"after the handler returns the server must send exactly one terminal packet: SendError(handler's error) when it failed, CloseSend otherwise (path state "+st+": err/nil = handler outcome, E = SendError, C = CloseSend)")
		}
	}
	c.Floor("handleRPC exit states", 1, n)
}

// alwaysTerminates: every path of the terminal call either calls terminate or
// has observed the stream already terminated.
func alwaysTerminates(c *an.Ctx, fn *ssa.Function) (bool, string) {
	sa := streamA(c)
	flow := &an.Flow{Fn: fn, Inline: an.InlineSamePackage(fn), Init: []string{""},
		Step: func(st string, in ssa.Instruction) []string {
			if call, ok := in.(*ssa.Call); ok && an.IsCallTo(call.Common(), sa.terminate) {
				return []string{"T"}
			}
			return nil
		},
		Branch: func(st string, br *ssa.If, idx int) (string, bool) {
			cond, neg := an.StripNot(br.Cond)
			if call, ok := cond.(*ssa.Call); ok && an.IsCallTo(call.Common(), sa.sigIsSet) && recvField(call.Common()) == sa.term.Origin() {
				if (idx == 0) != neg {
					return "T", true
				}
			}
			return st, true
		},
	}
	res := flow.Run()
	for _, ret := range an.Returns(fn) {
		if !res.Reachable(ret.Block()) {
			continue
		}
		for _, st := range res.Before(ret) {
			if st != "T" {
				return false, c.At(ret)
			}
		}
	}
	return true, ""
}

func c06r2(c *an.Ctx) {
	a := A(c)
	fn := c.Fn("drpcserver", "(*Server).handleRPC")
	streamT := must(c.P.Named("drpcstream", "Stream"))
	_ = a
	n := 0
	an.Instrs(fn, func(in ssa.Instruction) {
		call, ok := in.(*ssa.Call)
		if !ok {
			return
		}
		callee := call.Common().StaticCallee()
		if callee == nil || callee.Signature.Recv() == nil || !types.Identical(deref(callee.Signature.Recv().Type()), streamT) {
			return
		}
		// only calls after the handler (those that end the RPC)
		n++
		ok2, where := alwaysTerminates(c, callee)
		key := fmt.Sprintf("(*Server).handleRPC | after handler: %s terminates the stream", an.ShortFunc(callee))
		c.Check(ok2, key, c.At(in), "", "the server finishes the RPC with "+an.ShortFunc(callee)+", which returns at "+where+" without terminating the stream: its receive buffer stays open, so if the client has sent more than the handler read, the connection reader stays parked in packetBuffer.Put forever and the next RPC on the healthy-looking connection never reaches its handler")
	})
	c.Floor("stream calls ending the RPC in handleRPC", 1, n)
}

func c06r3(c *an.Ctx) {
	a := A(c)
	mr := c.Fn("drpcmanager", "(*Manager).manageReader")
	sbufWait := a.obj("drpcmanager", "(*streamBuffer).Wait")
	readPkt := a.obj("drpcwire", "(*Reader).ReadPacketUsing")
	idStream := a.field("drpcwire", "ID", "Stream")
	pktKind := a.field("drpcwire", "Packet", "Kind")
	pkts := a.field("drpcmanager", "Manager", "pkts")
	kinds := kindConsts(c)
	isPktStream := func(v ssa.Value) bool {
		p := an.PathOf(v)
		return len(p.Fields) >= 2 && p.Fields[len(p.Fields)-1].Origin() == idStream.Origin() && nameOf(p.Fields[len(p.Fields)-2]) == "ID"
	}
	// The reader handles one packet per iteration. What a path knows about that packet -- its kind, and whether its
	// stream id equals the recorded id of the last forwarded invoke -- is tracked as knowledge (reset when the next
	// packet is read), so that it does not matter where the tests are written (in the loop, in a helper that
	// returns a flag, twice).
	isKindTest := func(v ssa.Value) (kind int64, eq bool, ok bool) {
		b, isB := v.(*ssa.BinOp)
		if !isB || (b.Op != token.EQL && b.Op != token.NEQ) {
			return 0, false, false
		}
		x, y := b.X, b.Y
		if _, isC := x.(*ssa.Const); isC {
			x, y = y, x
		}
		k, isK := an.ConstInt(y)
		if !isK || !isLoadOfField(x, pktKind) {
			return 0, false, false
		}
		return k, b.Op == token.EQL, true
	}
	var idTests []*ssa.BinOp // pkt.ID.Stream ==/!= <tracked id>
	for _, fn := range extendedBody(mr) {
		an.Instrs(fn, func(in ssa.Instruction) {
			b, ok := in.(*ssa.BinOp)
			if !ok || (b.Op != token.EQL && b.Op != token.NEQ) {
				return
			}
			if isPktStream(b.X) != isPktStream(b.Y) { // one side is the packet's stream id, the other the remembered one
				other := b.Y
				if isPktStream(b.Y) {
					other = b.X
				}
				if call, isCall := other.(*ssa.Call); isCall && call.Common().StaticCallee() != nil && call.Common().StaticCallee().Name() == "ID" {
					return // comparison with the current stream's id: a different test
				}
				idTests = append(idTests, b)
			}
		})
	}
	isIDTest := func(v ssa.Value) (*ssa.BinOp, bool) {
		for _, b := range idTests {
			if v == ssa.Value(b) {
				return b, true
			}
		}
		return nil, false
	}
	set := func(st, key, val string) (string, bool) {
		other := "T"
		if val == "T" {
			other = "F"
		}
		if hasTag(st, key+"="+other) {
			return st, false
		}
		return addTag(st, key+"="+val), true
	}
	flow := &an.Flow{Fn: mr, Inline: an.InlineSamePackage(mr), Init: []string{""},
		Step: func(st string, in ssa.Instruction) []string {
			if call, ok := in.(*ssa.Call); ok && an.IsCallTo(call.Common(), readPkt) {
				if st != "" {
					return []string{""} // a new packet: nothing is known about it
				}
			}
			return nil
		},
		Branch: func(st string, br *ssa.If, idx int) (string, bool) {
			cond, neg := an.StripNot(br.Cond)
			onTrue := (idx == 0) != neg
			if k, eq, ok := isKindTest(cond); ok {
				val := "F"
				if onTrue == eq {
					val = "T"
				}
				ns, feasible := set(st, fmt.Sprintf("kind%d", k), val)
				if !feasible {
					return st, false
				}
				if val == "T" { // the kind is this one, so it is no other
					for _, o := range []string{"KindInvoke", "KindInvokeMetadata"} {
						if kinds[o] != k {
							if ns2, f2 := set(ns, fmt.Sprintf("kind%d", kinds[o]), "F"); f2 {
								ns = ns2
							} else {
								return st, false
							}
						}
					}
				}
				return ns, true
			}
			if b, ok := isIDTest(cond); ok {
				val := "F"
				if onTrue == (b.Op == token.EQL) {
					val = "T"
				}
				return set(st, "ideq", val)
			}
			return st, true
		},
	}
	res := flow.Run()
	n := 0
	var tracked []ssa.Value
	for _, fn := range extendedBody(mr) {
		for _, cs := range an.CallsTo(fn, false, sbufWait) {
			n++
			okAll := true
			sts := res.BeforeF(cs.Instr)
			if fn != mr {
				continue // reached through inlining from manageReader: judged at the states carried into it
			}
			for _, sf := range sts {
				ok := hasTag(sf.User, "ideq=T")
				for _, b := range idTests {
					f := sf.FactOf(b)
					if (f == 'T') == (b.Op == token.EQL) && (f == 'T' || f == 'F') {
						ok = true
					}
				}
				if !ok {
					okAll = false
				}
			}
			if len(sts) == 0 {
				okAll = false
			}
			c.Check(okAll, "manageReader | streamBuffer.Wait guarded by pkt.ID.Stream == <id of the forwarded invoke>", c.At(cs.Instr), "",
				"the reader parks until a stream is created for ANY higher id: a non-invoke packet whose invoke was never forwarded (e.g. a soft cancel written before the invoke) wedges the connection")
		}
	}
	for _, b := range idTests {
		if isPktStream(b.X) {
			tracked = append(tracked, b.Y)
		} else {
			tracked = append(tracked, b.X)
		}
	}
	if !c.Floor("streamBuffer.Wait calls in manageReader", 1, n) || len(tracked) == 0 {
		return
	}
	// provenance of the tracked id: constants, itself, or pkt.ID.Stream recorded for a KindInvoke packet that is forwarded on m.pkts
	invokeKnown := func(in ssa.Instruction) bool {
		if guardedByKind(in.Block(), kinds["KindInvoke"], true) {
			return true
		}
		sts := res.Before(in)
		if len(sts) == 0 {
			return false
		}
		for _, st := range sts {
			if !hasTag(st, fmt.Sprintf("kind%d=T", kinds["KindInvoke"])) {
				return false
			}
		}
		return true
	}
	seen := map[ssa.Value]bool{}
	var bad []string
	var walk func(v ssa.Value)
	walk = func(v ssa.Value) {
		if seen[v] {
			return
		}
		seen[v] = true
		switch x := v.(type) {
		case *ssa.Phi:
			for _, e := range x.Edges {
				walk(e)
			}
		case *ssa.Const:
		case *ssa.UnOp:
			// a local kept in memory (its address is handed to a helper): every store to it counts
			if al, isAl := x.X.(*ssa.Alloc); isAl && x.Op == token.MUL {
				for _, ref := range *al.Referrers() {
					switch r := ref.(type) {
					case *ssa.Store:
						if r.Addr == al {
							walk(r.Val)
						} else {
							bad = append(bad, "address of the local escapes at "+c.P.InstrPos(r))
						}
					case *ssa.UnOp, *ssa.DebugRef:
					default:
						bad = append(bad, "address of the local escapes at "+c.P.InstrPos(ref))
					}
				}
				return
			}
			rv := an.Resolve(v)
			if rv != v {
				walk(rv)
				return
			}
			if isPktStream(v) {
				in, _ := v.(ssa.Instruction)
				if in != nil && invokeKnown(in) && leadsToForward(in, pkts) {
					return
				}
				bad = append(bad, "pkt.ID.Stream recorded at "+c.P.InstrPos(in)+" without a KindInvoke guard / without forwarding the packet")
				return
			}
			bad = append(bad, "unrecognised source "+an.R(v))
		default:
			rv := an.Resolve(v)
			if rv != v {
				walk(rv)
				return
			}
			bad = append(bad, "unrecognised source "+an.R(v))
		}
	}
	for _, t := range tracked {
		walk(t)
	}
	c.Check(len(bad) == 0, "manageReader | the awaited id is recorded only from forwarded KindInvoke packets", c.P.Pos(mr.Pos()), "",
		"the id the reader waits for can come from a packet that does not create a stream: "+fmt.Sprint(bad))
}

// leadsToForward: every path from the instruction reaches the select that sends on m.pkts
// before the next loop iteration (approximated: the select is reachable and dominates no earlier exit).
func leadsToForward(in ssa.Instruction, pkts *types.Var) bool {
	fn := in.Parent()
	found := false
	an.Instrs(fn, func(i2 ssa.Instruction) {
		sel, ok := i2.(*ssa.Select)
		if !ok {
			return
		}
		for _, st := range sel.States {
			if st.Dir == types.SendOnly && isLoadOfField(st.Chan, pkts) && an.CanReach(in, i2) {
				found = true
			}
		}
	})
	return found
}

func c06r5(c *an.Ctx) {
	a := A(c)
	sv := c.Fn("drpcmanager", "(*Manager).NewServerStream")
	pkts := a.field("drpcmanager", "Manager", "pkts")
	pdone := a.field("drpcmanager", "Manager", "pdone")
	chanSend := a.obj("drpcsignal", "(*Chan).Send")
	flow := &an.Flow{Fn: sv, Inline: an.InlineSamePackage(sv), Init: []string{"idle"},
		Step: func(st string, in ssa.Instruction) []string {
			if call, ok := in.(*ssa.Call); ok && an.IsCallTo(call.Common(), chanSend) && recvField(call.Common()) == pdone.Origin() {
				switch st {
				case "got":
					return []string{"acked"}
				case "acked":
					return []string{"twice"}
				default:
					return []string{"spurious"}
				}
			}
			return nil
		},
		Branch: func(st string, br *ssa.If, idx int) (string, bool) {
			if sc, ok := an.SelectBranch(br, idx); ok {
				s := sc.State()
				if s.Dir == types.RecvOnly && isLoadOfField(s.Chan, pkts) {
					return "got", true
				}
			}
			return st, true
		},
	}
	res := flow.Run()
	n := 0
	check := func(in ssa.Instruction, what string) {
		for _, st := range res.Before(in) {
			n++
			ok := st == "idle" || st == "acked"
			detail := map[string]string{
				"got":      "a packet taken from m.pkts is not acknowledged on m.pdone: the connection reader waits in pdone.Recv forever",
				"twice":    "a packet is acknowledged twice: the second pdone.Send blocks (capacity 1) or releases the reader's buffer for a packet still in use",
				"spurious": "pdone.Send without a received packet",
			}[st]
			c.Check(ok, "NewServerStream | "+what+" with packet state "+st, c.At(in), "", detail)
		}
	}
	an.Instrs(sv, func(in ssa.Instruction) {
		if !res.Reachable(in.Block()) {
			return
		}
		switch x := in.(type) {
		case *ssa.Select:
			check(in, "next select")
		case *ssa.Return:
			_ = x
			check(in, "return")
		}
	})
	c.Floor("NewServerStream select/return points", 1, n)
	// the packet's data is not used after the acknowledgement (the reader reuses the buffer)
	pktData := a.field("drpcwire", "Packet", "Data")
	nUse := 0
	an.Instrs(sv, func(in ssa.Instruction) {
		ld, ok := in.(*ssa.UnOp)
		if !ok || !isLoadOfField(ld, pktData) {
			return
		}
		nUse++
		for _, st := range res.Before(in) {
			c.Check(st == "got", "NewServerStream | pkt.Data read before the acknowledgement", c.At(in), "", "the packet's bytes are read after pdone.Send handed the buffer back to the reader (state "+st+"): the rpc name / metadata can be overwritten by the next packet")
		}
	})
	c.Floor("reads of pkt.Data in NewServerStream", 1, nUse)
}

func c06r6(c *an.Ctx) {
	a := A(c)
	sv := c.Fn("drpcmanager", "(*Manager).NewServerStream")
	pkts := a.field("drpcmanager", "Manager", "pkts")
	kindF := a.field("drpcwire", "Packet", "Kind")
	newStream := a.obj("drpcmanager", "(*Manager).newStream")
	kInvoke := pkgConstInt(c, "drpcwire", "KindInvoke")
	isKind := func(v ssa.Value) bool { return isLoadOfField(v, kindF) }
	isInvoke := func(v ssa.Value) bool { k, ok := an.ConstInt(v); return ok && k == kInvoke }
	learn := func(st string, cond ssa.Value, val bool) (string, bool) {
		cnd, neg := an.StripNot(cond)
		g := an.Guard{Cond: cnd, True: val != neg}
		cmp, ok := an.CmpOf(g)
		if !ok || (st != "got" && st != "invoke" && st != "other") {
			return st, true
		}
		isConst := func(v ssa.Value) bool { _, isK := an.ConstInt(v); return isK }
		switch {
		case cmp.Is(token.EQL, isKind, isInvoke):
			if st == "other" {
				return st, false
			}
			return "invoke", true
		case cmp.Is(token.NEQ, isKind, isInvoke), cmp.Is(token.EQL, isKind, isConst):
			// not an invoke (the kind differs from it, or equals another constant)
			if st == "invoke" {
				return st, false
			}
			return "other", true
		}
		return st, true
	}
	flow := &an.Flow{Fn: sv, Inline: an.InlineSamePackage(sv), Init: []string{"idle"},
		Step: func(st string, in ssa.Instruction) []string {
			if call, ok := in.(*ssa.Call); ok && an.IsCallTo(call.Common(), newStream) {
				return []string{"made"}
			}
			return nil
		},
		Branch: func(st string, br *ssa.If, idx int) (string, bool) {
			if sc, ok := an.SelectBranch(br, idx); ok {
				s := sc.State()
				if s.Dir == types.RecvOnly && isLoadOfField(s.Chan, pkts) {
					return "got", true
				}
			}
			return learn(st, br.Cond, idx == 0)
		},
		OnFact: learn,
	}
	res := flow.Run()
	if res.Blowup {
		c.Undecided("NewServerStream: state space too large")
		return
	}
	n, nInv := 0, 0
	an.Instrs(sv, func(in ssa.Instruction) {
		if !res.Reachable(in.Block()) {
			return
		}
		switch in.(type) {
		case *ssa.Select:
			for _, st := range res.Before(in) {
				n++
				c.Check(st != "invoke", "NewServerStream | an invoke taken from the queue is turned into a stream before the next packet is awaited", c.At(in), "",
					"NewServerStream goes back to waiting after consuming an invoke without creating its stream: the reader has recorded that stream id and parks the stream's next packet in streamBuffer.Wait for a stream that never comes; the connection stops reading")
			}
		case *ssa.Call:
			if call := in.(*ssa.Call); an.IsCallTo(call.Common(), newStream) {
				for _, st := range res.Before(in) {
					if st == "invoke" {
						nInv++
					}
				}
			}
		}
	})
	c.Floor("select points in NewServerStream", 1, n)
	c.Floor("newStream calls for a dequeued invoke", 1, nInv)
}
