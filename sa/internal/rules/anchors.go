package rules

import (
	"fmt"
	"go/token"
	"go/types"
	"strings"
	"sync"

	"golang.org/x/tools/go/ssa"

	"verif/sa/internal/an"
)

// The anchor table: every program entity a rule is keyed on by name is
// resolved here through go/types. A rename is a one-line update; an anchor that
// no longer resolves makes the rule UNDECIDED (exit 2), never a VIOLATION.

type anchors struct {
	p *an.Prog
}

func A(c *an.Ctx) anchors { return anchors{c.P} }

func (a anchors) fn(pkg, name string) *ssa.Function {
	fn, err := a.p.Func(pkg, name)
	if err != nil {
		panic(err)
	}
	return fn
}

func (a anchors) obj(pkg, name string) *types.Func {
	o, err := a.p.FuncObj(pkg, name)
	if err != nil {
		panic(err)
	}
	return o
}

// objOpt resolves a helper that the rule does not depend on: nil when it is
// absent (for instance merged into its only caller).
func (a anchors) objOpt(pkg, name string) *types.Func {
	o, err := a.p.FuncObj(pkg, name)
	if err != nil {
		return nil
	}
	return o
}

func (a anchors) field(pkg, typ, path string) *types.Var {
	f, err := a.p.Field(pkg, typ, path)
	if err != nil {
		panic(err)
	}
	return f
}

// shared per-program analyses (locksets are reused by several rules)

type shared struct {
	lt  *an.LockTable
	pls map[string]*an.PkgLocks
}

var (
	sharedMu  sync.Mutex
	sharedMap = map[*an.Prog]*shared{}
)

func sharedOf(p *an.Prog) *shared {
	sharedMu.Lock()
	defer sharedMu.Unlock()
	s := sharedMap[p]
	if s == nil {
		s = &shared{lt: an.NewLockTable(p), pls: map[string]*an.PkgLocks{}}
		sharedMap[p] = s
	}
	return s
}

// locksOf returns the interprocedural lockset analysis of one package, or of
// several analysed together ("drpcstream+drpcwire").
func locksOf(c *an.Ctx, pkg string) *an.PkgLocks {
	s := sharedOf(c.P)
	sharedMu.Lock()
	pl := s.pls[pkg]
	sharedMu.Unlock()
	if pl != nil {
		return pl
	}
	for _, pr := range s.lt.Problems {
		c.Undecided("lock table: %s", pr)
	}
	pl, err := an.AnalyzeLocks(c.P, s.lt, strings.Split(pkg, "+")...)
	if err != nil {
		panic(err)
	}
	sharedMu.Lock()
	s.pls[pkg] = pl
	sharedMu.Unlock()
	return pl
}

// ---------------------------------------------------------------------------
// small SSA helpers shared by the rules

// errsWrapLike reports whether the call is a nil-preserving error wrapper
// (errs.Wrap(e), Class.Wrap(e)): its result is nil iff its last argument is nil.
func errsWrapLike(c *ssa.CallCommon) (arg ssa.Value, ok bool) {
	obj := an.CalleeObj(c)
	if obj == nil || obj.Pkg() == nil {
		return nil, false
	}
	if obj.Pkg().Path() == "github.com/zeebo/errs" && obj.Name() == "Wrap" && len(c.Args) > 0 {
		return c.Args[len(c.Args)-1], true
	}
	return nil, false
}

// errsNewLike reports whether the call always returns a non-nil error
// (errs.New, Class.New, errors.New, fmt.Errorf).
func errsNewLike(c *ssa.CallCommon) bool {
	obj := an.CalleeObj(c)
	if obj == nil || obj.Pkg() == nil {
		return false
	}
	switch obj.Pkg().Path() {
	case "github.com/zeebo/errs":
		return obj.Name() == "New" || obj.Name() == "Errorf"
	case "errors":
		return obj.Name() == "New"
	case "fmt":
		return obj.Name() == "Errorf"
	}
	return false
}

// nilTestOf matches cond = (x != nil) or (x == nil) and returns x and whether
// the true edge means non-nil.
func nilTestOf(cond ssa.Value) (x ssa.Value, trueMeansNonNil bool, ok bool) {
	b, isBin := cond.(*ssa.BinOp)
	if !isBin {
		return nil, false, false
	}
	if b.Op != token.NEQ && b.Op != token.EQL {
		return nil, false, false
	}
	var other ssa.Value
	switch {
	case an.IsNilConst(b.Y):
		other = b.X
	case an.IsNilConst(b.X):
		other = b.Y
	default:
		return nil, false, false
	}
	return other, b.Op == token.NEQ, true
}

// sameValue compares two SSA values structurally through loads of the same
// single-assignment location (no CSE in go/ssa).
func sameValue(a, b ssa.Value) bool {
	if a == b {
		return true
	}
	ua, ok1 := a.(*ssa.UnOp)
	ub, ok2 := b.(*ssa.UnOp)
	if ok1 && ok2 && ua.Op == token.MUL && ub.Op == token.MUL {
		if ua.X == ub.X {
			return true
		}
		pa, pb := an.PathOf(ua.X), an.PathOf(ub.X)
		if an.SameRoot(pa.Root, pb.Root) && len(pa.Fields) == len(pb.Fields) && len(pa.Fields) > 0 {
			for i := range pa.Fields {
				if pa.Fields[i] != pb.Fields[i] {
					return false
				}
			}
			return true
		}
	}
	return false
}

// provablyNonNil reports whether error value v is non-nil at block b: a fresh
// error, a nil-preserving wrap of a non-nil value, or a value guarded by a
// dominating v != nil test.
func provablyNonNil(v ssa.Value, b *ssa.BasicBlock, depth int) bool {
	if depth > 6 {
		return false
	}
	v = an.Unwrap(v)
	switch x := v.(type) {
	case *ssa.Call:
		if errsNewLike(x.Common()) {
			return true
		}
		if arg, ok := errsWrapLike(x.Common()); ok {
			return provablyNonNil(arg, b, depth+1)
		}
		// ctx.Err() in the select case that received from ctx.Done(); term.Err() after the term signal
		if ctxErrAfterDone(x, nil) || signalErrAfterSignal(x) {
			return true
		}
	case *ssa.Alloc:
		return true
	case *ssa.Phi:
		all := len(x.Edges) > 0
		dead := an.InfeasibleEdges(b) // ways in that contradict a flag tested on the way to b
		for i, e := range x.Edges {
			// an operand is judged where it flows in: at the end of the predecessor
			eb := b
			if i < len(x.Block().Preds) {
				eb = x.Block().Preds[i]
				if dead[[2]*ssa.BasicBlock{eb, x.Block()}] {
					continue
				}
			}
			if !provablyNonNil(e, eb, depth+1) {
				all = false
				break
			}
		}
		if all {
			return true
		}
		// otherwise a dominating test of the merged value itself decides
	case *ssa.Global:
		return false
	case *ssa.UnOp:
		if x.Op == token.MUL {
			if g, ok := x.X.(*ssa.Global); ok {
				// package-level error variables initialised once with a fresh error
				if globalInitNonNil(g) {
					return true
				}
			}
		}
	}
	for _, g := range an.GuardsOf(b) {
		x, trueNonNil, ok := nilTestOf(g.Cond)
		if !ok {
			continue
		}
		if g.True != trueNonNil {
			continue
		}
		if sameValue(an.Unwrap(x), v) || an.Resolve(an.Unwrap(x)) == v {
			return true
		}
	}
	return false
}

// provablyNonNilCase is provablyNonNil for one return case: the value is judged
// where the case was split, and the guards collected along the case count.
func provablyNonNilCase(v ssa.Value, rc an.RetCase) bool {
	if v == nil {
		return false
	}
	if provablyNonNil(v, rc.At, 0) || provablyNonNil(v, rc.Ret.Block(), 0) {
		return true
	}
	uv := an.Unwrap(v)
	// the value itself, or a merged value it was selected from on this way, was tested non-nil
	same := func(x ssa.Value) bool {
		rx := an.Resolve(an.Unwrap(x))
		if sameValue(an.Unwrap(x), uv) || rx == uv {
			return true
		}
		for k, val := range rc.Vals {
			if val != v || k >= len(rc.Via) {
				continue
			}
			for _, phi := range rc.Via[k] {
				if rx == phi {
					return true
				}
			}
		}
		return false
	}
	for _, g := range rc.Guards {
		x, trueNonNil, ok := nilTestOf(g.Cond)
		if !ok || g.True != trueNonNil {
			continue
		}
		if same(x) {
			return true
		}
	}
	// a test of the local variable the value was returned through (named result with a defer)
	for k, val := range rc.Vals {
		if val != v {
			continue
		}
		for _, g := range rc.Guards {
			if nonNil, ok := rc.GuardOnSpilled(g, k); ok && nonNil {
				return true
			}
		}
	}
	if call, ok := uv.(*ssa.Call); ok {
		if arg, ok := errsWrapLike(call.Common()); ok {
			return provablyNonNilCase(arg, rc)
		}
	}
	return false
}

// knownNilCase: on this way of returning, a test on the way established that v is nil.
func knownNilCase(v ssa.Value, rc an.RetCase) bool {
	if v == nil || an.IsNilConst(v) {
		return true
	}
	uv := an.Unwrap(v)
	for _, g := range rc.Guards {
		x, trueNonNil, ok := nilTestOf(g.Cond)
		if !ok || g.True == trueNonNil {
			continue
		}
		rx := an.Resolve(an.Unwrap(x))
		if sameValue(an.Unwrap(x), uv) || rx == uv || rx == an.Resolve(uv) {
			return true
		}
		for k, val := range rc.Vals {
			if val != v || k >= len(rc.Via) {
				continue
			}
			for _, phi := range rc.Via[k] {
				if rx == phi {
					return true
				}
			}
		}
	}
	return false
}

// globalInitNonNil reports whether the package-level variable is assigned
// exactly once, in the package initialiser, from an always-non-nil constructor.
func globalInitNonNil(g *ssa.Global) bool {
	if g.Pkg == nil {
		return false
	}
	// well-known sentinels
	if g.Pkg.Pkg.Path() == "io" && (g.Name() == "EOF" || g.Name() == "ErrUnexpectedEOF" || g.Name() == "ErrNoProgress") {
		return true
	}
	if g.Pkg.Pkg.Path() == "context" && (g.Name() == "Canceled" || g.Name() == "DeadlineExceeded") {
		return true
	}
	init := g.Pkg.Func("init")
	if init == nil {
		return false
	}
	n, good := 0, false
	for _, fn := range an.WithAnon(init) {
		an.Instrs(fn, func(in ssa.Instruction) {
			st, ok := in.(*ssa.Store)
			if !ok || st.Addr != g {
				return
			}
			n++
			if call, ok := an.Unwrap(st.Val).(*ssa.Call); ok && errsNewLike(call.Common()) {
				good = true
			}
			// a value of a concrete (non-pointer) error type put into the interface: never nil
			if mi, ok := st.Val.(*ssa.MakeInterface); ok {
				if _, isPtr := mi.X.Type().Underlying().(*types.Pointer); !isPtr {
					good = true
				} else if _, isAlloc := mi.X.(*ssa.Alloc); isAlloc {
					good = true
				}
			}
		})
	}
	// stores outside init
	for _, m := range g.Pkg.Members {
		if fn, ok := m.(*ssa.Function); ok && fn != init {
			for _, f := range an.WithAnon(fn) {
				an.Instrs(f, func(in ssa.Instruction) {
					if st, ok := in.(*ssa.Store); ok && st.Addr == g {
						n += 10
					}
				})
			}
		}
	}
	return n == 1 && good
}

// returnedValues resolves what a Return yields for result i: for named
// results spilled to locals (functions with defers) it follows the reaching
// stores, transitively through copies between locals. A nil element is the
// zero value.
func returnedValues(ret *ssa.Return, i int) []ssa.Value {
	if i >= len(ret.Results) {
		return nil
	}
	var out []ssa.Value
	seen := map[ssa.Value]bool{}
	var expand func(v ssa.Value, depth int)
	expand = func(v ssa.Value, depth int) {
		if v != nil && seen[v] {
			return
		}
		if v != nil {
			seen[v] = true
		}
		if u, ok := v.(*ssa.UnOp); ok && u.Op == token.MUL && depth < 8 {
			if a, ok := u.X.(*ssa.Alloc); ok {
				for _, s := range an.ReachingStores(a, u) {
					expand(s, depth+1)
				}
				return
			}
		}
		out = append(out, v)
	}
	expand(ret.Results[i], 0)
	return out
}

// fieldStores lists the stores to a given struct field inside fn.
func fieldStores(fn *ssa.Function, field *types.Var) []*ssa.Store {
	var out []*ssa.Store
	an.Instrs(fn, func(in ssa.Instruction) {
		st, ok := in.(*ssa.Store)
		if !ok {
			return
		}
		if p := an.PathOf(st.Addr); p.Last() != nil && p.Last().Origin() == field.Origin() {
			if _, isFA := st.Addr.(*ssa.FieldAddr); isFA {
				out = append(out, st)
			}
		}
	})
	return out
}

// fieldLoads lists loads of a struct field inside fn.
func fieldLoads(fn *ssa.Function, field *types.Var) []*ssa.UnOp {
	var out []*ssa.UnOp
	an.Instrs(fn, func(in ssa.Instruction) {
		u, ok := in.(*ssa.UnOp)
		if !ok || u.Op != token.MUL {
			return
		}
		fa, ok := u.X.(*ssa.FieldAddr)
		if !ok {
			return
		}
		if fv := an.PathOf(fa).Last(); fv != nil && fv.Origin() == field.Origin() {
			out = append(out, u)
		}
	})
	return out
}

// isLoadOfField reports whether v is a load of the given field (any root).
func isLoadOfField(v ssa.Value, field *types.Var) bool {
	v = an.Unwrap(v)
	switch x := v.(type) {
	case *ssa.UnOp:
		if x.Op != token.MUL {
			return false
		}
		fa, ok := x.X.(*ssa.FieldAddr)
		if !ok {
			return false
		}
		fv := an.PathOf(fa).Last()
		return fv != nil && fv.Origin() == field.Origin()
	case *ssa.Field:
		fv := an.PathOf(x).Last()
		return fv != nil && fv.Origin() == field.Origin()
	}
	return false
}

// callOnField matches `recv.method()` where recv's path ends with field.
func callOnField(v ssa.Value, method *types.Func, field *types.Var) bool {
	call, ok := v.(*ssa.Call)
	if !ok {
		return false
	}
	if !an.IsCallTo(call.Common(), method) {
		return false
	}
	r := an.Recv(call.Common())
	if r == nil {
		return false
	}
	l := an.PathOf(r).Last()
	return l != nil && l.Origin() == field.Origin()
}

// guardedBy reports whether block b is dominated by an edge on which a call
// `X.<field>.method()` has the given truth value.
func guardedByCall(b *ssa.BasicBlock, method *types.Func, field *types.Var, want bool) (*ssa.If, bool) {
	for _, g := range an.GuardsOf(b) {
		if g.True == want && callOnField(g.Cond, method, field) {
			return g.If, true
		}
	}
	return nil, false
}

// signalErrAfterSignal: e is sig.Err() evaluated in a select case that received from the same signal's
// Signal() channel (a set Signal has its error; termination causes are non-nil by C05.R6).
func signalErrAfterSignal(e ssa.Value) bool {
	call, ok := e.(*ssa.Call)
	if !ok {
		return false
	}
	obj := an.CalleeObj(call.Common())
	if obj == nil || obj.Name() != "Err" || obj.Pkg() == nil || obj.Pkg().Name() != "drpcsignal" {
		return false
	}
	f := recvField(call.Common())
	if f == nil || nameOf(f) != "term" {
		return false
	}
	for _, sc := range an.SelectGuards(call.Block()) {
		st := sc.State()
		if st.Dir != types.RecvOnly {
			continue
		}
		if d, ok := st.Chan.(*ssa.Call); ok {
			if o := an.CalleeObj(d.Common()); o != nil && o.Name() == "Signal" && recvField(d.Common()) == f {
				return true
			}
		}
	}
	return false
}

func init() {
	an.NonNilHook = func(v ssa.Value) bool { return ctxErrAfterDone(v, nil) || signalErrAfterSignal(v) }
	an.ErrCtor = func(c *ssa.CallCommon) (bool, ssa.Value) {
		if errsNewLike(c) {
			return true, nil
		}
		if arg, ok := errsWrapLike(c); ok {
			return false, arg
		}
		return false, nil
	}
}

// nilTrack keeps, inside a Flow state, what a path knows about error values
// being nil: tags "N:<key>" / "Z:<key>". Loads of one local variable (a named
// result spilled because of a defer, also when seen from the deferred closure)
// share a key, and the results of an inlined helper are keyed by the call.
type nilTrack struct {
	nonNil func(v ssa.Value, at ssa.Instruction) bool // rule-specific knowledge (ctx.Err() after Done, ...)
}

func (n nilTrack) key(v ssa.Value) string {
	v = an.Unwrap(v)
	if v == nil {
		return ""
	}
	if u, ok := v.(*ssa.UnOp); ok && u.Op == token.MUL {
		switch x := u.X.(type) {
		case *ssa.Alloc:
			return "m:" + x.Name() + "@" + fmt.Sprint(x.Parent())
		case *ssa.FreeVar:
			if par := x.Parent().Parent(); par != nil {
				key := ""
				an.Instrs(par, func(in ssa.Instruction) {
					if mc, ok := in.(*ssa.MakeClosure); ok && mc.Fn == ssa.Value(x.Parent()) {
						for i, fv := range x.Parent().FreeVars {
							if fv == x && i < len(mc.Bindings) {
								if al, ok := mc.Bindings[i].(*ssa.Alloc); ok {
									key = "m:" + al.Name() + "@" + fmt.Sprint(al.Parent())
								}
							}
						}
					}
				})
				if key != "" {
					return key
				}
			}
		}
	}
	return "v:" + v.Name() + "@" + fmt.Sprint(v.Parent())
}

func (n nilTrack) set(st, key string, nonNil bool) string {
	st = delTag(delTag(st, "N:"+key), "Z:"+key)
	if nonNil {
		return addTag(st, "N:"+key)
	}
	return addTag(st, "Z:"+key)
}

// status reports what the path knows about v at instruction at.
func (n nilTrack) status(st string, v ssa.Value, at ssa.Instruction) (known, nonNil bool) {
	if v == nil || an.IsNilConst(v) {
		return true, false
	}
	k := n.key(v)
	switch {
	case hasTag(st, "N:"+k):
		return true, true
	case hasTag(st, "Z:"+k):
		return true, false
	case provablyNonNil(v, at.Block(), 0):
		return true, true
	case n.nonNil != nil && n.nonNil(v, at):
		return true, true
	}
	return false, false
}

// statusF is status with the engine's path facts taken into account (a merged
// result of an inlined helper is a phi the facts know about).
func (n nilTrack) statusF(st an.StateF, v ssa.Value, at ssa.Instruction) (known, nonNil bool) {
	if known, nonNil = n.status(st.User, v, at); known {
		return
	}
	switch st.FactOf(an.Unwrap(v)) {
	case 'N':
		return true, true
	case 'Z':
		return true, false
	}
	return false, false
}

// branch handles a nil test of an error value; handled=false means the condition is something else.
func (n nilTrack) branch(st string, br *ssa.If, idx int) (out string, handled, feasible bool) {
	x, trueNonNil, ok := nilTestOf(br.Cond)
	if !ok || !isErrorType(x.Type()) {
		return st, false, true
	}
	nonNil := (idx == 0) == trueNonNil
	k := n.key(x)
	if hasTag(st, "N:"+k) && !nonNil || hasTag(st, "Z:"+k) && nonNil {
		return st, true, false
	}
	return n.set(st, k, nonNil), true, true
}

// store carries knowledge into a local variable.
func (n nilTrack) store(st string, x *ssa.Store) string {
	al, ok := x.Addr.(*ssa.Alloc)
	if !ok || !isErrorType(deref(al.Type())) {
		return st
	}
	key := "m:" + al.Name() + "@" + fmt.Sprint(al.Parent())
	out := delTag(delTag(st, "N:"+key), "Z:"+key)
	if known, nonNil := n.status(st, x.Val, x); known {
		out = n.set(out, key, nonNil)
	}
	return out
}

// onReturn records, at a return of an inlined helper, what the path knows
// about the helper's error results under the key of the call's value(s), and
// forgets what was known about the helper's own values.
func (n nilTrack) onReturn(st string, ret *ssa.Return, call ssa.CallInstruction) string {
	callee := ret.Parent()
	type upd struct {
		key    string
		nonNil bool
	}
	var upds []upd
	cv := call.Value()
	for i, r := range ret.Results {
		if !isErrorType(r.Type()) {
			continue
		}
		known, nonNil := n.status(st, r, ret)
		if !known || cv == nil {
			continue
		}
		if len(ret.Results) == 1 {
			upds = append(upds, upd{n.key(cv), nonNil})
			continue
		}
		for _, ref := range *cv.Referrers() {
			if ex, ok := ref.(*ssa.Extract); ok && ex.Index == i {
				upds = append(upds, upd{n.key(ex), nonNil})
			}
		}
	}
	sfx := "@" + fmt.Sprint(callee)
	out := ""
	for _, t := range splitTags(st) {
		if (strings.HasPrefix(t, "N:") || strings.HasPrefix(t, "Z:")) && strings.HasSuffix(t, sfx) {
			continue
		}
		out = addTag(out, t)
	}
	for _, u := range upds {
		out = n.set(out, u.key, u.nonNil)
	}
	return out
}

// extendedBody returns fn and the same-package functions it (transitively)
// calls statically: where a piece of fn lives after a helper was extracted.
func extendedBody(fn *ssa.Function) []*ssa.Function {
	seen := map[*ssa.Function]bool{fn: true}
	out := []*ssa.Function{fn}
	for i := 0; i < len(out); i++ {
		for _, f := range an.WithAnon(out[i]) {
			an.Instrs(f, func(in ssa.Instruction) {
				ci, ok := in.(ssa.CallInstruction)
				if !ok {
					return
				}
				callee := ci.Common().StaticCallee()
				if callee == nil || len(callee.Blocks) == 0 || seen[callee] {
					return
				}
				if callee.Pkg == nil || fn.Pkg == nil || callee.Pkg != fn.Pkg {
					if callee.Parent() == nil || !seen[callee.Parent()] {
						return
					}
				}
				seen[callee] = true
				out = append(out, callee)
			})
		}
	}
	return out
}

type valueIn struct {
	v  ssa.Value
	fn *ssa.Function
}

// paramSources follows v back through parameters to the arguments at the call
// sites inside root's extended body, until values of root (or non-parameters) are reached.
func paramSources(v ssa.Value, root *ssa.Function, depth int) []valueIn {
	par, ok := v.(*ssa.Parameter)
	if !ok || depth > 4 || v.Parent() == root {
		fn := root
		if v != nil && v.Parent() != nil {
			fn = v.Parent()
		}
		return []valueIn{{v, fn}}
	}
	callee := par.Parent()
	idx := -1
	for i, p := range callee.Params {
		if p == par {
			idx = i
		}
	}
	var out []valueIn
	for _, f := range extendedBody(root) {
		an.Instrs(f, func(in ssa.Instruction) {
			ci, ok := in.(ssa.CallInstruction)
			if !ok || ci.Common().StaticCallee() != callee || idx < 0 || idx >= len(ci.Common().Args) {
				return
			}
			out = append(out, paramSources(ci.Common().Args[idx], root, depth+1)...)
		})
	}
	if len(out) == 0 {
		return []valueIn{{v, callee}}
	}
	return out
}

// nameOf is the inventory name of a module entity (a consistently renamed
// function, method or field keeps the name the rule tables know it by).
func nameOf(o interface{ Name() string }) string {
	switch x := o.(type) {
	case *types.Var:
		return an.CanonName(x)
	case *types.Func:
		return an.CanonName(x)
	case *ssa.Function:
		if f, ok := x.Object().(*types.Func); ok {
			return an.CanonName(f)
		}
	}
	return o.Name()
}

// isDebugLog reports whether the call is debug logging: a function of the
// drpcdebug package, or a method named log whose body only reaches drpcdebug,
// fmt and the callback it was given. Such calls have no effect on the protocol
// state (and are compiled out without the debug tag).
func isDebugLog(cc *ssa.CallCommon) bool {
	f := cc.StaticCallee()
	if f == nil {
		return false
	}
	inDebug := func(fn *ssa.Function) bool {
		p := fn.Pkg
		if p == nil && fn.Object() != nil && fn.Object().Pkg() != nil {
			return strings.HasSuffix(fn.Object().Pkg().Path(), "/drpcdebug")
		}
		return p != nil && strings.HasSuffix(p.Pkg.Path(), "/drpcdebug")
	}
	if inDebug(f) {
		return true
	}
	if nameOf(f) != "log" || len(f.Blocks) == 0 {
		return false
	}
	ok := true
	an.Instrs(f, func(in ssa.Instruction) {
		ci, isCall := in.(ssa.CallInstruction)
		if !isCall {
			return
		}
		c2 := ci.Common()
		if callee := c2.StaticCallee(); callee != nil {
			if inDebug(callee) {
				return
			}
			if callee.Pkg != nil && callee.Pkg.Pkg.Path() == "fmt" {
				return
			}
			ok = false
			return
		}
		if _, isParam := c2.Value.(*ssa.Parameter); isParam && !c2.IsInvoke() {
			return // the message callback
		}
		ok = false
	})
	return ok
}

// frameLoopFns returns the functions of drpcstream that write a message frame by frame: a call of
// (*Writer).WriteFrame inside a loop. On the reviewed tree that is rawWriteLocked; the rules that are about
// "the frame loop" find it by this content, so that they follow it through renames, signature changes and inlining.
func frameLoopFns(c *an.Ctx) []*ssa.Function {
	wapi := writerAPI(c)
	var out []*ssa.Function
	for _, fn := range must(c.P.SourceFuncs("drpcstream")) {
		found := false
		for _, l := range an.Loops(fn) {
			for b := range l.Blocks {
				for _, in := range b.Instrs {
					if ci, ok := in.(ssa.CallInstruction); ok && wapi.emits(ci.Common()) {
						found = true
					}
				}
			}
		}
		if found {
			out = append(out, fn)
		}
	}
	return out
}

// splitConsumingLoop: the loop splits a buffer with drpcwire.SplitData and continues with the remainder it
// returned (a strict remainder by C01.R7), so it ends when the data is exhausted.
func splitConsumingLoop(c *an.Ctx, l *an.Loop) bool {
	split := A(c).obj("drpcwire", "SplitData")
	for b := range l.Blocks {
		for _, in := range b.Instrs {
			call, ok := in.(*ssa.Call)
			if !ok || !an.IsCallTo(call.Common(), split) || len(call.Common().Args) == 0 {
				continue
			}
			src := an.Resolve(call.Common().Args[0])
			phi, isPhi := src.(*ssa.Phi)
			if !isPhi || !l.Blocks[phi.Block()] {
				// the split buffer may live in memory (captured or address-taken): a store of the remainder inside the loop
				if u, isU := call.Common().Args[0].(*ssa.UnOp); isU {
					if al, isAl := u.X.(*ssa.Alloc); isAl {
						for _, ref := range *al.Referrers() {
							if st, isSt := ref.(*ssa.Store); isSt && l.Blocks[st.Block()] {
								if ex, isEx := an.Resolve(st.Val).(*ssa.Extract); isEx && ex.Tuple == ssa.Value(call) && ex.Index == 1 {
									return true
								}
							}
						}
					}
				}
				continue
			}
			for _, e := range phi.Edges {
				if ex, isEx := an.Resolve(e).(*ssa.Extract); isEx && ex.Tuple == ssa.Value(call) && ex.Index == 1 {
					return true
				}
			}
		}
	}
	return false
}

// concatParts flattens a byte-slice (or string) value built by appends onto an empty base into its parts, in
// order: append(x, y...) -> parts(x) ++ [y]; arr[:] of a local array -> the array; nil / empty -> no part;
// BigEndian.AppendUintN(x, v) -> parts(x) ++ [that call].
func concatParts(v ssa.Value, depth int) ([]ssa.Value, bool) {
	if depth > 8 || v == nil {
		return nil, false
	}
	v = an.Resolve(v)
	switch x := v.(type) {
	case *ssa.Const:
		if x.Value == nil {
			return nil, true
		}
	case *ssa.MakeSlice:
		if k, isK := an.ConstInt(x.Len); isK && k == 0 {
			return nil, true
		}
		// make([]byte, len(a)+len(b), ...) filled by copy(_, a) and copy(_[len(a):], b): the concatenation a ++ b
		if parts, ok := twoCopies(x, depth); ok {
			return parts, true
		}
		// make([]byte, len(p), ...) filled by copy(_, p): a re-allocated copy of the prefix p
		if lc, isCall := x.Len.(*ssa.Call); isCall {
			if b, isB := lc.Common().Value.(*ssa.Builtin); isB && b.Name() == "len" {
				src := lc.Common().Args[0]
				for _, r := range *x.Referrers() {
					cp, isCp := r.(*ssa.Call)
					if !isCp {
						continue
					}
					if cb, isCB := cp.Common().Value.(*ssa.Builtin); isCB && cb.Name() == "copy" && cp.Common().Args[0] == ssa.Value(x) && sameValue(cp.Common().Args[1], src) {
						return concatParts(src, depth+1)
					}
				}
			}
		}
	case *ssa.Phi:
		// alternatives that are the same concatenation (a buffer and its re-allocated copy)
		var first []ssa.Value
		for i, e := range x.Edges {
			ps, ok := concatParts(e, depth+1)
			if !ok {
				return []ssa.Value{v}, true
			}
			if i == 0 {
				first = ps
				continue
			}
			if len(ps) != len(first) {
				return []ssa.Value{v}, true
			}
			for j := range ps {
				if ps[j] != first[j] {
					return []ssa.Value{v}, true
				}
			}
		}
		return first, true
	case *ssa.Slice:
		if hi, isK := an.ConstInt(x.High); x.High != nil && isK && hi == 0 {
			return nil, true
		}
		if al, isAl := x.X.(*ssa.Alloc); isAl && x.Low == nil && x.High == nil {
			if _, isArr := deref(al.Type()).Underlying().(*types.Array); isArr {
				return []ssa.Value{al}, true
			}
		}
	case *ssa.Call:
		if b, isB := x.Common().Value.(*ssa.Builtin); isB && b.Name() == "append" && len(x.Common().Args) == 2 {
			base, ok := concatParts(x.Common().Args[0], depth+1)
			if !ok {
				return nil, false
			}
			// the appended operand may itself be a concatenation
			if more, ok2 := concatParts(x.Common().Args[1], depth+1); ok2 && len(more) >= 1 {
				return append(base, more...), true
			}
			return append(base, x.Common().Args[1]), true
		}
		if obj := an.CalleeObj(x.Common()); obj != nil && strings.HasPrefix(obj.Name(), "AppendUint") && strings.Contains(obj.FullName(), "Endian") && len(x.Common().Args) == 3 {
			base, ok := concatParts(x.Common().Args[1], depth+1)
			if !ok {
				return nil, false
			}
			return append(base, v), true
		}
	}
	return []ssa.Value{v}, true
}

// twoCopies: mk = make([]T, n, ...) with n == len(a)+len(b) (also through a local), copy(mk, a) and
// copy(mk[len(a):], b): the parts of a followed by the parts of b.
func twoCopies(mk *ssa.MakeSlice, depth int) ([]ssa.Value, bool) {
	sum, ok := mk.Len.(*ssa.BinOp)
	if !ok || sum.Op != token.ADD {
		return nil, false
	}
	lenArg := func(v ssa.Value) ssa.Value {
		lc, isCall := v.(*ssa.Call)
		if !isCall {
			return nil
		}
		if b, isB := lc.Common().Value.(*ssa.Builtin); isB && b.Name() == "len" {
			return lc.Common().Args[0]
		}
		return nil
	}
	a, b := lenArg(sum.X), lenArg(sum.Y)
	if a == nil || b == nil {
		return nil, false
	}
	okA, okB := false, false
	for _, r := range *mk.Referrers() {
		switch x := r.(type) {
		case *ssa.Call:
			if cb, isCB := x.Common().Value.(*ssa.Builtin); isCB && cb.Name() == "copy" && x.Common().Args[0] == ssa.Value(mk) && sameValue(x.Common().Args[1], a) {
				okA = true
			}
		case *ssa.Slice:
			if x.High != nil || x.Low == nil {
				continue
			}
			if la := lenArg(x.Low); la == nil || !sameValue(la, a) {
				continue
			}
			for _, r2 := range *x.Referrers() {
				if cp, isCp := r2.(*ssa.Call); isCp {
					if cb, isCB := cp.Common().Value.(*ssa.Builtin); isCB && cb.Name() == "copy" && cp.Common().Args[0] == ssa.Value(x) && sameValue(cp.Common().Args[1], b) {
						okB = true
					}
				}
			}
		}
	}
	if !okA || !okB {
		return nil, false
	}
	pa, ok1 := concatParts(a, depth+1)
	pb, ok2 := concatParts(b, depth+1)
	if !ok1 || !ok2 {
		return nil, false
	}
	return append(append([]ssa.Value{}, pa...), pb...), true
}

// carriesError: v is the error e, or a merge of e with replacement errors that are only chosen on ways in where e
// was found nil (a nil write error turned into io.ErrShortWrite): whenever e is non-nil, v is e; v == nil implies e == nil.
func carriesError(v, e ssa.Value, depth int) bool {
	v = an.Unwrap(v)
	if v == e || an.Resolve(v) == e {
		return true
	}
	phi, ok := v.(*ssa.Phi)
	if !ok || depth > 3 {
		return false
	}
	blk := phi.Block()
	some := false
	for i, edge := range phi.Edges {
		if carriesError(edge, e, depth+1) {
			some = true
			continue
		}
		if i >= len(blk.Preds) {
			return false
		}
		knownNil := false
		for _, g := range an.GuardsOfEdge(blk.Preds[i], blk) {
			if x, trueNonNil, isNil := nilTestOf(g.Cond); isNil && (an.Unwrap(x) == e || an.Resolve(x) == e) && g.True != trueNonNil {
				knownNil = true
			}
		}
		if !knownNil {
			return false
		}
	}
	return some
}
