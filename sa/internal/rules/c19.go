package rules

import (
	"fmt"
	"go/constant"
	"go/token"
	"go/types"
	"strings"

	"golang.org/x/tools/go/ssa"

	"verif/sa/internal/an"
)

func init() {
	register(&Property{
		ID:        "C19",
		Technique: "publication-order typestate over the slow paths, must-lockset plus flag-guard classification of every plain field access, first-wins guard dominance, close-once classification; interprocedural lock-pairing check",
		Explanation: "The orderings and guards a linearisability argument for the one-shot primitives needs, decided on every path: " +
			"(R1) publication order: in Signal.setSlow the error (and a fresh closed channel) are stored before the status word, which is stored before close(ch); in signalSlow the channel is stored before the status word; in Chan.doSlow the done flag is published after the initialiser ran; nothing is stored to the published fields after the flag; " +
			"(R2) every plain write of Signal.err/ch and Chan.ch/closed happens under the object's mutex (initialisers passed to Chan.do run under it), and every plain read is under the mutex, after a critical section of it, or behind the atomic flag test with the matching bit; " +
			"(R3) first set wins: the body of setSlow runs only if the error bit was clear when tested under the mutex, and reports ok only from that branch; the status word is only ever written with atomic stores; " +
			"(R4) close-once for every close(ch) in drpcsignal; " +
			"(R7) Signal.ch is assigned only on a branch where the channel-created bit of a status value read under the mutex is clear (so every observer gets the same channel), close(s.ch) runs only where that bit was set (so the shared, already closed sentinel is never closed), and wherever the sentinel is installed the state that disables a later close is recorded in the same critical section.",
		NotDecided:  "linearisability of Set/Get/Err/IsSet/Signal/Wait and of the lazy channel under the Go memory model for all interleavings: these are the orderings such an argument needs, not the argument.",
		Assumptions: []string{"sync/atomic loads and stores are sequentially consistent (Go memory model); sync.Mutex provides the usual happens-before edges"},
		Rules: append([]Rule{
			{ID: "C19.R1", Doc: "publication order in setSlow / signalSlow / doSlow; no store to published fields after the flag", Run: c19r1},
			{ID: "C19.R2", Doc: "plain accesses of Signal.err/ch and Chan.ch/closed: writes under the mutex, reads under it / after it / behind the matching flag bit", Run: c19r2},
			{ID: "C19.R3", Doc: "first set wins: setSlow body guarded by the error bit tested under the mutex; ok only from that branch; status written atomically only", Run: c19r3},
			{ID: "C19.R4", Doc: "close-once for every close(ch) in drpcsignal", Run: func(c *an.Ctx) { closeOnce(c, "drpcsignal") }},
			{ID: "C19.R6", Doc: "every Signal accessor decides from ONE atomic snapshot of the status word (no result pair assembled from two loads)", Run: c19r6},
			{ID: "C19.R5", Doc: "lazy channel: the initialiser runs only if done is still clear when re-tested under Chan.mu (first user wins)", Run: c19r5},
			{ID: "C19.R7", Doc: "a Signal's channel is installed once (only while the channel-created bit, read under the mutex, is clear) and closed only if that bit was set; the shared closed sentinel is installed together with the state that disables close()", Run: c19r7},
		}, disciplineRules("C19", "drpcsignal")[1:]...),
	})
}

// wordRead: v reads the given word, plainly (a load of the field) or with an
// atomic load; it returns the reading instruction (for lockset queries).
func wordRead(v ssa.Value, f *types.Var) (ssa.Instruction, bool) {
	v = an.Resolve(v)
	switch x := v.(type) {
	case *ssa.UnOp:
		if isLoadOfField(x, f) {
			return x, true
		}
	case *ssa.Call:
		if isAtomicLoadOf(x, f) {
			return x, true
		}
	}
	return nil, false
}

func isAtomicStoreTo(in ssa.Instruction, f *types.Var) (ssa.Value, bool) {
	a, ok := an.AtomicOn(in, f)
	if !ok || a.Kind != "store" || a.Val == nil {
		return nil, false
	}
	return a.Val, true
}

func isAtomicLoadOf(v ssa.Value, f *types.Var) bool {
	call, ok := v.(*ssa.Call)
	if !ok {
		return false
	}
	a, ok := an.AtomicOn(call, f)
	return ok && a.Kind == "load"
}

func c19r1(c *an.Ctx) {
	a := A(c)
	status := a.field("drpcsignal", "Signal", "status")
	serr := a.field("drpcsignal", "Signal", "err")
	sch := a.field("drpcsignal", "Signal", "ch")
	done := a.field("drpcsignal", "Chan", "done")

	order := func(fn *ssa.Function, flag *types.Var, published []*types.Var, needBefore []*types.Var) {
		flow := &an.Flow{Fn: fn, Init: []string{""}, Step: func(st string, in ssa.Instruction) []string {
			if _, ok := isAtomicStoreTo(in, flag); ok {
				if _, isDefer := in.(*ssa.Defer); !isDefer {
					return []string{addTag(st, "flag")}
				}
			}
			switch x := in.(type) {
			case *ssa.Store:
				fv := an.PathOf(x.Addr).Last()
				for _, p := range published {
					if fv != nil && fv.Origin() == p.Origin() {
						if hasTag(st, "flag") {
							return []string{addTag(st, "late:"+p.Name())}
						}
						return []string{addTag(st, "st:"+p.Name())}
					}
				}
			case *ssa.Call:
				if b, ok := x.Common().Value.(*ssa.Builtin); ok && b.Name() == "close" {
					if !hasTag(st, "flag") {
						return []string{addTag(st, "earlyclose")}
					}
				}
			}
			return nil
		}}
		res := flow.Run()
		nFlag := 0
		an.Instrs(fn, func(in ssa.Instruction) {
			if _, ok := isAtomicStoreTo(in, flag); !ok {
				return
			}
			if _, isDefer := in.(*ssa.Defer); isDefer {
				return
			}
			nFlag++
			for _, st := range res.Before(in) {
				for _, nb := range needBefore {
					c.Check(hasTag(st, "st:"+nb.Name()), fmt.Sprintf("%s | %s stored before the flag is published", an.ShortFunc(fn), nb.Name()), c.At(in), "",
						"the status/done flag is published before "+nb.Name()+" is written: a reader on the atomic fast path sees the flag and reads a stale "+nb.Name())
				}
			}
		})
		c.Check(nFlag >= 1, an.ShortFunc(fn)+" | publishes its flag with an atomic store", c.P.Pos(fn.Pos()), "", "no atomic store of the flag found")
		for _, ret := range an.Returns(fn) {
			if !res.Reachable(ret.Block()) {
				continue
			}
			for _, st := range res.Before(ret) {
				late := ""
				for _, t := range splitTags(st) {
					if strings.HasPrefix(t, "late:") {
						late = t[5:]
					}
				}
				c.Check(late == "", an.ShortFunc(fn)+" | nothing is stored to published fields after the flag", c.At(ret), "", late+" is written after the flag was published: fast-path readers race with the write")
				c.Check(!hasTag(st, "earlyclose"), an.ShortFunc(fn)+" | channel closed only after the flag is published", c.At(ret), "", "close(ch) runs before the status word is stored: a waiter woken by the close can find the signal still unset")
			}
		}
	}
	setSlow := c.Fn("drpcsignal", "(*Signal).setSlow")
	order(setSlow, status, []*types.Var{serr, sch}, []*types.Var{serr})
	// on the path where no channel existed, the closed channel is stored before the flag
	flowCh := &an.Flow{Fn: setSlow, Init: []string{""}, Step: func(st string, in ssa.Instruction) []string {
		if x, ok := in.(*ssa.Store); ok {
			if fv := an.PathOf(x.Addr).Last(); fv != nil && fv.Origin() == sch.Origin() {
				return []string{addTag(st, "ch")}
			}
		}
		return nil
	}, Branch: func(st string, br *ssa.If, idx int) (string, bool) {
		// (status & created) == 0
		if b, ok := br.Cond.(*ssa.BinOp); ok && (b.Op == token.EQL || b.Op == token.NEQ) {
			if and, ok := b.X.(*ssa.BinOp); ok && and.Op == token.AND {
				if k, isC := an.ConstInt(and.Y); isC && k == 1 {
					zero := (idx == 0) == (b.Op == token.EQL)
					if zero {
						return addTag(st, "nochan"), true
					}
				}
			}
		}
		return st, true
	}}
	resCh := flowCh.Run()
	an.Instrs(setSlow, func(in ssa.Instruction) {
		if _, ok := isAtomicStoreTo(in, status); !ok {
			return
		}
		for _, st := range resCh.Before(in) {
			if hasTag(st, "nochan") {
				c.Check(hasTag(st, "ch"), "(*Signal).setSlow | a closed channel is installed before the flag when none existed", c.At(in), "", "Signal() after Set would return a nil channel (blocks forever)")
			}
		}
		if v, _ := isAtomicStoreTo(in, status); v != nil {
			k, isC := an.ConstInt(v)
			c.Check(isC && k == 3, "(*Signal).setSlow | status stored with both bits (error set, channel created)", c.At(in), "", "the status word does not record both the error and the channel: "+an.R(v))
		}
	})
	order(c.Fn("drpcsignal", "(*Signal).signalSlow"), status, []*types.Var{sch}, []*types.Var{sch})

	// Chan.doSlow: done is published after f ran
	ds := c.Fn("drpcsignal", "(*Chan).doSlow")
	var fcall ssa.Instruction
	an.Instrs(ds, func(in ssa.Instruction) {
		if call, ok := in.(*ssa.Call); ok {
			if p, isP := call.Common().Value.(*ssa.Parameter); isP && p == ds.Params[1] {
				fcall = in
			}
		}
	})
	n := 0
	an.Instrs(ds, func(in ssa.Instruction) {
		if _, ok := isAtomicStoreTo(in, done); !ok {
			return
		}
		n++
		ok := false
		if _, isDefer := in.(*ssa.Defer); isDefer {
			ok = fcall != nil // deferred: runs at return, after f()
		} else if fcall != nil && an.InstrDominates(fcall, in) {
			ok = true
		}
		c.Check(ok, "(*Chan).doSlow | done published after the initialiser ran", c.At(in), "", "the done flag is visible before the channel is installed: the atomic fast path hands out a nil channel")
	})
	c.Floor("done publications in doSlow", 1, n)
}

func c19r2(c *an.Ctx) {
	a := A(c)
	pl := locksOf(c, "drpcsignal")
	status := a.field("drpcsignal", "Signal", "status")
	smu := a.field("drpcsignal", "Signal", "mu")
	serr := a.field("drpcsignal", "Signal", "err")
	sch := a.field("drpcsignal", "Signal", "ch")
	cmu := a.field("drpcsignal", "Chan", "mu")
	cch := a.field("drpcsignal", "Chan", "ch")
	cclosed := a.field("drpcsignal", "Chan", "closed")
	cdone := a.field("drpcsignal", "Chan", "done")
	chanDo := a.obj("drpcsignal", "(*Chan).do")
	doSlow := c.Fn("drpcsignal", "(*Chan).doSlow")
	// does doSlow invoke its callback under c.mu?
	cbUnderLock := false
	an.Instrs(doSlow, func(in ssa.Instruction) {
		if call, ok := in.(*ssa.Call); ok {
			if p, isP := call.Common().Value.(*ssa.Parameter); isP && p == doSlow.Params[1] {
				cbUnderLock = pl.MustHoldClass(in, doSlow.Params[0], cmu)
			}
		}
	})
	c.Check(cbUnderLock, "(*Chan).doSlow | the initialiser runs under Chan.mu", c.P.Pos(doSlow.Pos()), "", "Chan's initialiser callback runs without the mutex: two first users can both install a channel")
	// functions only used as Chan.do callbacks
	fns := must(c.P.SourceFuncs("drpcsignal"))
	isDoCallback := func(fn *ssa.Function) bool {
		// closure passed to do, or method whose bound value is passed to do
		used, onlyDo := false, true
		for _, g := range fns {
			an.Instrs(g, func(in ssa.Instruction) {
				call, ok := in.(*ssa.Call)
				if !ok {
					return
				}
				for i, arg := range call.Common().Args {
					var target *ssa.Function
					if mc, isMC := arg.(*ssa.MakeClosure); isMC {
						target, _ = mc.Fn.(*ssa.Function)
						if target != nil && target.Synthetic != "" {
							target = firstStaticCallee(target)
						}
					}
					if target != fn {
						continue
					}
					used = true
					if !(an.IsCallTo(call.Common(), chanDo) && i == 1) {
						onlyDo = false
					}
				}
				if callee := call.Common().StaticCallee(); callee == fn {
					onlyDo = false // also called directly
				}
			})
		}
		return used && onlyDo
	}
	type rule struct {
		field, mu, flag *types.Var
		bit             int64
	}
	rules := []rule{{serr, smu, status, 2}, {sch, smu, status, 1}, {cch, cmu, cdone, 0}, {cclosed, cmu, nil, 0}}
	n := 0
	for _, fn := range fns {
		cb := isDoCallback(fn)
		an.Instrs(fn, func(in ssa.Instruction) {
			fa, ok := in.(*ssa.FieldAddr)
			if !ok {
				return
			}
			fv := an.PathOf(fa).Last()
			var r *rule
			for i := range rules {
				if fv != nil && fv.Origin() == rules[i].field.Origin() {
					r = &rules[i]
				}
			}
			if r == nil {
				return
			}
			root := an.PathOf(fa).Root
			for _, ref := range *fa.Referrers() {
				switch u := ref.(type) {
				case *ssa.Store:
					if u.Addr != ssa.Value(fa) {
						continue
					}
					n++
					ok := pl.MustHoldClass(u, root, r.mu) || (cb && cbUnderLock)
					c.Check(ok, fmt.Sprintf("%s | write %s under its mutex", an.ShortFunc(fn), fv.Name()), c.At(u), "", fv.Name()+" is written without the object's mutex")
				case *ssa.UnOp:
					n++
					okRead, how := false, ""
					if pl.MustHoldClass(u, root, r.mu) || (cb && cbUnderLock) {
						okRead, how = true, "under the mutex"
					}
					if !okRead && r.flag != nil {
						for _, g := range an.GuardsOf(u.Block()) {
							if flagBitSet(g, r.flag, r.bit) {
								okRead, how = true, "behind the atomic flag test"
							}
							// ... or behind a predicate method of the same object that is that test (IsSet)
							if call, isCall := g.Cond.(*ssa.Call); isCall && len(call.Common().Args) == 1 && an.SameRoot(an.PathOf(call.Common().Args[0]).Root, root) {
								if callee := call.Common().StaticCallee(); callee != nil && len(callee.Blocks) == 1 {
									if rets := an.Returns(callee); len(rets) == 1 && len(rets[0].Results) == 1 {
										if flagBitSet(an.Guard{Cond: rets[0].Results[0], True: g.True}, r.flag, r.bit) {
											okRead, how = true, "behind a predicate method that tests the atomic flag"
										}
									}
								}
							}
						}
					}
					if !okRead {
						// after a critical section of the mutex, or after Chan.do on the same receiver
						an.Instrs(fn, func(i2 ssa.Instruction) {
							ci, isCall := i2.(*ssa.Call)
							if !isCall || !an.InstrDominates(i2, u) {
								return
							}
							if op, isOp := pl.LT.OpOf(ci.Common()); isOp && op.Kind == "unlock" && op.Lock.Class() == r.mu.Origin() {
								okRead, how = true, "after a critical section of the mutex"
							}
							if an.IsCallTo(ci.Common(), chanDo) && an.SameRoot(an.PathOf(ci.Common().Args[0]).Root, root) {
								okRead, how = true, "after Chan.do (atomic done flag or critical section)"
							}
						})
					}
					c.Check(okRead, fmt.Sprintf("%s | read %s is ordered after its publication", an.ShortFunc(fn), fv.Name()), c.At(u), how, fv.Name()+" is read without the mutex, without a preceding critical section and without the flag bit that publishes it")
				}
			}
		})
	}
	c.Floor("plain accesses of signal/chan fields", 1, n)
}

// flagBitSet: guard establishes atomic.Load(&flag)&bit != 0 (bit == 0: flag != 0).
func flagBitSet(g an.Guard, flag *types.Var, bit int64) bool {
	b, ok := g.Cond.(*ssa.BinOp)
	if !ok {
		return false
	}
	k, isC := an.ConstInt(b.Y)
	if !isC || k != 0 {
		return false
	}
	nonZero := (b.Op == token.NEQ && g.True) || (b.Op == token.EQL && !g.True)
	if !nonZero {
		return false
	}
	x := b.X
	if bit != 0 {
		and, ok := x.(*ssa.BinOp)
		if !ok || and.Op != token.AND {
			return false
		}
		m, isM := an.ConstInt(and.Y)
		if !isM || m&bit == 0 {
			return false
		}
		x = and.X
	}
	return isAtomicLoadOf(x, flag)
}

func c19r3(c *an.Ctx) {
	a := A(c)
	pl := locksOf(c, "drpcsignal")
	status := a.field("drpcsignal", "Signal", "status")
	smu := a.field("drpcsignal", "Signal", "mu")
	fn := c.Fn("drpcsignal", "(*Signal).setSlow")
	// the tested status value is loaded under the mutex
	var test *ssa.If
	an.Instrs(fn, func(in ssa.Instruction) {
		br, ok := in.(*ssa.If)
		if !ok || test != nil {
			return
		}
		b, ok := br.Cond.(*ssa.BinOp)
		if !ok {
			return
		}
		and, ok := b.X.(*ssa.BinOp)
		if !ok || and.Op != token.AND {
			return
		}
		if k, isC := an.ConstInt(and.Y); !isC || k != 2 {
			return
		}
		if ld, isLd := wordRead(and.X, status); isLd {
			if pl.MustHoldClass(ld, fn.Params[0], smu) {
				test = br
			}
		}
	})
	if !c.Check(test != nil, "(*Signal).setSlow | error bit tested on a status value loaded under Signal.mu", c.P.Pos(fn.Pos()), "", "setSlow does not test the error-set bit under the mutex: two concurrent setters can both win") {
		return
	}
	firstEdge := 0
	if b := test.Cond.(*ssa.BinOp); b.Op == token.NEQ {
		firstEdge = 1
	}
	// on the winning side of the test: dominated by that edge, or behind a test of a value that is only non-nil /
	// true when it was assigned on that side (a channel to close after unlocking, a flag)
	won := func(b *ssa.BasicBlock) bool {
		if an.EdgeDominates(test.Block(), firstEdge, b) {
			return true
		}
		for _, g := range an.GuardsOf(b) {
			if g.If == test && g.True == (firstEdge == 0) {
				return true
			}
		}
		return false
	}
	n := 0
	an.Instrs(fn, func(in ssa.Instruction) {
		eff := ""
		switch x := in.(type) {
		case *ssa.Store:
			if len(an.PathOf(x.Addr).Fields) == 0 {
				return // a local (for instance the named result kept in memory because of a defer), not the signal's state
			}
			eff = "store " + an.PathOf(x.Addr).FieldString()
		case *ssa.Call:
			if _, ok := isAtomicStoreTo(in, status); ok {
				eff = "publish status"
			}
			if b, ok := x.Common().Value.(*ssa.Builtin); ok && b.Name() == "close" {
				eff = "close(ch)"
			}
		}
		if eff == "" {
			return
		}
		n++
		c.Check(won(in.Block()), "(*Signal).setSlow | "+eff+" only if the error bit was clear", c.At(in), "", "a later Set overwrites the first setter's value / closes the channel again")
	})
	c.Floor("effects in setSlow", 1, n)
	for _, ret := range an.Returns(fn) {
		for _, v := range returnedValues(ret, 0) {
			phi, ok := v.(*ssa.Phi)
			if !ok {
				continue
			}
			for i, e := range phi.Edges {
				if cst, isC := e.(*ssa.Const); isC && cst.Value != nil && cst.Value.String() == "true" {
					c.Check(won(phi.Block().Preds[i]), "(*Signal).setSlow | reports ok only from the winning branch", c.At(ret), "", "Set can report success although another setter won")
				}
			}
		}
	}
	// status is never written with a plain store
	nPlain := 0
	for _, f := range must(c.P.SourceFuncs("drpcsignal")) {
		nPlain += len(fieldStores(f, status))
	}
	c.Check(nPlain == 0, "drpcsignal | Signal.status is written only with atomic stores", "-", "", fmt.Sprintf("%d plain stores to Signal.status", nPlain))
}

func c19r5(c *an.Ctx) {
	a := A(c)
	pl := locksOf(c, "drpcsignal")
	done := a.field("drpcsignal", "Chan", "done")
	cmu := a.field("drpcsignal", "Chan", "mu")
	ds := c.Fn("drpcsignal", "(*Chan).doSlow")
	n := 0
	an.Instrs(ds, func(in ssa.Instruction) {
		call, ok := in.(*ssa.Call)
		if !ok {
			return
		}
		p, isP := call.Common().Value.(*ssa.Parameter)
		if !isP || p != ds.Params[1] {
			return
		}
		n++
		okGuard := false
		for _, g := range an.GuardsOf(in.Block()) {
			b, isB := g.Cond.(*ssa.BinOp)
			if !isB {
				continue
			}
			k, isC := an.ConstInt(b.Y)
			if !isC || k != 0 {
				continue
			}
			clear := (b.Op == token.EQL && g.True) || (b.Op == token.NEQ && !g.True)
			if !clear {
				continue
			}
			var ld ssa.Instruction
			if u, isU := b.X.(*ssa.UnOp); isU && isLoadOfField(u, done) {
				ld = u
			}
			if cl, isCl := b.X.(*ssa.Call); isCl && isAtomicLoadOf(cl, done) {
				ld = cl
			}
			if ld != nil && pl.MustHoldClass(ld, ds.Params[0], cmu) {
				okGuard = true
			}
		}
		c.Check(okGuard, "(*Chan).doSlow | initialiser runs only if done == 0 under Chan.mu", c.At(in), "",
			"the double-checked initialisation lost its second check: two concurrent first users (Get racing Close, or two Gets) both run their initialiser, so one observer holds a channel that is later replaced and never closes")
	})
	c.Floor("initialiser calls in doSlow", 1, n)
	// the fast path only skips doSlow when done was observed set atomically
	do := c.Fn("drpcsignal", "(*Chan).do")
	okFast := false
	an.Instrs(do, func(in ssa.Instruction) {
		if call, ok := in.(*ssa.Call); ok && isAtomicLoadOf(call, done) {
			okFast = true
		}
	})
	c.Check(okFast, "(*Chan).do | fast path reads done atomically", c.P.Pos(do.Pos()), "", "the fast path does not read the done flag with an atomic load")
}

// c19r6: the lock-free accessors (Get, Err, IsSet, Signal, Set's fast path) must read the status word once; a
// second load can observe a Set that the first did not, so (err, ok) pairs would be inconsistent.
func c19r6(c *an.Ctx) {
	a := A(c)
	status := a.field("drpcsignal", "Signal", "status")
	named := must(c.P.Named("drpcsignal", "Signal"))
	n := 0
	for i := 0; i < named.NumMethods(); i++ {
		m := named.Method(i)
		if !m.Exported() {
			continue
		}
		fn := c.P.SSA.FuncValue(m)
		if fn == nil || len(fn.Blocks) == 0 {
			continue
		}
		// a new method composed of existing accessors (Wait then Err) reads the word once per accessor by design;
		// the obligation is about the accessors of the reviewed API
		if !an.InInventory(named.Obj().Pkg().Path(), "Signal."+m.Name()) && c.P.Ren != nil && c.P.Ren.CanonF[m.Origin()] == "" {
			direct := false
			an.Instrs(fn, func(in ssa.Instruction) {
				if call, ok := in.(*ssa.Call); ok && isAtomicLoadOf(call, status) {
					direct = true
				}
			})
			if !direct {
				continue
			}
		}
		flow := &an.Flow{Fn: fn, Init: []string{"0"}, Inline: func(call ssa.CallInstruction) *ssa.Function {
			callee := call.Common().StaticCallee()
			if callee == nil || len(callee.Blocks) == 0 || callee.Signature.Recv() == nil {
				return nil
			}
			if !types.Identical(deref(callee.Signature.Recv().Type()), named) {
				return nil
			}
			// the slow paths re-read under the mutex by design
			if nameOf(callee) == "setSlow" || nameOf(callee) == "signalSlow" {
				return nil
			}
			return callee
		}, Step: func(st string, in ssa.Instruction) []string {
			if call, ok := in.(*ssa.Call); ok && isAtomicLoadOf(call, status) {
				switch st {
				case "0":
					return []string{"1"}
				default:
					return []string{"2+"}
				}
			}
			return nil
		}}
		res := flow.Run()
		worst := "0"
		for _, ret := range an.Returns(fn) {
			if !res.Reachable(ret.Block()) {
				continue
			}
			for _, st := range res.Before(ret) {
				if st > worst {
					worst = st
				}
			}
		}
		if worst == "0" {
			continue
		}
		n++
		c.Analysed(fn)
		c.Check(worst == "1", "(*Signal)."+m.Name()+" | decides from a single atomic load of the status word", c.P.Pos(fn.Pos()), "",
			"the accessor loads the status word more than once on a path (directly or through another accessor): a Set landing between the loads yields an inconsistent answer, e.g. Get() returning (nil, true)")
	}
	c.Floor("lock-free Signal accessors", 1, n)
}

func pkgConstInt(c *an.Ctx, pkg, name string) int64 {
	tp := must(c.P.TypePkg(pkg))
	k, ok := tp.Scope().Lookup(name).(*types.Const)
	if !ok && c.P.Ren != nil {
		k, ok = c.P.Ren.Consts[tp.Path()+"\t"+name]
	}
	if !ok {
		panic(&an.Unresolved{What: pkg + "." + name})
	}
	v, _ := constant.Int64Val(constant.ToInt(k.Val()))
	return v
}

func c19r7(c *an.Ctx) {
	a := A(c)
	pl := locksOf(c, "drpcsignal")
	status := a.field("drpcsignal", "Signal", "status")
	smu := a.field("drpcsignal", "Signal", "mu")
	sch := a.field("drpcsignal", "Signal", "ch")
	cch := a.field("drpcsignal", "Chan", "ch")
	cclosed := a.field("drpcsignal", "Chan", "closed")
	created := pkgConstInt(c, "drpcsignal", "statusChannelCreated")
	errSet := pkgConstInt(c, "drpcsignal", "statusErrorSet")
	isSentinel := func(v ssa.Value) bool {
		u, ok := an.Resolve(v).(*ssa.UnOp)
		if !ok || u.Op != token.MUL {
			return false
		}
		g, ok := u.X.(*ssa.Global)
		return ok && g.Name() == "closed" && g.Pkg != nil && g.Pkg.Pkg.Name() == "drpcsignal"
	}
	// createdBit(g): the guard tests (snapshot & created) against 0; returns the snapshot and whether the bit is set on this path
	createdBit := func(g an.Guard, fn *ssa.Function) (snap ssa.Value, set, ok bool) {
		cmp, isCmp := an.CmpOf(g)
		if !isCmp || (cmp.Op != token.EQL && cmp.Op != token.NEQ) {
			return nil, false, false
		}
		x, y := cmp.X, cmp.Y
		if k, isK := an.ConstInt(x); isK && k == 0 {
			x, y = y, x
		}
		if k, isK := an.ConstInt(y); !isK || k != 0 {
			return nil, false, false
		}
		and, isAnd := x.(*ssa.BinOp)
		if !isAnd || and.Op != token.AND {
			return nil, false, false
		}
		m, isM := an.ConstInt(and.Y)
		sv := and.X
		if !isM {
			m, isM = an.ConstInt(and.X)
			sv = and.Y
		}
		if !isM || m != created {
			return nil, false, false
		}
		ld, isLd := wordRead(sv, status)
		if !isLd || len(fn.Params) == 0 || !pl.MustHoldClass(ld, fn.Params[0], smu) {
			return nil, false, false
		}
		return ld.(ssa.Value), cmp.Op == token.NEQ, true
	}
	nStore, nClose, nSent := 0, 0, 0
	for _, fn := range must(c.P.SourceFuncs("drpcsignal")) {
		var sentinelSnap ssa.Value
		var closes []ssa.Instruction
		closeSnap := map[ssa.Instruction]ssa.Value{}
		for _, st := range fieldStores(fn, sch) {
			nStore++
			var snap ssa.Value
			okG := false
			for _, g := range an.GuardsOf(st.Block()) {
				if sv, set, ok := createdBit(g, fn); ok && !set {
					okG, snap = true, sv
				}
			}
			c.Check(okG, an.ShortFunc(fn)+" | Signal.ch is assigned only while the channel-created bit (read under Signal.mu) is clear", c.At(st), "",
				"the signal's channel can be replaced after an observer already obtained it: that observer waits on a channel Set never closes (lost wake-up)")
			if isSentinel(st.Val) {
				nSent++
				sentinelSnap = snap
				// the status published afterwards must carry both bits
				okPub := false
				an.Instrs(fn, func(in ssa.Instruction) {
					if v, ok := isAtomicStoreTo(in, status); ok && an.CanReach(st, in) {
						if k, isK := an.ConstInt(v); isK && k&created != 0 && k&errSet != 0 {
							okPub = true
						}
					}
				})
				c.Check(okPub, an.ShortFunc(fn)+" | installing the closed sentinel is followed by publishing both status bits", c.At(st), "",
					"the shared closed channel is installed without marking the signal set and its channel created in the same critical section: a later path can close the sentinel (panic) or replace it")
			}
		}
		an.Instrs(fn, func(in ssa.Instruction) {
			call, ok := in.(*ssa.Call)
			if !ok {
				return
			}
			b, isB := call.Common().Value.(*ssa.Builtin)
			if !isB || b.Name() != "close" || len(call.Common().Args) != 1 || !isFieldOrNil(call.Common().Args[0], sch, 0) {
				return
			}
			nClose++
			closes = append(closes, in)
			okG := false
			for _, g := range an.GuardsOf(in.Block()) {
				if sv, set, ok := createdBit(g, fn); ok && set {
					okG = true
					closeSnap[in] = sv
				}
			}
			c.Check(okG, an.ShortFunc(fn)+" | close(s.ch) only if the channel-created bit (read under Signal.mu) was set", c.At(in), "",
				"close(s.ch) can run on the shared, already closed sentinel (close of closed channel panics with Signal.mu held)")
		})
		if sentinelSnap != nil {
			for _, cl := range closes {
				c.Check(closeSnap[cl] == sentinelSnap, an.ShortFunc(fn)+" | sentinel install and close(s.ch) are decided by the same status snapshot", c.At(cl), "",
					"the two decisions read the status word separately: both can run in one call")
			}
		}
		// Chan: the sentinel comes with closed = true
		for _, st := range fieldStores(fn, cch) {
			if !isSentinel(st.Val) {
				continue
			}
			nSent++
			okC := false
			for _, s2 := range fieldStores(fn, cclosed) {
				if cst, isC := s2.Val.(*ssa.Const); isC && cst.Value != nil && cst.Value.String() == "true" && s2.Block() == st.Block() {
					okC = true
				}
			}
			c.Check(okC, an.ShortFunc(fn)+" | installing the closed sentinel in a Chan records closed = true in the same step", c.At(st), "",
				"the shared closed channel is installed while Chan.closed stays false: a concurrent Close sees !closed and closes the sentinel (panic with Chan.mu held, every later Close deadlocks)")
		}
	}
	c.Floor("stores to Signal.ch", 1, nStore)
	c.Floor("close(s.ch) sites", 1, nClose)
	c.Floor("installations of the closed sentinel", 1, nSent)
}

// isFieldOrNil: v is the value of field f, possibly parked in a local that is nil on the other ways in (a channel to
// close after the lock is released).
func isFieldOrNil(v ssa.Value, f *types.Var, depth int) bool {
	if isLoadOfField(v, f) {
		return true
	}
	phi, ok := v.(*ssa.Phi)
	if !ok || depth > 3 {
		return false
	}
	some := false
	for _, e := range phi.Edges {
		if an.IsNilConst(e) {
			continue
		}
		if !isFieldOrNil(e, f, depth+1) {
			return false
		}
		some = true
	}
	return some
}
