package rules

import (
	"fmt"
	"go/token"
	"go/types"
	"strings"

	"golang.org/x/tools/go/ssa"

	"verif/sa/internal/an"
)

func init() {
	register(&Property{
		ID:        "C12",
		Technique: "path ordering (typestate) over Close/Serve/ServeOne, goroutine inventory with termination witnesses, close-once classification of every close(ch); tested-then-dropped error (contradiction) check and interprocedural lock-pairing check over the packages the property is anchored in; wait-group accounting",
		Explanation: "Structural conditions of 'closing always completes and releases everything': " +
			"(R1) Manager.Close terminates, then waits for the stream-manager goroutine, the reader goroutine and the transport-closed signal, and returns the transport's close error; both goroutines announce their exit by a first-registered defer; " +
			"(R2) every `go` statement in the library has a resolved target and a termination witness of a reviewed kind; " +
			"(R3) ServeOne closes its manager on every path; Serve registers Wait before Cancel (so Cancel runs first) and every per-connection goroutine is tracked; " +
			"(R5) the client connection's Close does not, before it has closed the manager, take a mutex that Invoke/NewStream hold across a blocking stream operation (the close is what unblocks them); " +
			"(R4) every close(ch) is close-once: inside a sync.Once, or in package init, or behind a state test that is made and flipped under one hold of a mutex (the close itself may follow the unlock when it is behind a value that is only set on that side); " +
			"plus shared: terminate closes the transport once and wakes the reader (C04.R4), every blocking point of the connection goroutines has a term case (C04.R6), the watcher cancels the active stream on termination (C04.R3), finish signals (C03.R5).",
		NotDecided:  "that Close returns for every instant it is issued; a goroutine census at runtime; that every pending call fails (C04/C05 cover the mechanisms).",
		Assumptions: []string{"Transport.Close returns and unblocks pending I/O (transport contract)"},
		Rules: append([]Rule{
			{ID: "C12.R1", Doc: "Manager.Close: terminate; Wait(stream), Wait(read), Wait(tport); return tport.Err(). Goroutines set their signal by a first defer", Run: c12r1},
			{ID: "C12.R2", Doc: "goroutine inventory: every go statement has a resolved target and a termination witness", Run: c12r2},
			{ID: "C12.R3", Doc: "ServeOne defers Manager.Close; Serve defers tracker.Wait before tracker.Cancel and runs connections through the tracker", Run: c12r3},
			{ID: "C12.R4", Doc: "close-once: every close(ch) is inside sync.Once.Do, or under a mutex guarded by a flag set in the same critical section, or in init", Run: c12r4},
			{ID: "C12.R5", Doc: "Conn.Close reaches Manager.Close without taking a mutex that a call in flight holds while it blocks", Run: c12r5},
			{ID: "C12.S1", Alias: "C04.R4"},
			{ID: "C12.S2", Alias: "C04.R6"},
			{ID: "C12.S3", Alias: "C04.R3"},
			{ID: "C12.S4", Alias: "C03.R5"},
			{ID: "C12.S5", Alias: "C02.R6"},
			{ID: "C12.S6", Alias: "C05.R1"},
			{ID: "C12.S7", Alias: "C06.R5"},
			{ID: "C12.S8", Alias: "C03.R4"},
			{ID: "C12.S9", Alias: "C04.W2"},
			{ID: "C12.S10", Alias: "C01.R4"},
		}, disciplineRules("C12", "drpcstream", "drpcmanager", "drpcconn", "drpcwire", "drpcserver", "drpcctx", "drpcpool")...),
	})
}

func c12r1(c *an.Ctx) {
	a := A(c)
	cl := c.Fn("drpcmanager", "(*Manager).Close")
	terminate := a.obj("drpcmanager", "(*Manager).terminate")
	sigWait := a.obj("drpcsignal", "(*Signal).Wait")
	sigErr := a.obj("drpcsignal", "(*Signal).Err")
	sigSet := a.obj("drpcsignal", "(*Signal).Set")
	streamF := a.field("drpcmanager", "Manager", "sigs.stream")
	readF := a.field("drpcmanager", "Manager", "sigs.read")
	tportF := a.field("drpcmanager", "Manager", "sigs.tport")
	var seq []string
	var instrs []ssa.Instruction
	an.Instrs(cl, func(in ssa.Instruction) {
		call, ok := in.(*ssa.Call)
		if !ok {
			return
		}
		cc := call.Common()
		switch {
		case an.IsCallTo(cc, terminate):
			seq = append(seq, "terminate")
			instrs = append(instrs, in)
		case an.IsCallTo(cc, sigWait):
			if f := recvField(cc); f != nil {
				seq = append(seq, "wait:"+f.Name())
				instrs = append(instrs, in)
			}
		}
	})
	has := func(s string) int {
		for i, x := range seq {
			if x == s {
				return i
			}
		}
		return -1
	}
	it := has("terminate")
	c.Check(it == 0, "(*Manager).Close | terminate first", c.P.Pos(cl.Pos()), "", "Close does not begin by terminating the manager (order: "+fmt.Sprint(seq)+")")
	for _, f := range []*types.Var{streamF, readF, tportF} {
		i := has("wait:" + f.Name())
		ok := i > 0 && it == 0
		if ok {
			for _, ret := range an.Returns(cl) {
				if !an.InstrDominates(instrs[i], ret) {
					ok = false
				}
			}
		}
		c.Check(ok, "(*Manager).Close | waits for sigs."+f.Name()+" after terminate on every path", c.P.Pos(cl.Pos()), "",
			"Close can return before "+map[string]string{"stream": "the stream-manager goroutine", "read": "the reader goroutine", "tport": "the transport close"}[f.Name()]+" has finished: a library goroutine is left behind / the transport is still being used")
	}
	okRet := false
	for _, ret := range an.Returns(cl) {
		for _, v := range returnedValues(ret, 0) {
			if call, ok := v.(*ssa.Call); ok && an.IsCallTo(call.Common(), sigErr) && recvField(call.Common()) == tportF.Origin() {
				okRet = true
			}
		}
	}
	c.Check(okRet, "(*Manager).Close | returns the transport's close error", c.P.Pos(cl.Pos()), "", "Close does not report Transport.Close's error")
	for _, x := range []struct {
		fn string
		f  *types.Var
	}{{"(*Manager).manageReader", readF}, {"(*Manager).manageStreams", streamF}} {
		fn := c.Fn("drpcmanager", x.fn)
		first := firstEffect(fn)
		ok := false
		if d, isD := first.(*ssa.Defer); isD && an.IsCallTo(d.Common(), sigSet) && recvField(d.Common()) == x.f.Origin() {
			ok = true
		}
		c.Check(ok, x.fn+" | defer sigs."+x.f.Name()+".Set registered first", c.P.Pos(fn.Pos()), "", "the goroutine can exit (return or panic) without setting the signal Close waits for")
	}
}

func c12r2(c *an.Ctx) {
	// reviewed termination witnesses by target
	witness := map[string]string{
		"(*Manager).manageReader":         "ends on term / read error; Manager.Close waits for sigs.read (C12.R1)",
		"(*Manager).manageStreams":        "ends on term; Manager.Close waits for sigs.stream (C12.R1)",
		"(*Tracker).track":                "wg.Add(1) before go, wg.Done after the callback; Serve waits (C12.R3)",
		"(*poolConn[K, V]).monitorStream": "ends when the stream's context is done (C03.R5 guarantees it is)",
		"(*ListenMux).monitorContext":     "ends on ctx.Done; Run cancels its context on return (C16)",
		"(*ListenMux).monitorBase":        "ends when base.Accept fails, which monitorContext forces by closing the base listener (C16)",
		"(*ListenMux).monitorListener":    "ends on m.done or lis.done (C16)",
		"(*ListenMux).routeConn":          "ends after one prefix read and one select on lis.done / delivery (C16)",
	}
	n := 0
	for _, pkg := range c.P.ModulePackages() {
		if !libraryPkg(c.P, pkg) {
			continue
		}
		for _, fn := range must(c.P.SourceFuncs(pkg)) {
			an.Instrs(fn, func(in ssa.Instruction) {
				g, ok := in.(*ssa.Go)
				if !ok {
					return
				}
				n++
				c.Analysed(fn)
				callee := g.Common().StaticCallee()
				if callee == nil {
					c.Bad(fmt.Sprintf("%s | go <dynamic>", an.ShortFunc(fn)), c.At(in), "a goroutine with an unresolved target: no termination witness")
					return
				}
				if o := callee.Origin(); o != nil {
					callee = o
				}
				name := an.ShortFunc(callee)
				// structural witness: counted in a WaitGroup before the go statement, Done on every path of the target
				if wgWitness(fn, in, callee) {
					c.Ok(fmt.Sprintf("%s | go %s has a termination witness", an.ShortFunc(fn), witnessName(callee)), c.At(in), "wg.Add before go, wg.Done on every path of the goroutine; the owner waits on the WaitGroup (C12.R3)")
					return
				}
				why, ok := witness[name]
				c.Check(ok, fmt.Sprintf("%s | go %s has a termination witness", an.ShortFunc(fn), witnessName(callee)), c.At(in), why, "a goroutine is started whose termination is not established by any reviewed witness (a WaitGroup the owner waits on, or one of the reviewed connection/listener goroutines): closing may leave it behind")
			})
		}
	}
	c.Floor("go statements in library packages", 1, n)
}

func c12r3(c *an.Ctx) {
	a := A(c)
	so := c.Fn("drpcserver", "(*Server).ServeOne")
	mclose := a.obj("drpcmanager", "(*Manager).Close")
	newMgr := a.obj("drpcmanager", "NewWithOptions")
	// a deferred call (directly or in a deferred closure) to Manager.Close on the manager created here, registered before any return
	var mgr ssa.Value
	for _, cs := range an.CallsTo(so, false, newMgr) {
		mgr = cs.Instr.(*ssa.Call)
	}
	okDefer := false
	var deferAt ssa.Instruction
	an.Instrs(so, func(in ssa.Instruction) {
		d, ok := in.(*ssa.Defer)
		if !ok {
			return
		}
		if an.IsCallTo(d.Common(), mclose) {
			okDefer, deferAt = true, in
		}
		if mc, ok := d.Call.Value.(*ssa.MakeClosure); ok {
			if len(an.CallsTo(mc.Fn.(*ssa.Function), false, mclose)) > 0 {
				okDefer, deferAt = true, in
			}
		}
	})
	if okDefer && mgr != nil {
		for _, ret := range an.Returns(so) {
			if retReachable(so, ret) && !an.InstrDominates(deferAt, ret) {
				okDefer = false
			}
		}
		// nothing that can fail sits between creating the manager and registering the defer
		mi := mgr.(ssa.Instruction)
		if mi.Block() != deferAt.Block() {
			okDefer = false
		}
	}
	c.Check(okDefer && mgr != nil, "(*Server).ServeOne | defer man.Close() right after creating the manager", c.P.Pos(so.Pos()), "", "ServeOne can return without closing its manager: the connection's goroutines and transport leak")

	sv := c.Fn("drpcserver", "(*Server).Serve")
	twait := a.obj("drpcctx", "(*Tracker).Wait")
	tcancel := a.obj("drpcctx", "(*Tracker).Cancel")
	trun := a.obj("drpcctx", "(*Tracker).Run")
	serveOne := a.obj("drpcserver", "(*Server).ServeOne")
	var dWait, dCancel ssa.Instruction
	an.Instrs(sv, func(in ssa.Instruction) {
		if d, ok := in.(*ssa.Defer); ok {
			if an.IsCallTo(d.Common(), twait) {
				dWait = in
			}
			if an.IsCallTo(d.Common(), tcancel) {
				dCancel = in
			}
		}
	})
	ok := dWait != nil && dCancel != nil && an.InstrDominates(dWait, dCancel)
	if ok {
		for _, ret := range an.Returns(sv) {
			if retReachable(sv, ret) && !an.InstrDominates(dCancel, ret) {
				ok = false
			}
		}
	}
	c.Check(ok, "(*Server).Serve | defer tracker.Wait() registered before defer tracker.Cancel()", c.P.Pos(sv.Pos()), "", "Serve does not cancel and then wait for its connection goroutines on every return (deferred calls run in reverse order: Cancel must run first or Wait blocks forever; without Wait, Serve returns before connections are torn down)")
	// Accept is unblocked when the context ends: a goroutine of Serve waits for the context and closes the listener
	closesLis := false
	for _, fn := range an.WithAnon(sv) {
		if fn == sv {
			continue
		}
		var waitsCtx, closes ssa.Instruction
		an.Instrs(fn, func(in ssa.Instruction) {
			if u, ok := in.(*ssa.UnOp); ok && u.Op == token.ARROW {
				if call, isCall := u.X.(*ssa.Call); isCall && call.Common().IsInvoke() && call.Common().Method.Name() == "Done" {
					waitsCtx = in
				}
			}
			if ci, ok := in.(ssa.CallInstruction); ok && ci.Common().IsInvoke() && ci.Common().Method.Name() == "Close" {
				if strings.HasSuffix(ci.Common().Value.Type().String(), "net.Listener") {
					closes = in
				}
			}
		})
		if waitsCtx != nil && closes != nil && an.InstrDominates(waitsCtx, closes) {
			// started from Serve before its accept loop: through tracker.Run or a go statement
			an.Instrs(sv, func(in ssa.Instruction) {
				ci, ok := in.(ssa.CallInstruction)
				if !ok {
					return
				}
				for _, arg := range append([]ssa.Value{ci.Common().Value}, ci.Common().Args...) {
					if mc, isMC := arg.(*ssa.MakeClosure); isMC && mc.Fn == ssa.Value(fn) {
						closesLis = true
					}
				}
			})
		}
	}
	c.Check(closesLis, "(*Server).Serve | a goroutine waits for the context and closes the listener", c.P.Pos(sv.Pos()), "", "nothing unblocks Accept when the context is cancelled: Serve (and whoever waits for it) never returns")
	// ServeOne is only started through tracker.Run
	nServe := 0
	for _, fn := range an.WithAnon(sv) {
		for _, cs := range an.CallsTo(fn, false, serveOne) {
			nServe++
			okRun := false
			if fn.Parent() != nil {
				// the closure must be the argument of tracker.Run
				an.Instrs(fn.Parent(), func(in ssa.Instruction) {
					if call, isCall := in.(*ssa.Call); isCall && an.IsCallTo(call.Common(), trun) {
						if mc, isMC := an.Arg(call.Common(), 0).(*ssa.MakeClosure); isMC && mc.Fn == ssa.Value(fn) {
							okRun = true
						}
					}
				})
			}
			c.Check(okRun, "(*Server).Serve | connections are served inside tracker.Run", c.At(cs.Instr), "", "a connection is served outside the tracker: Serve returns without waiting for it")
		}
	}
	c.Floor("ServeOne calls in Serve", 1, nServe)
	// ... and the tracker runs what it is given: a connection accepted while the context is being cancelled must still
	// be served (ServeOne is what closes it)
	run := c.Fn("drpcctx", "(*Tracker).Run")
	var goAt ssa.Instruction
	an.Instrs(run, func(in ssa.Instruction) {
		if g, ok := in.(*ssa.Go); ok {
			passes := false
			for _, arg := range g.Common().Args {
				if len(run.Params) > 1 && arg == ssa.Value(run.Params[1]) {
					passes = true
				}
			}
			if mc, isMC := g.Common().Value.(*ssa.MakeClosure); isMC {
				for _, b := range mc.Bindings {
					if al, isAl := b.(*ssa.Alloc); isAl && len(run.Params) > 1 {
						for _, r := range *al.Referrers() {
							if st, isSt := r.(*ssa.Store); isSt && st.Val == ssa.Value(run.Params[1]) {
								passes = true
							}
						}
					}
					if len(run.Params) > 1 && b == ssa.Value(run.Params[1]) {
						passes = true
					}
				}
			}
			if passes {
				goAt = in
			}
		}
	})
	okRun := goAt != nil
	if okRun {
		for _, ret := range an.Returns(run) {
			if retReachable(run, ret) && !an.InstrDominates(goAt, ret) {
				okRun = false
			}
		}
	}
	c.Check(okRun, "(*Tracker).Run | starts the callback on every call", c.P.Pos(run.Pos()), "", "Tracker.Run can return without running its callback: a connection accepted around cancellation is neither served nor closed")
	// wait-group accounting: one unit is added before each goroutine is started, the goroutine gives it back on
	// every way out, Wait waits on the same group
	isWG := func(cc *ssa.CallCommon, name string) bool {
		f := cc.StaticCallee()
		return f != nil && f.Name() == name && f.Pkg != nil && f.Pkg.Pkg.Path() == "sync" && strings.Contains(f.Signature.Recv().Type().String(), "WaitGroup")
	}
	okAdd := goAt != nil
	an.Instrs(run, func(in ssa.Instruction) {
		g, isGo := in.(*ssa.Go)
		if !isGo {
			return
		}
		dominated := false
		an.Instrs(run, func(in2 ssa.Instruction) {
			if call, ok := in2.(*ssa.Call); ok && isWG(call.Common(), "Add") && an.InstrDominates(in2, g) {
				if k, isK := an.ConstInt(an.Arg(call.Common(), 0)); isK && k == 1 {
					dominated = true
				}
			}
		})
		if !dominated {
			okAdd = false
		}
		// the started function gives the unit back on every return
		var started *ssa.Function
		if f := g.Common().StaticCallee(); f != nil {
			started = f
		}
		if started == nil || len(started.Blocks) == 0 {
			okAdd = false
			return
		}
		c.Analysed(started)
		gives := false
		an.Instrs(started, func(in2 ssa.Instruction) {
			ci, ok := in2.(ssa.CallInstruction)
			if !ok || !isWG(ci.Common(), "Done") {
				return
			}
			all := true
			for _, ret := range an.Returns(started) {
				if !retReachable(started, ret) {
					continue // the way out after a recovered panic: deferred calls have run
				}
				if !an.InstrDominates(in2, ret) {
					all = false
				}
			}
			if all {
				gives = true
			}
		})
		if !gives {
			okAdd = false
		}
	})
	tw := c.Fn("drpcctx", "(*Tracker).Wait")
	waits := false
	an.Instrs(tw, func(in ssa.Instruction) {
		if ci, ok := in.(ssa.CallInstruction); ok && isWG(ci.Common(), "Wait") {
			if _, isGo := in.(*ssa.Go); !isGo {
				waits = true
			}
		}
	})
	usesWG := false
	for _, f := range must(c.P.SourceFuncs("drpcctx")) {
		for _, ff := range an.WithAnon(f) {
			an.Instrs(ff, func(in ssa.Instruction) {
				if ci, ok := in.(ssa.CallInstruction); ok && (isWG(ci.Common(), "Add") || isWG(ci.Common(), "Done") || isWG(ci.Common(), "Wait")) {
					usesWG = true
				}
			})
		}
	}
	if !usesWG {
		c.Note("drpcctx does not use a sync.WaitGroup: the wait-group accounting clause does not apply")
		okAdd, waits = true, true
	}
	c.Check(okAdd && waits, "Tracker | one wait-group unit per started goroutine: Add(1) before go, Done on every return of the goroutine, Wait waits for the group", c.P.Pos(run.Pos()), "", "the tracker's wait group does not count its goroutines: Serve's deferred Wait returns while connections are still being served (or the counter goes negative)")
}

// streamBufferClose: Close marks the buffer closed under its mutex and wakes the waiters afterwards; Wait gives up
// on that flag. Without the flag the connection reader stays parked in Wait after Close.
func streamBufferClose(c *an.Ctx) {
	a := A(c)
	closed := a.field("drpcmanager", "streamBuffer", "closed")
	cl := c.Fn("drpcmanager", "(*streamBuffer).Close")
	c.Analysed(cl)
	var set ssa.Instruction
	var wakes []ssa.Instruction
	an.Instrs(cl, func(in ssa.Instruction) {
		if st, ok := in.(*ssa.Store); ok {
			if fv := an.PathOf(st.Addr).Last(); fv != nil && fv.Origin() == closed.Origin() {
				if k, isK := st.Val.(*ssa.Const); isK && k.Value != nil && k.Value.String() == "true" {
					set = in
				}
			}
		}
		if ci, ok := in.(ssa.CallInstruction); ok {
			if f := ci.Common().StaticCallee(); f != nil && f.Name() == "Broadcast" {
				wakes = append(wakes, in)
			}
			if b, isB := ci.Common().Value.(*ssa.Builtin); isB && b.Name() == "close" {
				wakes = append(wakes, in) // waiters parked on a channel
			}
		}
	})
	ok := set != nil
	if ok {
		isWake := map[ssa.Instruction]bool{}
		for _, w := range wakes {
			isWake[w] = true
		}
		// on every way out: the flag was set and then a wake-up issued, or the buffer was already closed
		flow := &an.Flow{Fn: cl, Init: []string{"open"},
			Step: func(st string, in ssa.Instruction) []string {
				switch {
				case in == set:
					return []string{"set"}
				case isWake[in] && st == "set":
					return []string{"woken"}
				case isWake[in] && st == "open":
					return []string{"woken-before-set"}
				}
				return nil
			},
			StepDefer: func(st string, d *ssa.Defer) []string { return nil },
			Branch: func(st string, br *ssa.If, idx int) (string, bool) {
				cond, neg := an.StripNot(br.Cond)
				if isLoadOfField(cond, closed) && st == "open" {
					if (idx == 0) != neg {
						return "already", true
					}
				}
				return st, true
			},
		}
		res := flow.Run()
		for _, ret := range an.Returns(cl) {
			if !res.Reachable(ret.Block()) {
				continue
			}
			for _, st := range res.Before(ret) {
				// (a wake-up that is conditional on somebody waiting is fine: the flag is what Wait tests)
				if st != "woken" && st != "already" && st != "set" {
					ok = false
				}
			}
		}
	}
	c.Check(ok, "(*streamBuffer).Close | marks the buffer closed on every path, before any wake-up", c.P.Pos(cl.Pos()), "", "Close does not record that the buffer is closed before it wakes the waiters (or does not wake them): the connection reader parked in Wait goes back to sleep and Manager.Close waits for it forever")
}

func c12r4(c *an.Ctx) { closeOnce(c, ""); streamBufferClose(c) }

// closeOnce classifies every close(ch) of the library (optionally restricted to one package).
func closeOnce(c *an.Ctx, onlyPkg string) {
	n := 0
	lt := sharedOf(c.P).lt
	for _, pkg := range c.P.ModulePackages() {
		if !libraryPkg(c.P, pkg) {
			continue
		}
		if onlyPkg != "" && pkg != c.P.ModPath+"/"+onlyPkg {
			continue
		}
		var pl *an.PkgLocks
		for _, fn := range must(c.P.SourceFuncs(pkg)) {
			an.Instrs(fn, func(in ssa.Instruction) {
				call, ok := in.(*ssa.Call)
				if !ok {
					return
				}
				b, ok := call.Common().Value.(*ssa.Builtin)
				if !ok || b.Name() != "close" {
					return
				}
				n++
				c.Analysed(fn)
				ch := call.Common().Args[0]
				key := fmt.Sprintf("%s | close(%s) is close-once", an.ShortFunc(fn), an.Render(ch, 3))
				// (1) package init
				top := fn
				for top.Parent() != nil {
					top = top.Parent()
				}
				if top.Name() == "init" || (len(top.Name()) > 5 && top.Name()[:5] == "init#") {
					c.Ok(key, c.At(in), "package initialiser")
					return
				}
				// (2) inside a closure passed to sync.Once.Do
				if fn.Parent() != nil && passedToOnceDo(fn) {
					c.Ok(key, c.At(in), "inside sync.Once.Do")
					return
				}
				// (3) under a mutex, dominated by a test of state that is flipped in the same critical section before the close
				if pl == nil {
					pl = must(an.AnalyzeLocks(c.P, lt, pkg))
				}
				lf := pl.Flow(fn)
				held := lf != nil && len(lf.Must(in)) > 0
				flipped := false
				if lf != nil {
					for _, g := range an.GuardsOf(in.Block()) {
						// the tested location (a field or a bit of it) is read under a mutex and stored to, still under
						// that mutex, between the test and the close: only one goroutine ever gets past the test. The
						// close itself may come after the unlock (behind a local that is only set on that side).
						tested := testedField(g.Cond)
						if tested == nil || g.If == nil || len(lf.Must(g.If)) == 0 {
							continue
						}
						an.Instrs(fn, func(i2 ssa.Instruction) {
							if fieldWritten(i2, tested) && an.InstrDominates(g.If, i2) && an.InstrDominates(i2, in) {
								if sameHeld(lf.Must(i2), lf.Must(g.If)) && !unlockBetween(pl, lf, g.If, i2) {
									flipped = true
								}
							}
						})
					}
				}
				held = held || flipped
				if !flipped && lf != nil && len(lf.Must(in)) > 0 {
					if ok, why := closedThenReplaced(c, pl, lf, fn, call, pkg); ok {
						c.Ok(key, c.At(in), why)
						return
					}
				}
				c.Check(held && flipped, key, c.At(in), "under a mutex, behind a flag flipped in the same critical section",
					"close(ch) can run twice (close of closed channel panics): it is neither inside a sync.Once nor under a mutex behind a state test that the same critical section flips before closing")
			})
		}
	}
	c.Floor("close(ch) sites", 1, n)
}

func passedToOnceDo(fn *ssa.Function) bool {
	parent := fn.Parent()
	found := false
	an.Instrs(parent, func(in ssa.Instruction) {
		call, ok := in.(*ssa.Call)
		if !ok {
			return
		}
		obj := an.CalleeObj(call.Common())
		if obj == nil || obj.FullName() != "(*sync.Once).Do" {
			return
		}
		if mc, ok := an.Arg(call.Common(), 0).(*ssa.MakeClosure); ok && mc.Fn == ssa.Value(fn) {
			found = true
		}
		if f, ok := an.Arg(call.Common(), 0).(*ssa.Function); ok && f == fn {
			found = true
		}
	})
	return found
}

// testedField returns the struct field whose value a condition inspects
// (x.f, x.f&mask == c, !x.f, x.f == nil ...).
func testedField(v ssa.Value) *types.Var {
	for depth := 0; depth < 6; depth++ {
		switch x := v.(type) {
		case *ssa.BinOp:
			if f := testedField(x.X); f != nil {
				return f
			}
			v = x.Y
			continue
		case *ssa.UnOp:
			if fa, ok := x.X.(*ssa.FieldAddr); ok {
				if fv := an.PathOf(fa).Last(); fv != nil {
					return fv.Origin()
				}
			}
			v = x.X
			continue
		case *ssa.Call:
			// atomic.LoadUint32(&x.f)
			if a, isA := an.AtomicOpOf(x.Common()); isA {
				if fv := an.PathOf(a.Addr).Last(); fv != nil {
					return fv.Origin()
				}
			}
			return nil
		case *ssa.Convert:
			v = x.X
			continue
		}
		return nil
	}
	return nil
}

// fieldWritten: instruction stores to the field (plain or atomic store).
func fieldWritten(in ssa.Instruction, f *types.Var) bool {
	switch x := in.(type) {
	case *ssa.Store:
		fv := an.PathOf(x.Addr).Last()
		return fv != nil && fv.Origin() == f
	case ssa.CallInstruction:
		cc := x.Common()
		if a, isA := an.AtomicOpOf(cc); isA && (a.Kind == "store" || a.Kind == "cas" || a.Kind == "swap") {
			fv := an.PathOf(a.Addr).Last()
			return fv != nil && fv.Origin() == f
		}
	}
	return false
}

func witnessName(callee *ssa.Function) string {
	if callee.Parent() != nil {
		return "<closure in " + an.ShortFunc(callee.Parent()) + ">"
	}
	return an.ShortFunc(callee)
}

// wgWitness: the spawner calls WaitGroup.Add before the go statement and the
// goroutine calls WaitGroup.Done on every path (directly, deferred, or in a
// function of the same package that it always calls).
func wgWitness(spawner *ssa.Function, goInstr ssa.Instruction, target *ssa.Function) bool {
	isWG := func(cc *ssa.CallCommon, name string) bool {
		obj := an.CalleeObj(cc)
		return obj != nil && obj.FullName() == "(*sync.WaitGroup)."+name
	}
	added := false
	an.Instrs(spawner, func(in ssa.Instruction) {
		if call, ok := in.(*ssa.Call); ok && isWG(call.Common(), "Add") && an.InstrDominates(in, goInstr) {
			added = true
		}
	})
	if !added {
		return false
	}
	var doneOnAllPaths func(fn *ssa.Function, depth int) bool
	doneOnAllPaths = func(fn *ssa.Function, depth int) bool {
		if depth > 2 || len(fn.Blocks) == 0 {
			return false
		}
		var marks []ssa.Instruction
		deferred := false
		an.Instrs(fn, func(in ssa.Instruction) {
			ci, ok := in.(ssa.CallInstruction)
			if !ok {
				return
			}
			if _, isGo := in.(*ssa.Go); isGo {
				return
			}
			hit := isWG(ci.Common(), "Done")
			if !hit {
				if callee := ci.Common().StaticCallee(); callee != nil && callee != fn && doneOnAllPaths(callee, depth+1) {
					hit = true
				}
			}
			if !hit {
				return
			}
			if _, isDefer := in.(*ssa.Defer); isDefer {
				if in.Block() == fn.Blocks[0] {
					deferred = true
				}
				return
			}
			marks = append(marks, in)
		})
		if deferred {
			return true
		}
		rets := an.Returns(fn)
		if len(rets) == 0 {
			return false
		}
		for _, ret := range rets {
			if !retReachable(fn, ret) {
				continue
			}
			ok := false
			for _, m := range marks {
				if an.InstrDominates(m, ret) {
					ok = true
				}
			}
			if !ok {
				return false
			}
		}
		return true
	}
	return doneOnAllPaths(target, 0)
}

// sameHeld: the two must-held lock sets are equal and not empty.
func sameHeld(a, b []string) bool {
	if len(a) == 0 || len(a) != len(b) {
		return false
	}
	m := map[string]bool{}
	for _, x := range a {
		m[x] = true
	}
	for _, y := range b {
		if !m[y] {
			return false
		}
	}
	return true
}

// unlockBetween: some instruction on a path from a to b is outside the critical section that a is in (the lock was
// released and taken again in between).
func unlockBetween(pl *an.PkgLocks, lf *an.LockFlow, a, b ssa.Instruction) bool {
	fn := a.Parent()
	bad := false
	an.Instrs(fn, func(in ssa.Instruction) {
		if bad || in == a || in == b {
			return
		}
		if an.CanReach(a, in) && an.CanReach(in, b) && an.InstrDominates(a, in) && len(lf.Must(in)) == 0 {
			bad = true
		}
	})
	return bad
}

func c12r5(c *an.Ctx) {
	a := A(c)
	pl := locksOf(c, "drpcconn")
	lt := sharedOf(c.P).lt
	manClose := a.obj("drpcmanager", "(*Manager).Close")
	closeFn := c.Fn("drpcconn", "(*Conn).Close")
	// mutexes (by the struct field that holds them) that some function of the package holds while it calls into the
	// manager or a stream: those calls block on the peer, on the stream slot or on the transport
	long := map[*types.Var]string{}
	for _, fn := range must(c.P.SourceFuncs("drpcconn")) {
		lf := pl.Flow(fn)
		if lf == nil {
			continue
		}
		an.Instrs(fn, func(in ssa.Instruction) {
			ci, ok := in.(ssa.CallInstruction)
			if !ok {
				return
			}
			obj := an.CalleeObj(ci.Common())
			if obj == nil || obj.Pkg() == nil {
				return
			}
			switch obj.Pkg().Name() {
			case "drpcmanager", "drpcstream":
			default:
				return
			}
			if sig, isSig := obj.Type().(*types.Signature); !isSig || sig.Recv() == nil {
				return
			}
			for _, key := range lf.May(in) {
				if id, has := lf.IDs[key]; has && id.Class() != nil {
					long[id.Class()] = an.ShortFunc(fn) + " holds it across " + obj.Name()
				}
			}
		})
	}
	// in Close (and what it calls in the package), a Lock of such a mutex from which the manager's Close is still ahead
	var mc []ssa.Instruction
	an.Instrs(closeFn, func(in ssa.Instruction) {
		if ci, ok := in.(ssa.CallInstruction); ok && an.IsCallTo(ci.Common(), manClose) {
			mc = append(mc, in)
		}
	})
	if !c.Check(len(mc) > 0, "(*Conn).Close | closes the manager", c.P.Pos(closeFn.Pos()), "", "Conn.Close does not call Manager.Close") {
		return
	}
	bad := ""
	var where ssa.Instruction
	an.Instrs(closeFn, func(in ssa.Instruction) {
		ci, ok := in.(ssa.CallInstruction)
		if !ok {
			return
		}
		op, isOp := lt.OpOf(ci.Common())
		if !isOp || op.Kind != "lock" || op.Lock.Class() == nil {
			return
		}
		why, isLong := long[op.Lock.Class()]
		if !isLong {
			return
		}
		for _, m := range mc {
			if an.CanReach(in, m) {
				bad, where = why, in
			}
		}
	})
	pos := c.P.Pos(closeFn.Pos())
	if where != nil {
		pos = c.At(where)
	}
	c.Check(bad == "", "(*Conn).Close | reaches Manager.Close without waiting for a call in flight", pos, fmt.Sprintf("%d mutex(es) are held across blocking calls in drpcconn; Close takes none of them first", len(long)),
		"Close locks a mutex before closing the manager that "+bad+": Close waits for the call that only the close would unblock")
}

// closedThenReplaced: close(x.F) under a mutex with x.F overwritten (nil or a fresh channel) before the mutex is
// released: nobody can load that channel from F again, so it is closed once - provided every other close of F in the
// package that does NOT replace it sits behind a flag that this site tests as well (a closed-for-good buffer).
func closedThenReplaced(c *an.Ctx, pl *an.PkgLocks, lf *an.LockFlow, fn *ssa.Function, call *ssa.Call, pkg string) (bool, string) {
	ld, ok := an.Unwrap(call.Common().Args[0]).(*ssa.UnOp)
	if !ok {
		return false, ""
	}
	f := an.PathOf(ld.X).Last()
	if f == nil {
		return false, ""
	}
	replaces := func(g *ssa.Function, cl ssa.Instruction, glf *an.LockFlow) bool {
		okR := false
		for _, st := range fieldStores(g, f) {
			if an.InstrDominates(cl, st) && glf != nil && sameHeld(glf.Must(st), glf.Must(cl)) && !unlockBetween(pl, glf, cl, st) {
				okR = true
			}
		}
		return okR
	}
	if !replaces(fn, call, lf) {
		return false, ""
	}
	// other closes of the same field
	for _, g := range must(c.P.SourceFuncs(pkg)) {
		glf := pl.Flow(g)
		bad := false
		an.Instrs(g, func(in ssa.Instruction) {
			c2, isCall := in.(*ssa.Call)
			if !isCall || c2 == call {
				return
			}
			b, isB := c2.Common().Value.(*ssa.Builtin)
			if !isB || b.Name() != "close" || !isLoadOfField(c2.Common().Args[0], f) {
				return
			}
			if replaces(g, c2, glf) {
				return
			}
			// a close for good: its flag must be tested (same polarity) on the way to our site
			matched := false
			for _, g2 := range an.GuardsOf(in.Block()) {
				tf := testedField(g2.Cond)
				if tf == nil {
					continue
				}
				for _, g1 := range an.GuardsOf(call.Block()) {
					if testedField(g1.Cond) == tf && g1.True == g2.True {
						matched = true
					}
				}
			}
			if !matched {
				bad = true
			}
		})
		if bad {
			return false, ""
		}
	}
	return true, "under a mutex, and the field is given a new value before the mutex is released: this channel cannot be reached (and closed) again"
}
