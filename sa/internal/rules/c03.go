package rules

import (
	"fmt"
	"go/constant"
	"go/token"
	"go/types"
	"sort"
	"strings"

	"golang.org/x/tools/go/ssa"

	"verif/sa/internal/an"
)

func init() {
	register(&Property{
		ID:        "C03",
		Technique: "must-lockset (Stream.mu), guard dominance (check-then-act), typestate for unlock→checkFinished ordering, switch exhaustiveness over the Kind constant set; tested-then-dropped error (contradiction) check and interprocedural lock-pairing check over the packages the property is anchored in; flag/mutex pairing inside the inspectable mutex",
		Explanation: "Structural conditions of the stream state machine, on every path: " +
			"(R1) every state-signal Set and every terminate call runs under Stream.mu; fin/ctx signals are set only inside checkFinished's first-wins branch; " +
			"(R2) every terminal emission (sendPacketLocked) is check-then-act under mu: term (and send for half-close) tested, state changed, all before mu is released; " +
			"(R3) rawWriteLocked re-tests send/term before every frame; rawFlushLocked tests cancel/send/term before flushing; " +
			"(R4) every function that takes Stream.write/read releases it and then calls checkFinished on every path; terminate ends with checkFinished; " +
			"(R5) checkFinished sets fin only when term is set and both operation locks are free, and signals fin/ctx/task exactly in the first-wins branch; " +
			"(R6) terminate sets send, recv, term in that order then closes the packet buffer; error/cancel transitions set send=io.EOF before terminating; half-close transitions set recv, close the buffer, then test both-closed; " +
			"(R7) every Kind constant is handled or reaches the default branch, whose error is guarded by !pkt.Control.",
		NotDecided: "the result of every call for every operation/packet history; agreement with state.dot beyond the transitions' guards; timing of signals relative to concurrent observers.",
		Assumptions: []string{
			"drpcsignal.Signal is first-set-wins (C19 decides its internals)",
		},
		Rules: append([]Rule{
			{ID: "C03.R1", Doc: "state signals (send/recv/term/cancel) are Set, and terminate is called, only with Stream.mu held; fin and ctx.sig only in checkFinished", Run: c03r1},
			{ID: "C03.R2", Doc: "terminal emissions are check-then-act under Stream.mu (nothing emitted after termination; idempotent terminal calls)", Run: c03r2},
			{ID: "C03.R3", Doc: "rawWriteLocked tests send and term before every WriteFrame; rawFlushLocked tests cancel, send, term before Flush", Run: c03r3},
			{ID: "C03.R4", Doc: "operation locks (write/read) are released and then checkFinished runs on every path; terminate ends with checkFinished", Run: c03r4},
			{ID: "C03.R5", Doc: "checkFinished: fin.Set guarded by term.IsSet && write.Unlocked && read.Unlocked; fin send / ctx.sig / task.End only if fin.Set won", Run: c03r5},
			{ID: "C03.R6", Doc: "order of signal updates in terminate and in the error/cancel/half-close transitions", Run: c03r6},
			{ID: "C03.R7", Doc: "HandlePacket handles every Kind constant; unknown kinds are an error only without the control bit", Run: c03r7},
			{ID: "C03.R8", Doc: "a terminal call that emits a packet holds Stream.write while it makes the (possibly terminating) state change, so the stream cannot finish before the packet is written", Run: c03r8},
			{ID: "C03.S1", Doc: "terminal calls take the stream's locks in one order", Alias: "C04.W2"},
			{ID: "C03.R10", Doc: "terminal calls leave the stream in their target state on every way out: terminated after Close/SendError, send side closed (or terminated) after CloseSend", Run: c03r10},
			{ID: "C03.R9", Doc: "inspectMutex: the held flag is written only while the embedded mutex is held (set after Lock, cleared before Unlock)", Run: c03r9},
			{ID: "C03.R12", Doc: "idempotent terminal calls: the early way out taken because the stream is already terminated reports no error (SendError, SendCancel, Close, CloseSend)", Run: c03r12},
			{ID: "C03.R11", Doc: "the held flag of the inspectable mutex follows the mutex: set after every acquisition (Lock, successful TryLock), cleared before the release, and Unlocked() reports exactly that flag", Run: c03r11},
		}, disciplineRules("C03", "drpcstream")...),
	})
}

type streamAnchors struct {
	mu, write, read             *types.Var
	send, recv, term, fin, canc *types.Var
	sigSet, sigIsSet, sigErr    *types.Func
	terminate, termBoth, chkFin *types.Func
	sendPkt                     *types.Func
	pbufClose                   *types.Func
}

func streamA(c *an.Ctx) streamAnchors {
	a := A(c)
	return streamAnchors{
		mu:        a.field("drpcstream", "Stream", "mu"),
		write:     a.field("drpcstream", "Stream", "write"),
		read:      a.field("drpcstream", "Stream", "read"),
		send:      a.field("drpcstream", "Stream", "sigs.send"),
		recv:      a.field("drpcstream", "Stream", "sigs.recv"),
		term:      a.field("drpcstream", "Stream", "sigs.term"),
		fin:       a.field("drpcstream", "Stream", "sigs.fin"),
		canc:      a.field("drpcstream", "Stream", "sigs.cancel"),
		sigSet:    a.obj("drpcsignal", "(*Signal).Set"),
		sigIsSet:  a.obj("drpcsignal", "(*Signal).IsSet"),
		sigErr:    a.obj("drpcsignal", "(*Signal).Err"),
		terminate: a.obj("drpcstream", "(*Stream).terminate"),
		termBoth:  a.obj("drpcstream", "(*Stream).terminateIfBothClosed"),
		chkFin:    a.obj("drpcstream", "(*Stream).checkFinished"),
		sendPkt:   a.obj("drpcstream", "(*Stream).sendPacketLocked"),
		pbufClose: a.obj("drpcstream", "(*packetBuffer).Close"),
	}
}

// sigField returns which signal field a call's receiver designates.
func recvField(cc *ssa.CallCommon) *types.Var {
	r := an.Recv(cc)
	if r == nil {
		return nil
	}
	l := an.PathOf(r).Last()
	if l == nil {
		return nil
	}
	return l.Origin()
}

func c03r1(c *an.Ctx) {
	sa := streamA(c)
	a := A(c)
	pl := locksOf(c, "drpcstream")
	fns := must(c.P.SourceFuncs("drpcstream"))
	ctxSig := a.field("drpcstream", "streamCtx", "sig")
	var sites []lockSite
	nSet := 0
	for _, fn := range fns {
		c.Analysed(fn)
		an.Instrs(fn, func(in ssa.Instruction) {
			ci, ok := in.(ssa.CallInstruction)
			if !ok {
				return
			}
			cc := ci.Common()
			if !an.IsCallTo(cc, sa.sigSet) {
				return
			}
			f := recvField(cc)
			switch f {
			case sa.send.Origin(), sa.recv.Origin(), sa.term.Origin(), sa.canc.Origin():
				nSet++
				sites = append(sites, lockSite{in, an.PathOf(an.Recv(cc)).Root, "Set sigs." + f.Name()})
			case sa.fin.Origin(), ctxSig.Origin():
				// only inside checkFinished, under the fin.Set(nil) == true branch (R5 checks the guard)
				ok := an.FuncObjOf(fn) == sa.chkFin
				c.Check(ok, fmt.Sprintf("%s | Set %s only in checkFinished", an.ShortFunc(fn), f.Name()), c.At(in), "", "the finished / context-done signal is set outside checkFinished: finish is no longer 'terminated and no operation in flight'")
			}
		})
	}
	nPrim, nHelper := lockRequirement(c, pl, fns, sa.mu, "Stream.mu", sites)
	c.Floor("state-signal Set sites", 1, nSet)
	c.Floor("primitive sites", 1, nPrim)
	c.Floor("calls of helpers that rely on the caller's Stream.mu (terminate, terminateIfBothClosed)", 1, nHelper)
}

// isSetGuard finds a dominating `X.sigs.<f>.IsSet()` test with the given outcome.
func isSetGuard(b *ssa.BasicBlock, isSet *types.Func, f *types.Var, want bool) (*ssa.If, *ssa.Call, bool) {
	for _, g := range an.GuardsOf(b) {
		if g.True != want {
			continue
		}
		if call, ok := g.Cond.(*ssa.Call); ok && an.IsCallTo(call.Common(), isSet) && recvField(call.Common()) == f.Origin() {
			return g.If, call, true
		}
	}
	return nil, nil, false
}

func c03r2(c *an.Ctx) {
	sa := streamA(c)
	a := A(c)
	pl := locksOf(c, "drpcstream")
	fns := must(c.P.SourceFuncs("drpcstream"))
	kindType := must(c.P.Named("drpcwire", "Kind"))
	closeSend := kindConst(c, "KindCloseSend")
	_ = a
	n := 0
	for _, fn := range fns {
		for _, cs := range an.CallsTo(fn, false, sa.sendPkt) {
			n++
			c.Analysed(fn)
			fname := an.ShortFunc(fn)
			call := cs.Instr
			root := an.PathOf(an.Recv(call.Common())).Root
			kind := "?"
			var kval int64 = -1
			if k, ok := an.ConstInt(an.Arg(call.Common(), 0)); ok {
				kval = k
				kind = kindName(c, kindType, k)
			}
			base := fmt.Sprintf("%s | emit %s", fname, kind)
			// (i) term tested false, under mu
			ifT, tcall, ok := isSetGuard(call.Block(), sa.sigIsSet, sa.term, false)
			if !c.Check(ok, base+" | guarded by !term.IsSet()", c.At(call), "", "a terminal packet can be emitted after the stream terminated (no dominating term test)") {
				continue
			}
			c.Check(pl.MustHoldClass(tcall, root, sa.mu), base+" | term tested under Stream.mu", c.At(tcall), "", "the terminated test is not made under Stream.mu: two terminal calls can both pass it and both emit")
			if kval == closeSend {
				_, scall, ok2 := isSetGuard(call.Block(), sa.sigIsSet, sa.send, false)
				if c.Check(ok2, base+" | guarded by !send.IsSet()", c.At(call), "", "CloseSend can be emitted twice (no dominating send test)") {
					c.Check(pl.MustHoldClass(scall, root, sa.mu), base+" | send tested under Stream.mu", c.At(scall), "", "the send-closed test is not made under Stream.mu")
				}
			}
			// (ii) a state change under mu between the test and the emission
			var change ssa.Instruction
			an.Instrs(fn, func(in ssa.Instruction) {
				ci, ok := in.(ssa.CallInstruction)
				if !ok {
					return
				}
				if _, isDefer := in.(*ssa.Defer); isDefer {
					return
				}
				cc := ci.Common()
				isChange := an.IsCallTo(cc, sa.terminate) || (an.IsCallTo(cc, sa.sigSet) && recvField(cc) == sa.send.Origin())
				if !isChange {
					return
				}
				if an.InstrDominates(ifT, in) && an.InstrDominates(in, call) && pl.MustHoldClass(in, root, sa.mu) {
					if kval == closeSend || an.IsCallTo(cc, sa.terminate) {
						change = in
					}
				}
			})
			if !c.Check(change != nil, base+" | state changed under Stream.mu before emitting", c.At(call), "", "no state change (terminate / send.Set) under Stream.mu between the terminated test and the emission: the call is not idempotent") {
				continue
			}
			// (iii) mu not released between the test and the state change
			released := false
			an.Instrs(fn, func(in ssa.Instruction) {
				ci, ok := in.(ssa.CallInstruction)
				if !ok {
					return
				}
				if _, isDefer := in.(*ssa.Defer); isDefer {
					return
				}
				if op, ok := pl.LT.OpOf(ci.Common()); ok && op.Kind == "unlock" && op.Lock.Class() == sa.mu.Origin() {
					if an.InstrDominates(ifT, in) && an.CanReach(in, change) {
						released = true
					}
				}
			})
			c.Check(!released, base+" | Stream.mu held from test to state change", c.At(change), "", "Stream.mu is released between the terminated test and the state change (check-then-act is not atomic)")
		}
	}
	c.Floor("terminal emission sites (sendPacketLocked callers)", 1, n)
}

func kindConst(c *an.Ctx, name string) int64 {
	tp := must(c.P.TypePkg("drpcwire"))
	obj, ok := tp.Scope().Lookup(name).(*types.Const)
	if !ok {
		panic(&an.Unresolved{What: "drpcwire." + name})
	}
	v, _ := constant.Int64Val(obj.Val())
	return v
}

func kindName(c *an.Ctx, kindType *types.Named, k int64) string {
	tp := kindType.Obj().Pkg()
	for _, nm := range tp.Scope().Names() {
		if cst, ok := tp.Scope().Lookup(nm).(*types.Const); ok && types.Identical(cst.Type(), kindType) {
			if v, ok := constant.Int64Val(cst.Val()); ok && v == k {
				return nm
			}
		}
	}
	return fmt.Sprintf("Kind(%d)", k)
}

func kindConsts(c *an.Ctx) map[string]int64 {
	kindType := must(c.P.Named("drpcwire", "Kind"))
	tp := kindType.Obj().Pkg()
	out := map[string]int64{}
	for _, nm := range tp.Scope().Names() {
		if cst, ok := tp.Scope().Lookup(nm).(*types.Const); ok && types.Identical(cst.Type(), kindType) {
			if v, ok := constant.Int64Val(cst.Val()); ok {
				out[nm] = v
			}
		}
	}
	return out
}

func c03r3(c *an.Ctx) {
	sa := streamA(c)
	a := A(c)
	wapi := writerAPI(c)
	fl := a.obj("drpcwire", "(*Writer).Flush")
	n := 0
	for _, rw := range frameLoopFns(c) {
		// typestate: which signals have been tested (false) since the last WriteFrame (or since the function was entered)
		flow := &an.Flow{Fn: rw, Inline: an.InlineSamePackage(rw), Init: []string{""},
			Step: func(st string, in ssa.Instruction) []string {
				if ci, ok := in.(ssa.CallInstruction); ok && wapi.emits(ci.Common()) {
					return []string{""}
				}
				return nil
			},
			Branch: func(st string, br *ssa.If, idx int) (string, bool) {
				cond, neg := an.StripNot(br.Cond)
				call, ok := cond.(*ssa.Call)
				if !ok || !an.IsCallTo(call.Common(), sa.sigIsSet) {
					return st, true
				}
				isFalse := (idx == 1) != neg
				if !isFalse {
					return st, true
				}
				switch recvField(call.Common()) {
				case sa.send.Origin():
					return addTag(st, "send"), true
				case sa.term.Origin():
					return addTag(st, "term"), true
				}
				return st, true
			},
		}
		res := flow.Run()
		inLoop := map[*ssa.BasicBlock]bool{}
		for _, l := range an.Loops(rw) {
			for b := range l.Blocks {
				inLoop[b] = true
			}
		}
		var emitSites []an.CallSite
		for _, m := range wapi.Emit {
			emitSites = append(emitSites, an.CallsTo(rw, false, m)...)
		}
		for _, cs := range emitSites {
			if !inLoop[cs.Instr.Block()] {
				continue // single-frame emissions are C03.R2's
			}
			n++
			ok := true
			for _, st := range res.Before(cs.Instr) {
				if !(hasTag(st, "send") && hasTag(st, "term")) {
					ok = false
				}
			}
			c.Check(ok, "frame loop | send and term re-tested before each WriteFrame", c.At(cs.Instr), "", "a frame can be written after the stream's send side closed or the stream terminated (tests missing on some path; states: "+fmt.Sprint(res.Before(cs.Instr))+")")
		}
	}
	c.Floor("WriteFrame calls in the frame loop", 1, n)
	// the returns under a set signal hand back that signal's error
	rf := c.Fn("drpcstream", "(*Stream).rawFlushLocked")
	n = 0
	for _, cs := range an.CallsTo(rf, false, fl) {
		n++
		for _, f := range []*types.Var{sa.canc, sa.send, sa.term} {
			_, _, ok := isSetGuard(cs.Instr.Block(), sa.sigIsSet, f, false)
			c.Check(ok, "(*Stream).rawFlushLocked | Flush guarded by !"+f.Name()+".IsSet()", c.At(cs.Instr), "", "buffered frames can be flushed after "+f.Name()+" was set (emission after termination/cancel)")
		}
	}
	c.Floor("Flush in rawFlushLocked", 1, n)
}

func addTag(st, tag string) string {
	if hasTag(st, tag) {
		return st
	}
	tags := splitTags(st)
	tags = append(tags, tag)
	sort.Strings(tags)
	out := ""
	for i, t := range tags {
		if i > 0 {
			out += "+"
		}
		out += t
	}
	return out
}

func splitTags(st string) []string {
	if st == "" {
		return nil
	}
	var out []string
	cur := ""
	for _, r := range st {
		if r == '+' {
			out = append(out, cur)
			cur = ""
		} else {
			cur += string(r)
		}
	}
	return append(out, cur)
}

func hasTag(st, tag string) bool {
	for _, t := range splitTags(st) {
		if t == tag {
			return true
		}
	}
	return false
}

func c03r4(c *an.Ctx) {
	sa := streamA(c)
	pl := locksOf(c, "drpcstream")
	fns := must(c.P.SourceFuncs("drpcstream"))
	n := 0
	for _, fn := range fns {
		for _, class := range []*types.Var{sa.write, sa.read} {
			acquires := false
			an.Instrs(fn, func(in ssa.Instruction) {
				if ci, ok := in.(ssa.CallInstruction); ok {
					if op, ok := pl.LT.OpOf(ci.Common()); ok && (op.Kind == "lock" || op.Kind == "trylock") && op.Lock.Class() == class.Origin() {
						acquires = true
					}
				}
			})
			if !acquires {
				continue
			}
			n++
			c.Analysed(fn)
			step := func(st string, cc *ssa.CallCommon) []string {
				if op, ok := pl.LT.OpOf(cc); ok && op.Lock.Class() == class.Origin() {
					switch op.Kind {
					case "lock":
						return []string{"held"}
					case "unlock":
						return []string{"released"}
					}
				}
				if an.IsCallTo(cc, sa.chkFin) && st == "released" {
					return []string{"checked"}
				}
				return nil
			}
			flow := &an.Flow{Fn: fn, Inline: an.InlineSamePackage(fn), Init: []string{"idle"},
				Step: func(st string, in ssa.Instruction) []string {
					if ci, ok := in.(ssa.CallInstruction); ok {
						if _, isGo := in.(*ssa.Go); isGo {
							return nil
						}
						return step(st, ci.Common())
					}
					return nil
				},
				StepDefer: func(st string, d *ssa.Defer) []string { return step(st, d.Common()) },
				Branch: func(st string, br *ssa.If, idx int) (string, bool) {
					cond, neg := an.StripNot(br.Cond)
					if call, ok := cond.(*ssa.Call); ok {
						if op, ok := pl.LT.OpOf(call.Common()); ok && op.Kind == "trylock" && op.Lock.Class() == class.Origin() {
							if (idx == 0) != neg {
								return "held", true
							}
						}
					}
					return st, true
				},
			}
			res := flow.Run()
			key := fmt.Sprintf("%s | Stream.%s released then checkFinished on every path", an.ShortFunc(fn), class.Name())
			bad := ""
			var where ssa.Instruction
			for _, ret := range an.Returns(fn) {
				if !res.Reachable(ret.Block()) {
					continue
				}
				for _, st := range res.Before(ret) {
					if st != "idle" && st != "checked" {
						bad = st
						where = ret
					}
				}
			}
			pos := c.P.Pos(fn.Pos())
			if where != nil {
				pos = c.At(where)
			}
			detail := ""
			switch bad {
			case "held":
				detail = "a path returns with the operation lock still held"
			case "released":
				detail = "a path releases the operation lock without a later checkFinished: a stream terminated during the operation never becomes finished (its successor and the manager wait forever)"
			}
			c.Check(bad == "", key, pos, "", detail)
		}
	}
	c.Floor("functions acquiring Stream.write/read", 1, n)
	// terminate ends with checkFinished after term.Set and pbuf.Close
	term := c.Fn("drpcstream", "(*Stream).terminate")
	var lastSet, lastClose, chk ssa.Instruction
	an.Instrs(term, func(in ssa.Instruction) {
		ci, ok := in.(ssa.CallInstruction)
		if !ok {
			return
		}
		cc := ci.Common()
		switch {
		case an.IsCallTo(cc, sa.sigSet) && recvField(cc) == sa.term.Origin():
			lastSet = in
		case an.IsCallTo(cc, sa.pbufClose):
			lastClose = in
		case an.IsCallTo(cc, sa.chkFin):
			chk = in
		}
	})
	ok := chk != nil && lastSet != nil && an.InstrDominates(lastSet, chk)
	if ok {
		for _, ret := range an.Returns(term) {
			if !an.InstrDominates(chk, ret) {
				ok = false
			}
		}
	}
	c.Check(ok, "(*Stream).terminate | checkFinished after term.Set on every path", c.P.Pos(term.Pos()), "", "terminate does not re-evaluate finished after setting term: a stream terminated while idle never finishes")
	_ = lastClose
}

func c03r5(c *an.Ctx) {
	sa := streamA(c)
	a := A(c)
	fn := c.Fn("drpcstream", "(*Stream).checkFinished")
	unlocked := a.obj("drpcstream", "(*inspectMutex).Unlocked")
	finChan := a.field("drpcstream", "Stream", "fin")
	ctxSig := a.field("drpcstream", "streamCtx", "sig")
	var finSet *ssa.Call
	an.Instrs(fn, func(in ssa.Instruction) {
		if call, ok := in.(*ssa.Call); ok && an.IsCallTo(call.Common(), sa.sigSet) && recvField(call.Common()) == sa.fin.Origin() {
			finSet = call
		}
	})
	if !c.Check(finSet != nil, "(*Stream).checkFinished | sets sigs.fin", c.P.Pos(fn.Pos()), "", "checkFinished no longer sets the finished signal") {
		return
	}
	_, _, okTerm := isSetGuard(finSet.Block(), sa.sigIsSet, sa.term, true)
	c.Check(okTerm, "(*Stream).checkFinished | fin only if term.IsSet()", c.At(finSet), "", "a stream can become finished without being terminated")
	for _, class := range []*types.Var{sa.write, sa.read} {
		ok := false
		for _, g := range an.GuardsOf(finSet.Block()) {
			if call, isCall := g.Cond.(*ssa.Call); isCall && g.True && an.IsCallTo(call.Common(), unlocked) && recvField(call.Common()) == class.Origin() {
				ok = true
			}
		}
		c.Check(ok, "(*Stream).checkFinished | fin only if "+class.Name()+".Unlocked()", c.At(finSet), "", "a stream can become finished while a "+class.Name()+" operation is still in flight: the next stream would share the transport with it")
	}
	// effects of finishing only in the branch where fin.Set returned true
	n := 0
	an.Instrs(fn, func(in ssa.Instruction) {
		what := ""
		switch x := in.(type) {
		case *ssa.Send:
			if isLoadOfField(x.Chan, finChan) {
				what = "send on Stream.fin"
			}
		case *ssa.Call:
			cc := x.Common()
			if an.IsCallTo(cc, sa.sigSet) && recvField(cc) == ctxSig.Origin() {
				what = "ctx.sig.Set"
			}
			if obj := an.CalleeObj(cc); obj != nil && obj.Name() == "End" && obj.Pkg() != nil && obj.Pkg().Path() == "runtime/trace" {
				what = "task.End"
			}
		}
		if what == "" {
			return
		}
		n++
		ok := false
		for _, g := range an.GuardsOf(in.Block()) {
			if g.True && g.Cond == ssa.Value(finSet) {
				ok = true
			}
		}
		c.Check(ok, "(*Stream).checkFinished | "+what+" only when fin.Set won", c.At(in), "", what+" can run more than once per stream (a second token on the shared fin channel blocks checkFinished under Stream.mu)")
	})
	c.Floor("finish effects in checkFinished", 1, n)
}

func c03r6(c *an.Ctx) {
	sa := streamA(c)
	term := c.Fn("drpcstream", "(*Stream).terminate")
	// (a) inside terminate: send.Set, recv.Set, term.Set, pbuf.Close in this order, all with terminate's argument
	var order []ssa.Instruction
	names := []string{}
	an.Instrs(term, func(in ssa.Instruction) {
		ci, ok := in.(ssa.CallInstruction)
		if !ok {
			return
		}
		cc := ci.Common()
		switch {
		case an.IsCallTo(cc, sa.sigSet):
			f := recvField(cc)
			if f != nil {
				order = append(order, in)
				names = append(names, "Set "+f.Name())
			}
		case an.IsCallTo(cc, sa.pbufClose):
			order = append(order, in)
			names = append(names, "pbuf.Close")
		}
	})
	want := []string{"Set send", "Set recv", "Set term", "pbuf.Close"}
	ok := len(names) == len(want)
	if ok {
		for i := range want {
			if names[i] != want[i] || (i > 0 && !an.InstrDominates(order[i-1], order[i])) {
				ok = false
			}
		}
	}
	c.Check(ok, "(*Stream).terminate | send.Set; recv.Set; term.Set; pbuf.Close", c.P.Pos(term.Pos()), "", fmt.Sprintf("terminate's update order is %v, want %v (observers of term must already see send/recv closed; receivers are woken last)", names, want))
	if ok {
		// each of the four runs on every call, except that closing the buffer may be left to the call that wins term.Set
		// (the buffer keeps its first error, so a later Close is a no-op)
		entry := term.Blocks[0]
		for i, in := range order {
			uncond := true
			for _, g := range an.GuardsOf(in.Block()) {
				if g.If != nil && g.If.Block() != entry && !entry.Dominates(g.If.Block()) {
					continue
				}
				if i == 3 && g.True && g.Cond == order[2].(ssa.Value) {
					continue
				}
				uncond = false
			}
			c.Check(uncond, "(*Stream).terminate | "+names[i]+" runs on every call", c.At(in), "", "a step of the termination is skipped on some calls: "+names[i]+" is conditional")
		}
		errParam := term.Params[1]
		for i, in := range order {
			cc := in.(ssa.CallInstruction).Common()
			arg := an.Arg(cc, 0)
			// the parameter itself, or its one copy in memory when a closure (a debug message) captures it
			c.Check(arg == ssa.Value(errParam) || an.Resolve(an.Unwrap(arg)) == ssa.Value(errParam) || carriesError(arg, errParam, 0), "(*Stream).terminate | "+names[i]+" receives terminate's error", c.At(in), "", "a state signal is set with a different error than the termination cause")
		}
	}

	// (b) transitions that must report io.EOF on send: send.Set(io.EOF) precedes terminate
	kinds := kindConsts(c)
	hp := c.Fn("drpcstream", "(*Stream).HandlePacket")
	type site struct {
		fn   *ssa.Function
		call ssa.Instruction
		why  string
	}
	var sites []site
	parts := handlePacketParts(c)
	for _, pf := range parts.fns {
		for _, cs := range an.CallsTo(pf, false, sa.terminate) {
			for _, k := range []string{"KindError", "KindCancel"} {
				if parts.inKind(cs.Instr, kinds[k]) {
					sites = append(sites, site{pf, cs.Instr, "HandlePacket " + k})
				}
			}
		}
	}
	c.Floor("error/cancel transitions in HandlePacket", 1, len(sites))
	for _, name := range []string{"(*Stream).SendError", "(*Stream).SendCancel", "(*Stream).Cancel"} {
		fn := c.Fn("drpcstream", name)
		cs := an.CallsTo(fn, false, sa.terminate)
		if !c.Floor("terminate call in "+name, 1, len(cs)) {
			continue
		}
		for _, x := range cs {
			sites = append(sites, site{fn, x.Instr, name})
		}
	}
	for _, s := range sites {
		found := false
		for _, cs := range an.CallsTo(s.fn, false, sa.sigSet) {
			cc := cs.Common()
			if recvField(cc) != sa.send.Origin() {
				continue
			}
			if !isLoadOfGlobal(an.Arg(cc, 0), "io", "EOF") {
				continue
			}
			if an.InstrDominates(cs.Instr, s.call) {
				found = true
			}
		}
		c.Check(found, s.why+" | send.Set(io.EOF) before terminate", c.At(s.call), "", "sends after this transition would report the termination cause instead of end-of-stream (first Set wins: terminate sets send itself)")
	}

	// (c) half-close transitions in HandlePacket: recv.Set(io.EOF); pbuf.Close(io.EOF); then terminate / terminateIfBothClosed
	nHalf := 0
	for _, k := range []string{"KindClose", "KindCloseSend"} {
		var setRecv, closeBuf, final ssa.Instruction
		visit := func(in ssa.Instruction) {
			if !parts.inKind(in, kinds[k]) {
				return
			}
			ci, ok := in.(ssa.CallInstruction)
			if !ok {
				return
			}
			cc := ci.Common()
			switch {
			case an.IsCallTo(cc, sa.sigSet) && recvField(cc) == sa.recv.Origin() && isLoadOfGlobal(an.Arg(cc, 0), "io", "EOF"):
				setRecv = in
			case an.IsCallTo(cc, sa.pbufClose) && isLoadOfGlobal(an.Arg(cc, 0), "io", "EOF"):
				closeBuf = in
			case an.IsCallTo(cc, sa.terminate) && k == "KindClose", an.IsCallTo(cc, sa.termBoth) && k == "KindCloseSend":
				final = in
			}
		}
		for _, pf := range parts.fns {
			an.Instrs(pf, visit)
		}
		ok := setRecv != nil && closeBuf != nil && final != nil && an.InstrDominates(setRecv, closeBuf) && an.InstrDominates(closeBuf, final)
		pos := c.P.Pos(hp.Pos())
		if final != nil {
			pos = c.At(final)
		}
		nHalf++
		c.Check(ok, "HandlePacket "+k+" | recv.Set(io.EOF); pbuf.Close(io.EOF); then terminate", pos, "", "the remote half-close does not yield end-of-stream to receivers before the stream is (possibly) terminated with another error")
	}
	// (d) CloseSend: terminateIfBothClosed after send.Set; terminateIfBothClosed tests both
	cs := c.Fn("drpcstream", "(*Stream).CloseSend")
	var sset, tb ssa.Instruction
	an.Instrs(cs, func(in ssa.Instruction) {
		ci, ok := in.(ssa.CallInstruction)
		if !ok {
			return
		}
		if _, isDefer := in.(*ssa.Defer); isDefer {
			return
		}
		cc := ci.Common()
		if an.IsCallTo(cc, sa.sigSet) && recvField(cc) == sa.send.Origin() {
			sset = in
		}
		if an.IsCallTo(cc, sa.termBoth) {
			tb = in
		}
	})
	c.Check(sset != nil && tb != nil && an.InstrDominates(sset, tb), "(*Stream).CloseSend | terminateIfBothClosed after send.Set", c.P.Pos(cs.Pos()), "", "a local half-close after a remote half-close does not terminate the stream (connection never released)")
	tbf := c.Fn("drpcstream", "(*Stream).terminateIfBothClosed")
	for _, x := range an.CallsTo(tbf, false, sa.terminate) {
		_, _, g1 := isSetGuard(x.Instr.Block(), sa.sigIsSet, sa.send, true)
		_, _, g2 := isSetGuard(x.Instr.Block(), sa.sigIsSet, sa.recv, true)
		c.Check(g1 && g2, "(*Stream).terminateIfBothClosed | terminate only if send and recv are both set", c.At(x.Instr), "", "the stream terminates although only one side has half-closed")
	}
}

func isLoadOfGlobal(v ssa.Value, pkg, name string) bool {
	u, ok := v.(*ssa.UnOp)
	if !ok || u.Op != token.MUL {
		return false
	}
	g, ok := u.X.(*ssa.Global)
	return ok && g.Pkg != nil && g.Pkg.Pkg.Path() == pkg && g.Name() == name
}

// guardedByKind: block dominated by an edge where `<x>.Kind == k` has the given truth.
func guardedByKind(b *ssa.BasicBlock, k int64, want bool) bool {
	for _, g := range an.GuardsOf(b) {
		bin, ok := g.Cond.(*ssa.BinOp)
		if !ok || (bin.Op != token.EQL && bin.Op != token.NEQ) {
			continue
		}
		kv, isC := an.ConstInt(bin.Y)
		x := bin.X
		if !isC {
			kv, isC = an.ConstInt(bin.X)
			x = bin.Y
		}
		if !isC || kv != k {
			continue
		}
		if !isKindTyped(x) {
			continue
		}
		eq := g.True == (bin.Op == token.EQL)
		if eq == want {
			return true
		}
	}
	return false
}

func isKindTyped(v ssa.Value) bool {
	n, ok := v.Type().(*types.Named)
	return ok && n.Obj().Name() == "Kind" && n.Obj().Pkg() != nil && n.Obj().Pkg().Name() == "drpcwire"
}

func c03r7(c *an.Ctx) {
	sa := streamA(c)
	a := A(c)
	hp := c.Fn("drpcstream", "(*Stream).HandlePacket")
	control := a.field("drpcwire", "Packet", "Control")
	kinds := kindConsts(c)
	// kinds compared against in HandlePacket
	handled := map[int64]bool{}
	an.Instrs(hp, func(in ssa.Instruction) {
		bin, ok := in.(*ssa.BinOp)
		if !ok || bin.Op != token.EQL {
			return
		}
		if k, ok := an.ConstInt(bin.Y); ok && isKindTyped(bin.X) {
			handled[k] = true
		}
	})
	parts := handlePacketParts(c)
	compared := map[int64]bool{}
	for k := range handled {
		compared[k] = true
	}
	for k := range parts.tableKinds() {
		handled[k] = true
	}
	var names []string
	for n := range kinds {
		names = append(names, n)
	}
	sort.Strings(names)
	nHandled := 0
	for _, n := range names {
		if handled[kinds[n]] {
			nHandled++
			c.Ok("HandlePacket | "+n+" has a case", c.P.Pos(hp.Pos()), "")
		} else {
			c.Ok("HandlePacket | "+n+" reaches default", c.P.Pos(hp.Pos()), "treated as unknown kind: ignored with the control bit, protocol error without")
		}
	}
	c.Floor("Kind constants with a case in HandlePacket", 1, nHandled)
	// default region: blocks where every handled kind compared false
	tk := parts.tableKinds()
	// tableMiss: the block is behind "the dispatch table has no handler for this kind"
	tableMiss := func(b *ssa.BasicBlock) bool {
		for _, g := range an.GuardsOf(b) {
			if x, trueNonNil, isNil := nilTestOf(g.Cond); isNil && g.True != trueNonNil {
				if _, ok := c.P.DynCallees(x); ok {
					return true
				}
			}
		}
		return false
	}
	inDefault := func(b *ssa.BasicBlock) bool {
		for k := range handled {
			if guardedByKind(b, k, false) {
				continue
			}
			if tk[k] && (tableMiss(b) || !compared[k]) {
				// a kind that is only handled through the table: code of HandlePacket itself that is not in a
				// compared arm runs for the kinds the table has no entry for (or before the table is consulted)
				continue
			}
			return false
		}
		return true
	}
	n := 0
	learnCtl := func(st string, cond ssa.Value, val bool) (string, bool) {
		cnd, neg := an.StripNot(cond)
		if isLoadOfField(cnd, control) && val == neg {
			return addTag(st, "nc"), true
		}
		return st, true
	}
	ctlRes := (&an.Flow{Fn: hp, Init: []string{""},
		Branch: func(st string, br *ssa.If, idx int) (string, bool) { return learnCtl(st, br.Cond, idx == 0) },
		OnFact: learnCtl}).Run()
	visitDefault := func(in ssa.Instruction) {
		// the default region of HandlePacket itself, or the handler chosen when the table has no entry
		guardAt := in.Block()
		if in.Parent() == hp {
			if !inDefault(in.Block()) {
				return
			}
		} else {
			fb, isFallback := parts.fallback[in.Parent()]
			if !isFallback || fb == nil {
				return
			}
			guardAt = fb
		}
		isEffect := false
		what := ""
		switch x := in.(type) {
		case *ssa.Call:
			if an.IsCallTo(x.Common(), sa.terminate) {
				isEffect, what = true, "terminate"
			}
		case *ssa.Return:
			for _, v := range returnedValues(x, 0) {
				if v != nil && !an.IsNilConst(v) {
					// handing back what the dispatched handler returned belongs to that handler's arm
					if call, isCall := an.Unwrap(v).(*ssa.Call); isCall {
						dispatched := false
						for _, dc := range parts.calls {
							if dc == call {
								dispatched = true
							}
						}
						if dispatched {
							continue
						}
					}
					isEffect, what = true, "error return"
				}
			}
		}
		if !isEffect {
			return
		}
		n++
		_, ok := guardedByFieldLoad(guardAt, control, false)
		if ret, isRet := in.(*ssa.Return); isRet && !ok && in.Parent() == hp {
			// a return that merges "ignored" (nil) and "unknown kind" (error): judge each way of returning on its own
			nErr, nOK := 0, 0
			for _, rc := range an.ReturnCases(hp) {
				if rc.Ret != ret || len(rc.Vals) == 0 || rc.Vals[0] == nil || an.IsNilConst(rc.Vals[0]) {
					continue
				}
				nErr++
				good := false
				for _, g := range rc.Guards {
					cnd, neg := an.StripNot(g.Cond)
					if isLoadOfField(cnd, control) && g.True == neg {
						good = true
					}
				}
				if !good && rc.At != nil && len(rc.At.Instrs) > 0 {
					sts := ctlRes.After(rc.At.Instrs[len(rc.At.Instrs)-1])
					if len(sts) == 0 {
						sts = ctlRes.Before(rc.At.Instrs[len(rc.At.Instrs)-1])
					}
					if rc.At == ret.Block() {
						sts = ctlRes.Before(ret)
					}
					good = len(sts) > 0
					for _, st := range sts {
						if !hasTag(st, "nc") {
							good = false
						}
					}
				}
				if good {
					nOK++
				}
			}
			if nErr > 0 && nOK == nErr {
				ok = true
			}
		}
		if !ok && in.Parent() == hp {
			// path-sensitively: every way to the effect has seen the control bit clear
			ok = len(ctlRes.Before(in)) > 0
			for _, st := range ctlRes.Before(in) {
				if !hasTag(st, "nc") {
					ok = false
				}
			}
		}
		c.Check(ok, "HandlePacket default | "+what+" only without the control bit", c.At(in), "", "an unknown packet kind with the control bit set disturbs the stream (must be ignored for forward compatibility)")
	}
	for _, pf := range parts.fns {
		an.Instrs(pf, visitDefault)
	}
	c.Floor("effects in HandlePacket's default branch", 1, n)
}

func c03r8(c *an.Ctx) {
	sa := streamA(c)
	pl := locksOf(c, "drpcstream")
	n := 0
	for _, fn := range must(c.P.SourceFuncs("drpcstream")) {
		sends := an.CallsTo(fn, false, sa.sendPkt)
		if len(sends) == 0 {
			continue
		}
		an.Instrs(fn, func(in ssa.Instruction) {
			ci, ok := in.(ssa.CallInstruction)
			if !ok {
				return
			}
			if _, isDefer := in.(*ssa.Defer); isDefer {
				return
			}
			cc := ci.Common()
			if !an.IsCallTo(cc, sa.terminate) && !an.IsCallTo(cc, sa.termBoth) {
				return
			}
			// only state changes that precede an emission in this function
			precedes := false
			for _, s := range sends {
				if an.CanReach(in, s.Instr) {
					precedes = true
				}
			}
			if !precedes {
				return
			}
			n++
			c.Analysed(fn)
			root := an.PathOf(an.Recv(cc)).Root
			c.Check(pl.MustHoldClass(in, root, sa.write), fmt.Sprintf("%s | %s under Stream.write (emission follows)", an.ShortFunc(fn), an.CalleeObj(cc).Name()), c.At(in), "",
				"the stream can be terminated here without the write lock held although this call still has to write its packet: checkFinished sees both operation locks free, the stream finishes, the manager starts the next RPC, and this packet is written after (or between) the next stream's frames")
		})
	}
	c.Floor("terminating state changes followed by an emission", 1, n)
}

func c03r9(c *an.Ctx) {
	a := A(c)
	held := a.field("drpcstream", "inspectMutex", "held")
	named := must(c.P.Named("drpcstream", "inspectMutex"))
	st, _ := named.Underlying().(*types.Struct)
	var emb *types.Var
	for i := 0; st != nil && i < st.NumFields(); i++ {
		if st.Field(i).Embedded() {
			emb = st.Field(i)
		}
	}
	if emb == nil {
		panic(&an.Unresolved{What: "inspectMutex embedded mutex"})
	}
	lt := sharedOf(c.P).lt
	n := 0
	for i := 0; i < named.NumMethods(); i++ {
		fn := c.P.SSA.FuncValue(named.Method(i))
		if fn == nil || len(fn.Blocks) == 0 {
			continue
		}
		lf := lt.NewLockFlow(fn, []string{""}, nil)
		initHeld := false
		if fn.Name() == "Unlock" {
			// Unlock is entered with the mutex held
			inner := an.LockID{Root: fn.Params[0], Fields: []*types.Var{emb}}
			lf = lt.NewLockFlow(fn, []string{inner.Key()}, nil)
			initHeld = true
		}
		_ = initHeld
		an.Instrs(fn, func(in ssa.Instruction) {
			ci, ok := in.(ssa.CallInstruction)
			if !ok {
				return
			}
			if a, isA := an.AtomicOn(ci, held); !isA || a.Kind == "load" {
				return
			}
			n++
			c.Analysed(fn)
			okHeld := len(lf.Must(in)) > 0
			if _, isDefer := in.(*ssa.Defer); isDefer {
				okHeld = false
			}
			c.Check(okHeld, fmt.Sprintf("%s | held flag written while the mutex is held", an.ShortFunc(fn)), c.At(in), "",
				"inspectMutex's held flag is written outside the critical section of the embedded mutex: a waiter that finally acquires the lock can own it with held==0 (the previous holder's Unlock cleared it), so checkFinished believes no operation is in flight and finishes the stream under a pending write")
		})
	}
	c.Floor("held-flag writes in inspectMutex", 1, n)
}

// c03r10: whatever else a terminal call checks first (an earlier write failure, a fast path), it may return only
// when the stream is in the state the call stands for: it saw it there already, or it made the transition.
func c03r10(c *an.Ctx) {
	sa := streamA(c)
	n := 0
	for _, t := range []struct {
		name string
		need []string
	}{
		{"(*Stream).Close", []string{"term"}},
		{"(*Stream).SendError", []string{"term"}},
		{"(*Stream).CloseSend", []string{"send", "term"}},
	} {
		fn := c.Fn("drpcstream", t.name)
		learn := func(st string, cond ssa.Value, val bool) (string, bool) {
			cnd, neg := an.StripNot(cond)
			call, ok := cnd.(*ssa.Call)
			if !ok || !an.IsCallTo(call.Common(), sa.sigIsSet) || val == neg {
				return st, true
			}
			switch recvField(call.Common()) {
			case sa.term.Origin():
				return addTag(st, "term"), true
			case sa.send.Origin():
				return addTag(st, "send"), true
			}
			return st, true
		}
		flow := &an.Flow{Fn: fn, Inline: an.InlineSamePackage(fn), Init: []string{""},
			Step: func(st string, in ssa.Instruction) []string {
				ci, ok := in.(ssa.CallInstruction)
				if !ok {
					return nil
				}
				if _, isDefer := in.(*ssa.Defer); isDefer {
					return nil
				}
				cc := ci.Common()
				if an.IsCallTo(cc, sa.sigSet) {
					switch recvField(cc) {
					case sa.term.Origin():
						return []string{addTag(st, "term")}
					case sa.send.Origin():
						return []string{addTag(st, "send")}
					}
				}
				return nil
			},
			Branch: func(st string, br *ssa.If, idx int) (string, bool) { return learn(st, br.Cond, idx == 0) },
			OnFact: learn,
		}
		res := flow.Run()
		if res.Blowup {
			c.Undecided("%s", t.name+": state space too large")
			continue
		}
		for _, ret := range an.Returns(fn) {
			if !res.Reachable(ret.Block()) {
				continue
			}
			for _, st := range res.Before(ret) {
				n++
				ok := false
				for _, tag := range t.need {
					if hasTag(st, tag) {
						ok = true
					}
				}
				c.Check(ok, t.name+" | returns only with the stream "+strings.Join(t.need, " or ")+"-closed", c.At(ret), "",
					"a terminal call can return without having made (or found) its state transition: the stream is never terminated / half-closed, its context is never done and the call is not idempotent")
			}
		}
	}
	c.Floor("ways out of the terminal calls", 1, n)
}

// c03r11: checkFinished relies on inspectMutex.Unlocked() to know that no
// operation is in flight; the flag must follow the mutex on every path.
func c03r11(c *an.Ctx) {
	a := A(c)
	held := a.field("drpcstream", "inspectMutex", "held")
	isMutexCall := func(in ssa.Instruction, name string) bool {
		ci, ok := in.(ssa.CallInstruction)
		if !ok {
			return false
		}
		f := ci.Common().StaticCallee()
		return f != nil && f.Name() == name && f.Pkg != nil && f.Pkg.Pkg.Path() == "sync"
	}
	// stores to held: atomic.StoreUint32(&m.held, k) or a plain store
	heldStore := func(in ssa.Instruction) (int64, bool) {
		switch x := in.(type) {
		case *ssa.Store:
			if fv := an.PathOf(x.Addr).Last(); fv != nil && fv.Origin() == held.Origin() {
				k, ok := an.ConstInt(x.Val)
				return k, ok
			}
		case ssa.CallInstruction:
			f := x.Common().StaticCallee()
			if f != nil && f.Pkg != nil && f.Pkg.Pkg.Path() == "sync/atomic" && strings.HasPrefix(f.Name(), "Store") && len(x.Common().Args) == 2 {
				if fv := an.PathOf(x.Common().Args[0]).Last(); fv != nil && fv.Origin() == held.Origin() {
					k, ok := an.ConstInt(x.Common().Args[1])
					return k, ok
				}
			}
		}
		return 0, false
	}
	n := 0
	for _, fn := range must(c.P.SourceFuncs("drpcstream")) {
		if fn.Signature.Recv() == nil || !strings.Contains(fn.Signature.Recv().Type().String(), "inspectMutex") {
			continue
		}
		c.Analysed(fn)
		var acquires, releases, sets, clears []ssa.Instruction
		an.Instrs(fn, func(in ssa.Instruction) {
			switch {
			case isMutexCall(in, "Lock") || isMutexCall(in, "TryLock"):
				acquires = append(acquires, in)
			case isMutexCall(in, "Unlock"):
				releases = append(releases, in)
			}
			if k, ok := heldStore(in); ok {
				if k != 0 {
					sets = append(sets, in)
				} else {
					clears = append(clears, in)
				}
			}
		})
		for _, acq := range acquires {
			n++
			// every return that reports the lock taken (any return for Lock, the true return for TryLock) is
			// dominated by a set of the flag that follows the acquisition
			ok := true
			for _, ret := range an.Returns(fn) {
				if !retReachable(fn, ret) {
					continue
				}
				if len(ret.Results) == 1 {
					if k, isK := ret.Results[0].(*ssa.Const); isK && k.Value != nil && k.Value.String() == "false" {
						continue
					}
				}
				if !an.CanReach(acq, ret) {
					continue
				}
				dom := false
				for _, st := range sets {
					if an.InstrDominates(acq, st) && an.InstrDominates(st, ret) {
						dom = true
					}
				}
				if !dom {
					ok = false
				}
			}
			c.Check(ok, an.ShortFunc(fn)+" | the held flag is set after the mutex is taken, on every return that reports it taken", c.At(acq), "", "the mutex can be held with the flag clear: checkFinished sees an idle stream while an operation is in flight and finishes the stream underneath it")
		}
		for _, rel := range releases {
			n++
			ok := false
			for _, st := range clears {
				if an.InstrDominates(st, rel) {
					ok = true
				}
			}
			c.Check(ok, an.ShortFunc(fn)+" | the held flag is cleared before the mutex is released", c.At(rel), "", "the flag stays set after the release: the stream never looks idle and never finishes")
		}
	}
	c.Floor("acquisitions and releases inside inspectMutex", 3, n)
	un := c.Fn("drpcstream", "(*inspectMutex).Unlocked")
	okUn := false
	for _, ret := range an.Returns(un) {
		if len(ret.Results) == 1 {
			if cmp, ok := ret.Results[0].(*ssa.BinOp); ok && cmp.Op == token.EQL {
				if k, isK := an.ConstInt(cmp.Y); isK && k == 0 {
					v := cmp.X
					if call, isCall := v.(*ssa.Call); isCall && len(call.Common().Args) == 1 {
						if fv := an.PathOf(call.Common().Args[0]).Last(); fv != nil && fv.Origin() == held.Origin() {
							okUn = true
						}
					}
					if isLoadOfField(v, held) {
						okUn = true
					}
				}
			}
		}
	}
	c.Check(okUn, "(*inspectMutex).Unlocked | reports held == 0", c.P.Pos(un.Pos()), "", "Unlocked no longer reports the held flag")
}

// c03r12: a terminal call on a stream that is already terminated is a no-op
// that succeeds: the only error such a call reports is the one of its own
// emission. The server calls SendError/CloseSend after every handler; any
// other error makes ServeOne give up the whole connection.
func c03r12(c *an.Ctx) {
	sa := streamA(c)
	n := 0
	for _, name := range []string{"SendError", "SendCancel", "Close", "CloseSend"} {
		fn := c.Fn("drpcstream", "(*Stream)."+name)
		c.Analysed(fn)
		var fromEmission func(v ssa.Value, depth int) bool
		fromEmission = func(v ssa.Value, depth int) bool {
			if depth > 5 || v == nil {
				return false
			}
			if ld, isLd := an.Unwrap(v).(*ssa.UnOp); isLd && ld.Op == token.MUL {
				// a local (or the named result) the emission's error was bound to
				if al, isAl := ld.X.(*ssa.Alloc); isAl {
					stores := an.ReachingStores(al, ld)
					some := false
					for _, st := range stores {
						if st == nil || an.IsNilConst(st) {
							continue
						}
						if !fromEmission(st, depth+1) {
							return false
						}
						some = true
					}
					return some
				}
			}
			if phi, isPhi := an.Unwrap(v).(*ssa.Phi); isPhi {
				some := false
				for _, e := range phi.Edges {
					if an.IsNilConst(e) {
						continue
					}
					if !fromEmission(e, depth+1) {
						return false
					}
					some = true
				}
				return some
			}
			call, ok := an.Unwrap(v).(*ssa.Call)
			if !ok {
				return false
			}
			if an.IsCallTo(call.Common(), sa.sendPkt) {
				return true
			}
			for _, a := range call.Common().Args {
				if fromEmission(a, depth+1) {
					return true
				}
			}
			return false
		}
		seen := map[ssa.Value]bool{}
		var leaves func(v ssa.Value, depth int) []ssa.Value
		leaves = func(v ssa.Value, depth int) []ssa.Value {
			if v == nil || seen[v] || depth > 8 {
				return nil
			}
			seen[v] = true
			switch x := v.(type) {
			case *ssa.Phi:
				var out []ssa.Value
				for _, e := range x.Edges {
					out = append(out, leaves(e, depth+1)...)
				}
				return out
			case *ssa.UnOp:
				if a, ok := x.X.(*ssa.Alloc); ok && x.Op == token.MUL {
					var out []ssa.Value
					for _, st := range an.ReachingStores(a, x) {
						if st == nil {
							continue // the zero value: nil
						}
						out = append(out, leaves(st, depth+1)...)
					}
					return out
				}
			}
			return []ssa.Value{v}
		}
		bad := ""
		nVals, emits := 0, false
		for _, ret := range an.Returns(fn) {
			if !retReachable(fn, ret) || len(ret.Results) == 0 {
				continue
			}
			for _, v := range leaves(ret.Results[len(ret.Results)-1], 0) {
				nVals++
				switch {
				case an.IsNilConst(v):
				case fromEmission(v, 0):
					emits = true
				default:
					bad = an.R(v)
				}
			}
		}
		n += nVals
		c.Check(bad == "" && emits, "(*Stream)."+name+" | the only error it reports is the one of its own emission (nil when it sends nothing)", c.P.Pos(fn.Pos()), "",
			"the call can report an error that does not come from writing its packet ("+bad+"), e.g. for a stream that is already terminated: the server treats a failed SendError/CloseSend as a broken connection and closes it, taking the next RPC with it")
	}
	c.Floor("error values returned by terminal calls", 4, n)
}
