package rules

import (
	"fmt"
	"go/types"

	"golang.org/x/tools/go/ssa"

	"verif/sa/internal/an"
)

func init() {
	register(&Property{
		ID:        "C07",
		Technique: "who-may-call / who-may-use over the resolved program (single writer, single reader, single goroutine start), composite-literal provenance of frames, plus the shared lockset/typestate rules; tested-then-dropped error (contradiction) check and interprocedural lock-pairing check over the packages the property is anchored in",
		Explanation: "Structural conditions of 'bytes on the transport form a valid, non-interleaved frame stream': " +
			"(R1) the transport is written only through the frame writer's sink, read only through Reader.read, closed only in Manager.terminate; the reader and stream-manager goroutines are each started exactly once; ReadPacketUsing has one caller; " +
			"(R2) frames with a stream's id are constructed only in newFrameLocked, terminal packets are single done frames, all frames of one message reuse one Frame value (one kind, one id); " +
			"plus the shared rules: emission and id bump only under Stream.write (C01.R1), writer buffer/sink under Writer.mu with whole frames only (C01.R6), flag/buffer agreement (C01.R8), next stream only after the previous finished and writer reset at construction (C02.R3/R5/R7), no emission after termination (C03.R2/R3), no frame after a failed write (C05.R9, C05.R4), encoder layout well-formed (C08.R2).",
		NotDecided: "the global order of frames under all interleavings (e.g. id monotonicity across a soft-cancel hand-over) beyond the lock/pairing facts; that a conforming peer reader never rejects the stream.",
		Rules: append([]Rule{
			{ID: "C07.R1", Doc: "single writer / single reader / single closer of the transport; goroutines started once; ReadPacketUsing called only by manageReader", Run: c07r1},
			{ID: "C07.R2", Doc: "Frame values for a stream are built only in newFrameLocked; terminal packets are one done frame; a message's frames share one Frame value", Run: c07r2},
			{ID: "C07.S1", Alias: "C01.R1"},
			{ID: "C07.S2", Alias: "C01.R6"},
			{ID: "C07.S3", Alias: "C01.R8"},
			{ID: "C07.S4", Alias: "C02.R3"},
			{ID: "C07.S5", Alias: "C02.R5"},
			{ID: "C07.S6", Alias: "C02.R7"},
			{ID: "C07.S7", Alias: "C03.R2"},
			{ID: "C07.S8", Alias: "C03.R3"},
			{ID: "C07.S9", Alias: "C05.R9"},
			{ID: "C07.S10", Alias: "C05.R4"},
			{ID: "C07.S11", Alias: "C01.R7"},
			{ID: "C07.S12", Alias: "C01.R9"},
			{ID: "C07.S13", Alias: "C03.R8"},
			{ID: "C07.S14", Alias: "C03.R9"},
			{ID: "C07.S15", Alias: "C03.R4"},
			{ID: "C07.S16", Alias: "C03.R5"},
			{ID: "C07.S17", Doc: "every emitted frame is well-formed: control byte, three varints, payload of the announced length", Alias: "C08.R2"},
			{ID: "C07.S18", Alias: "C02.R6"},
		}, disciplineRules("C07", "drpcwire", "drpcstream", "drpcmanager")...),
	})
}

func c07r1(c *an.Ctx) {
	a := A(c)
	trF := a.field("drpcmanager", "Manager", "tr")
	rF := a.field("drpcwire", "Reader", "r")
	wF := a.field("drpcwire", "Writer", "w")
	readPkt := a.obj("drpcwire", "(*Reader).ReadPacketUsing")
	readFn := a.obj("drpcwire", "(*Reader).read")
	mgrReader := a.obj("drpcmanager", "(*Manager).manageReader")
	mgrStreams := a.obj("drpcmanager", "(*Manager).manageStreams")
	terminate := a.obj("drpcmanager", "(*Manager).terminate")
	setTransport := a.obj("internal/drpcopts", "SetStreamTransport")

	// uses of Manager.tr
	nTr := 0
	for _, fn := range must(c.P.SourceFuncs("drpcmanager")) {
		top := fn
		for top.Parent() != nil {
			top = top.Parent()
		}
		an.Instrs(fn, func(in ssa.Instruction) {
			ld, ok := in.(*ssa.UnOp)
			if !ok || !isLoadOfField(ld, trF) {
				return
			}
			for _, ref := range *ld.Referrers() {
				nTr++
				what, okUse := "", false
				switch r := ref.(type) {
				case *ssa.Call:
					cc := r.Common()
					switch {
					case cc.IsInvoke() && cc.Value == ssa.Value(ld) && cc.Method.Name() == "Close":
						what = "Close"
						okUse = an.FuncObjOf(top) == terminate
					case cc.IsInvoke() && cc.Value == ssa.Value(ld) && cc.Method.Name() == "Write":
						what = "Write"
						okUse = fn.Signature.Recv() != nil && fn.Name() == "Write" // the writer's sink type
					case cc.IsInvoke() && cc.Value == ssa.Value(ld) && cc.Method.Name() == "Read":
						what = "Read"
					case an.IsCallTo(cc, setTransport):
						what, okUse = "SetStreamTransport (context value only)", true
					default:
						what = "passed to " + an.Render(r, 2)
					}
				case *ssa.DebugRef:
					nTr--
					continue
				default:
					what = fmt.Sprintf("%T", ref)
				}
				c.Check(okUse, fmt.Sprintf("%s | Manager.tr used for %s", an.ShortFunc(top), what), c.At(ref), "", "the transport is used outside the single writer sink / terminate: a second writer, reader or closer breaks the frame stream or closes the transport twice")
			}
		})
	}
	c.Floor("uses of Manager.tr", 1, nTr)
	// the constructor's transport parameter
	ctor := c.Fn("drpcmanager", "NewWithOptions")
	nw := a.obj("drpcwire", "NewWriter")
	nr := a.obj("drpcwire", "NewReaderWithOptions")
	for _, p := range ctor.Params {
		if p.Name() != "tr" {
			continue
		}
		t := an.FlowFrom(ctor, p)
		for _, s := range t.Sinks {
			okUse, what := false, ""
			switch r := s.Instr.(type) {
			case *ssa.Store:
				fv := an.PathOf(r.Addr).Last()
				okUse = fv != nil && fv.Origin() == trF.Origin()
				what = "stored to " + an.R(r.Addr)
			case *ssa.MakeInterface, *ssa.ChangeInterface:
				okUse = true
				v := s.Instr.(ssa.Value)
				for _, ref := range *v.Referrers() {
					if call, ok := ref.(*ssa.Call); ok {
						what = "passed to " + an.Render(call, 2)
						if an.IsCallTo(call.Common(), nr) {
							continue
						}
						if an.IsCallTo(call.Common(), nw) {
							continue // C05.R9 decides whether the raw transport may be the sink
						}
						okUse = false
					} else if st, ok := ref.(*ssa.Store); ok {
						fv := an.PathOf(st.Addr).Last()
						if fv == nil || fv.Origin() != trF.Origin() {
							okUse = false
							what = "stored to " + an.R(st.Addr)
						}
					}
				}
			default:
				what = s.Instr.String()
			}
			c.Check(okUse, "drpcmanager.NewWithOptions | transport parameter "+what, c.At(s.Instr), "", "the transport escapes to something other than the manager, its reader and its writer sink")
		}
	}
	// sink / source access inside drpcwire
	nIO := 0
	for _, fn := range must(c.P.SourceFuncs("drpcwire")) {
		an.Instrs(fn, func(in ssa.Instruction) {
			call, ok := in.(*ssa.Call)
			if !ok || !call.Common().IsInvoke() {
				return
			}
			cc := call.Common()
			if isLoadOfField(cc.Value, rF) {
				nIO++
				c.Check(an.FuncObjOf(fn) == readFn && cc.Method.Name() == "Read", fmt.Sprintf("%s | Reader.r.%s", an.ShortFunc(fn), cc.Method.Name()), c.At(in), "", "the reader's source is used outside Reader.read")
			}
			if isLoadOfField(cc.Value, wF) {
				nIO++
				name := an.ShortFunc(fn)
				c.Check(cc.Method.Name() == "Write" && (name == "(*Writer).WriteFrame" || name == "(*Writer).Flush" || fn.Signature.Recv() != nil), fmt.Sprintf("%s | Writer.w.%s", name, cc.Method.Name()), c.At(in), "", "the writer's sink is used outside the Writer")
			}
		})
	}
	c.Floor("sink/source calls in drpcwire", 1, nIO)
	// callers of ReadPacketUsing and Reader.read; go statements
	nCallers, nGo := 0, map[*types.Func]int{}
	for _, pkg := range c.P.ModulePackages() {
		if !libraryPkg(c.P, pkg) {
			continue
		}
		for _, fn := range must(c.P.SourceFuncs(pkg)) {
			top := fn
			for top.Parent() != nil {
				top = top.Parent()
			}
			for _, cs := range an.CallsTo(fn, false, readPkt) {
				nCallers++
				name := an.ShortFunc(top)
				ok := an.FuncObjOf(top) == mgrReader || name == "(*Reader).ReadPacket"
				c.Check(ok, "ReadPacketUsing called from "+name, c.At(cs.Instr), "", "a second reader of the connection's Reader: two reads can be in flight and frames are split between them")
			}
			for _, cs := range an.CallsTo(fn, false, readFn) {
				c.Check(an.FuncObjOf(top) == readPkt, "Reader.read called from "+an.ShortFunc(top), c.At(cs.Instr), "", "Reader.read has a caller other than ReadPacketUsing")
			}
			an.Instrs(fn, func(in ssa.Instruction) {
				g, ok := in.(*ssa.Go)
				if !ok {
					return
				}
				obj := an.CalleeObj(g.Common())
				if obj == mgrReader || obj == mgrStreams {
					nGo[obj]++
					c.Check(an.ShortFunc(top) == "NewWithOptions" && !inLoop(in.Block()), fmt.Sprintf("go %s started in %s", obj.Name(), an.ShortFunc(top)), c.At(in), "", "a connection goroutine is started outside the constructor or in a loop")
				}
			})
		}
	}
	c.Floor("ReadPacketUsing callers", 1, nCallers)
	c.Check(nGo[mgrReader] == 1, "exactly one `go manageReader`", c.P.Pos(ctor.Pos()), fmt.Sprint(nGo[mgrReader]), fmt.Sprintf("manageReader is started %d times: two transport reads can be in flight", nGo[mgrReader]))
	c.Check(nGo[mgrStreams] == 1, "exactly one `go manageStreams`", c.P.Pos(ctor.Pos()), fmt.Sprint(nGo[mgrStreams]), fmt.Sprintf("manageStreams is started %d times", nGo[mgrStreams]))
}

// inLoop reports whether the block lies on a CFG cycle.
func inLoop(b *ssa.BasicBlock) bool {
	seen := map[*ssa.BasicBlock]bool{}
	stack := append([]*ssa.BasicBlock{}, b.Succs...)
	for len(stack) > 0 {
		x := stack[len(stack)-1]
		stack = stack[:len(stack)-1]
		if x == b {
			return true
		}
		if seen[x] {
			continue
		}
		seen[x] = true
		stack = append(stack, x.Succs...)
	}
	return false
}

func c07r2(c *an.Ctx) {
	a := A(c)
	frameT := must(c.P.Named("drpcwire", "Frame"))
	newFrame := a.obj("drpcstream", "(*Stream).newFrameLocked")
	wapi := writerAPI(c)
	frDone := a.field("drpcwire", "Frame", "Done")
	frID := a.field("drpcwire", "Frame", "ID")
	frKind := a.field("drpcwire", "Frame", "Kind")
	// (a) composite Frame literals in drpcstream only in newFrameLocked
	n := 0
	for _, fn := range must(c.P.SourceFuncs("drpcstream")) {
		an.Instrs(fn, func(in ssa.Instruction) {
			al, ok := in.(*ssa.Alloc)
			if !ok || al.Comment != "complit" || !types.Identical(deref(al.Type()), frameT) {
				return
			}
			n++
			c.Check(an.FuncObjOf(fn) == newFrame, fmt.Sprintf("%s | constructs a drpcwire.Frame", an.ShortFunc(fn)), c.At(in), "", "a frame is constructed outside newFrameLocked: its id does not come from the stream's locked message counter")
		})
	}
	c.Floor("Frame literals in drpcstream", 1, n)
	// (b) every WriteFrame argument in drpcstream originates from newFrameLocked in the same function,
	//     and between newFrameLocked and WriteFrame only Data/Done/Control are assigned (one kind, one id per message)
	nW := 0
	for _, fn := range must(c.P.SourceFuncs("drpcstream")) {
		var emitSites []an.CallSite
		for _, m := range wapi.Emit {
			emitSites = append(emitSites, an.CallsTo(fn, false, m)...)
		}
		for _, cs := range emitSites {
			nW++
			arg := an.Arg(cs.Common(), 0)
			ld, ok := arg.(*ssa.UnOp)
			var al *ssa.Alloc
			if ok {
				al, _ = ld.X.(*ssa.Alloc)
			}
			if al == nil {
				c.Bad(fmt.Sprintf("%s | WriteFrame argument is a local Frame variable", an.ShortFunc(fn)), c.At(cs.Instr), "cannot trace the frame passed to WriteFrame: "+an.R(arg))
				continue
			}
			fromNew, idWritten := false, false
			for _, ref := range *al.Referrers() {
				switch r := ref.(type) {
				case *ssa.Store:
					if r.Addr == ssa.Value(al) {
						if call, ok := r.Val.(*ssa.Call); ok && an.IsCallTo(call.Common(), newFrame) {
							fromNew = true
						} else {
							idWritten = true
						}
					}
				case *ssa.FieldAddr:
					fv := an.PathOf(r).Last()
					for _, r2 := range *r.Referrers() {
						if st, ok := r2.(*ssa.Store); ok && st.Addr == ssa.Value(r) {
							if fv.Origin() == frID.Origin() || fv.Origin() == frKind.Origin() {
								idWritten = true
							}
						}
					}
				}
			}
			c.Check(fromNew, fmt.Sprintf("%s | frame comes from newFrameLocked", an.ShortFunc(fn)), c.At(cs.Instr), "", "the frame written was not produced by newFrameLocked")
			c.Check(!idWritten, fmt.Sprintf("%s | frame id and kind are not modified after newFrameLocked", an.ShortFunc(fn)), c.At(cs.Instr), "", "a frame's id or kind is changed between frames of one message: one id would carry two kinds / ids would repeat")
		}
	}
	c.Floor("WriteFrame calls in drpcstream", 1, nW)
	// (c) sendPacketLocked: Done = true
	spl := c.Fn("drpcstream", "(*Stream).sendPacketLocked")
	okDone := false
	for _, st := range fieldStores(spl, frDone) {
		if cst, ok := st.Val.(*ssa.Const); ok && cst.Value != nil && cst.Value.String() == "true" {
			okDone = true
		}
	}
	c.Check(okDone, "(*Stream).sendPacketLocked | the packet is a single done frame", c.P.Pos(spl.Pos()), "", "terminal packets are not marked done: the peer never completes them")
	// (d) newFrameLocked bumps Message then builds the frame from s.id
	nf := c.Fn("drpcstream", "(*Stream).newFrameLocked")
	idMsg := a.field("drpcwire", "ID", "Message")
	bumped := false
	for _, st := range fieldStores(nf, idMsg) {
		if b, ok := st.Val.(*ssa.BinOp); ok && b.Op.String() == "+" {
			if k, ok := an.ConstInt(b.Y); ok && k == 1 && isLoadOfField(b.X, idMsg) {
				bumped = true
			}
		}
	}
	c.Check(bumped, "(*Stream).newFrameLocked | message id incremented by one per packet", c.P.Pos(nf.Pos()), "", "message ids are not strictly increasing within a stream")
}
