// Package rules holds the per-property rule tables.
package rules

import (
	"fmt"
	"runtime/debug"
	"sort"

	"verif/sa/internal/an"
)

// Rule is one rule instance family of a property.
type Rule struct {
	ID  string
	Doc string
	Run func(c *an.Ctx)
	// Alias names a rule of another property that this rule re-runs under
	// its own id (mechanisms shared between properties).
	Alias string
	Tier  string // "" = both tiers; "thorough" = thorough only
	// Scope: "main" (default) runs on the main module configurations;
	// "sub:<dir>" runs on a sub-module.
	Scope string
}

// Property groups the rules of one property.
type Property struct {
	ID          string
	Level       string
	Technique   string
	Explanation string
	NotDecided  string
	Assumptions []string
	Rules       []Rule
}

var registry = map[string]*Property{}

func register(p *Property) { registry[p.ID] = p }

// Get returns the property's rule table.
func Get(id string) *Property { return registry[id] }

// IDs lists the registered properties.
func IDs() []string {
	var out []string
	for id := range registry {
		out = append(out, id)
	}
	sort.Strings(out)
	return out
}

// RunRules evaluates the rules of a property on one loaded configuration.
// Unresolved anchors and analyser panics become UNDECIDED, never VIOLATION.
func RunRules(prop *Property, p *an.Prog, rep *an.Report, scope string, only string) {
	for _, r := range prop.Rules {
		sc := r.Scope
		if sc == "" {
			sc = "main"
		}
		if sc != scope {
			continue
		}
		if only != "" && r.ID != only {
			continue
		}
		if r.Tier == "thorough" && rep.Tier != "thorough" {
			continue
		}
		runOne(r, p, rep)
	}
}

// resolveAlias fills Run/Doc of an aliased rule.
func resolveAlias(r Rule) Rule {
	if r.Alias == "" {
		return r
	}
	for _, p := range registry {
		for _, o := range p.Rules {
			if o.ID == r.Alias && o.Alias == "" {
				r.Run = o.Run
				if r.Doc == "" {
					r.Doc = "= " + o.ID + ": " + o.Doc
				} else {
					r.Doc = r.Doc + " (= " + o.ID + ")"
				}
				return r
			}
		}
	}
	id := r.Alias
	r.Run = func(c *an.Ctx) { c.Undecided("aliased rule %s not found", id) }
	return r
}

// ResolvedRules returns the rules of a property with aliases resolved.
func ResolvedRules(p *Property) []Rule {
	out := make([]Rule, len(p.Rules))
	for i, r := range p.Rules {
		out[i] = resolveAlias(r)
	}
	return out
}

func runOne(r Rule, p *an.Prog, rep *an.Report) {
	r = resolveAlias(r)
	ctx := &an.Ctx{P: p, Rep: rep, Rule: r.ID}
	ctx.Doc(r.Doc)
	defer func() {
		if e := recover(); e != nil {
			if u, ok := e.(*an.Unresolved); ok {
				ctx.Undecided("%s", u.Error())
				return
			}
			if u, ok := e.(error); ok {
				if ur, ok2 := u.(*an.Unresolved); ok2 {
					ctx.Undecided("%s", ur.Error())
					return
				}
			}
			ctx.Undecided("analyser panic: %v\n%s", e, trim(string(debug.Stack()), 1800))
		}
	}()
	r.Run(ctx)
}

func trim(s string, n int) string {
	if len(s) > n {
		return s[:n] + "…"
	}
	return s
}

func must[T any](v T, err error) T {
	if err != nil {
		panic(err)
	}
	return v
}

var _ = fmt.Sprint
