package rules

// "Tested and then dropped": an error obtained from a call is compared with
// nil and, on the side where it is known to be non-nil, never used again
// (not returned, wrapped, passed on, stored or logged) before it is
// overwritten or the function ends. The comparison states that the error
// matters; the non-nil branch then contradicts it (Engler et al.'s
// contradiction rule). The classic way to get there is a flipped test:
// `if err == nil { return wrap(err) }` returns a nil error on success and
// carries on after a failure.
//
// The instances on the reviewed tree where dropping is intended are frozen in
// errDropReviewed, one reason each.

import (
	"fmt"
	"go/ast"
	"go/token"
	"go/types"
	"sort"
	"strings"

	"golang.org/x/tools/go/ssa"

	"verif/sa/internal/an"
)

type errDrop struct {
	fn     *ssa.Function
	at     ssa.Instruction
	source string // callee (or variable) the error comes from
}

var errorType = types.Universe.Lookup("error").Type()

func isNilConst(v ssa.Value) bool {
	c, ok := v.(*ssa.Const)
	return ok && c.Value == nil
}

// errSource names where the tested error comes from, "" if it is not the result of a call
func errSource(v ssa.Value) (string, *ssa.Alloc) {
	calleeName := func(c *ssa.Call) string {
		if c.Common().IsInvoke() {
			return c.Common().Method.Name()
		}
		if f := c.Common().StaticCallee(); f != nil {
			return an.ShortFunc(f)
		}
		return "a function value"
	}
	switch x := v.(type) {
	case *ssa.Call:
		return calleeName(x), nil
	case *ssa.Extract:
		if c, ok := x.Tuple.(*ssa.Call); ok {
			return calleeName(c), nil
		}
	case *ssa.UnOp:
		if x.Op != token.MUL {
			return "", nil
		}
		a, ok := x.X.(*ssa.Alloc)
		if !ok {
			return "", nil
		}
		// a variable: some store of a call result into it
		for _, r := range *a.Referrers() {
			if st, ok := r.(*ssa.Store); ok && st.Addr == ssa.Value(a) {
				switch st.Val.(type) {
				case *ssa.Call, *ssa.Extract:
					if s, _ := errSource(st.Val); s != "" {
						return s, a
					}
				}
			}
		}
	}
	return "", nil
}

func errDropsIn(prog *an.Prog, fn *ssa.Function) []errDrop {
	var out []errDrop
	for _, b := range fn.Blocks {
		if len(b.Instrs) == 0 {
			continue
		}
		br, ok := b.Instrs[len(b.Instrs)-1].(*ssa.If)
		if !ok {
			continue
		}
		cmp, ok := br.Cond.(*ssa.BinOp)
		if !ok || (cmp.Op != token.EQL && cmp.Op != token.NEQ) {
			continue
		}
		var t ssa.Value
		switch {
		case isNilConst(cmp.Y):
			t = cmp.X
		case isNilConst(cmp.X):
			t = cmp.Y
		default:
			continue
		}
		if !types.Identical(t.Type(), errorType) {
			continue
		}
		src, alloc := errSource(t)
		if src == "" {
			continue
		}
		if _, ok := t.(*ssa.Call); ok && prog != nil && comparesCallDirectly(prog, cmp) {
			continue // `x.Err() != nil` written as a predicate: the value was never bound to a name
		}
		nonNil := b.Succs[0]
		if cmp.Op == token.EQL {
			nonNil = b.Succs[1]
		}
		// an error that was already consumed on the way here (an earlier test handled it) is not dropped by a later
		// test of the same value: `if err != nil { handle(err) }; if err == nil && more { ... }`
		reachesTest := func(from *ssa.BasicBlock) bool {
			seen := map[*ssa.BasicBlock]bool{}
			var walk func(x *ssa.BasicBlock) bool
			walk = func(x *ssa.BasicBlock) bool {
				if x == b {
					return true
				}
				if seen[x] {
					return false
				}
				seen[x] = true
				for _, sc := range x.Succs {
					if walk(sc) {
						return true
					}
				}
				return false
			}
			return from != b && walk(from)
		}
		isNilTestUse := func(r ssa.Instruction) bool {
			c2, ok := r.(*ssa.BinOp)
			return ok && (c2.Op == token.EQL || c2.Op == token.NEQ) && (isNilConst(c2.X) || isNilConst(c2.Y))
		}
		consumedBefore := false
		if alloc == nil {
			for _, r := range *t.Referrers() {
				if _, dbg := r.(*ssa.DebugRef); dbg || isNilTestUse(r) || r.Block() == nil {
					continue
				}
				if _, isPhi := r.(*ssa.Phi); isPhi {
					continue
				}
				if reachesTest(r.Block()) {
					consumedBefore = true
				}
			}
		} else {
			for _, r := range *alloc.Referrers() {
				ld, ok := r.(*ssa.UnOp)
				if !ok || ld.Op != token.MUL || ld == t {
					continue
				}
				realUse := false
				for _, r2 := range *ld.Referrers() {
					if _, dbg := r2.(*ssa.DebugRef); !dbg && !isNilTestUse(r2) {
						realUse = true
					}
				}
				if realUse && reachesTest(ld.Block()) {
					consumedBefore = true
				}
			}
		}
		if consumedBefore {
			continue
		}
		// blocks reachable from the non-nil successor
		used := false
		if alloc == nil {
			reach := map[*ssa.BasicBlock]bool{}
			var walk func(x *ssa.BasicBlock)
			// a way that comes back to the definition (a loop) leads to the next iteration's value, not to this one
			var defBlock *ssa.BasicBlock
			if in, ok := t.(ssa.Instruction); ok {
				defBlock = in.Block()
			}
			walk = func(x *ssa.BasicBlock) {
				if reach[x] || x == defBlock {
					return
				}
				reach[x] = true
				for _, s := range x.Succs {
					walk(s)
				}
			}
			walk(nonNil)
			for _, r := range *t.Referrers() {
				if r == ssa.Instruction(cmp) {
					continue
				}
				if _, dbg := r.(*ssa.DebugRef); dbg {
					continue
				}
				if phi, ok := r.(*ssa.Phi); ok {
					for i, e := range phi.Edges {
						if e != t {
							continue
						}
						p := phi.Block().Preds[i]
						if reach[p] || (p == b && phi.Block() == nonNil) {
							used = true
						}
					}
					continue
				}
				if c2, ok := r.(*ssa.BinOp); ok && (c2.Op == token.EQL || c2.Op == token.NEQ) && (isNilConst(c2.X) || isNilConst(c2.Y)) {
					continue // another nil test is not a use
				}
				if reach[r.Block()] {
					used = true
				}
			}
		} else {
			captured := false
			for _, r := range *alloc.Referrers() {
				if _, ok := r.(*ssa.MakeClosure); ok {
					captured = true
				}
			}
			seen := map[*ssa.BasicBlock]bool{}
			var walk func(x *ssa.BasicBlock)
			walk = func(x *ssa.BasicBlock) {
				if seen[x] || used {
					return
				}
				seen[x] = true
				for _, in := range x.Instrs {
					switch y := in.(type) {
					case *ssa.UnOp:
						if y.Op == token.MUL && y.X == ssa.Value(alloc) {
							// a load that only feeds another nil test is not a use
							onlyTests := true
							for _, r := range *y.Referrers() {
								c2, ok := r.(*ssa.BinOp)
								if !ok || !(c2.Op == token.EQL || c2.Op == token.NEQ) || !(isNilConst(c2.X) || isNilConst(c2.Y)) {
									if _, dbg := r.(*ssa.DebugRef); !dbg {
										onlyTests = false
									}
								}
							}
							if !onlyTests || len(*y.Referrers()) == 0 {
								used = true
								return
							}
						}
					case *ssa.Store:
						if y.Addr == ssa.Value(alloc) {
							return // overwritten on this path
						}
					case *ssa.MakeClosure:
						for _, bnd := range y.Bindings {
							if bnd == ssa.Value(alloc) {
								used = true
								return
							}
						}
					case *ssa.RunDefers, *ssa.Return:
						if captured {
							used = true
							return
						}
					case ssa.CallInstruction:
						for _, a := range y.Common().Args {
							if a == ssa.Value(alloc) {
								used = true
								return
							}
						}
					}
				}
				for _, s := range x.Succs {
					walk(s)
				}
			}
			walk(nonNil)
		}
		if !used {
			out = append(out, errDrop{fn: fn, at: br, source: src})
		}
	}
	return out
}

// comparesCallDirectly: the comparison is written with the call itself as its
// operand (`ctx.Err() != nil`), not with a variable the result was bound to.
func comparesCallDirectly(p *an.Prog, cmp *ssa.BinOp) bool {
	f := p.FileOf(cmp.Pos())
	if f == nil {
		return false
	}
	direct := false
	ast.Inspect(f, func(n ast.Node) bool {
		if n == nil || direct {
			return false
		}
		if n.Pos() > cmp.Pos() || n.End() <= cmp.Pos() {
			return false
		}
		if be, ok := n.(*ast.BinaryExpr); ok && be.OpPos == cmp.Pos() {
			strip := func(e ast.Expr) ast.Expr {
				for {
					pe, ok := e.(*ast.ParenExpr)
					if !ok {
						return e
					}
					e = pe.X
				}
			}
			if _, isCall := strip(be.X).(*ast.CallExpr); isCall {
				direct = true
			}
			if _, isCall := strip(be.Y).(*ast.CallExpr); isCall {
				direct = true
			}
		}
		return true
	})
	return direct
}

// errDropReviewed: instances on the reviewed tree where an error is tested and
// deliberately not used on its non-nil side. Keyed by function and source.
var errDropReviewed = map[string]string{
	"(wrapper).ServeHTTP | Context":         "a malformed metadata header is ignored on purpose: the request proceeds without metadata",
	"(*twirpStream).Finish | MarshalIndent": "a failure to encode the error body is answered with a bare 500; there is nothing else to send",
	"(*ListenMux).routeConn | ReadFull":     "a connection that fails before its prefix is read is closed; nobody is waiting for it",
}

// errDropRule checks the packages given (paths relative to the module).
func errDropRule(c *an.Ctx, pkgs ...string) {
	nTests := 0
	for _, p := range pkgs {
		fns, err := c.P.SourceFuncs(p)
		if err != nil {
			panic(err)
		}
		nDrop := 0
		defer func(p string, n *int) {
			if *n == 0 {
				c.Check(true, p+" | no error is tested and then dropped", "-", "", "")
			}
		}(p, &nDrop)
		for _, top := range fns {
			for _, fn := range an.WithAnon(top) {
				c.Analysed(fn)
				for _, b := range fn.Blocks {
					if len(b.Instrs) == 0 {
						continue
					}
					if br, ok := b.Instrs[len(b.Instrs)-1].(*ssa.If); ok {
						if cmp, ok := br.Cond.(*ssa.BinOp); ok && (isNilConst(cmp.X) || isNilConst(cmp.Y)) {
							if s, _ := errSource(cmp.X); s != "" && types.Identical(cmp.X.Type(), errorType) {
								nTests++
							} else if s, _ := errSource(cmp.Y); s != "" && types.Identical(cmp.Y.Type(), errorType) {
								nTests++
							}
						}
					}
				}
				drops := errDropsIn(c.P, fn)
				sort.Slice(drops, func(i, j int) bool { return drops[i].at.Pos() < drops[j].at.Pos() })
				nDrop += len(drops)
				for _, d := range drops {
					key := fmt.Sprintf("%s | error of %s tested and then dropped on its non-nil side", an.ShortFunc(top), d.source)
					if why, ok := errDropReviewed[an.ShortFunc(top)+" | "+d.source]; ok {
						c.Check(true, key, c.At(d.at), "reviewed: "+why, "")
						continue
					}
					c.Bad(key, c.At(d.at), "the error is compared with nil and, where it is known to be non-nil, it is never returned, wrapped, passed on or stored before it is overwritten or the function ends: a failure of "+d.source+" is silently turned into success (typically a flipped test: `if err == nil { return wrap(err) }`)")
				}
			}
		}
	}
	c.Floor("nil tests of call errors examined", 1, nTests)
}

// errPassRule: a function that is handed an error and returns an error (a
// filter such as checkCancelError, a wrapper such as WithCode) does not return
// a constant nil on a way where its argument may be non-nil: that would turn
// every failure passed through it into success.
func errPassRule(c *an.Ctx, pkgs ...string) {
	n := 0
	for _, p := range pkgs {
		fns, err := c.P.SourceFuncs(p)
		if err != nil {
			panic(err)
		}
		for _, fn := range fns {
			sig := fn.Signature
			if sig.Results().Len() == 0 || !types.Identical(sig.Results().At(sig.Results().Len()-1).Type(), errorType) {
				continue
			}
			var ep *ssa.Parameter
			cnt := 0
			for _, prm := range fn.Params {
				if types.Identical(prm.Type(), errorType) {
					ep = prm
					cnt++
				}
			}
			if cnt != 1 || len(fn.Blocks) == 0 {
				continue
			}
			// only filters: some return hands the parameter (or a value computed from it) back
			passes := false
			for _, ret := range an.Returns(fn) {
				v := ret.Results[len(ret.Results)-1]
				if v == ssa.Value(ep) {
					passes = true
				}
				if call, ok := v.(*ssa.Call); ok {
					for _, a := range call.Common().Args {
						if a == ssa.Value(ep) {
							passes = true
						}
					}
				}
				if phi, ok := v.(*ssa.Phi); ok {
					for _, e := range phi.Edges {
						if e == ssa.Value(ep) {
							passes = true
						}
					}
				}
			}
			uses := 0
			for _, r := range *ep.Referrers() {
				if _, dbg := r.(*ssa.DebugRef); !dbg {
					uses++
				}
			}
			if !passes && uses > 0 {
				continue
			}
			n++
			c.Analysed(fn)
			key := an.ShortFunc(fn) + " | never returns a constant nil for an argument that may be an error"
			if uses == 0 {
				c.Bad(key, c.P.Pos(fn.Pos()), "the error handed to this function is not used at all: whatever it returns, the failure it was given is lost")
				continue
			}
			bad := ""
			for _, ret := range an.Returns(fn) {
				if !retReachable(fn, ret) {
					continue
				}
				v := ret.Results[len(ret.Results)-1]
				check := func(v ssa.Value, gs []an.Guard) {
					if !isNilConst(v) {
						return
					}
					for _, g := range gs {
						if cmp, ok := an.CmpOf(g); ok && cmp.Op == token.EQL && ((cmp.X == ssa.Value(ep) && isNilConst(cmp.Y)) || (cmp.Y == ssa.Value(ep) && isNilConst(cmp.X))) {
							return
						}
					}
					bad = c.At(ret)
				}
				if phi, ok := v.(*ssa.Phi); ok {
					for i, e := range phi.Edges {
						check(e, an.GuardsOfEdge(phi.Block().Preds[i], phi.Block()))
					}
					continue
				}
				check(v, an.GuardsOf(ret.Block()))
			}
			pos := c.P.Pos(fn.Pos())
			if bad != "" {
				pos = bad
			}
			c.Check(bad == "", key, pos, "", "a return yields nil without having seen that the error it was given is nil: every failure passed through this function becomes success")
		}
	}
	c.Floor("error-to-error functions", 1, n)
}

// disciplineRules are the two generic obligations every behavioural property
// needs of the packages it is anchored in: error discipline (E1) and lock
// pairing (L1).
func disciplineRules(prop string, pkgs ...string) []Rule {
	scope := strings.Join(pkgs, ", ")
	return []Rule{
		{ID: prop + ".E1", Doc: "error discipline in " + scope + ": no error obtained from a call is compared with nil and then dropped on its non-nil side (reviewed exceptions listed in the rule)", Run: func(c *an.Ctx) { errDropRule(c, pkgs...) }},
		{ID: prop + ".L1", Doc: "lock pairing in " + scope + ": a mutex locked in a function is released on every return; only unexported helpers that hold it on all their returns hand it to their (checked) callers", Run: func(c *an.Ctx) { lockLeakRule(c, pkgs...) }},
	}
}
