package rules

import (
	"fmt"
	"go/token"
	"go/types"
	"sort"
	"strings"

	"golang.org/x/tools/go/ssa"

	"verif/sa/internal/an"
)

// Wake-up completeness for a mutex+condition-variable protected struct, independent of how many condition
// variables it has and of what its fields are called.
//
// A wait loop `for cond { c.Wait() }` is read off the program: the condition variable it waits on, and for every
// field the loop tests, the value on which the loop can be left without waiting again ("exit value": the side of
// the test from which a way out of the loop exists that does not pass the Wait). A store to a field can release
// the waiters of a loop only if it writes that field's exit value (or a value that cannot be told apart from it).
// The rule: after such a store, the loop's condition variable is broadcast before the function returns, waits or
// unlocks. A store that cannot release anybody (held = true where everybody waits for held == false) needs nothing.

type waitLoop struct {
	fn    *ssa.Function
	wait  *ssa.Call
	cond  *types.Var            // the sync.Cond field waited on
	exits map[*types.Var]string // tested field -> "true" | "false" | "nil" | "nonnil" | "any"
}

func condFieldOf(cc *ssa.CallCommon) *types.Var {
	r := an.Recv(cc)
	if r == nil {
		return nil
	}
	if fv := an.PathOf(r).Last(); fv != nil {
		return fv.Origin()
	}
	return nil
}

// waitLoopsOf finds the wait loops in the methods of the named struct type.
func waitLoopsOf(c *an.Ctx, pkg, typeName string) []waitLoop {
	a := A(c)
	condWait := a.obj("sync", "(*Cond).Wait")
	T := must(c.P.Named(pkg, typeName))
	var out []waitLoop
	for _, fn := range must(c.P.SourceFuncs(pkg)) {
		if fn.Signature.Recv() == nil || !types.Identical(deref(fn.Signature.Recv().Type()), T) {
			continue
		}
		loops := an.Loops(fn)
		an.Instrs(fn, func(in ssa.Instruction) {
			call, ok := in.(*ssa.Call)
			if !ok || !an.IsCallTo(call.Common(), condWait) {
				return
			}
			wl := waitLoop{fn: fn, wait: call, cond: condFieldOf(call.Common()), exits: map[*types.Var]string{}}
			// the innermost loop containing the wait
			var L *an.Loop
			for _, l := range loops {
				if l.Blocks[call.Block()] && (L == nil || len(l.Blocks) < len(L.Blocks)) {
					L = l
				}
			}
			if L == nil {
				out = append(out, wl) // a wait outside a loop: released by anything
				return
			}
			// the tests of the loop: block -> (field, kind, polarity)
			type test struct {
				f    *types.Var
				kind string // bool | nil
				neg  bool   // the branch condition is the negation of "field is true / field is nil"
			}
			tests := map[*ssa.BasicBlock]test{}
			var fields []*types.Var
			for b := range L.Blocks {
				if len(b.Instrs) == 0 {
					continue
				}
				br, isIf := b.Instrs[len(b.Instrs)-1].(*ssa.If)
				if !isIf {
					continue
				}
				cond, neg := an.StripNot(br.Cond)
				var f *types.Var
				kind := ""
				if x, trueNonNil, isNil := nilTestOf(cond); isNil {
					if ld, isLd := an.Unwrap(x).(*ssa.UnOp); isLd && ld.Op == token.MUL {
						f = an.PathOf(ld.X).Last()
					}
					kind = "nil"
					if trueNonNil {
						neg = !neg
					}
				} else if ld, isLd := cond.(*ssa.UnOp); isLd && ld.Op == token.MUL {
					f = an.PathOf(ld.X).Last()
					kind = "bool"
				}
				if f == nil {
					continue
				}
				f = f.Origin()
				tests[b] = test{f, kind, neg}
				known := false
				for _, g := range fields {
					if g == f {
						known = true
					}
				}
				if !known {
					fields = append(fields, f)
				}
			}
			sort.Slice(fields, func(i, j int) bool { return fields[i].Name() < fields[j].Name() })
			if len(fields) > 6 {
				out = append(out, wl)
				return
			}
			// may the loop, entered at its header with the fields as assigned, wait / leave?
			run := func(assign map[*types.Var]bool) (mayWait, mayExit bool) {
				seen := map[*ssa.BasicBlock]bool{}
				var walk func(b *ssa.BasicBlock, first bool)
				walk = func(b *ssa.BasicBlock, first bool) {
					if !L.Blocks[b] {
						mayExit = true
						return
					}
					if b == call.Block() || (b == L.Header && !first) {
						mayWait = true
						return
					}
					if seen[b] {
						return
					}
					seen[b] = true
					if t, isTest := tests[b]; isTest {
						v := assign[t.f] // true: the field is true / nil
						if t.neg {
							v = !v
						}
						if v {
							walk(b.Succs[0], false)
						} else {
							walk(b.Succs[1], false)
						}
						return
					}
					for _, sc := range b.Succs {
						walk(sc, false)
					}
				}
				walk(L.Header, true)
				return
			}
			for _, f := range fields {
				kind := "bool"
				for _, t := range tests {
					if t.f == f {
						kind = t.kind
					}
				}
				// v releases if for some values of the other fields the loop may wait with f = !v and may leave with f = v
				rel := map[bool]bool{}
				for mask := 0; mask < 1<<uint(len(fields)); mask++ {
					assign := map[*types.Var]bool{}
					for k, g := range fields {
						assign[g] = mask&(1<<uint(k)) != 0
					}
					v := assign[f]
					_, exitV := run(assign)
					assign[f] = !v
					waitNotV, _ := run(assign)
					if exitV && waitNotV {
						rel[v] = true
					}
				}
				name := map[string][2]string{"bool": {"true", "false"}, "nil": {"nil", "nonnil"}}[kind]
				switch {
				case rel[true] && rel[false]:
					wl.exits[f] = "any"
				case rel[true]:
					wl.exits[f] = name[0]
				case rel[false]:
					wl.exits[f] = name[1]
				default:
					wl.exits[f] = "none"
				}
			}
			out = append(out, wl)
		})
	}
	return out
}

// releasedBy: which condition variables have waiters that the store may release.
func releasedBy(st *ssa.Store, loops []waitLoop) []*types.Var {
	fv := an.PathOf(st.Addr).Last()
	if fv == nil {
		return nil
	}
	f := fv.Origin()
	wrote := "unknown"
	if cst, ok := st.Val.(*ssa.Const); ok {
		switch {
		case cst.Value == nil:
			wrote = "nil"
		case cst.Value.String() == "true":
			wrote = "true"
		case cst.Value.String() == "false":
			wrote = "false"
		}
	}
	set := map[*types.Var]bool{}
	for _, wl := range loops {
		exit, tested := wl.exits[f]
		if len(wl.exits) == 0 {
			tested, exit = true, "any"
		}
		if !tested || wl.cond == nil {
			continue
		}
		may := exit == "any" || wrote == "unknown" || exit == wrote || (exit == "nonnil" && wrote != "nil")
		if exit == "none" {
			may = false
		}
		if may {
			set[wl.cond] = true
		}
	}
	var out []*types.Var
	for v := range set {
		out = append(out, v)
	}
	sort.Slice(out, func(i, j int) bool { return out[i].Name() < out[j].Name() })
	return out
}

// wakeupCompleteness checks every method of the type; construct keys are "<method> | state change followed by Broadcast".
func wakeupCompleteness(c *an.Ctx, pkg, typeName string, methods []string, redundant func(fn *ssa.Function, st *ssa.Store) bool) {
	a := A(c)
	condWait := a.obj("sync", "(*Cond).Wait")
	condBroadcast := a.obj("sync", "(*Cond).Broadcast")
	loops := waitLoopsOf(c, pkg, typeName)
	var desc []string
	for _, wl := range loops {
		var fs []string
		for f, v := range wl.exits {
			fs = append(fs, f.Name()+"→"+v)
		}
		sort.Strings(fs)
		cn := "?"
		if wl.cond != nil {
			cn = wl.cond.Name()
		}
		desc = append(desc, fmt.Sprintf("%s waits on %s until %s", an.ShortFunc(wl.fn), cn, strings.Join(fs, ",")))
	}
	sort.Strings(desc)
	c.Note("wait loops of %s: %s", typeName, strings.Join(desc, "; "))
	c.Floor("wait loops of "+typeName, 1, len(loops))
	for _, name := range methods {
		fn := c.Fn(pkg, name)
		flow := &an.Flow{Fn: fn, Inline: an.InlineSamePackage(fn), Init: []string{""}, Step: func(st string, in ssa.Instruction) []string {
			switch x := in.(type) {
			case *ssa.Store:
				out := st
				if redundant != nil && redundant(fn, x) {
					return nil // writes the value the field is known to have: nothing changes for anybody
				}
				for _, cv := range releasedBy(x, loops) {
					out = addTag(out, "wake:"+cv.Name())
				}
				if out != st {
					return []string{out}
				}
			case ssa.CallInstruction:
				if _, isDefer := in.(*ssa.Defer); isDefer {
					return nil
				}
				if an.IsCallTo(x.Common(), condBroadcast) {
					if cv := condFieldOf(x.Common()); cv != nil {
						return []string{delTag(st, "wake:"+cv.Name())}
					}
				}
			}
			return nil
		}}
		res := flow.Run()
		bad := ""
		var where ssa.Instruction
		an.Instrs(fn, func(in ssa.Instruction) {
			isExit := false
			switch x := in.(type) {
			case *ssa.Return:
				isExit = true
			case *ssa.Call:
				if an.IsCallTo(x.Common(), condWait) {
					isExit = true
				}
				if obj := an.CalleeObj(x.Common()); obj != nil && obj.FullName() == "(*sync.Mutex).Unlock" {
					isExit = true
				}
			}
			if !isExit || !res.Reachable(in.Block()) {
				return
			}
			for _, st := range res.Before(in) {
				for _, t := range splitTags(st) {
					if strings.HasPrefix(t, "wake:") {
						bad, where = strings.TrimPrefix(t, "wake:"), in
					}
				}
			}
		})
		pos := c.P.Pos(fn.Pos())
		if where != nil {
			pos = c.At(where)
		}
		c.Check(bad == "", name+" | state change followed by Broadcast", pos, "", "a "+typeName+" state change that can release waiters of "+bad+" reaches a wait/unlock/return without "+bad+".Broadcast: they are never woken")
	}
}
