package rules

import (
	"sync"

	"golang.org/x/tools/go/ssa"

	"verif/sa/internal/an"
)

// hpParts describes Stream.HandlePacket together with the functions it dispatches to through a closed table of
// handlers indexed by packet kind (an/dyncall.go): what a rule says about "the KindError arm of HandlePacket" holds
// for a block of HandlePacket guarded by pkt.Kind == KindError and for the function registered under KindError alike.
type hpParts struct {
	hp       *ssa.Function
	fns      []*ssa.Function                   // HandlePacket first, then the handlers
	kinds    map[*ssa.Function][]int64         // handler -> the kinds it is registered for
	fallback map[*ssa.Function]*ssa.BasicBlock // handler chosen when no table entry exists -> the block of HandlePacket that chooses it
	calls    []*ssa.Call                       // the dispatching calls in HandlePacket
}

var (
	hpMu    sync.Mutex
	hpCache = map[*an.Prog]*hpParts{}
)

func handlePacketParts(c *an.Ctx) *hpParts {
	hpMu.Lock()
	defer hpMu.Unlock()
	if h := hpCache[c.P]; h != nil {
		return h
	}
	hp := c.Fn("drpcstream", "(*Stream).HandlePacket")
	h := &hpParts{hp: hp, fns: []*ssa.Function{hp}, kinds: map[*ssa.Function][]int64{}, fallback: map[*ssa.Function]*ssa.BasicBlock{}}
	an.Instrs(hp, func(in ssa.Instruction) {
		call, ok := in.(*ssa.Call)
		if !ok || call.Common().IsInvoke() || call.Common().StaticCallee() != nil {
			return
		}
		callees, ok := c.P.DynCallees(call.Common().Value)
		if !ok {
			return
		}
		h.calls = append(h.calls, call)
		for _, f := range callees {
			if len(f.Blocks) == 0 {
				continue
			}
			known := false
			for _, g := range h.fns {
				if g == f {
					known = true
				}
			}
			if known {
				continue
			}
			h.fns = append(h.fns, f)
			if idx, _ := c.P.TableIndex(f); len(idx) > 0 {
				h.kinds[f] = idx
			} else {
				h.fallback[f] = fallbackBlock(call.Common().Value, f, 0)
			}
		}
	})
	hpCache[c.P] = h
	return h
}

// fallbackBlock: the block from which function constant f enters the merged callee value.
func fallbackBlock(v ssa.Value, f *ssa.Function, depth int) *ssa.BasicBlock {
	phi, ok := v.(*ssa.Phi)
	if !ok || depth > 4 {
		return nil
	}
	for i, e := range phi.Edges {
		switch x := e.(type) {
		case *ssa.Function:
			if x == f && i < len(phi.Block().Preds) {
				return phi.Block().Preds[i]
			}
			// a thunk of f
			if x.Synthetic != "" && len(x.Blocks) == 1 {
				for _, in := range x.Blocks[0].Instrs {
					if call, isCall := in.(*ssa.Call); isCall && call.Call.StaticCallee() == f && i < len(phi.Block().Preds) {
						return phi.Block().Preds[i]
					}
				}
			}
		case *ssa.Phi:
			if b := fallbackBlock(x, f, depth+1); b != nil {
				return b
			}
		}
	}
	return nil
}

// inKind: the instruction belongs to the handling of packets of kind k.
func (h *hpParts) inKind(in ssa.Instruction, k int64) bool {
	fn := in.Parent()
	for fn != nil && fn.Parent() != nil {
		fn = fn.Parent()
	}
	if fn == h.hp {
		return guardedByKind(in.Block(), k, true)
	}
	ks := h.kinds[in.Parent()]
	if len(ks) == 0 {
		ks = h.kinds[fn]
	}
	return len(ks) == 1 && ks[0] == k
}

// handledKinds: the kinds with an arm of their own (compared against in HandlePacket, or with a table entry).
func (h *hpParts) tableKinds() map[int64]bool {
	out := map[int64]bool{}
	for _, ks := range h.kinds {
		for _, k := range ks {
			out[k] = true
		}
	}
	return out
}

// argOf: v is parameter number i of a dispatched handler: the values the dispatching calls pass for it.
func (h *hpParts) argsFor(v ssa.Value) []ssa.Value {
	p, ok := v.(*ssa.Parameter)
	if !ok {
		return nil
	}
	fn := p.Parent()
	if _, isHandler := h.kinds[fn]; !isHandler {
		if _, isFb := h.fallback[fn]; !isFb {
			return nil
		}
	}
	idx := -1
	for i, q := range fn.Params {
		if q == p {
			idx = i
		}
	}
	var out []ssa.Value
	for _, call := range h.calls {
		if idx >= 0 && idx < len(call.Common().Args) {
			out = append(out, call.Common().Args[idx])
		}
	}
	return out
}
