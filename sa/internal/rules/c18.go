package rules

import (
	"fmt"
	"go/constant"
	"go/token"
	"go/types"
	"path/filepath"
	"sort"
	"strings"

	"golang.org/x/tools/go/ssa"

	"verif/sa/internal/an"
)

func init() {
	register(&Property{
		ID:        "C18",
		Technique: "the same layout/constant extractors run on the working tree AND on the released storj.io/drpc v0.0.17 sources (loaded from the module cache through internal/backcompat/oldservice) and compared; constant-argument check for new packet kinds; abstract evaluation of the varint size formula over all 65 bit lengths",
		Explanation: "Statically decidable part of 'the wire format stays compatible with released peers', with v0.0.17 itself as the oracle: " +
			"(R1) the frame encoder's item sequence and control-byte bit fields, the decoder's bit fields, and the varint group size / continuation bit / bound extracted from the working tree equal those extracted from v0.0.17; every exported Kind constant of v0.0.17 exists with the same value; the error encoding has the same shape in both; " +
			"(R2) kinds that v0.0.17 does not know (or had reserved) are only ever sent with the control bit set, and the client's invoke sequence uses only kinds v0.0.17 knows; " +
			"(R3) the reader accepts what v0.0.17 accepts at the size boundary: its per-packet limit test is strict and its default limit is the constant v0.0.17 uses; " +
			"(R4) the metadata entry's announced sizes agree with the varint encoder for every bit length 0..64 (so the bytes are the protobuf encoding v0.0.17's generated code expects), plus the metadata layout rule C11.R1; " +
			"plus shared: unknown control packets are ignored by the stream (C03.R7), a control bit on any frame marks the packet (C09.R2), the reader does not park on packets it cannot place (C06.R3).",
		NotDecided:  "identical decoding of all emitted sequences by both readers (behavioural); compatibility of the stream-layer packet sequences beyond the kinds used.",
		Assumptions: []string{"storj.io/drpc v0.0.17 in the module cache is the released source"},
		Rules: []Rule{
			{ID: "C18.R1", Doc: "frame/varint/error codec layouts and Kind values equal those extracted from v0.0.17", Run: c18r1},
			{ID: "C18.R2", Doc: "kinds unknown to (or reserved in) v0.0.17 are sent only with the control bit; the invoke sequence uses only old kinds", Run: c18r2},
			{ID: "C18.R3", Doc: "per-packet size limit: strict comparison, default equal to v0.0.17's constant", Run: c18r3},
			{ID: "C18.R4", Doc: "varintSize(n) equals the number of bytes AppendVarint emits, for every bit length 0..64", Run: c18r4},
			{ID: "C18.S1", Alias: "C11.R1"},
			{ID: "C18.S2", Alias: "C03.R7"},
			{ID: "C18.S3", Alias: "C09.R2"},
			{ID: "C18.S4", Alias: "C08.R2"},
			{ID: "C18.S5", Alias: "C09.R4"},
			{ID: "C18.S6", Doc: "a control packet (or any non-invoke packet) of a stream whose invoke has not been forwarded is dropped, not waited for: unknown control packets sent by a newer peer between the metadata and the invoke do not park the reader", Alias: "C06.R3"},
		},
	})
}

var oldProgCache = map[string]*an.Prog{}

// oldProg loads the released v0.0.17 packages (dependencies of internal/backcompat/oldservice).
func oldProg(c *an.Ctx) *an.Prog {
	dir := filepath.Join(c.P.Cfg.Dir, "internal/backcompat/oldservice")
	sharedMu.Lock()
	p := oldProgCache[dir]
	sharedMu.Unlock()
	if p != nil {
		return p
	}
	p, err := an.Load(an.Config{Dir: dir, Patterns: []string{"./..."}, GOOS: c.P.Cfg.GOOS, GOARCH: c.P.Cfg.GOARCH})
	if err != nil {
		panic(&an.Unresolved{What: "v0.0.17 oracle: " + err.Error()})
	}
	// the oracle's drpc packages must come from the module cache at v0.0.17
	pk := p.ByPath["storj.io/drpc/drpcwire"]
	if pk == nil || pk.Module == nil || pk.Module.Version != "v0.0.17" {
		v := "?"
		if pk != nil && pk.Module != nil {
			v = pk.Module.Version + " " + pk.Module.Dir
		}
		panic(&an.Unresolved{What: "v0.0.17 oracle: storj.io/drpc/drpcwire resolves to " + v})
	}
	p.ModPath = "storj.io/drpc"
	sharedMu.Lock()
	oldProgCache[dir] = p
	sharedMu.Unlock()
	return p
}

func kindConstsOf(p *an.Prog) map[string]int64 {
	kt, err := p.Named("drpcwire", "Kind")
	if err != nil {
		panic(err)
	}
	out := map[string]int64{}
	sc := kt.Obj().Pkg().Scope()
	for _, nm := range sc.Names() {
		if cst, ok := sc.Lookup(nm).(*types.Const); ok && types.Identical(cst.Type(), kt) {
			if v, ok := constant.Int64Val(cst.Val()); ok {
				out[nm] = v
			}
		}
	}
	return out
}

func bitsString(bs []an.Bit) string {
	var s []string
	for _, b := range bs {
		s = append(s, fmt.Sprintf("%s:%#x>>%d", fieldOfSrc(b.Src), b.Mask, b.Shift))
	}
	sort.Strings(s)
	return strings.Join(s, " ")
}

func layoutShape(items []an.Item) string {
	var s []string
	for _, it := range items {
		switch it.Kind {
		case "byte":
			if len(it.Bits) > 0 {
				// a value field shares its byte with constant flag bits that are OR-ed in separately: what it contributes
				// for in-range values is its mask outside those bits (a kind of more than 6 bits is not a kind)
				var flags uint64
				for _, b := range it.Bits {
					if b.Shift == 0 && b.Mask != 0 && b.Mask&(b.Mask-1) == 0 {
						flags |= b.Mask
					}
				}
				bits := append([]an.Bit{}, it.Bits...)
				for i := range bits {
					if bits[i].Shift > 0 {
						bits[i].Mask &^= flags
					}
				}
				s = append(s, "byte{"+bitsString(bits)+"}")
			} else {
				s = append(s, "byte("+it.Src+")")
			}
		default:
			src := it.Src
			src = strings.ReplaceAll(src, "uint64(", "")
			src = strings.TrimSuffix(src, ")")
			s = append(s, it.Kind+"("+fieldOfSrc(src)+")")
		}
	}
	return strings.Join(s, " ")
}

func controlByteLoad(fn *ssa.Function) ssa.Value {
	var ctl ssa.Value
	an.Instrs(fn, func(in ssa.Instruction) {
		if ld, ok := in.(*ssa.UnOp); ok && ld.Op == token.MUL {
			if ia, ok := ld.X.(*ssa.IndexAddr); ok {
				if k, isC := an.ConstInt(ia.Index); isC && k == 0 && ia.X == ssa.Value(fn.Params[0]) {
					ctl = ld
				}
			}
		}
	})
	return ctl
}

func errorCodecShape(p *an.Prog) string {
	me, err1 := p.Func("drpcwire", "MarshalError")
	ue, err2 := p.Func("drpcwire", "UnmarshalError")
	if err1 != nil || err2 != nil {
		return "unresolved"
	}
	var parts []string
	// encoder: what each returned byte string is the concatenation of, however it is put together
	for _, rc := range an.ReturnCases(me) {
		// what is returned for a nil error is not an encoding of an error (v0.0.17 panics there)
		nilInput := false
		for _, g := range rc.Guards {
			if x, trueNonNil, isNil := nilTestOf(g.Cond); isNil && len(me.Params) > 0 && an.Resolve(an.Unwrap(x)) == ssa.Value(me.Params[0]) && g.True != trueNonNil {
				nilInput = true
			}
		}
		if nilInput {
			continue
		}
		ps, ok := concatParts(rc.Vals[0], 0)
		if !ok {
			parts = append(parts, "enc:?")
			continue
		}
		var seq []string
		for _, part := range ps {
			desc := "?" + an.Render(part, 1)
			switch x := part.(type) {
			case *ssa.Alloc:
				// a [N]byte filled by PutUintN
				if at, isArr := deref(x.Type()).Underlying().(*types.Array); isArr {
					an.Instrs(me, func(in ssa.Instruction) {
						call, isCall := in.(*ssa.Call)
						if !isCall {
							return
						}
						obj := an.CalleeObj(call.Common())
						if obj == nil || !strings.HasPrefix(obj.Name(), "PutUint") || !strings.Contains(obj.FullName(), "Endian") {
							return
						}
						if sl, isSl := call.Common().Args[1].(*ssa.Slice); isSl && sl.X == ssa.Value(x) && sl.Low == nil {
							end := "LE"
							if strings.Contains(obj.FullName(), "bigEndian") {
								end = "BE"
							}
							width := strings.TrimPrefix(obj.Name(), "PutUint")
							if fmt.Sprint(at.Len()*8) == width {
								desc = "u" + width + "/" + end
							}
						}
					})
				}
			case *ssa.Call:
				if obj := an.CalleeObj(x.Common()); obj != nil && strings.HasPrefix(obj.Name(), "AppendUint") && strings.Contains(obj.FullName(), "Endian") {
					end := "LE"
					if strings.Contains(obj.FullName(), "bigEndian") {
						end = "BE"
					}
					desc = "u" + strings.TrimPrefix(obj.Name(), "AppendUint") + "/" + end
				}
			}
			if txt, isCall := an.Resolve(an.Unwrap(an.Resolve(part))).(*ssa.Call); isCall && txt.Common().IsInvoke() && txt.Common().Method.Name() == "Error" {
				desc = "text=err.Error()"
			}
			seq = append(seq, desc)
		}
		parts = append(parts, "enc:["+strings.Join(seq, "][")+"]")
	}
	an.Instrs(ue, func(in ssa.Instruction) {
		switch x := in.(type) {
		case *ssa.Call:
			if obj := an.CalleeObj(x.Common()); obj != nil && strings.HasPrefix(obj.Name(), "Uint") && strings.Contains(obj.FullName(), "Endian") {
				end := "LE"
				if strings.Contains(obj.FullName(), "bigEndian") {
					end = "BE"
				}
				rng := "?"
				if sl, isSl := x.Common().Args[1].(*ssa.Slice); isSl {
					rng = an.Render(sl.Low, 1) + ":" + an.Render(sl.High, 1)
				}
				parts = append(parts, "dec:"+obj.Name()+"/"+end+"["+rng+"]")
			}
		case *ssa.Slice:
			if x.X == ssa.Value(ue.Params[0]) && x.High == nil && x.Low != nil {
				parts = append(parts, "dec:text=data["+an.Render(x.Low, 1)+":]")
			}
		}
	})
	sort.Strings(parts)
	return strings.Join(dedupStrings(parts), " ")
}

func dedupStrings(in []string) []string {
	var out []string
	for i, s := range in {
		if i == 0 || s != in[i-1] {
			out = append(out, s)
		}
	}
	return out
}

func c18r1(c *an.Ctx) {
	old := oldProg(c)
	c.Note("oracle: %s", old.ByPath["storj.io/drpc/drpcwire"].Module.Dir)
	// Kind constants
	oldK, newK := kindConstsOf(old), kindConsts(c)
	var names []string
	for n := range oldK {
		names = append(names, n)
	}
	sort.Strings(names)
	nK := 0
	for _, n := range names {
		if !token.IsExported(n) {
			continue
		}
		nK++
		v, ok := newK[n]
		c.Check(ok && v == oldK[n], fmt.Sprintf("Kind | %s = %d as in v0.0.17", n, oldK[n]), "-", "", fmt.Sprintf("v0.0.17 has %s = %d; the working tree has %v (present: %v): old peers would misread this kind", n, oldK[n], v, ok))
	}
	c.Floor("exported Kind constants of v0.0.17", 1, nK)
	// frame encoder layout
	extract := func(p *an.Prog) (enc string, dec string, vc string, err error) {
		af, e1 := p.Func("drpcwire", "AppendFrame")
		pf, e2 := p.Func("drpcwire", "ParseFrame")
		av, e3 := p.Func("drpcwire", "AppendVarint")
		rv, e4 := p.Func("drpcwire", "ReadVarint")
		for _, e := range []error{e1, e2, e3, e4} {
			if e != nil {
				return "", "", "", e
			}
		}
		avObj, _ := p.FuncObj("drpcwire", "AppendVarint")
		items, e := an.EncoderLayout(af, 0, map[*types.Func]bool{avObj: true})
		if e != nil {
			return "", "", "", e
		}
		ctl := controlByteLoad(pf)
		if ctl == nil {
			return "", "", "", fmt.Errorf("no control byte load in ParseFrame")
		}
		ec, dc := varintConsts(av), varintConsts(rv)
		return layoutShape(items), bitsString(an.DecodedBits(pf, ctl)), fmt.Sprintf("enc%v dec%v", ec, dc), nil
	}
	oe, od, ov, err := extract(old)
	if err != nil {
		c.Undecided("cannot extract the v0.0.17 layouts: %v", err)
		return
	}
	ne, nd, nv, err := extract(c.P)
	if err != nil {
		c.Undecided("cannot extract the working tree's layouts: %v", err)
		return
	}
	c.Check(oe == ne, "AppendFrame | emitted layout equals v0.0.17's", "-", ne, "frame encoder layout differs from v0.0.17:\n      v0.0.17: "+oe+"\n      working: "+ne)
	c.Check(od == nd, "ParseFrame | control-byte bit fields equal v0.0.17's", "-", nd, "frame decoder bit fields differ from v0.0.17:\n      v0.0.17: "+od+"\n      working: "+nd)
	c.Check(ov == nv, "varint | group size, mask, continuation bit and bound equal v0.0.17's", "-", nv, "varint constants differ from v0.0.17:\n      v0.0.17: "+ov+"\n      working: "+nv)
	os, ns := errorCodecShape(old), errorCodecShape(c.P)
	c.Check(os == ns && os != "unresolved", "MarshalError/UnmarshalError | shape equals v0.0.17's", "-", ns, "error encoding differs from v0.0.17:\n      v0.0.17: "+os+"\n      working: "+ns)
}

func c18r2(c *an.Ctx) {
	old := oldProg(c)
	sa := streamA(c)
	a := A(c)
	oldK := kindConstsOf(old)
	oldExported := map[int64]string{}
	for n, v := range oldK {
		if token.IsExported(n) {
			oldExported[v] = n
		}
	}
	kt := must(c.P.Named("drpcwire", "Kind"))
	n := 0
	for _, fn := range must(c.P.SourceFuncs("drpcstream")) {
		for _, cs := range an.CallsTo(fn, false, sa.sendPkt) {
			k, isC := an.ConstInt(an.Arg(cs.Common(), 0))
			if !isC {
				c.Bad(an.ShortFunc(fn)+" | terminal packet kind is a constant", c.At(cs.Instr), "cannot decide which kind is sent")
				continue
			}
			n++
			ctl, isB := an.Arg(cs.Common(), 1).(*ssa.Const)
			control := isB && ctl.Value != nil && ctl.Value.String() == "true"
			_, known := oldExported[k]
			name := kindName(c, kt, k)
			if known {
				c.Check(!control, fmt.Sprintf("%s | %s (known to v0.0.17) is sent without the control bit", an.ShortFunc(fn), name), c.At(cs.Instr), "", "a packet v0.0.17 must act on is sent with the control bit: v0.0.17 readers skip control frames, so the peer never sees it")
			} else {
				c.Check(control, fmt.Sprintf("%s | %s (not an exported kind of v0.0.17) is sent with the control bit", an.ShortFunc(fn), name), c.At(cs.Instr), "", "a packet kind v0.0.17 does not know is sent without the control bit: an old peer answers with a protocol error instead of ignoring it")
			}
		}
	}
	c.Floor("terminal packet emissions", 1, n)
	// ... and the helper puts its arguments into the frame it writes: the control bit, the kind, the payload, done
	{
		spl := c.Fn("drpcstream", "(*Stream).sendPacketLocked")
		wapi := writerAPI(c)
		var kindP, ctlP, dataP *ssa.Parameter
		for _, prm := range spl.Params[1:] {
			switch t := prm.Type().(type) {
			case *types.Named:
				if t.Obj().Name() == "Kind" {
					kindP = prm
				}
			case *types.Basic:
				if t.Kind() == types.Bool {
					ctlP = prm
				}
			case *types.Slice:
				dataP = prm
			}
		}
		if kindP == nil || ctlP == nil || dataP == nil {
			panic(&an.Unresolved{What: "the kind/control/payload parameters of " + an.ShortFunc(spl)})
		}
		// the value reaches the named field of a Frame: stored directly, or handed to a function of the package
		// that stores its parameter there (newFrameLocked(kind, control) building the literal)
		var reaches func(fn *ssa.Function, v ssa.Value, field string, depth int) bool
		reaches = func(fn *ssa.Function, v ssa.Value, field string, depth int) bool {
			if depth > 3 {
				return false
			}
			found := false
			an.Instrs(fn, func(in ssa.Instruction) {
				switch x := in.(type) {
				case *ssa.Store:
					// the value itself, or a parameter that lives in memory because a closure (a log line) reads it
					same := x.Val == v
					if ld, isLd := x.Val.(*ssa.UnOp); isLd && ld.Op == token.MUL && !same {
						if al, isAl := ld.X.(*ssa.Alloc); isAl {
							for _, r := range *al.Referrers() {
								if st2, isSt := r.(*ssa.Store); isSt && st2.Addr == ssa.Value(al) && st2.Val == v {
									same = true
								}
							}
						}
					}
					if fa, ok := x.Addr.(*ssa.FieldAddr); ok && same {
						if st, ok := deref(fa.X.Type()).Underlying().(*types.Struct); ok && st.NumFields() > fa.Field {
							if nt, ok := deref(fa.X.Type()).(*types.Named); ok && nt.Obj().Name() == "Frame" && st.Field(fa.Field).Name() == field {
								found = true
							}
						}
					}
				case ssa.CallInstruction:
					callee := x.Common().StaticCallee()
					if callee == nil || callee.Pkg != fn.Pkg || len(callee.Blocks) == 0 {
						return
					}
					for i, a := range x.Common().Args {
						if a == v && i < len(callee.Params) && reaches(callee, callee.Params[i], field, depth+1) {
							found = true
						}
					}
				}
			})
			return found
		}
		emitted, doneTrue := false, false
		an.Instrs(spl, func(in ssa.Instruction) {
			switch x := in.(type) {
			case *ssa.Store:
				if fa, ok := x.Addr.(*ssa.FieldAddr); ok {
					if st, ok := deref(fa.X.Type()).Underlying().(*types.Struct); ok && st.NumFields() > fa.Field {
						if nt, ok := deref(fa.X.Type()).(*types.Named); ok && nt.Obj().Name() == "Frame" && st.Field(fa.Field).Name() == "Done" {
							if k, ok := x.Val.(*ssa.Const); ok && k.Value != nil && k.Value.String() == "true" {
								doneTrue = true
							}
						}
					}
				}
			case ssa.CallInstruction:
				if wapi.emits(x.Common()) {
					emitted = true
				}
			}
		})
		okFrame := emitted && doneTrue && reaches(spl, kindP, "Kind", 0) && reaches(spl, ctlP, "Control", 0) && reaches(spl, dataP, "Data", 0)
		c.Check(okFrame, an.ShortFunc(spl)+" | the frame written carries the kind, control bit and payload it was given, and is marked done", c.P.Pos(spl.Pos()), "",
			"the terminal-packet helper does not copy its control/kind/payload argument into the frame (or does not mark it done): a soft cancel goes out without the control bit (v0.0.17 answers with a protocol error), or the packet never completes")
	}
	// RawWrite kinds used by the client
	rawWrite := a.obj("drpcstream", "(*Stream).RawWrite")
	msgKind := kindConsts(c)["KindMessage"]
	_ = msgKind
	m := 0
	for _, pkg := range []string{"drpcconn", "drpcstream"} {
		for _, fn := range must(c.P.SourceFuncs(pkg)) {
			// every call of a drpcstream function that takes a packet kind as its first argument (RawWrite and the
			// helpers behind it, whatever they are called)
			_ = rawWrite
			var calls []an.CallSite
			an.Instrs(fn, func(in ssa.Instruction) {
				ci, ok := in.(ssa.CallInstruction)
				if !ok {
					return
				}
				callee := ci.Common().StaticCallee()
				if callee == nil || callee.Pkg == nil || callee.Pkg.Pkg.Path() != c.P.ModPath+"/drpcstream" || callee.Signature.Params().Len() == 0 {
					return
				}
				if nt, isN := callee.Signature.Params().At(0).Type().(*types.Named); !isN || nt.Obj().Name() != "Kind" {
					return
				}
				if nameOf(callee) == "newFrameLocked" || nameOf(callee) == "sendPacketLocked" {
					return // terminal/control emissions are checked above
				}
				calls = append(calls, an.CallSite{Instr: ci})
			})
			for _, cs := range calls {
				k, isC := an.ConstInt(an.Arg(cs.Common(), 0))
				if !isC {
					continue // pass-through of a caller's kind
				}
				m++
				_, known := oldExported[k]
				c.Check(known, fmt.Sprintf("%s | data packet kind %s is known to v0.0.17", an.ShortFunc(fn), kindName(c, kt, k)), c.At(cs.Instr), "", "a non-control packet of a kind v0.0.17 does not know is written")
			}
		}
	}
	c.Floor("constant-kind writes", 1, m)
}

func c18r3(c *an.Ctx) {
	old := oldProg(c)
	// v0.0.17's constant: the comparison len(pkt.Data) > K in its ReadPacket
	orp, err := old.Func("drpcwire", "(*Reader).ReadPacket")
	if err != nil {
		panic(err)
	}
	var oldLimit int64 = -1
	oldStrict := false
	an.Instrs(orp, func(in ssa.Instruction) {
		b, ok := in.(*ssa.BinOp)
		if !ok || (b.Op != token.GTR && b.Op != token.GEQ) {
			return
		}
		if k, isC := an.ConstInt(b.Y); isC && k >= 1<<16 && lenOperand(b.X) != nil {
			oldLimit, oldStrict = k, b.Op == token.GTR
		}
	})
	if oldLimit < 0 {
		c.Undecided("cannot find v0.0.17's packet size limit")
		return
	}
	c.Note("v0.0.17 rejects a packet when len(pkt.Data) %s %d", map[bool]string{true: ">", false: ">="}[oldStrict], oldLimit)
	ra := readerA(c)
	n := 0
	an.Instrs(ra.fn, func(in ssa.Instruction) {
		br, ok := in.(*ssa.If)
		if !ok {
			return
		}
		fields, _, ok := ra.limitTest(br.Cond)
		if !ok || !has(fields, ra.pkData) {
			return
		}
		n++
		b := br.Cond.(*ssa.BinOp)
		strict := (b.Op == token.GTR && isLoadOfField(b.Y, ra.maxF)) || (b.Op == token.LSS && isLoadOfField(b.X, ra.maxF))
		c.Check(strict == oldStrict, "ReadPacketUsing | per-packet limit is strict like v0.0.17's", c.At(in), "", "the boundary case differs from v0.0.17: a packet of exactly the limit, which an old peer may legally send, is rejected")
	})
	c.Floor("per-packet size tests", 1, n)
	ctor := c.Fn("drpcwire", "NewReaderWithOptions")
	okDef := false
	for _, st := range fieldStores(ctor, ra.maxF) {
		if k, isC := an.ConstInt(st.Val); isC && k == oldLimit {
			okDef = true
		}
	}
	c.Check(okDef, fmt.Sprintf("NewReaderWithOptions | default packet limit equals v0.0.17's %d", oldLimit), c.P.Pos(ctor.Pos()), "", "the default limit differs from the released peers' limit")
}

// evalInt evaluates an integer SSA expression with calls resolved by env.
func evalInt(v ssa.Value, env func(call *ssa.Call) (int64, bool), depth int) (int64, bool) {
	if depth > 16 {
		return 0, false
	}
	if k, ok := an.ConstInt(v); ok {
		return k, true
	}
	switch x := v.(type) {
	case *ssa.Convert:
		return evalInt(x.X, env, depth+1)
	case *ssa.ChangeType:
		return evalInt(x.X, env, depth+1)
	case *ssa.Call:
		return env(x)
	case *ssa.BinOp:
		l, ok1 := evalInt(x.X, env, depth+1)
		r, ok2 := evalInt(x.Y, env, depth+1)
		if !ok1 || !ok2 {
			return 0, false
		}
		switch x.Op {
		case token.ADD:
			return l + r, true
		case token.SUB:
			return l - r, true
		case token.MUL:
			return l * r, true
		case token.QUO:
			if r == 0 {
				return 0, false
			}
			return l / r, true
		case token.REM:
			if r == 0 {
				return 0, false
			}
			return l % r, true
		case token.SHR:
			return l >> uint(r), true
		case token.SHL:
			return l << uint(r), true
		}
	}
	return 0, false
}

func c18r4(c *an.Ctx) {
	vs := c.Fn("drpcmetadata", "varintSize")
	av := c.Fn("drpcwire", "AppendVarint")
	shift := varintConsts(av)["shift"]
	if shift <= 0 {
		c.Undecided("cannot read AppendVarint's group size")
		return
	}
	rets := an.Returns(vs)
	if len(rets) != 1 || len(vs.Blocks) != 1 {
		c.Undecided("varintSize is no longer a single expression; cannot evaluate it over the bit-length domain")
		return
	}
	bad := []string{}
	for L := int64(0); L <= 64; L++ {
		got, ok := evalInt(rets[0].Results[0], func(call *ssa.Call) (int64, bool) {
			if obj := an.CalleeObj(call.Common()); obj != nil && obj.FullName() == "math/bits.Len64" {
				return L, true
			}
			return 0, false
		}, 0)
		if !ok {
			c.Undecided("varintSize contains an operation the evaluator does not model")
			return
		}
		want := int64(1)
		if L > shift {
			want = (L + shift - 1) / shift
		}
		if got != want {
			bad = append(bad, fmt.Sprintf("bitlen %d: varintSize=%d, AppendVarint emits %d", L, got, want))
		}
	}
	c.Check(len(bad) == 0, "varintSize | equals the number of bytes AppendVarint emits for every bit length 0..64", c.P.Pos(vs.Pos()), "65 bit lengths evaluated",
		"the size announced for a metadata entry disagrees with the bytes actually emitted: "+strings.Join(firstN(bad, 3), "; ")+" — the entry's length prefix is wrong, so v0.0.17's protobuf decoder (and the current one) rejects or mis-frames the metadata")
}

func firstN(s []string, n int) []string {
	if len(s) > n {
		return s[:n]
	}
	return s
}
