package rules

import (
	"fmt"
	"go/token"
	"go/types"
	"sort"
	"strings"

	"golang.org/x/tools/go/ssa"

	"verif/sa/internal/an"
)

func init() {
	register(&Property{
		ID:        "C08",
		Technique: "compiler bounds-check-elimination report as a proof oracle, backed by a difference-constraint prover over SSA values and lengths for the sites the compiler leaves (an/bounds.go), panic-site and loop-bound scan, codec layout extraction from encoder and decoder SSA compared item by item with each other and with the wire spec table; scan of the assembly listing for bounds-failure calls the report omits; CFG reachability from the varint budget-spent edge to need-more returns",
		Explanation: "Statically decidable part of 'the frame codec round-trips and parsing is total': " +
			"(R1) totality: in ParseFrame, ReadVarint, AppendFrame, AppendVarint, SplitData, SplitN every index/slice is proved in range by the Go compiler's prove pass or implied by the dominating comparisons (an/bounds.go), there is no other panic site (a make that grows the destination is shown to have 0 <= len <= cap) and no recursion, and every loop has a constant bound, is bounded by a length, or strictly shrinks its operand; " +
			"(R2) AppendFrame's emitted layout and ParseFrame's consumed layout agree item by item and both equal the wire spec (control byte bit fields done/kind/control, three varints, payload of the announced length); AppendVarint and ReadVarint agree on group size, continuation bit and order; " +
			"(R3) ParseFrame consumes nothing unless it returns ok (the failure exit returns its input), and the success exit is dominated by the length-vs-remaining test; " +
			"(R5) in ReadVarint the 'need more data' answer is not reachable from the edge on which the group counter has reached its bound, so an over-long varint is an error however the bytes are chunked.",
		NotDecided: "the larger part of C08: equality with an independent reference decoder on all byte strings, round-trip for all 64-bit values, the exact remainder, and the need-more-data/error distinction on every malformed input are input-space facts; the layout rules are necessary, not sufficient.",
		Assumptions: []string{
			"the Go compiler's prove pass is sound (a bounds check it removes cannot fail)",
			"the wire spec table in the analyser was transcribed correctly from the wire-format description (control byte = control<<7 | kind<<1 | done; three varints; payload)",
		},
		Rules: []Rule{
			{ID: "C08.R1", Doc: "codec totality: compiler-proved bounds, no other panic site, no recursion, bounded loops", Run: c08r1},
			{ID: "C08.R2", Doc: "AppendFrame/ParseFrame layouts agree with each other and the spec; AppendVarint/ReadVarint agree on 7-bit little-endian groups with continuation bit 0x80", Run: c08r2},
			{ID: "C08.R4", Doc: "SplitN builds every frame from the packet: id, kind and control bit are the packet's (a split control packet stays a control packet on the wire)", Run: c08r4},
			{ID: "C08.R3", Doc: "ParseFrame returns its input unchanged unless ok; the ok return is dominated by length <= len(rem)", Run: c08r3},
			{ID: "C08.R5", Doc: "ReadVarint answers 'need more data' (not ok, nil error) only while its byte budget is unspent: no path from the exit taken when the group counter reaches its bound leads to a not-ok return whose error may be nil (ten continuation bytes are not a prefix of any varint)", Run: c08r5},
			{ID: "C08.S1", Alias: "C01.R7"},
		},
	})
}

// bceScope lists the packages whose residual bounds checks are reviewed.
var bceScope = []string{"drpcwire", "drpcmetadata", "drpcerr", "drpcstream", "drpcmanager", "drpcmux", "drpcserver", "drpchttp", "drpcconn", "drpcsignal"}

// reviewed residual bounds checks: function + expression (never a line) with the reason they are in range.
var bceReviewed = map[string]string{
	"(Kind).String | _Kind_name[_Kind_index[_]:_Kind_index[_+1]]": "generated stringer: guarded by i >= Kind(len(_Kind_index)-1); index table is a constant array of ascending offsets into the constant name string",
	"buildContext | _[_+1:]":              "index = strings.IndexByte(entry, '=') >= 0 on this branch, so index+1 <= len(entry)",
	"unescape | _[_+2]":                   "dominated by the test i+2 >= uint(len(s)) -> return",
	"unescape | _[_+1]":                   "dominated by the test i+2 >= uint(len(s)) -> return",
	"grpcRead | _[1:5]":                   "tmp is the result of readExactly(r, 5): a 5-byte slice on the err == nil branch",
	"getCode | _.Call(nil)[0]":            "guarded by mt.NumOut() == 1: Call returns exactly one value",
	"(*grpcWebStream).Finish | _.Bytes()": "inlined bytes.Buffer.Bytes: b.buf[b.off:] with the buffer's own invariant off <= len(buf)",
}

// 32-bit residuals: a uint64 length compared against uint64(len(x)) and then used as an index
var bceReviewed32 = map[string]string{
	"ParseFrame | _[_:]":           "dominated by length > uint64(len(rem)) -> bad",
	"ParseFrame | _[:_]":           "dominated by length > uint64(len(rem)) -> bad",
	"readEntry | _[:_]":            "dominated by length > uint64(len(buf)) -> bad",
	"readEntry | _[_:]":            "dominated by length > uint64(len(buf)) -> bad",
	"readKeyValue | _[_:]":         "dominated by length > uint64(len(buf)) -> bad",
	"readKeyValue | _[:_]":         "dominated by length > uint64(len(buf)) -> bad",
	"readExactly | make([]byte,_)": "n is bounded by the caller (maxSize)",
}

type bceResult struct {
	sites []an.BCESite
	err   error
}

var bceCache = map[*an.Prog]*bceResult{}

func bceOf(c *an.Ctx) []an.BCESite {
	sharedMu.Lock()
	r := bceCache[c.P]
	sharedMu.Unlock()
	if r == nil {
		sites, err := c.P.RunBCE(bceScope)
		r = &bceResult{sites, err}
		sharedMu.Lock()
		bceCache[c.P] = r
		sharedMu.Unlock()
	}
	if r.err != nil {
		panic(&an.Unresolved{What: "compiler BCE report: " + r.err.Error()})
	}
	return r.sites
}

// checkBCE reports the residual bounds checks inside the given functions
// (nil = all functions of the scoped packages).
func checkBCE(c *an.Ctx, inFuncs map[string]bool, what string) int {
	sites := bceOf(c)
	n := 0
	is32 := c.P.Cfg.GOARCH == "386" || c.P.Cfg.GOARCH == "arm"
	for _, s := range sites {
		if inFuncs != nil && !inFuncs[s.Func] {
			continue
		}
		n++
		key := s.Func + " | " + s.Expr
		why, ok := bceReviewed[key]
		if !ok && is32 {
			why, ok = bceReviewed32[key]
		}
		pos := fmt.Sprintf("%s:%d", s.File, s.Line)
		if ok {
			if vf := bceVerify[key]; vf != nil {
				in := c.P.InstrAt(s.Pos)
				good := in != nil && vf(in)
				if !good && in != nil {
					// the recorded justification is not found in this shape any more: try to derive the bound afresh
					word := 64
					if is32 {
						word = 32
					}
					if proved, how := an.ProveInBounds(in, word); proved {
						c.Ok(what+" | reviewed residual still justified: "+key, pos, "re-derived: "+how)
						continue
					}
				}
				c.Check(good, what+" | reviewed residual still justified: "+key, pos, why,
					"the compiler cannot prove this index/slice and the guard that justified the reviewed exception is no longer found ("+why+")")
				continue
			}
		}
		if !ok {
			// not a reviewed residual: the compiler's prover is incomplete (merged values, values compared in another
			// integer type), so try the dominating comparisons as difference constraints before reporting
			word := 64
			if is32 {
				word = 32
			}
			if s.InlinedFrom != "" {
				c.Ok(what+" | unproved "+s.Kind+" "+key+" (inlined "+s.InlinedFrom+")", pos, "the compiler repeats here a check of the body of "+s.InlinedFrom+", which it inlined; it is decided at its own position")
				continue
			}
			if ins := c.P.InstrsAt(s.Pos); len(ins) > 0 {
				all, how := true, ""
				for _, in := range ins {
					proved, h := an.ProveInBounds(in, word)
					if !proved {
						all = false
						break
					}
					how = h
				}
				if all {
					c.Ok(what+" | unproved "+s.Kind+" "+key, pos, fmt.Sprintf("not proved by the compiler; %s (%d occurrence(s))", how, len(ins)))
					continue
				}
			}
		}
		c.Check(ok, what+" | unproved "+s.Kind+" "+key, pos, "reviewed residual: "+why,
			"the compiler's prove pass cannot show this index/slice to be in range and it is not a reviewed residual: a length guard was weakened or removed, or new unguarded indexing of peer-controlled data was added")
	}
	return n
}

func c08r1(c *an.Ctx) {
	codec := []string{"ParseFrame", "ReadVarint", "AppendFrame", "AppendVarint", "SplitData", "SplitN"}
	in := map[string]bool{}
	for _, f := range codec {
		in[f] = true
	}
	nRes := checkBCE(c, in, "codec")
	c.Ok("codec | compiler BCE report consulted", "-", fmt.Sprintf("%d residual bounds checks in %v (0 expected: every index is compiler-proved)", nRes, codec))
	for _, name := range codec {
		fn := c.Fn("drpcwire", name)
		// other panic sites
		ps := an.PanicSites(fn)
		nBad := 0
		for _, p := range ps {
			// growing the destination buffer: make sized from existing memory with a capacity shown to cover it
			if mk, isMk := p.Instr.(*ssa.MakeSlice); isMk && p.Kind == "makeslice" && sizeFromExisting(mk.Len) {
				if ok, how := an.ProveMake(mk, 64); ok {
					c.Ok(name+" | "+p.Kind, c.At(p.Instr), "sized from the length of existing memory; "+how)
					continue
				}
			}
			nBad++
			c.Bad(name+" | "+p.Kind, c.At(p.Instr), p.Detail)
		}
		if nBad == 0 && len(ps) > 0 {
			c.Ok(name+" | no non-bounds panic site", c.P.Pos(fn.Pos()), "")
		}
		if len(ps) == 0 {
			c.Ok(name+" | no non-bounds panic site", c.P.Pos(fn.Pos()), "")
		}
		// recursion
		rec := false
		an.Instrs(fn, func(i ssa.Instruction) {
			if ci, ok := i.(ssa.CallInstruction); ok && ci.Common().StaticCallee() == fn {
				rec = true
			}
		})
		c.Check(!rec, name+" | not recursive", c.P.Pos(fn.Pos()), "", "the codec function calls itself: stack depth depends on the input")
		// loops
		for i, l := range an.Loops(fn) {
			key := fmt.Sprintf("%s | loop %d is bounded", name, i)
			pos := c.P.InstrPos(l.Header.Instrs[0])
			switch l.Class {
			case "counted", "shrinking", "len-bounded", "range", "consuming":
				c.Ok(key, pos, l.Detail)
			default:
				if name == "SplitN" && splitNConsumes(c, fn, l) {
					c.Ok(key, pos, "each iteration continues with the strict remainder returned by SplitData (C01.R7) and stops when it is empty")
					continue
				}
				c.Bad(key, pos, "cannot bound this loop: no constant-step induction variable, no shrinking operand")
			}
		}
	}
	// ReadVarint: at most 10 bytes
	rv := c.Fn("drpcwire", "ReadVarint")
	mb := varintConsts(rv)["maxbytes"]
	acc := varintConsts(rv)["accepts"]
	c.Check(mb == 10 && acc == 10, "ReadVarint | consumes at most 10 bytes", c.P.Pos(rv.Pos()), fmt.Sprint(mb, acc), fmt.Sprintf("the varint decoder accepts encodings of up to %d bytes and answers \"too long\" once %d bytes are present: 64-bit values need exactly ten 7-bit groups, and ten continuation bytes are not a prefix of any varint", acc, mb))
}

func splitNConsumes(c *an.Ctx, fn *ssa.Function, l *an.Loop) bool {
	a := A(c)
	split := a.obj("drpcwire", "SplitData")
	ok := false
	for b := range l.Blocks {
		for _, in := range b.Instrs {
			if call, isCall := in.(*ssa.Call); isCall && an.IsCallTo(call.Common(), split) {
				ok = true
			}
		}
	}
	return ok
}

// frameSpec is the wire description of a frame, transcribed from the wire-format documentation.
var frameSpecBits = map[string][2]uint64{ // field -> {mask, shift}
	"Done":    {0x01, 0},
	"Kind":    {0x7e, 1},
	"Control": {0x80, 0},
}

func fieldOfSrc(s string) string {
	if i := strings.LastIndex(s, "."); i >= 0 {
		return s[i+1:]
	}
	return s
}

func c08r2(c *an.Ctx) {
	a := A(c)
	appendVarint := a.obj("drpcwire", "AppendVarint")
	readVarint := a.obj("drpcwire", "ReadVarint")
	af := c.Fn("drpcwire", "AppendFrame")
	pf := c.Fn("drpcwire", "ParseFrame")
	enc, err := an.EncoderLayout(af, 0, map[*types.Func]bool{appendVarint: true})
	if err != nil {
		c.Undecided("cannot extract AppendFrame's layout: %v", err)
		return
	}
	c.Note("AppendFrame layout: %s", an.LayoutString(enc))
	// expected item sequence
	wantKinds := []string{"byte", "varint", "varint", "varint", "bytes"}
	wantSrc := []string{"", "ID.Stream", "ID.Message", "len(", "Data"}
	okSeq := len(enc) == len(wantKinds)
	if okSeq {
		for i := range enc {
			if enc[i].Kind != wantKinds[i] || !strings.Contains(enc[i].Src, wantSrc[i]) {
				okSeq = false
			}
		}
	}
	c.Check(okSeq, "AppendFrame | emits control byte, varint stream, varint message, varint length, payload", c.P.Pos(af.Pos()), an.LayoutString(enc),
		"AppendFrame's emitted item sequence is "+an.LayoutString(enc)+", the wire spec is byte varint(stream) varint(message) varint(len(data)) bytes(data)")
	if okSeq {
		// the announced length is the length of the same payload
		c.Check(strings.Contains(enc[3].Src, "len(fr.Data)") && strings.HasSuffix(enc[4].Src, "fr.Data"), "AppendFrame | announced length = len of the emitted payload", c.At(enc[3].At), "", "the length varint ("+enc[3].Src+") does not describe the payload that follows ("+enc[4].Src+")")
		// control byte bits
		for _, b := range enc[0].Bits {
			f := fieldOfSrc(b.Src)
			spec, ok := frameSpecBits[f]
			good := ok && b.Shift == int(spec[1]) && (b.Mask&spec[0]) == spec[0]
			// a flag bit is set exactly when its flag is: no other test may decide it (a later arm of a switch on
			// another flag would make the bits depend on each other)
			if strings.ContainsAny(b.Src, "&!") {
				good = false
			}
			c.Check(good, "AppendFrame | control byte field "+f, c.At(enc[0].At), b.String(), fmt.Sprintf("encoder packs %s, spec wants mask %#x shift %d for %s", b.String(), spec[0], spec[1], f))
		}
		c.Check(len(enc[0].Bits) == 3, "AppendFrame | control byte has exactly done, kind, control", c.At(enc[0].At), "", fmt.Sprintf("control byte fields: %v", enc[0].Bits))
	}
	// decoder
	var ctl ssa.Value
	an.Instrs(pf, func(in ssa.Instruction) {
		if ld, ok := in.(*ssa.UnOp); ok && ld.Op == token.MUL {
			if ia, ok := ld.X.(*ssa.IndexAddr); ok {
				if k, isC := an.ConstInt(ia.Index); isC && k == 0 && ia.X == ssa.Value(pf.Params[0]) {
					ctl = ld
				}
			}
		}
	})
	if !c.Check(ctl != nil, "ParseFrame | reads the control byte buf[0]", c.P.Pos(pf.Pos()), "", "cannot find the control byte load") {
		return
	}
	dbits := an.DecodedBits(pf, ctl)
	var union uint64
	disjoint := true
	for _, b := range dbits {
		f := fieldOfSrc(b.Src)
		spec, ok := frameSpecBits[f]
		good := ok && b.Mask == spec[0] && b.Shift == int(spec[1])
		c.Check(good, "ParseFrame | control byte field "+f, c.P.Pos(pf.Pos()), b.String(), fmt.Sprintf("decoder extracts %s, spec wants mask %#x shift %d", b.String(), spec[0], spec[1]))
		if union&b.Mask != 0 {
			disjoint = false
		}
		union |= b.Mask
	}
	c.Check(len(dbits) == 3 && disjoint && union == 0xff, "ParseFrame | control byte masks partition 0xff", c.P.Pos(pf.Pos()), "", fmt.Sprintf("decoder bit fields %v do not partition the byte", dbits))
	// encoder/decoder agreement per field
	if okSeq {
		for _, d := range dbits {
			found := false
			for _, e := range enc[0].Bits {
				if fieldOfSrc(e.Src) == fieldOfSrc(d.Src) && e.Shift == d.Shift && e.Mask&d.Mask == d.Mask {
					found = true
				}
			}
			c.Check(found, "AppendFrame/ParseFrame agree on "+fieldOfSrc(d.Src), c.P.Pos(pf.Pos()), "", "encoder and decoder place "+fieldOfSrc(d.Src)+" differently")
		}
	}
	// decoder sequence: three threaded ReadVarint calls, then payload [:length] / remainder [length:]
	var calls []*ssa.Call
	for _, cs := range an.CallsTo(pf, false, readVarint) {
		calls = append(calls, cs.Instr.(*ssa.Call))
	}
	sort.Slice(calls, func(i, j int) bool { return an.InstrDominates(calls[i], calls[j]) })
	okThread := len(calls) == 3
	var dests []string
	if okThread {
		for i, call := range calls {
			arg := call.Common().Args[0]
			if i == 0 {
				sl, ok := arg.(*ssa.Slice)
				lo, isC := int64(0), false
				if ok && sl.Low != nil {
					lo, isC = an.ConstInt(sl.Low)
				}
				if !ok || sl.X != ssa.Value(pf.Params[0]) || !isC || lo != 1 || sl.High != nil {
					okThread = false
				}
			} else {
				ex, ok := arg.(*ssa.Extract)
				if !ok || ex.Tuple != ssa.Value(calls[i-1]) || ex.Index != 0 {
					okThread = false
				}
			}
			d := "?"
			for _, r := range *call.Referrers() {
				if ex, ok := r.(*ssa.Extract); ok && ex.Index == 1 {
					d = "local"
					for _, r2 := range *ex.Referrers() {
						if st, ok := r2.(*ssa.Store); ok && st.Val == ssa.Value(ex) {
							d = an.PathOf(st.Addr).String()
						}
					}
				}
			}
			dests = append(dests, d)
		}
	}
	c.Check(okThread && len(dests) == 3 && strings.HasSuffix(dests[0], "ID.Stream") && strings.HasSuffix(dests[1], "ID.Message") && dests[2] == "local",
		"ParseFrame | consumes byte, varint->ID.Stream, varint->ID.Message, varint->length in this order", c.P.Pos(pf.Pos()), fmt.Sprint(dests),
		fmt.Sprintf("ParseFrame's varints are not threaded stream, message, length (destinations %v)", dests))

	// varint agreement
	av := c.Fn("drpcwire", "AppendVarint")
	rv := c.Fn("drpcwire", "ReadVarint")
	encC := varintConsts(av)
	decC := varintConsts(rv)
	c.Note("AppendVarint constants %v; ReadVarint constants %v", encC, decC)
	c.Check(encC["shift"] == 7 && decC["step"] == 7, "varint | 7-bit groups on both sides", c.P.Pos(av.Pos()), "", fmt.Sprintf("group size: encoder >>%d, decoder step %d", encC["shift"], decC["step"]))
	c.Check(encC["mask"] == 127 && decC["mask"] == 127, "varint | payload mask 0x7f on both sides", c.P.Pos(av.Pos()), "", fmt.Sprintf("masks: encoder %#x decoder %#x", encC["mask"], decC["mask"]))
	c.Check(encC["cont"] == 128 && decC["cont"] == 128 && encC["more"] == 128, "varint | continuation bit 0x80 on both sides", c.P.Pos(av.Pos()), "", fmt.Sprintf("continuation: encoder sets %#x while x >= %#x, decoder stops on val < %#x", encC["cont"], encC["more"], decC["cont"]))
	c.Check(decC["accepts"]*decC["step"] >= 64 && (decC["accepts"]-1)*decC["step"] < 64, "varint | decoder covers 64 bits", c.P.Pos(rv.Pos()), "", fmt.Sprintf("decoder reads at most %d groups of %d bits", decC["maxbytes"], decC["step"]))
	c.Check(decC["le"] == 1, "varint | decoder accumulates little-endian (val&mask)<<shift", c.P.Pos(rv.Pos()), "", "decoder does not OR (val&0x7f)<<shift into the result")
}

// varintConsts reads the structural constants out of the varint functions.
func varintConsts(fn *ssa.Function) map[string]int64 {
	out := map[string]int64{}
	// an encoder that delegates to encoding/binary's unsigned varint (documented format: little-endian
	// base-128 groups, continuation bit 0x80) has that library's constants
	delegated := false
	an.Instrs(fn, func(in ssa.Instruction) {
		if call, ok := in.(*ssa.Call); ok {
			if obj := an.CalleeObj(call.Common()); obj != nil && (obj.FullName() == "encoding/binary.AppendUvarint" || obj.FullName() == "encoding/binary.PutUvarint") {
				for _, a := range call.Common().Args {
					if len(fn.Params) >= 2 && a == ssa.Value(fn.Params[1]) {
						delegated = true
					}
				}
			}
		}
	})
	if delegated {
		return map[string]int64{"shift": 7, "mask": 127, "cont": 128, "more": 128}
	}
	type idxTest struct {
		at   *ssa.BinOp
		iter int64
	}
	var idxTests []idxTest
	var contAt *ssa.BasicBlock
	an.Instrs(fn, func(in ssa.Instruction) {
		b, ok := in.(*ssa.BinOp)
		if !ok {
			return
		}
		k, isC := an.ConstInt(b.Y)
		if !isC {
			// (val & 127) << shift, the shift being an induction variable (shift += 7) or 7 * <index of the byte>
			if b.Op == token.SHL {
				x := b.X
				if cv, ok := x.(*ssa.Convert); ok {
					x = cv.X
				}
				if inner, ok := x.(*ssa.BinOp); ok && inner.Op == token.AND {
					if _, ok := b.Y.(*ssa.Phi); ok {
						out["le"] = 1
					}
					if mul, ok := b.Y.(*ssa.BinOp); ok && mul.Op == token.MUL {
						kk, isK := an.ConstInt(mul.X)
						idx := mul.Y
						if !isK {
							kk, isK = an.ConstInt(mul.Y)
							idx = mul.X
						}
						if first, isI := indexOfLoop(idx); isK && isI && first == 0 {
							out["le"] = 1
							out["step"] = kk
							out["indexed"] = 1
						}
					}
					if m, isM := an.ConstInt(inner.Y); isM {
						out["mask"] = m
					}
				}
			}
			return
		}
		switch b.Op {
		case token.SHR:
			out["shift"] = k
		case token.AND:
			out["mask"] = k
		case token.OR:
			out["cont"] = k
		case token.GEQ, token.EQL:
			// index form: the byte count (index + 1) is compared with the maximum
			if first, isI := indexOfLoop(b.X); isI {
				// the test fires in iteration number k-first (0-based), which has that many bytes before it and one in hand
				idxTests = append(idxTests, idxTest{b, k - first})
				return
			}
			if b.Op == token.GEQ {
				out["more"] = k
			}
		case token.LSS:
			if _, isPhi := b.X.(*ssa.Phi); isPhi {
				out["bound"] = k
			} else {
				out["cont"] = k
				contAt = b.Block()
			}
		case token.ADD:
			if _, isPhi := b.X.(*ssa.Phi); isPhi {
				out["addstep"] = k
			}
		}
	})
	if out["indexed"] == 0 && out["addstep"] != 0 {
		out["step"] = out["addstep"]
	}
	delete(out, "addstep")
	// index form: "too long" is declared in iteration n (0-based): n+1 bytes have to be present for that answer, and the
	// longest accepted encoding has n+1 bytes when the terminator test of that iteration comes first, n otherwise
	if len(idxTests) == 1 && contAt != nil {
		t := idxTests[0]
		out["maxbytes"] = t.iter + 1
		if contAt != t.at.Block() && contAt.Dominates(t.at.Block()) {
			out["accepts"] = t.iter + 1
		} else {
			out["accepts"] = t.iter
		}
	}
	// shift form: the loop runs while shift < bound in steps: ceil(bound/step) bytes, every one of them tested for the terminator
	if len(idxTests) == 0 && out["bound"] > 0 && out["step"] > 0 {
		out["maxbytes"] = (out["bound"] + out["step"] - 1) / out["step"]
		out["accepts"] = out["maxbytes"]
	}
	delete(out, "indexed")
	delete(out, "bound")
	return out
}

// indexOfLoop: v is (a conversion of) a loop counter plus a constant, the counter being phi [c0, phi+1]; first is the
// value v has in the first iteration, so v - first is the 0-based number of the iteration.
func indexOfLoop(v ssa.Value) (first int64, ok bool) {
	off := int64(0)
	for i := 0; i < 6; i++ {
		switch x := v.(type) {
		case *ssa.Convert:
			v = x.X
			continue
		case *ssa.BinOp:
			if x.Op == token.ADD {
				if k, isK := an.ConstInt(x.Y); isK {
					off += k
					v = x.X
					continue
				}
			}
			return 0, false
		case *ssa.Phi:
			if len(x.Edges) != 2 {
				return 0, false
			}
			c0, inc, n := int64(0), false, 0
			for _, e := range x.Edges {
				if b, isB := e.(*ssa.BinOp); isB && b.Op == token.ADD && b.X == ssa.Value(x) {
					if k, isK := an.ConstInt(b.Y); isK && k == 1 {
						inc = true
						continue
					}
				}
				if k, isK := an.ConstInt(e); isK {
					c0 = k
					n++
				}
			}
			if !inc || n != 1 {
				return 0, false
			}
			return c0 + off, true
		}
		return 0, false
	}
	return 0, false
}

// tailTarget: fn only returns the results of one call to a function of its own package that receives fn's first
// parameter as its first argument (ParseFrame as a thin wrapper of a variant with more parameters): the rules about
// what fn returns for which input are then decided on that function.
func tailTarget(fn *ssa.Function) *ssa.Function {
	rets := an.Returns(fn)
	if len(rets) != 1 || len(fn.Params) == 0 {
		return fn
	}
	var call *ssa.Call
	for i, r := range rets[0].Results {
		ex, ok := r.(*ssa.Extract)
		if !ok || ex.Index != i {
			return fn
		}
		c2, ok := ex.Tuple.(*ssa.Call)
		if !ok || (call != nil && c2 != call) {
			return fn
		}
		call = c2
	}
	if call == nil {
		return fn
	}
	callee := call.Common().StaticCallee()
	if callee == nil || len(callee.Blocks) == 0 || callee.Pkg != fn.Pkg || len(call.Common().Args) == 0 || call.Common().Args[0] != ssa.Value(fn.Params[0]) {
		return fn
	}
	// nothing else happens in fn
	n := 0
	an.Instrs(fn, func(in ssa.Instruction) {
		if _, isCall := in.(ssa.CallInstruction); isCall {
			n++
		}
	})
	if n != 1 {
		return fn
	}
	return callee
}

func c08r3(c *an.Ctx) {
	pf := tailTarget(c.Fn("drpcwire", "ParseFrame"))
	buf := pf.Params[0]
	n := 0
	res := func(v ssa.Value, at *ssa.BasicBlock) ssa.Value { return an.ResolveAt(v, at) }
	for _, rc := range an.ReturnCases(pf) {
		ret := rc.Ret
		n++
		okv := rc.Vals[2]
		isOK := false
		if cst, isC := okv.(*ssa.Const); isC && cst.Value != nil && cst.Value.String() == "true" {
			isOK = true
		}
		if !isOK {
			// must not be able to return true: a constant false
			cst, isC := okv.(*ssa.Const)
			c.Check(isC && cst.Value != nil && cst.Value.String() == "false", "ParseFrame | non-ok return has ok == false", c.At(ret), "", "cannot decide ok on this return")
			c.Check(an.Resolve(rc.Vals[0]) == ssa.Value(buf), "ParseFrame | non-ok return hands back its input unchanged", c.At(ret), "", "'need more data' / error consumes bytes: the caller would resume parsing in the middle of a frame")
			continue
		}
		// ok return: the remainder is x[length:] behind length <= uint64(len(x)) for the same x and length, and
		// fr.Data is x[:length] -- wherever the cut is made (in place or in a helper that returns both halves)
		rem, okS := res(rc.Vals[0], rc.At).(*ssa.Slice)
		good := false
		if okS && rem.Low != nil && rem.High == nil {
			base, low := an.Resolve(rem.X), an.Resolve(rem.Low)
			guards := append(append([]an.Guard{}, rc.Guards...), an.GuardsOf(rem.Block())...)
			for _, g := range guards {
				cmp, ok := an.CmpOf(g)
				if !ok {
					continue
				}
				if cmp.Is(token.LEQ, func(v ssa.Value) bool { return an.Resolve(v) == low }, func(v ssa.Value) bool {
					cv, ok := an.Resolve(v).(*ssa.Convert)
					if !ok {
						return false
					}
					l := lenOperand(cv.X)
					return l != nil && an.Resolve(l) == base
				}) {
					good = true
				}
			}
		}
		c.Check(good, "ParseFrame | ok return dominated by length <= len(rem) on the sliced value", c.At(ret), "", "the payload is sliced without the announced length being compared with the bytes available")
		// every header varint that is read on a way to this return was read completely and without error: from the
		// call, the return is reachable only through the edge on which its ok is true and the edge on which its error
		// is nil (a fast path that does not call ReadVarint at all is not concerned)
		{
			rv := A(c).objOpt("drpcwire", "ReadVarint")
			reach := func(from, to *ssa.BasicBlock, skip func(b *ssa.BasicBlock, i int) bool) bool {
				seen := map[*ssa.BasicBlock]bool{}
				var walk func(b *ssa.BasicBlock) bool
				walk = func(b *ssa.BasicBlock) bool {
					if b == to {
						return true
					}
					if seen[b] {
						return false
					}
					seen[b] = true
					for i, sc := range b.Succs {
						if skip(b, i) {
							continue
						}
						if walk(sc) {
							return true
						}
					}
					return false
				}
				return walk(from)
			}
			nRV, nGuarded := 0, 0
			// where this way of returning leaves from (the returns may have been merged into one instruction)
			target := ret.Block()
			if rc.At != nil {
				target = rc.At
			}
			an.Instrs(pf, func(in ssa.Instruction) {
				call, isCall := in.(*ssa.Call)
				if !isCall || rv == nil || !an.IsCallTo(call.Common(), rv) {
					return
				}
				if !reach(call.Block(), target, func(*ssa.BasicBlock, int) bool { return false }) {
					return
				}
				nRV++
				okEdge := func(b *ssa.BasicBlock, i int) bool {
					br, isIf := b.Instrs[len(b.Instrs)-1].(*ssa.If)
					if !isIf {
						return false
					}
					cond, neg := an.StripNot(br.Cond)
					ex, isEx := cond.(*ssa.Extract)
					if !isEx || ex.Tuple != ssa.Value(call) || ex.Index != 2 {
						return false
					}
					return (i == 0) != neg // the edge on which ok is true
				}
				errEdge := func(b *ssa.BasicBlock, i int) bool {
					br, isIf := b.Instrs[len(b.Instrs)-1].(*ssa.If)
					if !isIf {
						return false
					}
					x, trueNonNil, isTest := nilTestOf(br.Cond)
					if !isTest {
						return false
					}
					ex, isEx := an.Unwrap(x).(*ssa.Extract)
					if !isEx || ex.Tuple != ssa.Value(call) {
						return false
					}
					return (i == 0) != trueNonNil // the edge on which the error is nil
				}
				if !reach(call.Block(), target, okEdge) && !reach(call.Block(), target, errEdge) {
					nGuarded++
				}
			})
			c.Check(nGuarded == nRV, "ParseFrame | ok return only after every header varint read on the way was complete and without error", c.At(ret), fmt.Sprintf("%d/%d", nGuarded, nRV),
				fmt.Sprintf("only %d of the %d ReadVarint results that lead to the ok return are known to be complete (ok) and error-free there: an incomplete or malformed header field is taken as zero and the rest of the input is parsed as if it followed it", nGuarded, nRV))
		}
		// Data = x[:length] of the same base and bound
		dataOK := false
		an.Instrs(pf, func(in ssa.Instruction) {
			st, ok := in.(*ssa.Store)
			if !ok || an.PathOf(st.Addr).Last() == nil || nameOf(an.PathOf(st.Addr).Last()) != "Data" {
				return
			}
			if sl, ok := res(st.Val, ret.Block()).(*ssa.Slice); ok && okS && sl.Low == nil && sl.High != nil &&
				an.Resolve(sl.X) == an.Resolve(rem.X) && an.Resolve(sl.High) == an.Resolve(rem.Low) {
				dataOK = true
			}
		})
		c.Check(dataOK, "ParseFrame | payload and remainder are complementary slices at the announced length", c.At(ret), "", "fr.Data and the returned remainder do not split the input at the same offset")
	}
	c.Floor("returns of ParseFrame", 1, n)
}

// bceVerify re-derives, on the current source, the structural reason recorded
// for a reviewed residual (so that weakening the guard is not hidden by the table).
var bceVerify = map[string]func(in ssa.Instruction) bool{
	"unescape | _[_+2]":        indexGuardedByLen,
	"unescape | _[_+1]":        indexGuardedByLen,
	"buildContext | _[_+1:]":   sliceAfterIndexByte,
	"grpcRead | _[1:5]":        sliceOfExactRead,
	"getCode | _.Call(nil)[0]": indexOfCallResult,
}

func offsetOf(v ssa.Value) (ssa.Value, int64) {
	for {
		if cv, ok := v.(*ssa.Convert); ok {
			v = cv.X
			continue
		}
		break
	}
	if b, ok := v.(*ssa.BinOp); ok && b.Op == token.ADD {
		if k, isC := an.ConstInt(b.Y); isC {
			base, k0 := offsetOf(b.X)
			return base, k0 + k
		}
	}
	return v, 0
}

func lenOperand(v ssa.Value) ssa.Value {
	for {
		if cv, ok := v.(*ssa.Convert); ok {
			v = cv.X
			continue
		}
		break
	}
	if call, ok := v.(*ssa.Call); ok {
		if b, isB := call.Common().Value.(*ssa.Builtin); isB && b.Name() == "len" {
			return call.Common().Args[0]
		}
	}
	return nil
}

// indexGuardedByLen: x[idx] is dominated by a test establishing idx' < len(x) with idx <= idx'.
func indexGuardedByLen(in ssa.Instruction) bool {
	var x, idx ssa.Value
	switch i := in.(type) {
	case *ssa.Lookup:
		x, idx = i.X, i.Index
	case *ssa.IndexAddr:
		x, idx = i.X, i.Index
	case *ssa.Index:
		x, idx = i.X, i.Index
	default:
		return false
	}
	base, off := offsetOf(idx)
	for _, g := range an.GuardsOf(in.Block()) {
		b, ok := g.Cond.(*ssa.BinOp)
		if !ok {
			continue
		}
		lo := lenOperand(b.Y)
		if lo == nil || lo != x {
			continue
		}
		below := (b.Op == token.LSS && g.True) || (b.Op == token.GEQ && !g.True)
		belowEq := (b.Op == token.LEQ && g.True) || (b.Op == token.GTR && !g.True)
		gb, goff := offsetOf(b.X)
		if gb != base {
			continue
		}
		if below && off <= goff && off >= 0 {
			return true
		}
		if belowEq && off < goff && off >= 0 {
			return true
		}
	}
	return false
}

// sliceAfterIndexByte: x[i+1:] where i = strings.IndexByte(x, _) and i >= 0 on this path.
func sliceAfterIndexByte(in ssa.Instruction) bool {
	sl, ok := in.(*ssa.Slice)
	if !ok || sl.Low == nil || sl.High != nil {
		return false
	}
	base, off := offsetOf(sl.Low)
	call, ok := base.(*ssa.Call)
	if !ok || off != 1 {
		return false
	}
	obj := an.CalleeObj(call.Common())
	if obj == nil || (obj.FullName() != "strings.IndexByte" && obj.FullName() != "strings.Index" && obj.FullName() != "bytes.IndexByte") {
		return false
	}
	if call.Common().Args[0] != sl.X {
		return false
	}
	for _, g := range an.GuardsOf(in.Block()) {
		b, ok := g.Cond.(*ssa.BinOp)
		if !ok || b.X != ssa.Value(call) {
			continue
		}
		k, isC := an.ConstInt(b.Y)
		if !isC {
			continue
		}
		if (b.Op == token.GEQ && g.True && k >= 0) || (b.Op == token.LSS && !g.True && k >= 0) || (b.Op == token.GTR && g.True && k >= -1) || (b.Op == token.NEQ && g.True && k == -1) {
			return true
		}
	}
	return false
}

// sliceOfExactRead: tmp[a:b] with constant b <= n where tmp, err = readExactly(r, n) and err == nil here.
func sliceOfExactRead(in ssa.Instruction) bool {
	sl, ok := in.(*ssa.Slice)
	if !ok || sl.High == nil {
		return false
	}
	hi, isC := an.ConstInt(sl.High)
	if !isC {
		return false
	}
	ex, ok := sl.X.(*ssa.Extract)
	if !ok || ex.Index != 0 {
		return false
	}
	call, ok := ex.Tuple.(*ssa.Call)
	if !ok {
		return false
	}
	callee := call.Common().StaticCallee()
	if callee == nil || nameOf(callee) != "readExactly" {
		return false
	}
	n, isC := an.ConstInt(call.Common().Args[1])
	if !isC || n < hi {
		return false
	}
	// readExactly must return a slice of exactly n bytes: make([]byte, n)
	okMake := false
	an.Instrs(callee, func(i2 ssa.Instruction) {
		if mk, isMk := i2.(*ssa.MakeSlice); isMk && an.Resolve(mk.Len) == ssa.Value(callee.Params[1]) {
			okMake = true
		}
		if mk, isMk := i2.(*ssa.MakeSlice); isMk {
			if cv, isCv := mk.Len.(*ssa.Convert); isCv && cv.X == ssa.Value(callee.Params[1]) {
				okMake = true
			}
		}
	})
	return okMake
}

// indexOfCallResult: v.Call(nil)[k] guarded by NumOut() == m with k < m.
func indexOfCallResult(in ssa.Instruction) bool {
	ia, ok := in.(*ssa.IndexAddr)
	if !ok {
		return false
	}
	k, isC := an.ConstInt(ia.Index)
	if !isC {
		return false
	}
	for _, g := range an.GuardsOf(in.Block()) {
		cmp, ok := an.CmpOf(g)
		if !ok {
			continue
		}
		if cmp.Is(token.EQL, func(v ssa.Value) bool {
			call, ok := v.(*ssa.Call)
			return ok && call.Common().IsInvoke() && call.Common().Method.Name() == "NumOut"
		}, func(v ssa.Value) bool {
			m, isM := an.ConstInt(v)
			return isM && k < m
		}) {
			return true
		}
	}
	return false
}

// c08r4: the frames SplitN yields carry the packet's header fields.
func c08r4(c *an.Ctx) {
	fn := c.Fn("drpcwire", "SplitN")
	c.Analysed(fn)
	got := map[string]string{} // frame field -> packet field it is set from
	for _, f := range an.WithAnon(fn) {
		an.Instrs(f, func(in ssa.Instruction) {
			st, ok := in.(*ssa.Store)
			if !ok {
				return
			}
			fa, ok := st.Addr.(*ssa.FieldAddr)
			if !ok {
				return
			}
			nt, ok := deref(fa.X.Type()).(*types.Named)
			if !ok || nt.Obj().Name() != "Frame" {
				return
			}
			field := nt.Underlying().(*types.Struct).Field(fa.Field).Name()
			src := "?"
			if ld, ok := an.Unwrap(st.Val).(*ssa.UnOp); ok && ld.Op == token.MUL {
				p := an.PathOf(ld.X)
				if last := p.Last(); last != nil {
					if pt, ok := deref(p.Root.Type()).(*types.Named); ok && pt.Obj().Name() == "Packet" || p.Root != nil {
						src = last.Name()
					}
				}
			}
			if fld, ok := an.Unwrap(st.Val).(*ssa.Field); ok {
				if pt, ok := fld.X.Type().(*types.Named); ok && pt.Obj().Name() == "Packet" {
					src = pt.Underlying().(*types.Struct).Field(fld.Field).Name()
				}
			}
			got[field] = src
		})
	}
	var bad []string
	for _, f := range []string{"ID", "Kind", "Control"} {
		if got[f] != f {
			if got[f] == "" {
				bad = append(bad, f+" is not set")
			} else {
				bad = append(bad, f+" is set from "+got[f])
			}
		}
	}
	c.Check(len(bad) == 0, "SplitN | every frame carries the packet's id, kind and control bit", c.P.Pos(fn.Pos()), fmt.Sprint(got),
		"a frame produced by SplitN does not take its header from the packet ("+strings.Join(bad, "; ")+"): the packet that is reassembled from the frames differs from the one that was split")
}

// c08r5: the "need more data" answer of ReadVarint (ok == false with a nil error) must not be reachable once the
// group counter has reached its bound. The exhausted edges are read off the comparisons of the loop counter (the
// shift accumulator or the byte index) with a constant; edges that contradict "counter >= bound" are not followed.
func c08r5(c *an.Ctx) {
	fn := c.Fn("drpcwire", "ReadVarint")
	c.Analysed(fn)
	sig := fn.Signature.Results()
	okIdx, errIdx := -1, -1
	for i := 0; i < sig.Len(); i++ {
		switch t := sig.At(i).Type().(type) {
		case *types.Basic:
			if t.Kind() == types.Bool {
				okIdx = i
			}
		case *types.Named:
			if t.Obj().Name() == "error" {
				errIdx = i
			}
		}
	}
	if okIdx < 0 || errIdx < 0 {
		c.Undecided("ReadVarint no longer returns (ok bool, err error): restate C08.R5")
		return
	}
	isCounter := func(v ssa.Value) (ssa.Value, bool) {
		for i := 0; i < 4; i++ {
			switch x := v.(type) {
			case *ssa.Convert:
				v = x.X
				continue
			case *ssa.BinOp:
				if x.Op == token.ADD {
					if _, isK := an.ConstInt(x.Y); isK {
						v = x.X
						continue
					}
				}
			}
			break
		}
		phi, ok := v.(*ssa.Phi)
		if !ok {
			return nil, false
		}
		for _, e := range phi.Edges {
			if b, isB := e.(*ssa.BinOp); isB && b.Op == token.ADD && b.X == ssa.Value(phi) {
				if _, isK := an.ConstInt(b.Y); isK {
					return phi, true
				}
			}
		}
		return nil, false
	}
	// side(cond) = index of the successor on which "counter >= its bound" holds, or -1
	type exh struct {
		br  *ssa.If
		idx int
	}
	var edges []exh
	counters := map[ssa.Value]int64{}
	for _, b := range fn.Blocks {
		br, ok := b.Instrs[len(b.Instrs)-1].(*ssa.If)
		if !ok {
			continue
		}
		cmp, ok := br.Cond.(*ssa.BinOp)
		if !ok {
			continue
		}
		k, isK := an.ConstInt(cmp.Y)
		ctr, isC := isCounter(cmp.X)
		if !isK || !isC || k <= 0 {
			continue
		}
		switch cmp.Op {
		case token.LSS, token.LEQ, token.NEQ:
			edges = append(edges, exh{br, 1})
		case token.GEQ, token.GTR, token.EQL:
			edges = append(edges, exh{br, 0})
		default:
			continue
		}
		if cmp.X == ctr {
			counters[ctr] = k
		}
	}
	if len(edges) == 0 {
		c.Bad("ReadVarint | need-more only while the byte budget is unspent", c.P.Pos(fn.Pos()), "no comparison of a loop counter with a constant bound found: the decoder has no recognisable byte budget, so C08.R5 cannot be shown (ten continuation bytes must be an error, not a request for more data)")
		return
	}
	// contradicted edge: a later test of the same counter against a constant not above the bound, on the side saying "below"
	infeasible := func(from *ssa.BasicBlock, succ int) bool {
		br, ok := from.Instrs[len(from.Instrs)-1].(*ssa.If)
		if !ok {
			return false
		}
		cmp, ok := br.Cond.(*ssa.BinOp)
		if !ok {
			return false
		}
		bound, known := counters[cmp.X]
		k, isK := an.ConstInt(cmp.Y)
		if !known || !isK || k > bound {
			return false
		}
		switch cmp.Op {
		case token.LSS:
			return succ == 0
		case token.GEQ:
			return succ == 1
		}
		return false
	}
	cases := an.ReturnCases(fn)
	for ei, e := range edges {
		start := e.br.Block().Succs[e.idx]
		seen := map[*ssa.BasicBlock]bool{start: true}
		work := []*ssa.BasicBlock{start}
		for len(work) > 0 {
			b := work[0]
			work = work[1:]
			for i, s := range b.Succs {
				if seen[s] || infeasible(b, i) {
					continue
				}
				// the loop's back edge returns to the test itself: the counter has not reached the bound there
				if s == e.br.Block() {
					continue
				}
				seen[s] = true
				work = append(work, s)
			}
		}
		key := fmt.Sprintf("ReadVarint | budget-spent exit %d never answers need-more", ei)
		bad := ""
		for _, rc := range cases {
			at := rc.At
			if at == nil {
				at = rc.Ret.Block()
			}
			if !seen[at] || !seen[rc.Ret.Block()] {
				continue
			}
			okV, errV := rc.Vals[okIdx], rc.Vals[errIdx]
			okFalse := okV == nil
			if cst, isC := okV.(*ssa.Const); isC && cst.Value != nil && cst.Value.String() == "false" {
				okFalse = true
			}
			errNil := errV == nil || an.IsNilConst(errV)
			if okFalse && errNil {
				bad = c.P.InstrPos(rc.Ret)
			}
		}
		if bad != "" {
			c.Bad(key, c.P.InstrPos(e.br), "the return at "+bad+" (not ok, nil error = \"need more data\") is reachable after the group counter reached its bound: an over-long varint that ends exactly at the end of the buffer is answered with a request for more bytes instead of an error, so the answer depends on how the peer's bytes are chunked")
		} else {
			c.Ok(key, c.P.InstrPos(e.br), "every return reachable from this edge is ok or carries a non-nil error")
		}
	}
}
