package rules

import (
	"fmt"
	"go/token"
	"go/types"

	"golang.org/x/tools/go/ssa"

	"verif/sa/internal/an"
)

// guardedBuffer checks that a buffer field and every alias derived from it
// (slices of it, values stored into it) are only touched while the guarding
// lock of the same object is held. It returns the number of checked uses.
func guardedBuffer(c *an.Ctx, pl *an.PkgLocks, fns []*ssa.Function, field, lock *types.Var, fieldName, lockName, why string) int {
	n := 0
	for _, fn := range fns {
		var sources []ssa.Value
		var root ssa.Value
		an.Instrs(fn, func(in ssa.Instruction) {
			switch x := in.(type) {
			case *ssa.FieldAddr:
				fv := an.PathOf(x).Last()
				if fv == nil || fv.Origin() != field.Origin() {
					return
				}
				r := an.PathOf(x).Root
				if isFreshObject(r) {
					return
				}
				root = r
				n++
				c.Check(pl.MustHoldClass(in, r, lock), fmt.Sprintf("%s | access %s under %s", an.ShortFunc(fn), fieldName, lockName), c.At(in), "", fieldName+" is accessed without "+lockName+": "+why)
				for _, ref := range *x.Referrers() {
					switch r2 := ref.(type) {
					case *ssa.UnOp:
						if r2.Op == token.MUL {
							sources = append(sources, r2)
						}
					case *ssa.Store:
						if r2.Addr == x {
							sources = append(sources, r2.Val)
						}
					}
				}
			}
		})
		if len(sources) == 0 {
			continue
		}
		c.Analysed(fn)
		// a stored value that is a tuple extract (x, err = f(...)) aliases the field from its definition on
		t := an.FlowFrom(fn, sources...)
		seen := map[ssa.Instruction]bool{}
		for _, s := range t.Sinks {
			if seen[s.Instr] {
				continue
			}
			seen[s.Instr] = true
			if st, ok := s.Instr.(*ssa.Store); ok {
				if fv := an.PathOf(st.Addr).Last(); fv != nil && fv.Origin() == field.Origin() {
					continue // the store into the field itself (checked above)
				}
			}
			if _, ok := s.Instr.(*ssa.Return); ok {
				c.Bad(fmt.Sprintf("%s | alias of %s escapes by return", an.ShortFunc(fn), fieldName), c.At(s.Instr), "a slice sharing "+fieldName+"'s backing array is returned out of the critical section")
				n++
				continue
			}
			n++
			c.Check(pl.MustHoldClass(s.Instr, root, lock), fmt.Sprintf("%s | alias of %s used under %s", an.ShortFunc(fn), fieldName, lockName), c.At(s.Instr), "",
				"a slice sharing "+fieldName+"'s backing array is used after "+lockName+" was released (or before it was taken): "+why)
			// ... and in the critical section in which it was obtained: holding the lock again later is not
			// enough, another holder may have rewritten the buffer in between
			if straddle := straddlesUnlock(pl, fn, sources, s.Instr, lock); straddle != nil {
				c.Bad(fmt.Sprintf("%s | alias of %s is used in the critical section that produced it", an.ShortFunc(fn), fieldName), c.At(s.Instr),
					"a slice sharing "+fieldName+"'s backing array is kept across "+c.At(straddle)+", where "+lockName+" is released, and used after the lock is taken again: "+why)
			}
		}
	}
	return n
}

// straddlesUnlock returns a release of the lock class that can run between the point an alias source was
// obtained and the use (on a path that does not obtain the source again), or nil.
func straddlesUnlock(pl *an.PkgLocks, fn *ssa.Function, sources []ssa.Value, use ssa.Instruction, lock *types.Var) ssa.Instruction {
	var unlocks []ssa.Instruction
	an.Instrs(fn, func(in ssa.Instruction) {
		call, ok := in.(*ssa.Call) // deferred releases run at function exit: never between two instructions
		if !ok {
			return
		}
		if op, isOp := pl.LT.OpOf(call.Common()); isOp && op.Kind == "unlock" && len(op.Lock.Fields) > 0 && op.Lock.Fields[len(op.Lock.Fields)-1].Origin() == lock.Origin() {
			unlocks = append(unlocks, in)
		}
	})
	if len(unlocks) == 0 {
		return nil
	}
	for _, src := range sources {
		def, ok := src.(ssa.Instruction)
		if !ok || def.Block() == nil {
			continue
		}
		for _, u := range unlocks {
			if an.CanReach(def, u) && reachAvoiding(u, use, def) {
				return u
			}
		}
	}
	return nil
}

// reachAvoiding: there is a path from instruction a to instruction b that does not execute avoid.
func reachAvoiding(a, b, avoid ssa.Instruction) bool {
	idx := func(in ssa.Instruction) int {
		for i, x := range in.Block().Instrs {
			if x == in {
				return i
			}
		}
		return -1
	}
	ia, ib, iv := idx(a), idx(b), idx(avoid)
	// within a's block after a
	if a.Block() == b.Block() && ia < ib && !(avoid.Block() == a.Block() && ia < iv && iv < ib) {
		return true
	}
	if avoid.Block() == a.Block() && iv > ia {
		return false // avoid runs before a's block is left
	}
	seen := map[*ssa.BasicBlock]bool{}
	stack := append([]*ssa.BasicBlock{}, a.Block().Succs...)
	for len(stack) > 0 {
		x := stack[len(stack)-1]
		stack = stack[:len(stack)-1]
		if seen[x] {
			continue
		}
		seen[x] = true
		if x == b.Block() {
			if !(avoid.Block() == x && iv < ib) {
				return true
			}
			continue
		}
		if x == avoid.Block() {
			continue
		}
		stack = append(stack, x.Succs...)
	}
	return false
}

// writerFlagAgreement: abstract interpretation of the Writer's (buffer
// emptiness, empty flag) pair over all methods; at every return of an
// exported method the pair must be consistent.
func writerFlagAgreement(c *an.Ctx) {
	a := A(c)
	buf := a.field("drpcwire", "Writer", "buf")
	flag := a.field("drpcwire", "Writer", "empty")
	appendFrame := a.obj("drpcwire", "AppendFrame")
	fns := must(c.P.SourceFuncs("drpcwire"))
	writerT := must(c.P.Named("drpcwire", "Writer"))
	isWriterMethod := func(fn *ssa.Function) bool {
		if fn.Signature.Recv() == nil {
			return false
		}
		return types.Identical(deref(fn.Signature.Recv().Type()), writerT)
	}
	touches := func(fn *ssa.Function) bool {
		t := false
		an.Instrs(fn, func(in ssa.Instruction) {
			if fa, ok := in.(*ssa.FieldAddr); ok {
				if fv := an.PathOf(fa).Last(); fv != nil && (fv.Origin() == buf.Origin() || fv.Origin() == flag.Origin()) {
					t = true
				}
			}
			if ci, ok := in.(ssa.CallInstruction); ok {
				if callee := ci.Common().StaticCallee(); callee != nil && callee != fn && isWriterMethod(callee) {
					t = true
				}
			}
		})
		return t
	}
	isFlagStore := func(cc *ssa.CallCommon) (int64, bool) {
		a, isA := an.AtomicOpOf(cc)
		if !isA || a.Kind != "store" || a.Val == nil {
			return 0, false
		}
		if fv := an.PathOf(a.Addr).Last(); fv == nil || fv.Origin() != flag.Origin() {
			return 0, false
		}
		k, ok := an.ConstInt(a.Val)
		if !ok {
			return -1, true
		}
		return k, true
	}
	isLenBuf := func(v ssa.Value) bool {
		call, ok := v.(*ssa.Call)
		if !ok {
			return false
		}
		b, ok := call.Common().Value.(*ssa.Builtin)
		return ok && b.Name() == "len" && isLoadOfField(call.Common().Args[0], buf)
	}
	type key struct {
		fn *ssa.Function
		st string
	}
	memo := map[key][]string{}
	active := map[key]bool{}
	var run func(fn *ssa.Function, init string) []string
	run = func(fn *ssa.Function, init string) []string {
		k := key{fn, init}
		if r, ok := memo[k]; ok {
			return r
		}
		if active[k] {
			return []string{init}
		}
		active[k] = true
		defer func() { active[k] = false }()
		set := func(st string, b, f byte) string {
			bs := []byte(st)
			if b != 0 {
				bs[0] = b
			}
			if f != 0 {
				bs[1] = f
			}
			return string(bs)
		}
		step := func(st string, in ssa.Instruction) []string {
			switch x := in.(type) {
			case *ssa.Store:
				fv := an.PathOf(x.Addr).Last()
				if fv == nil || fv.Origin() != buf.Origin() {
					return nil
				}
				switch v := x.Val.(type) {
				case *ssa.Call:
					if an.IsCallTo(v.Common(), appendFrame) {
						return []string{set(st, 'N', 0)}
					}
				case *ssa.Slice:
					if hi, ok := an.ConstInt(v.High); ok && hi == 0 && v.Low == nil {
						return []string{set(st, 'E', 0)}
					}
				}
				return []string{set(st, '?', 0)}
			case ssa.CallInstruction:
				if _, isDefer := in.(*ssa.Defer); isDefer {
					return nil
				}
				cc := x.Common()
				if kf, ok := isFlagStore(cc); ok {
					switch kf {
					case 0:
						return []string{set(st, 0, '0')}
					case 1:
						return []string{set(st, 0, '1')}
					default:
						return []string{set(st, 0, '?')}
					}
				}
				if callee := cc.StaticCallee(); callee != nil && isWriterMethod(callee) && len(callee.Blocks) > 0 && touches(callee) {
					return run(callee, st)
				}
			}
			return nil
		}
		flow := &an.Flow{Fn: fn, Init: []string{init}, Step: step,
			StepDefer: func(st string, d *ssa.Defer) []string {
				if callee := d.Common().StaticCallee(); callee != nil && isWriterMethod(callee) && touches(callee) {
					return run(callee, st)
				}
				return nil
			},
			Branch: func(st string, br *ssa.If, idx int) (string, bool) {
				bin, ok := br.Cond.(*ssa.BinOp)
				if !ok || !isLenBuf(bin.X) {
					return st, true
				}
				k, isC := an.ConstInt(bin.Y)
				if !isC || k != 0 {
					return st, true
				}
				var emptyOnTrue bool
				switch bin.Op {
				case token.EQL:
					emptyOnTrue = true
				case token.GTR, token.NEQ:
					emptyOnTrue = false
				default:
					return st, true
				}
				isEmpty := (idx == 0) == emptyOnTrue
				cur := st[0]
				if isEmpty {
					if cur == 'N' {
						return st, false
					}
					return set(st, 'E', 0), true
				}
				if cur == 'E' {
					return st, false
				}
				return set(st, 'N', 0), true
			},
		}
		res := flow.Run()
		outSet := map[string]bool{}
		for _, ret := range an.Returns(fn) {
			if !res.Reachable(ret.Block()) {
				continue
			}
			for _, st := range res.Before(ret) {
				outSet[st] = true
			}
		}
		var out []string
		for s := range outSet {
			out = append(out, s)
		}
		memo[k] = out
		return out
	}
	n := 0
	for _, fn := range fns {
		if !isWriterMethod(fn) || fn.Object() == nil || !fn.Object().Exported() || !touches(fn) {
			continue
		}
		c.Analysed(fn)
		for _, init := range []string{"E0", "N1"} {
			for _, st := range run(fn, init) {
				n++
				ok := st == "E0" || st == "N1"
				c.Check(ok, fmt.Sprintf("%s | (buffer,flag) from %s ends consistent", an.ShortFunc(fn), init), c.P.Pos(fn.Pos()), st,
					fmt.Sprintf("starting from a consistent writer (%s) a path ends with buffer=%c flag=%c: Writer.Empty() disagrees with the buffer, so Stream.rawFlushLocked skips a flush that is needed (message never reaches the peer) or flushes nothing", init, st[0], st[1]))
			}
		}
	}
	c.Floor("exported Writer methods x entry states", 1, n)
}
