package rules

import (
	"fmt"
	"go/token"
	"go/types"
	"sort"
	"strings"

	"golang.org/x/tools/go/ssa"

	"verif/sa/internal/an"
)

func init() {
	register(&Property{
		ID:        "C11",
		Technique: "codec layout extraction for the metadata entry encoder/decoder compared with each other and the protobuf field table, guard/provenance analysis of the attach site, order typestate on the client's invoke sequence, buffer-provenance check for the encoded bytes; tested-then-dropped error (contradiction) check and interprocedural lock-pairing check over the packages the property is anchored in",
		Explanation: "Statically decidable part of 'call metadata arrives intact at exactly its RPC': " +
			"(R1) appendEntry emits, and readEntry/readKeyValue consume, the protobuf encoding of map<string,string> field 1: tag 0x0a, entry length, tag 0x0a, key length, key, tag 0x12, value length, value — in that order, with each announced length being the length of the bytes that follow; decoder bounds are compiler-proved and its loops consume input; " +
			"(R2) the server attaches decoded metadata to a stream's context only if it was carried by a metadata packet with the same stream id as the invoke being served, and that id/map come only from the metadata branch; " +
			"(R3) the client writes the metadata packet before the invoke packet on the same stream, only when there is metadata, and the bytes are encoded from the call's own context into a buffer no other call can write.",
		NotDecided: "map round-trip for arbitrary strings; the arithmetic of varintSize / the announced entry length; scoping for all call histories (behavioural). drpcmetadata.Add mutating a map shared with the parent context is noted in DESIGN.md and not claimed.",
		Rules: append([]Rule{
			{ID: "C11.R1", Doc: "metadata entry layout: encoder and decoder agree with each other and with the protobuf field table; decoder is total", Run: c11r1},
			{ID: "C11.R2", Doc: "NewServerStream attaches metadata only under metaID == invoke packet's stream id; metaID/meta come only from the metadata branch", Run: c11r2},
			{ID: "C11.R3", Doc: "client: metadata packet precedes the invoke on the same stream, is encoded from the call's own ctx into a call-private buffer", Run: c11r3},
			{ID: "C11.R4", Alias: "C18.R4"},
			{ID: "C11.S1", Alias: "C18.R2"},
		}, disciplineRules("C11", "drpcmetadata", "drpcconn", "drpcmanager")...),
	})
}

func c11r1(c *an.Ctx) {
	a := A(c)
	appendVarint := a.obj("drpcwire", "AppendVarint")
	readVarint := a.obj("drpcwire", "ReadVarint")
	ae := c.Fn("drpcmetadata", "appendEntry")
	enc, err := an.EncoderLayout(ae, 0, map[*types.Func]bool{appendVarint: true})
	if err != nil {
		c.Undecided("cannot extract appendEntry's layout: %v", err)
		return
	}
	c.Note("appendEntry layout: %s", an.LayoutString(enc))
	want := []struct{ kind, src string }{
		{"byte", "10"}, {"varint", ""}, {"byte", "10"}, {"varint", "len(key)"}, {"bytes", "key"}, {"byte", "18"}, {"varint", "len(value)"}, {"bytes", "value"},
	}
	ok := len(enc) == len(want)
	if ok {
		for i, w := range want {
			if enc[i].Kind != w.kind || !strings.Contains(enc[i].Src, w.src) {
				ok = false
			}
		}
	}
	c.Check(ok, "appendEntry | emits tag 0x0a, entry len, tag 0x0a, len(key), key, tag 0x12, len(value), value", c.P.Pos(ae.Pos()), an.LayoutString(enc),
		"the metadata entry encoder emits "+an.LayoutString(enc)+", not the protobuf encoding of map<string,string> field 1 {1: key, 2: value}")
	if ok {
		// the announced entry length, as a linear form over len(key), len(value) and the varint sizes of those
		// lengths, must be (1 + VS(len key) + len key) + (1 + VS(len value) + len value) -- wherever the pieces
		// are computed (a helper per string, locals, in place)
		var lenArg ssa.Value
		if call, isCall := enc[1].At.(*ssa.Call); isCall && len(call.Common().Args) >= 2 {
			lenArg = call.Common().Args[1]
		}
		got, okLin := linearForm(c, lenArg, ae, 0)
		wantLin := map[string]int64{"1": 2, "len(key)": 1, "len(value)": 1, "VS(len(key))": 1, "VS(len(value))": 1}
		same := okLin && len(got) == len(wantLin)
		for k, v := range wantLin {
			if got[k] != v {
				same = false
			}
		}
		c.Check(same, "appendEntry | entry length = (1 + varintSize(len key) + len key) + (1 + varintSize(len value) + len value)", c.At(enc[1].At), fmt.Sprint(got),
			fmt.Sprintf("the announced entry length is %v: it does not equal the bytes that follow (tag, length prefix and bytes of both strings), so a standard protobuf decoder (v0.0.17's, or this package's own) rejects or misreads the entry", got))
	}

	// decoder: tags compared, varints threaded, slices at the announced lengths
	// tag expectations along the execution of a decoder function: direct comparisons of buf[0] with a
	// constant, or calls to a helper of the package that compares buf[0] with one of its parameters.
	type tagEv struct {
		in    ssa.Instruction
		k     int64
		param int // >= 0: compared with that parameter
	}
	var tagEvents func(fn *ssa.Function, depth int) []tagEv
	tagEvents = func(fn *ssa.Function, depth int) []tagEv {
		var ts []tagEv
		if depth > 2 {
			return nil
		}
		an.Instrs(fn, func(in ssa.Instruction) {
			switch x := in.(type) {
			case *ssa.BinOp:
				if x.Op != token.NEQ && x.Op != token.EQL {
					return
				}
				ld, isLd := x.X.(*ssa.UnOp)
				if !isLd {
					return
				}
				ia, isIA := ld.X.(*ssa.IndexAddr)
				if !isIA {
					return
				}
				if z, isZ := an.ConstInt(ia.Index); !isZ || z != 0 {
					return
				}
				if k, isC := an.ConstInt(x.Y); isC {
					ts = append(ts, tagEv{in, k, -1})
					return
				}
				for i, p := range fn.Params {
					if an.Resolve(x.Y) == ssa.Value(p) {
						ts = append(ts, tagEv{in, 0, i})
					}
				}
			case *ssa.Call:
				callee := x.Common().StaticCallee()
				if callee == nil || callee == fn || len(callee.Blocks) == 0 || c.P.PkgOfFunc(callee) != c.P.PkgOfFunc(fn) {
					return
				}
				for _, ev := range tagEvents(callee, depth+1) {
					if ev.param >= 0 && ev.param < len(x.Common().Args) {
						if k, isC := an.ConstInt(x.Common().Args[ev.param]); isC {
							ts = append(ts, tagEv{in, k, -1})
						}
					}
				}
			}
		})
		sort.SliceStable(ts, func(i, j int) bool { return ts[i].in != ts[j].in && an.InstrDominates(ts[i].in, ts[j].in) })
		return ts
	}
	tagsOf := func(fn *ssa.Function) []int64 {
		var out []int64
		for _, ev := range tagEvents(fn, 0) {
			if ev.param < 0 {
				out = append(out, ev.k)
			}
		}
		return out
	}
	re := c.Fn("drpcmetadata", "readEntry")
	// the tags the decoder expects, in the order it compares them, through whatever same-package helpers it uses
	// (a readKeyValue for the inside of the entry, a generic readField, or everything in place)
	var allTags func(fn *ssa.Function, depth int) []int64
	allTags = func(fn *ssa.Function, depth int) []int64 {
		if depth > 3 {
			return nil
		}
		type ev struct {
			in ssa.Instruction
			ks []int64
		}
		var evs []ev
		for _, te := range tagEvents(fn, 0) {
			if te.param < 0 {
				evs = append(evs, ev{te.in, []int64{te.k}})
			}
		}
		direct := map[ssa.Instruction]bool{}
		for _, e := range evs {
			direct[e.in] = true
		}
		an.Instrs(fn, func(in ssa.Instruction) {
			call, isCall := in.(*ssa.Call)
			if !isCall || direct[in] {
				return
			}
			callee := call.Common().StaticCallee()
			if callee == nil || callee == fn || len(callee.Blocks) == 0 || c.P.PkgOfFunc(callee) != c.P.PkgOfFunc(fn) {
				return
			}
			if sub := allTags(callee, depth+1); len(sub) > 0 {
				evs = append(evs, ev{in, sub})
			}
		})
		sort.SliceStable(evs, func(i, j int) bool { return evs[i].in != evs[j].in && an.InstrDominates(evs[i].in, evs[j].in) })
		var out []int64
		for _, e := range evs {
			out = append(out, e.ks...)
		}
		return out
	}
	tags := allTags(re, 0)
	c.Check(len(tags) >= 1 && tags[0] == 10, "readEntry | expects tag 0x0a", c.P.Pos(re.Pos()), fmt.Sprint(tags), fmt.Sprintf("readEntry compares the first byte with %v, the encoder writes 10", tags))
	c.Check(len(tags) == 3 && tags[1] == 10 && tags[2] == 18, "readKeyValue | expects tag 0x0a then tag 0x12", c.P.Pos(re.Pos()), fmt.Sprint(tags), fmt.Sprintf("inside the entry the decoder compares tags %v, the encoder writes 10 then 18", tags))
	_ = tagsOf
	// every slice at a decoded length is guarded by length <= len(buf) (the compiler proves the rest)
	decFns := extendedBody(re)
	rkv := re
	for _, fn := range decFns {
		if nameOf(fn) == "readKeyValue" {
			rkv = fn
		}
	}
	nSlAll, nRVAll := 0, 0
	for _, fn := range decFns {
		nSl := 0
		an.Instrs(fn, func(in ssa.Instruction) {
			sl, ok := in.(*ssa.Slice)
			if !ok {
				return
			}
			var bound ssa.Value
			if sl.High != nil {
				bound = sl.High
			} else if sl.Low != nil {
				bound = sl.Low
			}
			if bound == nil {
				return
			}
			if _, isC := an.ConstInt(bound); isC {
				return
			}
			nSl++
			guarded := false
			for _, g := range an.GuardsOf(in.Block()) {
				b, ok := g.Cond.(*ssa.BinOp)
				if !ok {
					continue
				}
				if (b.Op == token.GTR && !g.True || b.Op == token.LEQ && g.True) && an.Resolve(b.X) == an.Resolve(bound) && lenOperand(b.Y) != nil {
					guarded = true
				}
			}
			c.Check(guarded, an.ShortFunc(fn)+" | slice at a decoded length is behind length <= len(buf)", c.At(in), "", "peer-controlled length is used to slice without being compared with the bytes available")
		})
		nSlAll += nSl
		nRVAll += len(an.CallsTo(fn, false, readVarint))
	}
	c.Floor("length-bounded slices in the metadata decoder", 1, nSlAll)
	c.Check(nRVAll >= 3, "metadata decoder | entry, key and value lengths are varints", c.P.Pos(re.Pos()), fmt.Sprint(nRVAll), fmt.Sprintf("only %d ReadVarint calls in the metadata decoder", nRVAll))
	// readKeyValue rejects trailing bytes; readEntry passes exactly buf[:length]
	okTrail := false
	for _, fn := range decFns {
		an.Instrs(fn, func(in ssa.Instruction) {
			if b, ok := in.(*ssa.BinOp); ok && (b.Op == token.NEQ || b.Op == token.EQL || b.Op == token.GTR) {
				if k, isC := an.ConstInt(b.Y); isC && k == 0 && lenOperand(b.X) != nil {
					okTrail = true
				}
			}
		})
	}
	c.Check(okTrail, "readKeyValue | entry must be consumed exactly", c.P.Pos(rkv.Pos()), "", "trailing bytes inside an entry are ignored")
	// totality: BCE + loops
	n := checkBCE(c, map[string]bool{"readEntry": true, "readKeyValue": true, "Decode": true, "appendEntry": true, "Encode": true, "varintSize": true, "encodedStringSize": true}, "metadata codec")
	c.Ok("metadata codec | compiler BCE report consulted", "-", fmt.Sprintf("%d residual bounds checks (0 expected on 64-bit)", n))
	dec := c.Fn("drpcmetadata", "Decode")
	for i, l := range an.Loops(dec) {
		// the loop variable is re-assigned from readEntry's remainder and the loop exits on !ok / err
		okLoop := false
		for b := range l.Blocks {
			for _, in := range b.Instrs {
				if call, isCall := in.(*ssa.Call); isCall && call.Common().StaticCallee() == re {
					okLoop = true
				}
			}
		}
		c.Check(okLoop, fmt.Sprintf("Decode | loop %d consumes input through readEntry", i), c.P.Pos(dec.Pos()), "", "Decode's loop does not advance through readEntry")
		// ... until nothing is left: the loop's exit test is on the remaining length being zero
		okAll := false
		for b := range l.Blocks {
			if len(b.Instrs) == 0 {
				continue
			}
			br, isIf := b.Instrs[len(b.Instrs)-1].(*ssa.If)
			if !isIf {
				continue
			}
			leaves := false
			for _, sc := range b.Succs {
				if !l.Blocks[sc] {
					leaves = true
				}
			}
			if cmp, isCmp := br.Cond.(*ssa.BinOp); isCmp && leaves && lenOperand(cmp.X) != nil {
				if k, isK := an.ConstInt(cmp.Y); isK && ((k == 0 && (cmp.Op == token.GTR || cmp.Op == token.NEQ || cmp.Op == token.EQL)) || (k == 1 && (cmp.Op == token.GEQ || cmp.Op == token.LSS))) {
					okAll = true
				}
			}
		}
		c.Check(okAll, fmt.Sprintf("Decode | loop %d runs until the input is empty", i), c.P.Pos(dec.Pos()), "", "Decode stops with bytes left over: trailing garbage after the last entry is accepted as valid metadata")
	}
	// readEntry's success return is a strict suffix: buf was advanced past the tag byte before slicing
	// every return case that can report success yields a remainder derived from the input by at
	// least one step that consumes a byte (a slice from a constant >= 1, or ReadVarint's remainder)
	okSuffix := true
	nSuccess := 0
	var advanced func(v ssa.Value, depth int) (reaches, strict bool)
	advanced = func(v ssa.Value, depth int) (bool, bool) {
		if depth > 12 || v == nil {
			return false, false
		}
		v = an.Resolve(v)
		if len(re.Params) > 0 && v == re.Params[0] {
			return true, false
		}
		switch x := v.(type) {
		case *ssa.Slice:
			r, s := advanced(x.X, depth+1)
			if lo, isLo := an.ConstInt(x.Low); x.Low != nil && isLo && lo >= 1 {
				s = true
			}
			return r, s
		case *ssa.Extract:
			if call, isCall := x.Tuple.(*ssa.Call); isCall && an.IsCallTo(call.Common(), readVarint) && x.Index == 0 && len(call.Common().Args) > 0 {
				r, _ := advanced(call.Common().Args[0], depth+1)
				return r, true // a successful ReadVarint consumes at least one byte
			}
		case *ssa.Phi:
			allR, allS := len(x.Edges) > 0, true
			for _, e := range x.Edges {
				if an.IsNilConst(e) {
					continue // the failure ways in; they are not success cases
				}
				r, s := advanced(e, depth+1)
				allR, allS = allR && r, allS && s
			}
			return allR, allS
		}
		return false, false
	}
	for _, rc := range an.ReturnCases(re) {
		if len(rc.Vals) < 5 {
			continue
		}
		if cst, isC := rc.Vals[3].(*ssa.Const); isC && cst.Value != nil && cst.Value.String() == "false" {
			continue
		}
		if rc.Vals[4] != nil && !an.IsNilConst(rc.Vals[4]) && provablyNonNilCase(rc.Vals[4], rc) {
			continue
		}
		nSuccess++
		if r, s := advanced(rc.Vals[0], 0); !r || !s {
			okSuffix = false
		}
	}
	if nSuccess == 0 {
		okSuffix = false
	}
	c.Check(okSuffix, "readEntry | success returns a strict suffix of its input", c.P.Pos(re.Pos()), "", "readEntry can succeed without consuming anything: Decode would loop forever")
}

func c11r2(c *an.Ctx) {
	a := A(c)
	sv := c.Fn("drpcmanager", "(*Manager).NewServerStream")
	addPairs := a.obj("drpcmetadata", "AddPairs")
	decode := a.obj("drpcmetadata", "Decode")
	idStream := a.field("drpcwire", "ID", "Stream")
	kinds := kindConsts(c)
	isPktStream := func(v ssa.Value) bool {
		p := an.PathOf(v)
		return len(p.Fields) >= 2 && p.Last().Origin() == idStream.Origin() && nameOf(p.Fields[len(p.Fields)-2]) == "ID"
	}
	n := 0
	idEquality := func(guards []an.Guard) ssa.Value {
		var metaID ssa.Value
		for _, g := range guards {
			b, ok := g.Cond.(*ssa.BinOp)
			if !ok || (b.Op != token.EQL && b.Op != token.NEQ) {
				continue
			}
			if g.True != (b.Op == token.EQL) {
				continue
			}
			// the packet's id may have been parked in a local (struct field) on the way: look through unique stores
			if isPktStream(b.Y) || isPktStream(an.Resolve(b.Y)) {
				metaID = b.X
			} else if isPktStream(b.X) || isPktStream(an.Resolve(b.X)) {
				metaID = b.Y
			}
		}
		return metaID
	}
	for _, cs := range an.CallsTo(sv, true, addPairs) {
		n++
		// the call itself is behind metaID == pkt.ID.Stream, or every non-nil map that can reach it is
		// (attaching a nil map attaches nothing)
		metaID := idEquality(an.GuardsOf(cs.Instr.Block()))
		if metaID == nil {
			srcs := an.SourcesWithGuards(an.Arg(cs.Common(), 1), cs.Instr.Block())
			for i, src := range srcs {
				id := idEquality(src.Guards)
				if id == nil || (i > 0 && metaID != nil && an.Resolve(id) != an.Resolve(metaID)) {
					metaID = nil
					break
				}
				metaID = id
			}
		}
		inInvoke := guardedByKind(cs.Instr.Block(), kinds["KindInvoke"], true)
		c.Check(inInvoke, "NewServerStream | metadata attached while serving a KindInvoke packet", c.At(cs.Instr), "", "metadata is attached outside the invoke branch")
		if !c.Check(metaID != nil, "NewServerStream | AddPairs guarded by metaID == pkt.ID.Stream", c.At(cs.Instr), "",
			"decoded metadata is attached to the stream's context without checking that it was sent for this stream id: metadata of an abandoned call (metadata written, invoke never sent) leaks into the next RPC on the connection") {
			continue
		}
		// provenance of metaID and of the attached map
		check := func(v ssa.Value, what string, good func(x ssa.Value) bool) {
			seen := map[ssa.Value]bool{}
			var bad []string
			var walk func(x ssa.Value)
			walk = func(x ssa.Value) {
				if seen[x] {
					return
				}
				seen[x] = true
				switch y := x.(type) {
				case *ssa.Phi:
					for _, e := range y.Edges {
						walk(e)
					}
				case *ssa.Const:
				default:
					if r := an.Resolve(x); r != x {
						walk(r)
						return
					}
					// a local (or a field of a local struct) written on several paths: every stored value counts
					if u, isU := x.(*ssa.UnOp); isU && u.Op == token.MUL {
						var stored []ssa.Value
						found := false
						switch ad := u.X.(type) {
						case *ssa.Alloc:
							stored, found = an.ReachingStores(ad, u), true
						case *ssa.FieldAddr:
							if al, isAl := ad.X.(*ssa.Alloc); isAl {
								stored, found = an.ReachingFieldStores(al, ad.Field, u), true
							}
						}
						if found && len(stored) > 0 {
							for _, sv := range stored {
								if sv != nil {
									walk(sv)
								}
							}
							return
						}
					}
					in, _ := x.(ssa.Instruction)
					if good(x) && in != nil && guardedByKind(in.Block(), kinds["KindInvokeMetadata"], true) {
						return
					}
					bad = append(bad, an.R(x))
				}
			}
			walk(v)
			c.Check(len(bad) == 0, "NewServerStream | "+what+" comes only from the metadata branch", c.At(cs.Instr), "", what+" has other sources: "+fmt.Sprint(bad))
		}
		check(metaID, "metaID", isPktStream)
		check(an.Arg(cs.Common(), 1), "the attached map", func(x ssa.Value) bool {
			ex, ok := x.(*ssa.Extract)
			if !ok || ex.Index != 0 {
				return false
			}
			call, ok := ex.Tuple.(*ssa.Call)
			return ok && an.IsCallTo(call.Common(), decode)
		})
	}
	c.Floor("AddPairs call sites in NewServerStream", 1, n)
}

func c11r3(c *an.Ctx) {
	a := A(c)
	rawWrite := a.obj("drpcstream", "(*Stream).RawWrite")
	encode := a.obj("drpcmetadata", "Encode")
	mdGet := a.obj("drpcmetadata", "Get")
	kinds := kindConsts(c)
	nFn := 0
	// per entry point, wherever the two writes are (the entry itself or a same-package helper it calls)
	for _, entry := range []string{"(*Conn).Invoke", "(*Conn).NewStream"} {
		efn := c.Fn("drpcconn", entry)
		found := false
		for _, fn := range extendedBody(efn) {
			var metaW, invW ssa.Instruction
			var metaArg ssa.Value
			an.Instrs(fn, func(in ssa.Instruction) {
				call, ok := in.(*ssa.Call)
				if !ok || !an.IsCallTo(call.Common(), rawWrite) {
					return
				}
				k, _ := an.ConstInt(an.Arg(call.Common(), 0))
				switch k {
				case kinds["KindInvokeMetadata"]:
					metaW, metaArg = in, an.Arg(call.Common(), 1)
				case kinds["KindInvoke"]:
					invW = in
				}
			})
			if metaW == nil && invW == nil {
				continue
			}
			found = true
			nFn++
			c.Analysed(fn)
			ok := metaW != nil && invW != nil && an.CanReach(metaW, invW) && !an.CanReach(invW, metaW)
			c.Check(ok, entry+" | metadata packet is written before the invoke packet", c.P.Pos(fn.Pos()), "", "the invoke can reach the server before (or without) its metadata")
			if metaW == nil || invW == nil {
				continue
			}
			r1, r2 := an.Recv(metaW.(*ssa.Call).Common()), an.Recv(invW.(*ssa.Call).Common())
			same := r1 == r2 || an.Resolve(r1) == an.Resolve(r2) || sameValue(r1, r2)
			c.Check(same, entry+" | both packets are written on the same stream", c.At(metaW), "", "metadata and invoke are written on different streams")
			guarded := false
			for _, g := range an.GuardsOf(metaW.Block()) {
				if cmp, ok := an.CmpOf(g); ok {
					isLen := func(v ssa.Value) bool { return lenOperand(v) != nil && lenOperand(v) == metaArg }
					isZero := func(v ssa.Value) bool {
						k, isK := an.ConstInt(v)
						return isK && k == 0
					}
					if cmp.Is(token.GTR, isLen, isZero) || cmp.Is(token.NEQ, isLen, isZero) {
						guarded = true
					}
				}
			}
			c.Check(guarded, entry+" | metadata packet only when there is metadata", c.At(metaW), "", "an empty metadata packet is sent (or the guard tests something else)")
			// every way out that reports success has written the invoke packet
			okRet, badAt := true, ""
			nCases := 0
			for _, rc := range an.ReturnCases(fn) {
				if len(rc.Vals) == 0 {
					continue
				}
				nCases++
				v := rc.Vals[len(rc.Vals)-1]
				switch {
				case an.InstrDominates(invW, rc.Ret) && !sameBlockBefore(rc.Ret, invW):
				case isCallResult(v, rawWrite) && an.Unwrap(v) == ssa.Value(invW.(*ssa.Call)):
				case !knownNilCase(v, rc) && provablyNonNilCase(v, rc):
				default:
					okRet, badAt = false, c.At(rc.Ret)
				}
			}
			pos := c.P.Pos(fn.Pos())
			if badAt != "" {
				pos = badAt
			}
			c.Check(okRet && nCases > 0, entry+" | every return that may report success has written the invoke packet", pos, "", "a way out returns a nil (or possibly nil) error without the KindInvoke packet having been written: the call reports success, the server never sees the RPC (typically a flipped error test after the metadata write)")
			// the bytes: Encode(<call-private buffer>, Get(ctx)) of the call's own ctx, followed through helper parameters
			for _, src := range paramSources(metaArg, efn, 0) {
				why := "it reaches the write through " + an.R(src.v) + " in " + an.ShortFunc(src.fn)
				if src.fn == efn {
					why = privateEncodedMetadata(src.v, efn, encode, mdGet, 0)
				} else if _, isParam := src.v.(*ssa.Parameter); !isParam {
					why = privateEncodedMetadata(src.v, src.fn, encode, mdGet, 0)
				}
				c.Check(why == "", entry+" | metadata bytes are encoded from this call's ctx into a call-private buffer", c.At(metaW), "",
					"the metadata handed to the stream is not provably this call's own: "+why+" (a buffer shared between calls can be overwritten by a concurrent call while this one waits for the stream slot; the handler would see another call's metadata)")
			}
		}
		c.Check(found, entry+" | writes the invoke sequence", c.P.Pos(efn.Pos()), "", "no KindInvoke write is reachable from "+entry+" inside the package")
	}
	c.Floor("client invoke helpers", 1, nFn)
}

// privateEncodedMetadata returns "" if v is nil or Encode(<nil or local buffer>, Get(ctx)) with ctx the function's context parameter.
func privateEncodedMetadata(v ssa.Value, fn *ssa.Function, encode, mdGet *types.Func, depth int) string {
	if depth > 4 {
		return "too deep"
	}
	switch x := v.(type) {
	case *ssa.Const:
		return ""
	case *ssa.Phi:
		for _, e := range x.Edges {
			if e == ssa.Value(x) {
				continue
			}
			if why := privateEncodedMetadata(e, fn, encode, mdGet, depth+1); why != "" {
				return why
			}
		}
		return ""
	case *ssa.UnOp:
		r := an.Resolve(x)
		if r != ssa.Value(x) {
			return privateEncodedMetadata(r, fn, encode, mdGet, depth+1)
		}
		if al, ok := x.X.(*ssa.Alloc); ok {
			for _, s := range an.ReachingStores(al, x) {
				if s == nil {
					continue
				}
				if why := privateEncodedMetadata(s, fn, encode, mdGet, depth+1); why != "" {
					return why
				}
			}
			return ""
		}
		return "it is loaded from shared state " + an.R(x)
	case *ssa.Extract:
		call, ok := x.Tuple.(*ssa.Call)
		if !ok {
			return "unrecognised source " + an.R(x)
		}
		if an.IsCallTo(call.Common(), encode) {
			buf := call.Common().Args[0]
			if why := privateEncodedMetadata(buf, fn, encode, mdGet, depth+1); why != "" {
				return "it is encoded into a buffer that is not call-private: " + why
			}
			md := call.Common().Args[1]
			if ex, ok := an.Resolve(md).(*ssa.Extract); ok {
				if g, ok := ex.Tuple.(*ssa.Call); ok && an.IsCallTo(g.Common(), mdGet) {
					if _, isParam := an.Resolve(g.Common().Args[0]).(*ssa.Parameter); isParam {
						// ... and it is encoded exactly when Get found some: no guard says Get's ok is false here
						for _, gd := range an.GuardsOf(call.Block()) {
							if okv, isEx := gd.Cond.(*ssa.Extract); isEx && okv.Tuple == ssa.Value(g) && okv.Index == 1 && !gd.True {
								return "the map is encoded on the branch where drpcmetadata.Get reported no metadata (its ok result is false): a call that has metadata sends none"
							}
						}
						return ""
					}
					return "the metadata map is not read from the call's ctx parameter"
				}
			}
			return "the encoded map is not drpcmetadata.Get(ctx)"
		}
		// a helper in the same package: look at what it returns
		if callee := call.Common().StaticCallee(); callee != nil && len(callee.Blocks) > 0 {
			for _, ret := range an.Returns(callee) {
				for _, rv := range returnedValues(ret, x.Index) {
					if rv == nil {
						continue
					}
					if why := privateEncodedMetadata(rv, callee, encode, mdGet, depth+1); why != "" {
						return "via " + an.ShortFunc(callee) + ": " + why
					}
				}
			}
			return ""
		}
		return "unrecognised source " + an.R(x)
	case *ssa.Slice:
		return privateEncodedMetadata(x.X, fn, encode, mdGet, depth+1)
	case *ssa.Call:
		if callee := x.Common().StaticCallee(); callee != nil && len(callee.Blocks) > 0 {
			for _, ret := range an.Returns(callee) {
				for _, rv := range returnedValues(ret, 0) {
					if rv == nil {
						continue
					}
					if why := privateEncodedMetadata(rv, callee, encode, mdGet, depth+1); why != "" {
						return "via " + an.ShortFunc(callee) + ": " + why
					}
				}
			}
			return ""
		}
	}
	return "unrecognised source " + an.R(v)
}

// linearForm evaluates an unsigned integer expression of the metadata encoder to a linear form over the atoms
// len(<param>), VS(len(<param>)) (= varintSize of that length) and "1" (the constant term). Conversions are
// transparent, same-package helpers with one return are evaluated with their parameters bound.
func linearForm(c *an.Ctx, v ssa.Value, fn *ssa.Function, depth int) (map[string]int64, bool) {
	return linearFormEnv(c, v, nil, depth)
}

func linearFormEnv(c *an.Ctx, v ssa.Value, env map[ssa.Value]ssa.Value, depth int) (map[string]int64, bool) {
	if v == nil || depth > 12 {
		return nil, false
	}
	if b, ok := env[v]; ok {
		return linearFormEnv(c, b, nil, depth+1)
	}
	v = an.Resolve(v)
	if b, ok := env[v]; ok {
		return linearFormEnv(c, b, nil, depth+1)
	}
	if k, isK := an.ConstInt(v); isK {
		if k == 0 {
			return map[string]int64{}, true
		}
		return map[string]int64{"1": k}, true
	}
	add := func(a, b map[string]int64) map[string]int64 {
		out := map[string]int64{}
		for k, x := range a {
			out[k] += x
		}
		for k, x := range b {
			out[k] += x
		}
		for k, x := range out {
			if x == 0 {
				delete(out, k)
			}
		}
		return out
	}
	atomOf := func(x ssa.Value) (string, bool) {
		x = an.Resolve(x)
		for {
			if cv, ok := x.(*ssa.Convert); ok {
				x = an.Resolve(cv.X)
				continue
			}
			break
		}
		if b, ok := env[x]; ok {
			x = an.Resolve(b)
			for {
				if cv, ok := x.(*ssa.Convert); ok {
					x = an.Resolve(cv.X)
					continue
				}
				break
			}
		}
		if l := lenOperand(x); l != nil {
			r := an.Resolve(l)
			if b, ok := env[r]; ok {
				r = an.Resolve(b)
			}
			if p, ok := r.(*ssa.Parameter); ok {
				return "len(" + p.Name() + ")", true
			}
		}
		return "", false
	}
	switch x := v.(type) {
	case *ssa.Convert:
		return linearFormEnv(c, x.X, env, depth+1)
	case *ssa.BinOp:
		if x.Op == token.ADD {
			a, ok1 := linearFormEnv(c, x.X, env, depth+1)
			b, ok2 := linearFormEnv(c, x.Y, env, depth+1)
			if ok1 && ok2 {
				return add(a, b), true
			}
		}
		return nil, false
	case *ssa.Call:
		if a, ok := atomOf(x); ok {
			return map[string]int64{a: 1}, true
		}
		callee := x.Common().StaticCallee()
		if callee == nil {
			return nil, false
		}
		if nameOf(callee) == "varintSize" && len(x.Common().Args) == 1 {
			if a, ok := atomOf(x.Common().Args[0]); ok {
				return map[string]int64{"VS(" + a + ")": 1}, true
			}
			return nil, false
		}
		if c.P.PkgOfFunc(callee) != nil && len(callee.Blocks) > 0 && callee.Pkg != nil && strings.HasSuffix(callee.Pkg.Pkg.Path(), "drpcmetadata") {
			rets := an.Returns(callee)
			if len(rets) != 1 || len(rets[0].Results) != 1 {
				return nil, false
			}
			nenv := map[ssa.Value]ssa.Value{}
			for i, p := range callee.Params {
				if i < len(x.Common().Args) {
					arg := x.Common().Args[i]
					if b, ok := env[an.Resolve(arg)]; ok {
						arg = b
					}
					nenv[p] = arg
				}
			}
			return linearFormEnv(c, rets[0].Results[0], nenv, depth+1)
		}
	}
	if a, ok := atomOf(v); ok {
		return map[string]int64{a: 1}, true
	}
	return nil, false
}

func sameBlockBefore(a, b ssa.Instruction) bool {
	if a.Block() != b.Block() {
		return false
	}
	for _, in := range a.Block().Instrs {
		if in == a {
			return true
		}
		if in == b {
			return false
		}
	}
	return false
}
