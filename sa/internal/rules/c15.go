package rules

import (
	"fmt"
	"go/token"
	"go/types"
	"strings"

	"golang.org/x/tools/go/ssa"

	"verif/sa/internal/an"
)

func init() {
	register(&Property{
		ID:        "C15",
		Technique: "must-lockset (Pool.mu), typestate over Take/Put/Close (paired list operations, timer ownership, map registration), guard dominance in the list primitives and the expiry callback; tested-then-dropped error (contradiction) check and interprocedural lock-pairing check over the packages the property is anchored in; sibling cross-check of the two list primitives (fields maintained, neighbour each link is set from)",
		Explanation: "Structural invariants the pool's bound and ownership claims rest on: " +
			"(R1) the pool's map, order list, per-key lists, list links and expiry timers are touched only under Pool.mu; " +
			"(R2) unlinking is idempotent: every mutation in list.removeEntry is behind the entry's linked flag, which append sets and remove clears; " +
			"(R3) on every path the per-key list and the global order list receive the same removals and appends (an entry is in both or in neither); " +
			"(R4) ownership: Take hands out only an unblocked, unlinked, not-closed entry whose timer it stopped (or that has none); whoever finds the timer already fired leaves closing to the callback, which closes unconditionally and then unlinks; a stopped timer always goes with unlinking the entry; Put inserts only after both capacity loops have run, and closes what it refuses; " +
			"(R5) the per-key list an entry is appended to is registered in the pool's map at that moment.",
		NotDecided:  "the numeric bound and the exactly-one-owner claim for all put/take/close histories and timer schedules: the rules are the invariants such a proof would need, not the proof.",
		Assumptions: []string{"time.Timer.Stop reports false exactly when the callback has started or will start (library contract)"},
		Rules: append([]Rule{
			{ID: "C15.R1", Doc: "pool state (entries, order, list/node fields, entry.exp) only under Pool.mu", Run: c15r1},
			{ID: "C15.R2", Doc: "list.removeEntry is idempotent behind node.linked; appendEntry sets it", Run: c15r2},
			{ID: "C15.R3", Doc: "per-key list and order list get the same removals/appends on every path", Run: c15r3},
			{ID: "C15.R4", Doc: "ownership: Take/closeEntry/Put/expiry-callback guards (timer stopped or absent; unblocked; not closed; stop implies unlink)", Run: c15r4},
			{ID: "C15.R5", Doc: "an entry is appended only to a per-key list that is registered in Pool.entries", Run: c15r5},
		}, disciplineRules("C15", "drpcpool", "drpccache")...),
	})
}

type poolAnchors struct {
	mu, entries, order          *types.Var
	lremove, lappend, closeEnt  *types.Func
	premove                     *types.Func
	exp, val, linked            *types.Var
	head, tail, count, next, pv *types.Var
}

func poolA(c *an.Ctx) poolAnchors {
	a := A(c)
	return poolAnchors{
		mu:       a.field("drpcpool", "Pool", "mu"),
		entries:  a.field("drpcpool", "Pool", "entries"),
		order:    a.field("drpcpool", "Pool", "order"),
		lremove:  a.obj("drpcpool", "(*list).removeEntry"),
		lappend:  a.obj("drpcpool", "(*list).appendEntry"),
		closeEnt: a.obj("drpcpool", "(*Pool).closeEntry"),
		premove:  a.obj("drpcpool", "(*Pool).removeEntry"),
		exp:      a.field("drpcpool", "entry", "exp"),
		val:      a.field("drpcpool", "entry", "val"),
		linked:   a.field("drpcpool", "node", "linked"),
		head:     a.field("drpcpool", "list", "head"),
		tail:     a.field("drpcpool", "list", "tail"),
		count:    a.field("drpcpool", "list", "count"),
		next:     a.field("drpcpool", "node", "next"),
		pv:       a.field("drpcpool", "node", "prev"),
	}
}

func isFieldOf(fv *types.Var, fs ...*types.Var) bool {
	if fv == nil {
		return false
	}
	for _, f := range fs {
		if fv.Origin() == f.Origin() {
			return true
		}
	}
	return false
}

// holdsClass: some lock of the class is must-held before in.
func holdsClass(pl *an.PkgLocks, in ssa.Instruction, class *types.Var) bool {
	return pl.MustHoldClass(in, nil, class)
}

func c15r1(c *an.Ctx) {
	pa := poolA(c)
	pl := locksOf(c, "drpcpool")
	fns := must(c.P.SourceFuncs("drpcpool"))
	n := 0
	for _, fn := range fns {
		obj := an.FuncObjOf(fn)
		inListPrim := obj == pa.lremove || obj == pa.lappend
		an.Instrs(fn, func(in ssa.Instruction) {
			switch x := in.(type) {
			case *ssa.FieldAddr:
				fv := an.PathOf(x).Last()
				if !isFieldOf(fv, pa.entries, pa.order, pa.head, pa.tail, pa.count, pa.next, pa.pv, pa.linked, pa.exp) {
					return
				}
				if isFreshObject(an.PathOf(x).Root) {
					return
				}
				if inListPrim {
					return // the primitives are checked at their call sites
				}
				n++
				c.Analysed(fn)
				c.Check(holdsClass(pl, in, pa.mu), fmt.Sprintf("%s | access %s under Pool.mu", an.ShortFunc(fn), fv.Name()), c.At(in), "", "pool state is touched without Pool.mu: concurrent Put/Take/expiry would corrupt the lists and the counts the capacity bound relies on")
			case ssa.CallInstruction:
				cc := x.Common()
				if an.IsCallTo(cc, pa.lremove) || an.IsCallTo(cc, pa.lappend) {
					n++
					c.Analysed(fn)
					c.Check(holdsClass(pl, in, pa.mu), fmt.Sprintf("%s | list operation under Pool.mu", an.ShortFunc(fn)), c.At(in), "", "a list is modified without Pool.mu")
				}
			}
		})
	}
	c.Floor("pool state accesses", 1, n)
}

func c15r2(c *an.Ctx) {
	pa := poolA(c)
	rm := c.Fn("drpcpool", "(*list).removeEntry")
	ap := c.Fn("drpcpool", "(*list).appendEntry")
	// every store in removeEntry is dominated by linked == true, and linked is cleared
	n, cleared := 0, false
	an.Instrs(rm, func(in ssa.Instruction) {
		st, ok := in.(*ssa.Store)
		if !ok {
			return
		}
		fv := an.PathOf(st.Addr).Last()
		if !isFieldOf(fv, pa.head, pa.tail, pa.count, pa.next, pa.pv, pa.linked) {
			return
		}
		n++
		_, guarded := guardedByFieldLoad(st.Block(), pa.linked, true)
		c.Check(guarded, "(*list).removeEntry | store "+fv.Name()+" only for a linked entry", c.At(in), "", "removing an entry that is not in the list changes head/tail/count: with the expiry callback racing Take/Put the counts go negative and the pool caches more than its capacity")
		if isFieldOf(fv, pa.linked) {
			if cst, isC := st.Val.(*ssa.Const); isC && cst.Value != nil && cst.Value.String() == "false" {
				cleared = true
			}
		}
	})
	c.Floor("stores in list.removeEntry", 1, n)
	c.Check(cleared, "(*list).removeEntry | clears the linked flag", c.P.Pos(rm.Pos()), "", "an unlinked entry still counts as linked: a second removal corrupts the list")
	set := false
	for _, st := range fieldStores(ap, pa.linked) {
		if cst, isC := st.Val.(*ssa.Const); isC && cst.Value != nil && cst.Value.String() == "true" {
			set = true
			for _, ret := range an.Returns(ap) {
				if !an.InstrDominates(st, ret) {
					set = false
				}
			}
		}
	}
	c.Check(set, "(*list).appendEntry | sets the linked flag on every path", c.P.Pos(ap.Pos()), "", "an appended entry is not marked linked: it can never be removed")
	// linking and unlinking touch the same link fields: both directions (next of the predecessor, prev of the
	// successor) and both ends (head, tail)
	written := func(f *ssa.Function) map[string]bool {
		out := map[string]bool{}
		an.Instrs(f, func(in ssa.Instruction) {
			if st, ok := in.(*ssa.Store); ok {
				if fv := an.PathOf(st.Addr).Last(); isFieldOf(fv, pa.head, pa.tail, pa.count, pa.next, pa.pv, pa.linked) {
					out[fv.Name()] = true
				}
			}
		})
		return out
	}
	wa, wr := written(ap), written(rm)
	var missing []string
	for _, fv := range []*types.Var{pa.head, pa.tail, pa.count, pa.next, pa.pv, pa.linked} {
		if wa[fv.Name()] != wr[fv.Name()] {
			who := "removeEntry"
			if wr[fv.Name()] {
				who = "appendEntry"
			}
			missing = append(missing, who+" does not update "+fv.Name())
		}
	}
	c.Check(len(missing) == 0, "list | appendEntry and removeEntry update the same link fields", c.P.Pos(rm.Pos()), "", "the two list operations disagree on the fields they maintain ("+strings.Join(missing, "; ")+"): the list is left half-linked, so walking it from one end (eviction picks the oldest entry) reaches entries that were taken or closed, or skips live ones")
	// ... and with the right values: what each link store writes, by the field the value was loaded from (or the
	// entry being linked). appendEntry: head, tail, tail.next <- entry; entry.prev <- old tail.
	// removeEntry: head, prev.next <- entry.next; tail, next.prev <- entry.prev.
	src := func(f *ssa.Function, v ssa.Value) string {
		v = an.Unwrap(v)
		if len(f.Params) > 1 && v == ssa.Value(f.Params[1]) {
			return "entry"
		}
		if ld, ok := v.(*ssa.UnOp); ok && ld.Op == token.MUL {
			if fv := an.PathOf(ld.X).Last(); fv != nil {
				switch {
				case isFieldOf(fv, pa.head):
					return "head"
				case isFieldOf(fv, pa.tail):
					return "tail"
				case isFieldOf(fv, pa.next):
					return "next"
				case isFieldOf(fv, pa.pv):
					return "prev"
				}
			}
		}
		if k, ok := v.(*ssa.Const); ok && k.Value == nil {
			return "nil"
		}
		return "?"
	}
	wantAp := map[string]string{"head": "entry", "tail": "entry", "next": "entry", "prev": "tail"}
	wantRm := map[string]string{"head": "next", "tail": "prev", "next": "next", "prev": "prev"}
	for _, x := range []struct {
		f    *ssa.Function
		want map[string]string
	}{{ap, wantAp}, {rm, wantRm}} {
		var wrong []string
		an.Instrs(x.f, func(in ssa.Instruction) {
			st, ok := in.(*ssa.Store)
			if !ok {
				return
			}
			fv := an.PathOf(st.Addr).Last()
			if !isFieldOf(fv, pa.head, pa.tail, pa.next, pa.pv) {
				return
			}
			name := "next"
			switch {
			case isFieldOf(fv, pa.head):
				name = "head"
			case isFieldOf(fv, pa.tail):
				name = "tail"
			case isFieldOf(fv, pa.pv):
				name = "prev"
			}
			if got := src(x.f, st.Val); got != x.want[name] && got != "nil" {
				wrong = append(wrong, fmt.Sprintf("%s is set from %s (wanted %s)", name, got, x.want[name]))
			}
		})
		c.Check(len(wrong) == 0, an.ShortFunc(x.f)+" | each link is set from the right neighbour", c.P.Pos(x.f.Pos()), "", "a link store takes its value from the wrong field ("+strings.Join(wrong, "; ")+"): with three or more entries the list loses or repeats entries while count still includes them")
	}
	// the per-key list is dropped from the map only when it is empty, and Pool.removeEntry unlinks whenever the key
	// has a list
	nDel := 0
	for _, f := range must(c.P.SourceFuncs("drpcpool")) {
		for _, ff := range an.WithAnon(f) {
			an.Instrs(ff, func(in ssa.Instruction) {
				call, ok := in.(*ssa.Call)
				if !ok {
					return
				}
				b, isB := call.Common().Value.(*ssa.Builtin)
				if !isB || b.Name() != "delete" || !isLoadOfField(an.Unwrap(call.Common().Args[0]), pa.entries) {
					return
				}
				nDel++
				empty := false
				for _, g := range an.GuardsOf(in.Block()) {
					if cmp, ok := an.CmpOf(g); ok && cmp.Op == token.EQL {
						if k, isK := an.ConstInt(cmp.Y); isK && k == 0 && isLoadOfField(an.Unwrap(cmp.X), pa.count) {
							empty = true
						}
					}
					// ... or its head is nil (a loop that unlinked entries until none was left)
					if x, trueNonNil, isTest := nilTestOf(g.Cond); isTest && g.True != trueNonNil && isLoadOfField(an.Unwrap(x), pa.head) {
						empty = true
					}
				}
				c.Check(empty, an.ShortFunc(f)+" | a key's list is deleted from the map only when its count is 0", c.At(in), "", "a per-key list that still has entries is dropped from the map: those connections stay in the global order but can no longer be found, unlinked or counted per key (the eviction loop then dereferences a missing list)")
			})
		}
	}
	c.Floor("delete(p.entries, key) sites", 1, nDel)
	if prm := c.Fn("drpcpool", "(*Pool).removeEntry"); prm != nil {
		okGuard, nRm := true, 0
		an.Instrs(prm, func(in ssa.Instruction) {
			ci, ok := in.(ssa.CallInstruction)
			if !ok || !(an.IsCallTo(ci.Common(), pa.lremove)) {
				return
			}
			nRm++
			for _, g := range an.GuardsOf(in.Block()) {
				if x, trueNonNil, isTest := nilTestOf(g.Cond); isTest && g.True != trueNonNil {
					_ = x
					okGuard = false // unlinking only where something is known to be nil
				}
			}
		})
		c.Check(okGuard && nRm >= 2, "(*Pool).removeEntry | unlinks the entry from its key's list and from the global order whenever the key has a list", c.P.Pos(prm.Pos()), "", "the expiry callback's removal is skipped for keys that have a list (or runs on a nil list): an expired, closed entry stays linked and counted")
	}
	// count updated exactly once in each
	for _, f := range []*ssa.Function{rm, ap} {
		c.Check(len(fieldStores(f, pa.count)) == 1, an.ShortFunc(f)+" | count updated exactly once", c.P.Pos(f.Pos()), "", "the list count is updated more or less than once per operation")
	}
}

// listOp classifies a call to list.removeEntry/appendEntry: kind (rm/ap), which list (local/global), the entry value.
func (pa poolAnchors) listOp(cc *ssa.CallCommon) (kind, which string, ent ssa.Value, ok bool) {
	switch {
	case an.IsCallTo(cc, pa.lremove):
		kind = "rm"
	case an.IsCallTo(cc, pa.lappend):
		kind = "ap"
	default:
		return "", "", nil, false
	}
	ent = an.Arg(cc, 0)
	sel := an.Render(an.Arg(cc, 1), 2)
	switch {
	case strings.Contains(sel, "localList"):
		which = "local"
	case strings.Contains(sel, "globalList"):
		which = "global"
	default:
		which = "?"
	}
	return kind, which, ent, true
}

func c15r3(c *an.Ctx) {
	pa := poolA(c)
	n := 0
	for _, fn := range must(c.P.SourceFuncs("drpcpool")) {
		has := false
		an.Instrs(fn, func(in ssa.Instruction) {
			if ci, ok := in.(ssa.CallInstruction); ok {
				if _, _, _, ok := pa.listOp(ci.Common()); ok {
					has = true
				}
			}
		})
		if !has {
			continue
		}
		n++
		c.Analysed(fn)
		// state: pending operation awaiting its twin: "", "rm:local", "rm:global", "ap:local", ...; "nolocal" when the per-key list is absent
		flow := &an.Flow{Fn: fn, Inline: an.InlineSamePackage(fn), Init: []string{""},
			Step: func(st string, in ssa.Instruction) []string {
				ci, ok := in.(ssa.CallInstruction)
				if !ok {
					return nil
				}
				kind, which, _, ok := pa.listOp(ci.Common())
				if !ok {
					return nil
				}
				cur := kind + ":" + which
				if strings.Contains(st, "BAD(") {
					return nil // absorbing
				}
				base := st
				noLocal := false
				if strings.HasPrefix(st, "nolocal") {
					noLocal = true
					base = strings.TrimPrefix(st, "nolocal")
				}
				switch {
				case base == "":
					if noLocal && which == "global" {
						return []string{""} // the per-key list does not exist: only the global list holds it
					}
					return []string{cur}
				case strings.HasPrefix(base, kind+":") && base != cur:
					return []string{""} // twin found
				default:
					return []string{"BAD(" + base + " then " + cur + ")"}
				}
			},
			Branch: func(st string, br *ssa.If, idx int) (string, bool) {
				// `local == nil` for a list looked up in the map
				if x, trueNonNil, ok := nilTestOf(br.Cond); ok {
					// (the list of the entry being unlinked, looked up by that entry's own key; a test of the list
					// a new entry is about to join says nothing about the entries that are removed)
					if lk, isLookup := x.(*ssa.Lookup); isLookup && isLoadOfField(an.Unwrap(lk.Index), A(c).field("drpcpool", "entry", "key")) {
						isNil := (idx == 0) != trueNonNil
						if isNil && st == "" {
							return "nolocal", true
						}
					}
				}
				return st, true
			},
		}
		res := flow.Run()
		bad := ""
		var where ssa.Instruction
		an.Instrs(fn, func(in ssa.Instruction) {
			if !res.Reachable(in.Block()) {
				return
			}
			_, isRet := in.(*ssa.Return)
			_, isPhi := in.(*ssa.Phi)
			if !isRet && !(isPhi && in.Block().Instrs[0] == in) {
				return
			}
			for _, st := range res.Before(in) {
				s := strings.TrimPrefix(st, "nolocal")
				if s != "" {
					bad, where = s, in
				}
			}
		})
		pos := c.P.Pos(fn.Pos())
		if where != nil {
			pos = c.At(where)
		}
		c.Check(bad == "", an.ShortFunc(fn)+" | per-key and global list operations are paired on every path", pos, "", "a path performs "+bad+" without its twin on the other list: an entry would be in one list but not the other, and the two counts diverge")
	}
	c.Floor("functions with list operations", 1, n)
}

func c15r4(c *an.Ctx) {
	pa := poolA(c)
	a := A(c)
	closedFn := a.obj("drpcpool", "closed")
	keyF := a.field("drpcpool", "entry", "key")
	// shared typestate over Take / Put / Close: per current entry
	timerStop := "(*time.Timer).Stop"
	ownerFlow := func(fn *ssa.Function) *an.FlowResult {
		flow := &an.Flow{Fn: fn, Inline: an.InlineSamePackage(fn), Init: []string{""},
			Step: func(st string, in ssa.Instruction) []string {
				switch x := in.(type) {
				case *ssa.Phi:
					if strings.Contains(x.Type().String(), "entry[") && x.Comment == "ent" {
						return []string{""}
					}
				case ssa.CallInstruction:
					cc := x.Common()
					if _, isDefer := in.(*ssa.Defer); !isDefer {
						if obj := an.CalleeObj(cc); obj != nil && obj.FullName() == "(*sync.Mutex).Unlock" && recvField(cc) == pa.mu.Origin() {
							// the pool is unlocked in mid-operation: what other callers can see now counts
							if hasTag(st, "stopped") && !hasTag(st, "unlinked") {
								return []string{addTag(st, "exposed")}
							}
						}
					}
					if kind, _, _, ok := pa.listOp(cc); ok && kind == "rm" {
						return []string{addTag(st, "unlinked")}
					}
					if an.IsCallTo(cc, pa.closeEnt) {
						return []string{addTag(st, "stopped")}
					}
					if obj := an.CalleeObj(cc); obj != nil && obj.FullName() == timerStop {
						return []string{addTag(st, "stopped")}
					}
				}
				return nil
			},
		}
		// learn is what a path learns from the truth of a condition, wherever it is tested: at a branch, or later
		// through a flag the condition was computed into (expired := ...; if expired ...)
		learn := func(st string, condV ssa.Value, val bool) (string, bool) {
			cond, neg := an.StripNot(condV)
			truth := val != neg
			// p.entries[ent.key] for an entry that is still linked (it was just found on a list and has not been
			// unlinked on this path) is the list it is on, so it is not nil: that is the link invariant C15.R3/R5
			// maintain (an entry is on the per-key list registered under its own key, or on none)
			if x, trueNonNil, ok := nilTestOf(cond); ok {
				if lk, isLk := x.(*ssa.Lookup); isLk && !lk.CommaOk && isLoadOfField(lk.X, pa.entries) && isLoadOfField(lk.Index, keyF) {
					if truth != trueNonNil && !hasTag(st, "unlinked") {
						return st, false
					}
				}
			}
			if x, trueNonNil, ok := nilTestOf(cond); ok && isLoadOfField(x, pa.exp) {
				if truth != trueNonNil {
					return addTag(st, "owner"), true // no timer
				}
				return st, true
			}
			if call, ok := cond.(*ssa.Call); ok {
				if obj := an.CalleeObj(call.Common()); obj != nil && obj.FullName() == timerStop && truth {
					return addTag(st, "owner"), true
				}
				if an.IsCallTo(call.Common(), closedFn) {
					arg := call.Common().Args[0]
					if inv, ok := arg.(*ssa.Call); ok && inv.Common().IsInvoke() {
						switch inv.Common().Method.Name() {
						case "Unblocked":
							if truth {
								return addTag(st, "unblocked"), true
							}
						case "Closed":
							if !truth {
								return addTag(st, "open"), true
							}
						}
					}
				}
			}
			return st, true
		}
		flow.Branch = func(st string, br *ssa.If, idx int) (string, bool) { return learn(st, br.Cond, idx == 0) }
		flow.OnFact = learn
		return flow.Run()
	}
	// Take
	take := c.Fn("drpcpool", "(*Pool).Take")
	res := ownerFlow(take)
	nTrue := 0
	// per way of returning (the returns of an inlined helper are merged into one instruction: a way is then
	// judged where it leaves from)
	for _, rc := range an.ReturnCases(take) {
		ret := rc.Ret
		if !res.Reachable(ret.Block()) || len(rc.Vals) < 2 {
			continue
		}
		isTrue := false
		vals := []ssa.Value{rc.Vals[1]}
		if rc.At == nil || rc.At == ret.Block() {
			vals = returnedValues(ret, 1)
		}
		for _, v := range vals {
			if cst, ok := v.(*ssa.Const); ok && cst.Value != nil && cst.Value.String() == "true" {
				isTrue = true
			}
		}
		if !isTrue {
			continue
		}
		nTrue++
		states := res.Before(ret)
		if rc.At != nil && rc.At != ret.Block() && len(rc.At.Instrs) > 0 {
			last := rc.At.Instrs[len(rc.At.Instrs)-1]
			if sts := res.After(last); len(sts) > 0 {
				states = sts
			} else if sts := res.Before(last); len(sts) > 0 {
				states = sts // the block ends in a jump: what holds before it holds on the edge
			}
		}
		for _, st := range states {
			for _, need := range []struct{ tag, why string }{
				{"unblocked", "a connection still blocked by a cancelled call can be handed out"},
				{"unlinked", "a connection is handed out while still cached: a second Take can return it again"},
				{"owner", "a connection whose expiry timer already fired is handed out: the callback closes it under the caller"},
				{"open", "a closed connection can be handed out"},
			} {
				c.Check(hasTag(st, need.tag), "(*Pool).Take | hands out only an entry that is "+need.tag, c.At(ret), "", need.why+" (path state "+st+")")
			}
		}
	}
	c.Floor("success returns of Take", 1, nTrue)
	// stop implies unlink, in every function that stops timers / closes entries
	for _, name := range []string{"(*Pool).Take", "(*Pool).Put", "(*Pool).Close"} {
		fn := c.Fn("drpcpool", name)
		r := ownerFlow(fn)
		bad := false
		var where ssa.Instruction
		an.Instrs(fn, func(in ssa.Instruction) {
			if !r.Reachable(in.Block()) {
				return
			}
			_, isRet := in.(*ssa.Return)
			phi, isPhi := in.(*ssa.Phi)
			if !isRet && !(isPhi && phi.Comment == "ent") {
				return
			}
			for _, st := range r.Before(in) {
				if (hasTag(st, "stopped") && !hasTag(st, "unlinked")) || hasTag(st, "exposed") {
					bad, where = true, in
				}
			}
		})
		pos := c.P.Pos(fn.Pos())
		if where != nil {
			pos = c.At(where)
		}
		c.Check(!bad, name+" | a stopped timer / closed entry is also unlinked on every path", pos, "", "an entry's expiry timer is stopped (or the entry closed) while the entry stays cached: it never expires, and the next Take misreads Stop()==false as 'the callback will close it' and drops the connection unclosed")
	}
	// closeEntry: val.Close only as the owner
	ce := c.Fn("drpcpool", "(*Pool).closeEntry")
	r := ownerFlow(ce)
	nClose := 0
	an.Instrs(ce, func(in ssa.Instruction) {
		call, ok := in.(*ssa.Call)
		if !ok || !call.Common().IsInvoke() || call.Common().Method.Name() != "Close" {
			return
		}
		nClose++
		for _, st := range r.Before(in) {
			c.Check(hasTag(st, "owner"), "(*Pool).closeEntry | closes the connection only if it stopped the timer (or there is none)", c.At(in), "", "the pool closes a connection whose expiry callback is already running: closed twice / unlinked twice")
		}
	})
	c.Floor("Close calls in closeEntry", 1, nClose)
	// the expiry callback: unconditional Close, then unlink
	put := c.Fn("drpcpool", "(*Pool).Put")
	nCb := 0
	an.Instrs(put, func(in ssa.Instruction) {
		call, ok := in.(*ssa.Call)
		if !ok {
			return
		}
		obj := an.CalleeObj(call.Common())
		if obj == nil || obj.FullName() != "time.AfterFunc" {
			return
		}
		mc, ok := an.Arg(call.Common(), 1).(*ssa.MakeClosure)
		if !ok {
			c.Bad("(*Pool).Put | expiry callback is a closure", c.At(in), "cannot resolve the expiry callback")
			return
		}
		cb := mc.Fn.(*ssa.Function)
		nCb++
		var closeCall, unlink ssa.Instruction
		an.Instrs(cb, func(i2 ssa.Instruction) {
			c2, ok := i2.(*ssa.Call)
			if !ok {
				return
			}
			if c2.Common().IsInvoke() && c2.Common().Method.Name() == "Close" {
				closeCall = i2
			}
			if an.IsCallTo(c2.Common(), pa.premove) {
				unlink = i2
			}
		})
		okClose := closeCall != nil && len(an.GuardsOf(closeCall.Block())) == 0
		c.Check(okClose, "expiry callback | closes the connection unconditionally", c.P.Pos(cb.Pos()), "", "Take/Put/Close leave an entry whose timer already fired to the callback; if the callback does not always close it, that connection is neither handed out nor closed")
		c.Check(unlink != nil && len(an.GuardsOf(unlink.Block())) == 0, "expiry callback | unlinks the entry", c.P.Pos(cb.Pos()), "", "an expired entry stays cached")
		// the timer is stored under the lock, after the appends
		okStore := false
		for _, st := range fieldStores(put, pa.exp) {
			if st.Val == ssa.Value(call) {
				okStore = true
			}
		}
		c.Check(okStore, "(*Pool).Put | the timer is recorded in entry.exp", c.At(in), "", "the expiry timer is not stored on the entry: Take cannot stop it")
	})
	c.Floor("expiry callbacks", 1, nCb)
	// Put: negative capacity closes val; appends dominated by both capacity loops' exits
	capF := a.field("drpcpool", "Options", "Capacity")
	keyCapF := a.field("drpcpool", "Options", "KeyCapacity")
	for _, cs := range an.Calls(put, false, func(cc *ssa.CallCommon) bool { k, _, _, ok := pa.listOp(cc); return ok && k == "ap" }) {
		_, which, _, _ := pa.listOp(cs.Common())
		for _, f := range []*types.Var{capF, keyCapF} {
			ok := false
			for d := cs.Instr.Block(); d != nil; d = d.Idom() {
				if len(d.Instrs) == 0 {
					continue
				}
				if br, isIf := d.Instrs[len(d.Instrs)-1].(*ssa.If); isIf {
					if mentionsField(br.Cond, f) {
						ok = true
					}
				}
			}
			c.Check(ok, fmt.Sprintf("(*Pool).Put | append to %s list happens after the %s eviction loop", which, f.Name()), c.At(cs.Instr), "", "an entry is inserted without the "+f.Name()+" bound having been enforced first")
		}
	}
	negClose := false
	an.Instrs(put, func(in ssa.Instruction) {
		call, ok := in.(*ssa.Call)
		if !ok || !call.Common().IsInvoke() || call.Common().Method.Name() != "Close" {
			return
		}
		for _, g := range an.GuardsOf(in.Block()) {
			if b, ok := g.Cond.(*ssa.BinOp); ok && b.Op.String() == "<" && g.True && (mentionsField(b, capF) || mentionsField(b, keyCapF)) {
				negClose = true
			}
		}
		// short-circuit: `Capacity < 0 || KeyCapacity < 0` puts the close in a block with two preds
		if mentionsNearby(in.Block(), capF) {
			negClose = true
		}
	})
	c.Check(negClose, "(*Pool).Put | a connection refused because capacity is negative is closed", c.P.Pos(put.Pos()), "", "a connection put into a pool that keeps nothing is neither cached nor closed")
}

func mentionsField(v ssa.Value, f *types.Var) bool {
	found := false
	var walk func(v ssa.Value, d int)
	walk = func(v ssa.Value, d int) {
		if d > 5 || found || v == nil {
			return
		}
		if isLoadOfField(v, f) {
			found = true
			return
		}
		switch x := v.(type) {
		case *ssa.BinOp:
			walk(x.X, d+1)
			walk(x.Y, d+1)
		case *ssa.UnOp:
			walk(x.X, d+1)
		case *ssa.Convert:
			walk(x.X, d+1)
		}
	}
	walk(v, 0)
	return found
}

func mentionsNearby(b *ssa.BasicBlock, f *types.Var) bool {
	for _, p := range b.Preds {
		if len(p.Instrs) == 0 {
			continue
		}
		if br, ok := p.Instrs[len(p.Instrs)-1].(*ssa.If); ok && mentionsField(br.Cond, f) {
			return true
		}
	}
	return false
}

func c15r5(c *an.Ctx) {
	pa := poolA(c)
	put := c.Fn("drpcpool", "(*Pool).Put")
	flow := &an.Flow{Fn: put, Inline: an.InlineSamePackage(put), Init: []string{""},
		Step: func(st string, in ssa.Instruction) []string {
			switch x := in.(type) {
			case *ssa.MapUpdate:
				if isLoadOfField(x.Map, pa.entries) {
					return []string{"reg"}
				}
			case *ssa.Call:
				if b, ok := x.Common().Value.(*ssa.Builtin); ok && b.Name() == "delete" && isLoadOfField(x.Common().Args[0], pa.entries) {
					return []string{""}
				}
			}
			return nil
		},
		Branch: func(st string, br *ssa.If, idx int) (string, bool) {
			if x, trueNonNil, ok := nilTestOf(br.Cond); ok {
				if lk, isLookup := x.(*ssa.Lookup); isLookup && isLoadOfField(lk.X, pa.entries) {
					if (idx == 0) == trueNonNil {
						return "reg", true
					}
				}
			}
			return st, true
		},
	}
	res := flow.Run()
	n := 0
	for _, cs := range an.Calls(put, false, func(cc *ssa.CallCommon) bool {
		k, w, _, ok := pa.listOp(cc)
		return ok && k == "ap" && w == "local"
	}) {
		n++
		ok := true
		for _, st := range res.Before(cs.Instr) {
			if st != "reg" {
				ok = false
			}
		}
		c.Check(ok, "(*Pool).Put | the per-key list appended to is registered in Pool.entries", c.At(cs.Instr), "",
			"a path deletes a key's list from Pool.entries (capacity eviction emptied it) and then appends the new entry to that orphaned list: the connection is in the order list but not reachable by Take, and the next eviction dereferences a nil list (Capacity=1: Put(k,c1); Put(k,c2); Put(other,c3) panics)")
	}
	c.Floor("per-key appends in Put", 1, n)
}
