package rules

// Lock pairing: a mutex locked inside a function is released on every way out
// of it. Helpers that return with a lock held on all their returns are lock
// transfers; their callers are checked with the lock added at the call. An
// exported function or a function that holds the lock on some returns only is
// a leak: the next operation on that object blocks forever.

import (
	"fmt"
	"sort"
	"strings"

	"golang.org/x/tools/go/ssa"

	"verif/sa/internal/an"
)

func lockLeakRule(c *an.Ctx, pkgs ...string) {
	nLockers := 0
	for _, p := range pkgs {
		pl := locksOf(c, p)
		fns := must(c.P.SourceFuncs(p))
		for _, top := range fns {
			for _, fn := range an.WithAnon(top) {
				lf := pl.Flow(fn)
				if lf == nil || len(fn.Blocks) == 0 {
					continue
				}
				if _, isOp := pl.LT.OpOfFunc(fn); isOp {
					continue // a verified Lock/Unlock wrapper
				}
				locks := false
				an.Instrs(fn, func(in ssa.Instruction) {
					if ci, ok := in.(ssa.CallInstruction); ok {
						if op, ok := pl.LT.OpOf(ci.Common()); ok && (op.Kind == "lock" || op.Kind == "trylock" || op.Kind == "rlock") {
							locks = true
						}
					}
				})
				if !locks {
					continue
				}
				nLockers++
				c.Analysed(fn)
				entry := map[string]bool{}
				for _, st := range pl.EntryStates(fn) {
					for _, k := range strings.Split(st, ",") {
						if k != "" {
							entry[k] = true
						}
					}
				}
				rets := an.Returns(fn)
				heldSome := map[string]int{} // lock -> number of returns it may be held at
				heldAll := map[string]int{}
				var where = map[string]ssa.Instruction{}
				for _, ret := range rets {
					if len(lf.States(ret)) == 0 {
						continue // unreachable
					}
					for _, k := range lf.May(ret) {
						if !entry[k] {
							heldSome[k]++
							if where[k] == nil {
								where[k] = ret
							}
						}
					}
					for _, k := range lf.Must(ret) {
						if !entry[k] {
							heldAll[k]++
						}
					}
				}
				nReach := 0
				for _, ret := range rets {
					if len(lf.States(ret)) > 0 {
						nReach++
					}
				}
				// a deferred closure that unlocks (defer func() { mu.Unlock(); ... }()) releases on every return
				deferredUnlock := map[string]bool{}
				an.Instrs(fn, func(in ssa.Instruction) {
					d, ok := in.(*ssa.Defer)
					if !ok {
						return
					}
					mc, ok := d.Common().Value.(*ssa.MakeClosure)
					if !ok {
						return
					}
					cl, _ := mc.Fn.(*ssa.Function)
					if cl == nil {
						return
					}
					an.Instrs(cl, func(in2 ssa.Instruction) {
						if ci, ok := in2.(ssa.CallInstruction); ok {
							if op, ok := pl.LT.OpOf(ci.Common()); ok && (op.Kind == "unlock" || op.Kind == "runlock") && op.Lock.Class() != nil {
								for k := range heldSome {
									if id, ok := lf.IDs[k]; ok && id.Class() == op.Lock.Class() {
										deferredUnlock[k] = true
									}
								}
							}
						}
					})
				})
				var leaks []string
				for k, n := range heldSome {
					if deferredUnlock[k] {
						continue
					}
					transfer := heldAll[k] == nReach && n == nReach && !exportedFunc(top) && fn == top
					if !transfer {
						leaks = append(leaks, k)
					}
				}
				sort.Strings(leaks)
				key := an.ShortFunc(fn) + " | every mutex it locks is released on every return"
				pos := c.P.Pos(fn.Pos())
				detail := ""
				if len(leaks) > 0 {
					pos = c.At(where[leaks[0]])
					detail = fmt.Sprintf("returns with %s still held on some path (locked here, no unlock or deferred unlock on that path): the next operation that needs it blocks forever", strings.Join(leaks, ", "))
				}
				c.Check(len(leaks) == 0, key, pos, "", detail)
			}
		}
	}
	if nLockers == 0 {
		c.Check(true, strings.Join(pkgs, ",")+" | no function locks a mutex", "-", "", "")
	}
	c.Note("functions that lock a mutex: %d", nLockers)
}

func exportedFunc(fn *ssa.Function) bool {
	if fn.Object() == nil {
		return false
	}
	return fn.Object().Exported()
}
