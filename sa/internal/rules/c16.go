package rules

import (
	"fmt"
	"go/token"
	"go/types"

	"golang.org/x/tools/go/ssa"

	"verif/sa/internal/an"
)

func init() {
	register(&Property{
		ID:        "C16",
		Technique: "must-lockset on the route table, typestate of connection ownership in routeConn, sync.Once containment of the header write, guard analysis of route registration, close-once classification; tested-then-dropped error (contradiction) check and interprocedural lock-pairing check over the packages the property is anchored in",
		Explanation: "Structural conditions of the listener multiplexer and the header connection: " +
			"(R1) the route table is touched only under ListenMux.mu; a route is registered only when the prefix has none, so the per-listener cleanup (delete by prefix) can only remove its own registration; every close(ch) is inside a sync.Once, and the error a closed channel announces is written in that same Once before the close; " +
			"(R2) routeConn: exactly prefixLen bytes are read with io.ReadFull, the lookup key is exactly those bytes, the prefix is replayed (newPrefixConn) only on the default route, and on every path the connection is either closed or handed to exactly one listener channel, never both, never neither; " +
			"(R3) HeaderConn.Write: the header is written only inside sync.Once.Do (which makes concurrent first writers wait), in one underlying Write in front of the caller's bytes; the plain write happens only when this call did not run the Once; " +
			"(R4) Run waits for every routed listener to finish and closes the default listener after the mux is done; each routed listener's monitor closes it when the mux stops; Accept selects on the done channel.",
		NotDecided: "byte transparency of the default route under arbitrary write splits; accept/close races; that Accept never blocks after stop for every ordering.",
		Rules: append([]Rule{
			{ID: "C16.R1", Doc: "routes only under mu; Route registers only absent prefixes; closes inside sync.Once with the error stored first", Run: c16r1},
			{ID: "C16.R2", Doc: "routeConn: ReadFull of prefixLen bytes; key = those bytes; prefix replay only on default route; conn closed xor delivered once; the hand-off channel is unbuffered", Run: c16r2},
			{ID: "C16.R3", Doc: "HeaderConn.Write: header only inside once.Do, prepended in a single Write; plain Write only if the Once did not run in this call", Run: c16r3},
			{ID: "C16.R4", Doc: "Run waits for routed listeners and closes the default one after done; monitorListener closes on m.done; Accept selects on done", Run: c16r4},
			{ID: "C16.R5", Doc: "close-once for every close(ch) in drpcmigrate", Run: func(c *an.Ctx) { closeOnce(c, "drpcmigrate") }},
		}, disciplineRules("C16", "drpcmigrate")...),
	})
}

func c16r1(c *an.Ctx) {
	a := A(c)
	pl := locksOf(c, "drpcmigrate")
	mu := a.field("drpcmigrate", "ListenMux", "mu")
	routes := a.field("drpcmigrate", "ListenMux", "routes")
	n := 0
	for _, fn := range must(c.P.SourceFuncs("drpcmigrate")) {
		an.Instrs(fn, func(in ssa.Instruction) {
			fa, ok := in.(*ssa.FieldAddr)
			if !ok {
				return
			}
			if fv := an.PathOf(fa).Last(); fv == nil || fv.Origin() != routes.Origin() {
				return
			}
			if isFreshObject(an.PathOf(fa).Root) {
				return
			}
			n++
			c.Check(pl.MustHoldClass(in, an.PathOf(fa).Root, mu), fmt.Sprintf("%s | ListenMux.routes under ListenMux.mu", an.ShortFunc(fn)), c.At(in), "", "the route table is accessed without the mux lock")
		})
	}
	c.Floor("accesses of ListenMux.routes", 1, n)
	// Route: MapUpdate only when the lookup reported the key absent
	rt := c.Fn("drpcmigrate", "(*ListenMux).Route")
	nUp := 0
	an.Instrs(rt, func(in ssa.Instruction) {
		mu2, ok := in.(*ssa.MapUpdate)
		if !ok || !isLoadOfField(mu2.Map, routes) {
			return
		}
		nUp++
		absent := false
		for _, g := range an.GuardsOf(in.Block()) {
			if ex, isEx := g.Cond.(*ssa.Extract); isEx && ex.Index == 1 && !g.True {
				if lk, isLk := ex.Tuple.(*ssa.Lookup); isLk && lk.CommaOk && isLoadOfField(lk.X, routes) && sameValue(lk.Index, mu2.Key) || isLk && lk.Index == mu2.Key {
					absent = true
				}
			}
		}
		c.Check(absent, "(*ListenMux).Route | a route is registered only if the prefix has none", c.At(in), "",
			"Route can replace an existing registration: the replaced listener's monitor later deletes the route by prefix and thereby removes the NEW listener, whose connections then go to the default listener with the prefix unconsumed")
	})
	c.Floor("route registrations", 1, nUp)
	// monitorListener deletes under the lock (covered above) and only its own prefix parameter
	ml := c.Fn("drpcmigrate", "(*ListenMux).monitorListener")
	okDel := false
	an.Instrs(ml, func(in ssa.Instruction) {
		if call, ok := in.(*ssa.Call); ok {
			if b, isB := call.Common().Value.(*ssa.Builtin); isB && b.Name() == "delete" && call.Common().Args[1] == ssa.Value(ml.Params[1]) {
				okDel = true
			}
		}
	})
	c.Check(okDel, "(*ListenMux).monitorListener | removes the route it was started for", c.P.Pos(ml.Pos()), "", "a stopped listener's route is not removed (or another key is removed)")
	// error stored before close within the same Once closure
	for _, fn := range must(c.P.SourceFuncs("drpcmigrate")) {
		if fn.Parent() == nil || !passedToOnceDo(fn) {
			continue
		}
		var closeAt ssa.Instruction
		an.Instrs(fn, func(in ssa.Instruction) {
			if call, ok := in.(*ssa.Call); ok {
				if b, isB := call.Common().Value.(*ssa.Builtin); isB && b.Name() == "close" {
					closeAt = in
				}
			}
		})
		if closeAt == nil {
			continue
		}
		late := false
		an.Instrs(fn, func(in ssa.Instruction) {
			if st, ok := in.(*ssa.Store); ok {
				if fv := an.PathOf(st.Addr).Last(); fv != nil && nameOf(fv) == "err" && an.CanReach(closeAt, in) {
					late = true
				}
			}
		})
		c.Check(!late, an.ShortFunc(fn)+" | the error is stored before the channel is closed", c.At(closeAt), "", "the error a closed done-channel announces is written after the close: Accept can return a nil error")
	}
}

func c16r2(c *an.Ctx) {
	handOffSelect(c)
	a := A(c)
	rc := c.Fn("drpcmigrate", "(*ListenMux).routeConn")
	prefixLen := a.field("drpcmigrate", "ListenMux", "prefixLen")
	routes := a.field("drpcmigrate", "ListenMux", "routes")
	def := a.field("drpcmigrate", "ListenMux", "def")
	newPrefix := a.obj("drpcmigrate", "newPrefixConn")
	// buffer of exactly prefixLen bytes, filled by io.ReadFull from the conn
	var buf *ssa.MakeSlice
	an.Instrs(rc, func(in ssa.Instruction) {
		if mk, ok := in.(*ssa.MakeSlice); ok && isLoadOfField(mk.Len, prefixLen) {
			buf = mk
		}
	})
	okRead := false
	var readCall *ssa.Call
	an.Instrs(rc, func(in ssa.Instruction) {
		if call, ok := in.(*ssa.Call); ok {
			if obj := an.CalleeObj(call.Common()); obj != nil && obj.FullName() == "io.ReadFull" && buf != nil && call.Common().Args[1] == ssa.Value(buf) {
				okRead, readCall = true, call
			}
		}
	})
	c.Check(buf != nil && okRead, "routeConn | reads exactly prefixLen bytes with io.ReadFull", c.P.Pos(rc.Pos()), "", "the prefix is not read as exactly prefixLen bytes (short reads would route on a partial prefix)")
	// lookup key = string(buf)
	okKey := false
	var lookup *ssa.Lookup
	an.Instrs(rc, func(in ssa.Instruction) {
		if lk, ok := in.(*ssa.Lookup); ok && isLoadOfField(lk.X, routes) {
			lookup = lk
			if cv, isCv := lk.Index.(*ssa.Convert); isCv && buf != nil && (cv.X == ssa.Value(buf) || an.ResolveAt(cv.X, lk.Block()) == ssa.Value(buf) || sameButNil(cv.X, buf)) {
				okKey = true
			}
		}
	})
	c.Check(okKey, "routeConn | route lookup key is exactly the bytes read", c.P.Pos(rc.Pos()), "", "the route is looked up with something other than the prefix bytes")
	// newPrefixConn only when the lookup missed, with the same bytes and conn
	nPC := 0
	for _, cs := range an.CallsTo(rc, false, newPrefix) {
		nPC++
		miss := false
		for _, g := range an.GuardsOf(cs.Instr.Block()) {
			if ex, isEx := g.Cond.(*ssa.Extract); isEx && ex.Index == 1 && !g.True && lookup != nil && ex.Tuple == ssa.Value(lookup) {
				miss = true
			}
		}
		c.Check(miss, "routeConn | prefix is replayed only on the default route", c.At(cs.Instr), "", "the consumed prefix is replayed to a routed listener (or not only on a miss)")
		c.Check(buf != nil && (cs.Common().Args[0] == ssa.Value(buf) || an.ResolveAt(cs.Common().Args[0], cs.Instr.Block()) == ssa.Value(buf) || sameButNil(cs.Common().Args[0], buf)), "routeConn | the replayed prefix is the bytes that were read", c.At(cs.Instr), "", "the default route's connection does not start with the bytes consumed from it")
		// the miss selects the default listener: m.def is read on the miss side, at or before the wrapping
		okDef := false
		an.Instrs(rc, func(in ssa.Instruction) {
			ld, isLd := in.(*ssa.UnOp)
			if !isLd || !isLoadOfField(ld, def) {
				return
			}
			if in.Block() != cs.Instr.Block() && !in.Block().Dominates(cs.Instr.Block()) {
				return
			}
			for _, g := range an.GuardsOf(in.Block()) {
				if ex, isEx := g.Cond.(*ssa.Extract); isEx && ex.Index == 1 && !g.True && lookup != nil && ex.Tuple == ssa.Value(lookup) {
					okDef = true
				}
			}
		})
		c.Check(okDef, "routeConn | a miss selects the default listener", c.At(cs.Instr), "", "an unrouted connection is not given to the default listener")
		// besides the miss, the wrapping may only depend on whether any prefix byte was consumed at all
		okOnly := true
		for _, g := range an.GuardsOf(cs.Instr.Block()) {
			if lookup != nil && g.If != nil && (g.If.Block() == lookup.Block() || g.If.Block().Dominates(lookup.Block())) {
				if ex, isEx := g.Cond.(*ssa.Extract); !isEx || ex.Tuple != ssa.Value(lookup) {
					continue // tests made before the lookup (read errors)
				}
			}
			if ex, isEx := g.Cond.(*ssa.Extract); isEx && lookup != nil && ex.Tuple == ssa.Value(lookup) {
				continue
			}
			cmp, isCmp := an.CmpOf(g)
			isLenBuf := func(v ssa.Value) bool {
				if isLoadOfField(v, prefixLen) {
					return true
				}
				lc, isCall := v.(*ssa.Call)
				if !isCall {
					return false
				}
				b, isB := lc.Common().Value.(*ssa.Builtin)
				return isB && b.Name() == "len" && buf != nil && (lc.Common().Args[0] == ssa.Value(buf) || an.ResolveAt(lc.Common().Args[0], lc.Block()) == ssa.Value(buf))
			}
			isZero := func(v ssa.Value) bool { k, isK := an.ConstInt(v); return isK && k == 0 }
			if isCmp && (cmp.Is(token.GTR, isLenBuf, isZero) || cmp.Is(token.NEQ, isLenBuf, isZero)) {
				continue
			}
			okOnly = false
		}
		c.Check(okOnly, "routeConn | every consumed prefix is replayed on the default route", c.At(cs.Instr), "", "the default route's connection is wrapped only under a further condition: on the other paths the consumed prefix is lost")
	}
	c.Floor("newPrefixConn calls", 1, nPC)
	// ownership typestate: closed xor sent
	flow := &an.Flow{Fn: rc, Inline: an.InlineSamePackage(rc), Init: []string{"open"},
		Step: func(st string, in ssa.Instruction) []string {
			if call, ok := in.(*ssa.Call); ok && call.Common().IsInvoke() && call.Common().Method.Name() == "Close" {
				if n, isN := call.Common().Value.Type().(*types.Named); isN && n.Obj().Name() == "Conn" {
					if st == "open" {
						return []string{"closed"}
					}
					return []string{"BAD:" + st + "+close"}
				}
			}
			return nil
		},
		Branch: func(st string, br *ssa.If, idx int) (string, bool) {
			if sc, ok := an.SelectBranch(br, idx); ok {
				s := sc.State()
				if s.Dir == types.SendOnly {
					if st == "open" {
						return "sent", true
					}
					return "BAD:" + st + "+send", true
				}
			}
			return st, true
		},
	}
	res := flow.Run()
	n := 0
	for _, ret := range an.Returns(rc) {
		if !res.Reachable(ret.Block()) {
			continue
		}
		for _, st := range res.Before(ret) {
			n++
			c.Check(st == "closed" || st == "sent", "routeConn | connection is closed or delivered exactly once ("+st+")", c.At(ret), "", "a path leaves the accepted connection "+st+": it is leaked, delivered twice, or closed after delivery")
		}
	}
	c.Floor("routeConn exits", 1, n)
	_ = readCall
	// the default route's connection replays the prefix first: io.MultiReader(bytes.NewReader(data), conn), and Read uses it
	npc := c.Fn("drpcmigrate", "newPrefixConn")
	okMR := false
	an.Instrs(npc, func(in ssa.Instruction) {
		call, ok := in.(*ssa.Call)
		if !ok {
			return
		}
		if obj := an.CalleeObj(call.Common()); obj == nil || obj.FullName() != "io.MultiReader" {
			return
		}
		els := variadicArgs(call.Common().Args[0])
		if len(els) == 2 {
			first, second := an.Unwrap(els[0]), an.Unwrap(els[1])
			// stores may be visited in any order: identify by shape
			isPrefix := func(v ssa.Value) bool {
				c2, ok := v.(*ssa.Call)
				if !ok {
					return false
				}
				o := an.CalleeObj(c2.Common())
				return o != nil && o.FullName() == "bytes.NewReader" && c2.Common().Args[0] == ssa.Value(npc.Params[0])
			}
			isConn := func(v ssa.Value) bool { return v == ssa.Value(npc.Params[1]) }
			if (isPrefix(first) && isConn(second)) || (isPrefix(second) && isConn(first)) {
				okMR = orderOfVariadic(call.Common().Args[0], isPrefix)
			}
		}
	})
	pr := c.Fn("drpcmigrate", "(*prefixConn).Read")
	okRead2 := false
	an.Instrs(pr, func(in ssa.Instruction) {
		if call, ok := in.(*ssa.Call); ok && call.Common().IsInvoke() && call.Common().Method.Name() == "Read" {
			if p := an.PathOf(call.Common().Value); p.Last() != nil && nameOf(p.Last()) == "Reader" {
				okRead2 = true
			}
		}
	})
	if !okMR {
		// the other way to say it: the wrapper keeps the unread prefix itself; Read hands out prefix bytes (and drops
		// exactly those from the prefix) while there are any, and goes to the connection only once it is empty
		okMR, okRead2 = prefixReaderByHand(c, npc, pr), true
		if !okMR {
			okRead2 = false
		}
	}
	c.Check(okMR, "newPrefixConn | reads replay the consumed prefix, then the connection", c.P.Pos(npc.Pos()), "", "the default route's connection does not yield the client's bytes from the first byte (prefix missing or after the payload)")
	c.Check(okRead2, "(*prefixConn).Read | reads through the prefix-replaying reader", c.P.Pos(pr.Pos()), "", "prefixConn.Read bypasses the replaying reader: the consumed prefix is lost")
	// the hand-off channel is a rendezvous: a send that succeeds means an Accept call owns the connection.
	// With a buffer, routeConn "delivers" into a queue that a closed or stopped listener never drains.
	connsF := a.field("drpcmigrate", "listener", "conns")
	nMk := 0
	for _, fn := range must(c.P.SourceFuncs("drpcmigrate")) {
		for _, st := range fieldStores(fn, connsF) {
			nMk++
			mk, isMk := an.Resolve(st.Val).(*ssa.MakeChan)
			ok := false
			if isMk {
				if k, isK := an.ConstInt(mk.Size); isK && k == 0 {
					ok = true
				}
			}
			c.Check(ok, "listener | the channel handing connections to Accept is unbuffered", c.At(st), "", "connections can be queued with no Accept pending: if the listener is closed or the mux stops they are neither delivered nor closed")
		}
	}
	c.Floor("creations of listener.conns", 1, nMk)
}

// orderOfVariadic reports whether the element at index 0 of the variadic array satisfies first.
func orderOfVariadic(v ssa.Value, first func(ssa.Value) bool) bool {
	sl, ok := v.(*ssa.Slice)
	if !ok {
		return false
	}
	al, ok := sl.X.(*ssa.Alloc)
	if !ok {
		return false
	}
	for _, r := range *al.Referrers() {
		if ia, ok := r.(*ssa.IndexAddr); ok {
			if k, isC := an.ConstInt(ia.Index); isC && k == 0 {
				for _, r2 := range *ia.Referrers() {
					if st, ok := r2.(*ssa.Store); ok {
						return first(an.Unwrap(st.Val))
					}
				}
			}
		}
	}
	return false
}

// handOffSelect: the select that hands the connection to a listener gives up only when that listener is done.
func handOffSelect(c *an.Ctx) {
	a := A(c)
	rc := c.Fn("drpcmigrate", "(*ListenMux).routeConn")
	ldone := a.field("drpcmigrate", "listener", "done")
	n := 0
	for _, fn := range extendedBody(rc) {
		an.Instrs(fn, func(in ssa.Instruction) {
			sel, ok := in.(*ssa.Select)
			if !ok {
				return
			}
			var send *ssa.SelectState
			for _, st := range sel.States {
				if st.Dir == types.SendOnly {
					send = st
				}
			}
			if send == nil {
				return
			}
			n++
			// the listener the connection is sent to: the receiver of the Conns() call / the root of the channel field
			var lis ssa.Value
			ch := an.Unwrap(send.Chan)
			if call, isCall := ch.(*ssa.Call); isCall && len(call.Common().Args) > 0 {
				lis = call.Common().Args[0]
			} else {
				lis = an.PathOf(ch).Root
			}
			okDone, nRecv := false, 0
			for _, st := range sel.States {
				if st.Dir != types.RecvOnly {
					continue
				}
				nRecv++
				if isLoadOfField(st.Chan, ldone) && lis != nil && sameValue(an.PathOf(an.Unwrap(st.Chan)).Root, lis) {
					okDone = true
				}
			}
			c.Check(okDone && sel.Blocking, an.ShortFunc(fn)+" | the hand-off waits for Accept or for the done channel of the same listener", c.At(in), "",
				"the connection is offered to a listener but the select does not give up when that listener is closed (it watches another channel, or none): a connection routed to a closed listener is neither delivered nor closed")
		})
	}
	c.Floor("hand-off selects in routeConn", 1, n)
}

func c16r3(c *an.Ctx) {
	a := A(c)
	fn := c.Fn("drpcmigrate", "(*HeaderConn).Write")
	header := a.field("drpcmigrate", "HeaderConn", "header")
	var doCall *ssa.Call
	var clo *ssa.Function
	an.Instrs(fn, func(in ssa.Instruction) {
		if call, ok := in.(*ssa.Call); ok {
			if obj := an.CalleeObj(call.Common()); obj != nil && obj.FullName() == "(*sync.Once).Do" {
				doCall = call
				if mc, isMC := an.Arg(call.Common(), 0).(*ssa.MakeClosure); isMC {
					clo, _ = mc.Fn.(*ssa.Function)
				}
			}
		}
	})
	if !c.Check(doCall != nil && clo != nil, "(*HeaderConn).Write | header write is inside sync.Once.Do", c.P.Pos(fn.Pos()), "",
		"the first write is no longer serialised by sync.Once: a concurrent second Write does not wait for the header write to finish, so payload bytes can reach the wire before the header") {
		return
	}
	// header is read only inside the closure
	usesOutside := false
	an.Instrs(fn, func(in ssa.Instruction) {
		if fa, ok := in.(*ssa.FieldAddr); ok {
			if fv := an.PathOf(fa).Last(); fv != nil && fv.Origin() == header.Origin() {
				for _, r := range *fa.Referrers() {
					if ld, isLd := r.(*ssa.UnOp); isLd {
						for _, r2 := range *ld.Referrers() {
							if call, isCall := r2.(*ssa.Call); isCall {
								if b, isB := call.Common().Value.(*ssa.Builtin); isB && b.Name() == "len" {
									continue
								}
							}
							usesOutside = true
						}
					}
				}
			}
		}
	})
	c.Check(!usesOutside, "(*HeaderConn).Write | the header bytes are used only inside the Once", c.P.Pos(fn.Pos()), "", "the header can be written outside the Once (more than once)")
	// inside the closure: one underlying Write of append([]byte(header), buf...)
	nW, nGood, okConcat := 0, 0, false
	an.Instrs(clo, func(in ssa.Instruction) {
		call, ok := in.(*ssa.Call)
		if !ok || !call.Common().IsInvoke() || call.Common().Method.Name() != "Write" {
			return
		}
		nW++
		// the written bytes are a concatenation whose first part is the header and which has one more part
		// (however the concatenation is spelled: append(header-copy, buf...), or appends onto a fresh buffer)
		var parts func(v ssa.Value, depth int) ([]ssa.Value, bool)
		parts = func(v ssa.Value, depth int) ([]ssa.Value, bool) {
			v = an.Resolve(v)
			if depth > 6 {
				return nil, false
			}
			switch x := v.(type) {
			case *ssa.Call:
				if b, isB := x.Common().Value.(*ssa.Builtin); isB && b.Name() == "append" && len(x.Common().Args) == 2 {
					base, ok := parts(x.Common().Args[0], depth+1)
					if !ok {
						return nil, false
					}
					return append(base, x.Common().Args[1]), true
				}
			case *ssa.MakeSlice:
				if k, isK := an.ConstInt(x.Len); isK && k == 0 {
					return nil, true // a fresh empty buffer
				}
			case *ssa.Const:
				if x.Value == nil {
					return nil, true
				}
			case *ssa.Slice:
				if hi, isK := an.ConstInt(x.High); x.High != nil && isK && hi == 0 {
					return nil, true
				}
			case *ssa.Convert:
				return []ssa.Value{x.X}, true
			}
			if isLoadOfField(an.Unwrap(v), header) {
				return []ssa.Value{v}, true
			}
			return nil, false
		}
		good := false
		if ps, ok := parts(call.Common().Args[0], 0); ok && len(ps) == 2 {
			if isLoadOfField(an.Unwrap(an.Resolve(ps[0])), header) {
				good = true
			}
		}
		// with an empty header, header+payload is the payload: the caller's bytes as they are, on a path that knows
		// len(header) == 0
		if !good && isCapturedParam(call.Common().Args[0], clo, fn, 1) {
			for _, g := range an.GuardsOf(call.Block()) {
				if cmp, ok := an.CmpOf(g); ok && cmp.Is(token.EQL, func(v ssa.Value) bool {
					lc, isCall := v.(*ssa.Call)
					if !isCall {
						return false
					}
					b, isB := lc.Common().Value.(*ssa.Builtin)
					return isB && b.Name() == "len" && isLoadOfField(an.Unwrap(lc.Common().Args[0]), header)
				}, func(v ssa.Value) bool { k, isK := an.ConstInt(v); return isK && k == 0 }) {
					good = true
				}
			}
		}
		if good {
			nGood++
		}
	})
	// exactly one underlying write on every path through the closure
	wflow := &an.Flow{Fn: clo, Init: []string{"0"}, Step: func(st string, in ssa.Instruction) []string {
		if call, ok := in.(*ssa.Call); ok && call.Common().IsInvoke() && call.Common().Method.Name() == "Write" {
			if st == "0" {
				return []string{"1"}
			}
			return []string{"many"}
		}
		return nil
	}}
	wres := wflow.Run()
	onePerPath := true
	for _, ret := range an.Returns(clo) {
		if !wres.Reachable(ret.Block()) {
			continue
		}
		for _, st := range wres.Before(ret) {
			if st != "1" {
				onePerPath = false
			}
		}
	}
	okConcat = nW >= 1 && nGood == nW && onePerPath
	if okConcat {
		nW = 1
	}
	c.Check(nW == 1 && okConcat, "(*HeaderConn).Write | header and the caller's bytes go out in one underlying Write, header first", c.P.Pos(clo.Pos()), "", "the first write does not send header+payload as one write with the header in front")
	// the plain write outside the closure is reachable only when the Once did not run in this call
	nPlain := 0
	an.Instrs(fn, func(in ssa.Instruction) {
		call, ok := in.(*ssa.Call)
		if !ok || !call.Common().IsInvoke() || call.Common().Method.Name() != "Write" {
			return
		}
		nPlain++
		okAfter := an.InstrDominates(doCall, in)
		guarded := false
		for _, g := range an.GuardsOf(in.Block()) {
			if !g.True {
				if ld, isLd := g.Cond.(*ssa.UnOp); isLd {
					if _, isAl := ld.X.(*ssa.Alloc); isAl {
						guarded = true // `didOnce` local set by the closure
					}
				}
			}
		}
		c.Check(okAfter && guarded, "(*HeaderConn).Write | plain Write only after once.Do returned and only if it did not run here", c.At(in), "", "payload can be written before the header write completed, or twice in the call that wrote the header")
	})
	c.Floor("plain writes in HeaderConn.Write", 1, nPlain)
	// io.Writer: the count reported for the first write is about the caller's bytes: the count of the combined
	// write goes through a subtraction of len(header) before it is returned
	lenHeader := func(v ssa.Value) bool {
		lc, isCall := v.(*ssa.Call)
		if !isCall {
			return false
		}
		b, isB := lc.Common().Value.(*ssa.Builtin)
		return isB && b.Name() == "len" && isLoadOfField(an.Unwrap(lc.Common().Args[0]), header)
	}
	adjusted := false
	for _, f := range []*ssa.Function{fn, clo} {
		an.Instrs(f, func(in ssa.Instruction) {
			if sub, ok := in.(*ssa.BinOp); ok && sub.Op == token.SUB && lenHeader(sub.Y) && len(*sub.Referrers()) > 0 {
				if _, isK := sub.X.(*ssa.Const); !isK {
					adjusted = true
				}
			}
		})
	}
	if nGood > 0 {
		c.Check(adjusted, "(*HeaderConn).Write | the count of the combined write is reduced by len(header) before it is reported", c.P.Pos(fn.Pos()), "", "the first Write reports the header's bytes as the caller's: n exceeds len(buf), callers that resume after a short write (io.Copy, bufio) skip payload bytes or fail with an invalid write count")
	}
}

func c16r4(c *an.Ctx) {
	a := A(c)
	run := c.Fn("drpcmigrate", "(*ListenMux).Run")
	mdone := a.field("drpcmigrate", "ListenMux", "done")
	ldone := a.field("drpcmigrate", "listener", "done")
	def := a.field("drpcmigrate", "ListenMux", "def")
	lclose := a.obj("drpcmigrate", "(*listener).Close")
	var waitDone ssa.Instruction
	an.Instrs(run, func(in ssa.Instruction) {
		if u, ok := in.(*ssa.UnOp); ok && u.Op.String() == "<-" && isLoadOfField(u.X, mdone) {
			waitDone = in
		}
	})
	if c.Check(waitDone != nil, "(*ListenMux).Run | waits for the mux to be done", c.P.Pos(run.Pos()), "", "Run does not wait for m.done") {
		waitsRouted, closesDef := false, false
		an.Instrs(run, func(in ssa.Instruction) {
			if u, ok := in.(*ssa.UnOp); ok && u.Op.String() == "<-" && isLoadOfField(u.X, ldone) && an.InstrDominates(waitDone, in) && inLoop(in.Block()) {
				waitsRouted = true
			}
			if ci, ok := in.(ssa.CallInstruction); ok {
				cc := ci.Common()
				if cc.IsInvoke() && cc.Method.Name() == "Close" && isLoadOfField(cc.Value, def) && an.InstrDominates(waitDone, in) {
					closesDef = true
				}
				if an.IsCallTo(cc, lclose) && isLoadOfField(an.Recv(cc), def) && an.InstrDominates(waitDone, in) {
					closesDef = true
				}
			}
		})
		c.Check(waitsRouted, "(*ListenMux).Run | waits for every routed listener after done", c.P.Pos(run.Pos()), "", "Run returns while routed listeners may still be open")
		c.Check(closesDef, "(*ListenMux).Run | closes the default listener after done", c.P.Pos(run.Pos()), "", "the default listener's Accept keeps blocking after the mux stopped")
	}
	// monitorListener: on m.done closes the listener (inside its Once)
	ml := c.Fn("drpcmigrate", "(*ListenMux).monitorListener")
	okClose := false
	for _, cl := range ml.AnonFuncs {
		if !passedToOnceDo(cl) {
			continue
		}
		an.Instrs(cl, func(in ssa.Instruction) {
			if call, ok := in.(*ssa.Call); ok {
				if b, isB := call.Common().Value.(*ssa.Builtin); isB && b.Name() == "close" {
					// on every way through the Once: whatever error is recorded, the done channel is closed
					all := true
					for _, ret := range an.Returns(cl) {
						if retReachable(cl, ret) && !an.InstrDominates(in, ret) {
							all = false
						}
					}
					if all {
						okClose = true
					}
				}
			}
		})
	}
	hasSel := false
	an.Instrs(ml, func(in ssa.Instruction) {
		if sel, ok := in.(*ssa.Select); ok && sel.Blocking {
			for _, st := range sel.States {
				if isLoadOfField(st.Chan, mdone) {
					hasSel = true
				}
			}
		}
	})
	c.Check(okClose && hasSel, "(*ListenMux).monitorListener | closes its listener when the mux is done", c.P.Pos(ml.Pos()), "", "routed listeners are not closed when the multiplexer stops: Accept blocks forever")
	// Accept selects on done
	ac := c.Fn("drpcmigrate", "(*listener).Accept")
	okAcc := true
	nSel := 0
	an.Instrs(ac, func(in ssa.Instruction) {
		if sel, ok := in.(*ssa.Select); ok && sel.Blocking {
			nSel++
			has := false
			for _, st := range sel.States {
				if isLoadOfField(st.Chan, ldone) {
					has = true
				}
			}
			if !has {
				okAcc = false
			}
		}
	})
	c.Check(okAcc && nSel >= 1, "(*listener).Accept | blocking select includes the done channel", c.P.Pos(ac.Pos()), "", "Accept can block without noticing that the listener was closed")
}

// isCapturedParam: v, inside closure clo of fn, is the value of fn's parameter number idx (captured through its
// local copy, which nothing else is stored to).
func isCapturedParam(v ssa.Value, clo, fn *ssa.Function, idx int) bool {
	ld, ok := an.Unwrap(v).(*ssa.UnOp)
	if !ok || ld.Op != token.MUL {
		return false
	}
	fv, ok := ld.X.(*ssa.FreeVar)
	if !ok || idx >= len(fn.Params) {
		return false
	}
	k := -1
	for i, f := range clo.FreeVars {
		if f == fv {
			k = i
		}
	}
	if k < 0 {
		return false
	}
	found := false
	an.Instrs(fn, func(in ssa.Instruction) {
		mc, isMC := in.(*ssa.MakeClosure)
		if !isMC || mc.Fn != ssa.Value(clo) || k >= len(mc.Bindings) {
			return
		}
		al, isAl := mc.Bindings[k].(*ssa.Alloc)
		if !isAl {
			return
		}
		stores, okAll := 0, true
		for _, r := range *al.Referrers() {
			if st, isSt := r.(*ssa.Store); isSt && st.Addr == ssa.Value(al) {
				stores++
				if st.Val != ssa.Value(fn.Params[idx]) {
					okAll = false
				}
			}
		}
		// and the closure does not assign it either
		for _, r := range *fv.Referrers() {
			if st, isSt := r.(*ssa.Store); isSt && st.Addr == ssa.Value(fv) {
				okAll = false
			}
		}
		if stores == 1 && okAll {
			found = true
		}
	})
	return found
}

// prefixReaderByHand recognises a hand-written prefix-replaying connection: the constructor stores its byte-slice
// argument in a field P and its connection argument in the embedded Conn; every way out of Read is either
//   - (n, nil) with n = copy(p, P) after P was advanced to P[n:], on a path that knows len(P) != 0, or
//   - the results of Conn.Read(p), on a path that knows len(P) == 0.
func prefixReaderByHand(c *an.Ctx, ctor, read *ssa.Function) bool {
	// the field holding the prefix
	var pf *types.Var
	okConn := false
	an.Instrs(ctor, func(in ssa.Instruction) {
		st, ok := in.(*ssa.Store)
		if !ok {
			return
		}
		fv := an.PathOf(st.Addr).Last()
		if fv == nil {
			return
		}
		if st.Val == ssa.Value(ctor.Params[0]) {
			pf = fv
		}
		if mi, isMI := st.Val.(*ssa.MakeInterface); isMI && mi.X == ssa.Value(ctor.Params[1]) {
			okConn = true
		}
		if st.Val == ssa.Value(ctor.Params[1]) {
			okConn = true
		}
	})
	if pf == nil || !okConn || len(read.Params) < 2 {
		return false
	}
	p := read.Params[1]
	isLenP := func(v ssa.Value) bool {
		lc, isCall := v.(*ssa.Call)
		if !isCall {
			return false
		}
		b, isB := lc.Common().Value.(*ssa.Builtin)
		return isB && b.Name() == "len" && isLoadOfField(lc.Common().Args[0], pf)
	}
	isZero := func(v ssa.Value) bool { k, isK := an.ConstInt(v); return isK && k == 0 }
	nReplay, nDelegate := 0, 0
	for _, rc := range an.ReturnCases(read) {
		if len(rc.Vals) != 2 {
			return false
		}
		empty, nonEmpty := false, false
		for _, g := range rc.Guards {
			if g.If != nil && !an.InstrDominates(g.If, rc.Ret) && g.If.Block() != rc.Ret.Block() {
				// a test made after the value was fixed does not qualify the case
			}
			if cmp, ok := an.CmpOf(g); ok {
				if cmp.Is(token.EQL, isLenP, isZero) {
					empty = true
				}
				if cmp.Is(token.NEQ, isLenP, isZero) || cmp.Is(token.GTR, isLenP, isZero) {
					nonEmpty = true
				}
			}
		}
		n, e := an.Resolve(rc.Vals[0]), an.Resolve(rc.Vals[1])
		// delegation
		if ex, isEx := n.(*ssa.Extract); isEx && ex.Index == 0 {
			call, isCall := ex.Tuple.(*ssa.Call)
			ex2, isEx2 := e.(*ssa.Extract)
			if isCall && isEx2 && ex2.Tuple == ex.Tuple && ex2.Index == 1 && call.Common().IsInvoke() && call.Common().Method.Name() == "Read" && len(call.Common().Args) == 1 && call.Common().Args[0] == ssa.Value(p) {
				if fv := an.PathOf(call.Common().Value).Last(); fv != nil && fv.Name() == "Conn" {
					// the first emptiness test decides: it must be the one dominating the call
					emptyAtCall := false
					for _, g := range an.GuardsOf(call.Block()) {
						if cmp, ok := an.CmpOf(g); ok && (cmp.Is(token.EQL, isLenP, isZero) || cmp.Is(token.LEQ, isLenP, isZero)) {
							emptyAtCall = true
						}
					}
					if emptyAtCall {
						nDelegate++
						continue
					}
				}
			}
			return false
		}
		// replay
		if cp, isCall := n.(*ssa.Call); isCall {
			b, isB := cp.Common().Value.(*ssa.Builtin)
			if isB && b.Name() == "copy" && cp.Common().Args[0] == ssa.Value(p) && isLoadOfField(cp.Common().Args[1], pf) && an.IsNilConst(e) {
				// the prefix is advanced by exactly what was copied, before returning
				advanced := false
				for _, st := range fieldStores(read, pf) {
					if sl, isSl := st.Val.(*ssa.Slice); isSl && sl.Low == ssa.Value(cp) && sl.High == nil && isLoadOfField(sl.X, pf) && an.InstrDominates(cp, st) && an.InstrDominates(st, rc.Ret) {
						advanced = true
					}
				}
				nonEmptyAtCopy := false
				for _, g := range an.GuardsOf(cp.Block()) {
					if cmp, ok := an.CmpOf(g); ok && (cmp.Is(token.NEQ, isLenP, isZero) || cmp.Is(token.GTR, isLenP, isZero)) {
						nonEmptyAtCopy = true
					}
				}
				if advanced && nonEmptyAtCopy {
					nReplay++
					continue
				}
			}
			return false
		}
		_ = empty
		_ = nonEmpty
		return false
	}
	return nReplay > 0 && nDelegate > 0
}

// sameButNil: v is want, possibly merged with nil on the ways out of a helper that failed (`return nil, err`).
func sameButNil(v ssa.Value, want ssa.Value) bool {
	for depth := 0; depth < 4; depth++ {
		v = an.Unwrap(v)
		if v == want || an.Resolve(v) == want {
			return true
		}
		phi, ok := v.(*ssa.Phi)
		if !ok {
			return false
		}
		var rest []ssa.Value
		for _, e := range phi.Edges {
			if !an.IsNilConst(e) && e != ssa.Value(phi) {
				rest = append(rest, e)
			}
		}
		if len(rest) != 1 {
			return false
		}
		v = rest[0]
	}
	return false
}
