package rules

import (
	"fmt"
	"go/token"
	"go/types"
	"strings"

	"golang.org/x/tools/go/ssa"

	"verif/sa/internal/an"
)

func init() {
	register(&Property{
		ID:        "C01",
		Technique: "interprocedural must-lockset, path-sensitive typestate (borrow, write-then-flush), guard dominance on go/ssa; tested-then-dropped error (contradiction) check and interprocedural lock-pairing check over the packages the property is anchored in; value provenance of the payload handed to the frame loop",
		Explanation: "Static necessary conditions of per-stream in-order/exactly-once/uncorrupted delivery, decided on every path of the current source: " +
			"(R1) every frame emission and message-id bump of a stream happens with that stream's write lock held (interprocedural must-lockset, helpers verified by entry locksets over all call sites); " +
			"(R2) a successful MsgSend/terminal packet has passed write-then-flush on every nil-returning path; " +
			"(R3) the buffer lent by packetBuffer.Get is used only before Done, never escapes, Done exactly once; " +
			"(R4) packetBuffer's hand-over protocol (wait loops, guards, broadcasts, all state under its mutex); " +
			"(R5) the reader surfaces a packet only on a done frame after bumping the id, appends only id-monotone, kind-consistent frames; " +
			"(R6) the shared writer's buffer and sink are touched only under its mutex and hold whole frames; " +
			"(R7) SplitData returns complementary slices and the done flag is derived from the remainder of the same split; " +
			"(R8) the writer's emptiness flag agrees with its buffer; (R9) the marshal buffer and its aliases only under the write lock; " +
			"(R10) all frames of one message in one critical section of the write lock; (R11) Get..Done of the lent packet under the stream's read lock.",
		NotDecided: "that the delivered sequence equals the sent prefix for all sizes/chunkings/interleavings; behaviour under writer-buffer thresholds; anything about the peer. These are behavioural; the rules are necessary, not sufficient.",
		Assumptions: []string{
			"lock identity is access-path based (no pointer analysis): two *Stream values in one function are distinguished by their root variable",
			"drpc.Encoding.Unmarshal does not retain the byte slice it is given (interface contract)",
		},
		Rules: append([]Rule{
			{ID: "C01.R1", Doc: "frame emission (Writer.WriteFrame/Flush) and Stream.id.Message bumps only with Stream.write of the same stream held", Run: c01r1},
			{ID: "C01.R2", Doc: "MsgSend returns nil only after flushing (or under ManualFlush); sendPacketLocked returns nil only after WriteFrame then Flush", Run: c01r2},
			{ID: "C01.R3", Doc: "borrow discipline of packetBuffer.Get: uses before Done, no escape, Done exactly once on the success path", Run: c01r3},
			{ID: "C01.R4", Doc: "packetBuffer protocol: state under pb.mu, Put waits until consumed, Close waits for held, every state change broadcasts", Run: c01r4},
			{ID: "C01.R5", Doc: "ReadPacketUsing: packet returned only on done frame after id bump; append only after monotonicity and kind checks", Run: c01r5},
			{ID: "C01.R6", Doc: "Writer.buf and the sink Write only under Writer.mu; buf assigned only from AppendFrame or a [:0] reset", Run: c01r6},
			{ID: "C01.R7", Doc: "SplitData yields complementary slices of one base; rawWriteLocked/SplitN set Done from the remainder of the same split", Run: c01r7},
			{ID: "C01.R8", Doc: "Writer.Empty() agrees with the buffer: abstract (buffer emptiness, flag) pair is consistent at every return of every exported Writer method", Run: writerFlagAgreement},
			{ID: "C01.R9", Doc: "the marshal buffer Stream.wbuf and every slice aliasing it are used only under Stream.write", Run: c01r9},
			{ID: "C01.R10", Doc: "the frames of one message are emitted in one critical section of Stream.write: no path emits a frame, releases Stream.write and emits another frame without a message-id bump in between", Run: c01r10},
			{ID: "C01.R11", Doc: "the borrow packetBuffer.Get .. Done is exclusive per receiver: both calls are made with Stream.read of the same stream held", Run: c01r11},
			{ID: "C01.S2", Doc: "the order the reader's monotonicity test uses is the lexicographic order on (Stream, Message) (= C09.R6)", Alias: "C09.R6"},
			{ID: "C01.S1", Doc: "bytes the transport returns together with an error are parsed before the error is surfaced (nothing already received is dropped)", Alias: "C05.R8"},
		}, disciplineRules("C01", "drpcstream", "drpcwire", "drpcmanager", "drpcconn")...),
	})
}

// lockRequirement checks "class is held at each primitive site", and derives
// which helpers rely on their callers for it, checking every call site of
// those helpers in turn. It returns the number of primitive and helper sites.
type lockSite struct {
	in   ssa.Instruction
	root ssa.Value
	what string
}

func lockRequirement(c *an.Ctx, pl *an.PkgLocks, fns []*ssa.Function, class *types.Var, className string, sites []lockSite) (nPrim, nHelper int) {
	acquires := func(fn *ssa.Function) bool {
		found := false
		an.Instrs(fn, func(in ssa.Instruction) {
			ci, ok := in.(ssa.CallInstruction)
			if !ok {
				return
			}
			if op, ok := pl.LT.OpOf(ci.Common()); ok && (op.Kind == "lock" || op.Kind == "trylock") && op.Lock.Class() == class.Origin() {
				found = true
			}
		})
		return found
	}
	needs := map[*ssa.Function]bool{}
	isParam := func(fn *ssa.Function, root ssa.Value) bool {
		for _, p := range fn.Params {
			if an.SameRoot(p, root) {
				return true
			}
		}
		return false
	}
	check := func(s lockSite) {
		fn := s.in.Parent()
		held := pl.MustHoldClass(s.in, s.root, class)
		key := fmt.Sprintf("%s | %s | needs %s", an.ShortFunc(fn), s.what, className)
		detail := ""
		if !held {
			lf := pl.Flow(fn)
			detail = fmt.Sprintf("lock %s on %s is not held on every path here; locksets reaching this point: %q (entry locksets of %s: %q)",
				className, an.R(s.root), lf.States(s.in), an.ShortFunc(fn), pl.EntryStates(fn))
		}
		c.Check(held, key, c.At(s.in), "held on all paths", detail)
		if !acquires(fn) && isParam(fn, s.root) && fn.Parent() == nil {
			needs[fn] = true
		}
	}
	for _, s := range sites {
		check(s)
		nPrim++
	}
	done := map[ssa.Instruction]bool{}
	for changed := true; changed; {
		changed = false
		for _, fn := range fns {
			for _, f := range an.WithAnon(fn) {
				an.Instrs(f, func(in ssa.Instruction) {
					ci, ok := in.(ssa.CallInstruction)
					if !ok || done[in] {
						return
					}
					callee := ci.Common().StaticCallee()
					if callee == nil {
						return
					}
					if o := callee.Origin(); o != nil {
						callee = o
					}
					if !needs[callee] {
						return
					}
					done[in] = true
					changed = true
					nHelper++
					// which argument carries the lock's root? the parameter whose root the
					// callee's sites use: by construction the first parameter (receiver).
					r := ci.Common().Args[0]
					root := an.PathOf(r).Root
					what := "call " + an.ShortFunc(callee)
					if _, isGo := in.(*ssa.Go); isGo {
						c.Bad(fmt.Sprintf("%s | go %s | needs %s", an.ShortFunc(f), an.ShortFunc(callee), className), c.At(in), "helper that needs the lock is started on a new goroutine")
						return
					}
					check(lockSite{in: in, root: root, what: what})
				})
			}
		}
	}
	return
}

func c01r1(c *an.Ctx) {
	a := A(c)
	pl := locksOf(c, "drpcstream")
	write := a.field("drpcstream", "Stream", "write")
	wf := a.obj("drpcwire", "(*Writer).WriteFrame")
	fl := a.obj("drpcwire", "(*Writer).Flush")
	wp := a.obj("drpcwire", "(*Writer).WritePacket")
	wapi := writerAPI(c)
	idField := a.field("drpcstream", "Stream", "id")
	fns := must(c.P.SourceFuncs("drpcstream"))
	var sites []lockSite
	nWriter := 0
	for _, fn := range fns {
		c.Analysed(fn)
		an.Instrs(fn, func(in ssa.Instruction) {
			if ci, ok := in.(ssa.CallInstruction); ok {
				cc := ci.Common()
				ms := append(append([]*types.Func{wf, fl, wp}, wapi.Emit...), wapi.Flush...)
				for i, m := range ms {
					dup := false
					for _, m2 := range ms[:i] {
						if m2 == m {
							dup = true
						}
					}
					if !dup && an.IsCallTo(cc, m) {
						root := an.PathOf(an.Recv(cc)).Root
						sites = append(sites, lockSite{in, root, "call (*Writer)." + m.Name()})
						nWriter++
					}
				}
			}
			if st, ok := in.(*ssa.Store); ok {
				p := an.PathOf(st.Addr)
				for _, f := range p.Fields {
					if f.Origin() == idField.Origin() {
						// construction (fresh object) is exempt: the root is a new allocation
						if _, fresh := p.Root.(*ssa.Alloc); fresh && an.Render(p.Root, 1) == "&new" {
							return
						}
						if al, ok := p.Root.(*ssa.Alloc); ok && al.Heap && al.Comment == "complit" {
							return
						}
						sites = append(sites, lockSite{in, p.Root, "store Stream." + p.FieldString()})
					}
				}
			}
		})
	}
	nPrim, nHelper := lockRequirement(c, pl, fns, write, "Stream.write", sites)
	c.Floor("Writer emission sites in drpcstream", 1, nWriter)
	c.Floor("primitive sites", 1, nPrim)
	c.Floor("helper call sites relying on the caller's write lock", 1, nHelper)
	for _, w := range pl.LT.Wrappers {
		c.Note("verified lock wrapper: %s", w)
	}
}

func c01r2(c *an.Ctx) {
	a := A(c)
	msgSend := c.Fn("drpcstream", "(*Stream).MsgSend")
	rawFlush := a.obj("drpcstream", "(*Stream).rawFlushLocked")
	manual := a.field("drpcstream", "Options", "ManualFlush")
	// MsgSend: every return either yields rawFlushLocked's result, or a provably
	// non-nil error, or is nil under ManualFlush==true.
	wrote := false
	loops := frameLoopFns(c)
	for _, fn := range extendedBody(msgSend) {
		for _, l := range loops {
			if fn == l {
				wrote = true
			}
		}
	}
	c.Check(wrote, "(*Stream).MsgSend | calls rawWriteLocked", c.P.Pos(msgSend.Pos()), "message is written", "MsgSend no longer writes the message through rawWriteLocked")
	// what is written is what was marshalled: the payload handed to the frame loop is the result of the marshal call
	// of this MsgSend, not a buffer that may hold an earlier message
	{
		okData, nCalls := true, 0
		var at ssa.Instruction
		for _, fn := range extendedBody(msgSend) {
			an.Instrs(fn, func(in ssa.Instruction) {
				call, ok := in.(*ssa.Call)
				if !ok {
					return
				}
				callee := call.Common().StaticCallee()
				isLoop := false
				for _, l := range loops {
					if callee != nil && (callee == l || callee.Origin() == l) {
						isLoop = true
					}
				}
				if !isLoop || fn == callee {
					return
				}
				nCalls++
				// the []byte argument
				var data ssa.Value
				for _, arg := range call.Common().Args {
					if sl, isSl := arg.Type().Underlying().(*types.Slice); isSl {
						if b, isB := sl.Elem().Underlying().(*types.Basic); isB && b.Kind() == types.Byte {
							data = arg
						}
					}
				}
				var isMarshalled func(v ssa.Value, depth int) bool
				isMarshalled = func(v ssa.Value, depth int) bool {
					if depth > 6 || v == nil {
						return false
					}
					v = an.Unwrap(an.Resolve(an.Unwrap(v)))
					switch x := v.(type) {
					case *ssa.Extract:
						if mc, isCall := x.Tuple.(*ssa.Call); isCall && x.Index == 0 {
							if f := mc.Common().StaticCallee(); f != nil && strings.Contains(f.Name(), "Marshal") {
								return true
							}
							if mc.Common().IsInvoke() && strings.Contains(mc.Common().Method.Name(), "Marshal") {
								return true
							}
						}
					case *ssa.Phi:
						some := false
						for _, e := range x.Edges {
							if an.IsNilConst(e) || e == ssa.Value(x) {
								continue // the way out of a failed marshal
							}
							if !isMarshalled(e, depth+1) {
								return false
							}
							some = true
						}
						return some
					case *ssa.Parameter:
						return fn != msgSend // a helper writing what it was given; its caller is checked here too
					}
					return false
				}
				fromMarshal := isMarshalled(data, 0)
				if !fromMarshal {
					okData, at = false, in
				}
			})
		}
		pos := c.P.Pos(msgSend.Pos())
		if at != nil {
			pos = c.At(at)
		}
		selfLoop := false
		for _, l := range loops {
			if l == msgSend {
				selfLoop = true
			}
		}
		if nCalls == 0 && selfLoop {
			c.Note("MsgSend contains the frame loop itself: the payload's provenance is that of the loop's buffer (C01.R7)")
			nCalls, okData = 1, true
		}
		c.Check(okData && nCalls > 0, "(*Stream).MsgSend | the payload written is the result of this call's marshal", pos, "", "the frame loop is handed something else than the bytes just marshalled (the retained buffer, for instance): with a buffer-retention limit the previous message, or nothing, goes out in place of a large one")
	}
	nret := 0
	for _, rc := range an.ReturnCases(msgSend) {
		ret := rc.Ret
		v := rc.Vals[0]
		nret++
		key := fmt.Sprintf("(*Stream).MsgSend | return %s", describeRet(v))
		switch {
		case knownNilCase(v, rc):
			ok := false
			for _, g := range rc.Guards {
				if g.True && isLoadOfField(g.Cond, manual) {
					ok = true
				}
			}
			c.Check(ok, key, c.At(ret), "nil only under ManualFlush", "MsgSend can return nil without flushing although ManualFlush is false")
		case isCallResult(v, rawFlush):
			c.Ok(key, c.At(ret), "delegates to rawFlushLocked")
		default:
			ok := provablyNonNilCase(v, rc)
			c.Check(ok, key, c.At(ret), "non-nil error return", "MsgSend returns a value that may be nil on a path that has not flushed: "+an.R(v))
		}
	}
	c.Floor("MsgSend return values", 1, nret)

	// sendPacketLocked: nil return only after WriteFrame then Flush.
	spl := c.Fn("drpcstream", "(*Stream).sendPacketLocked")
	wapi := writerAPI(c)
	c.Note("Writer methods that append a frame: %v; that leave the buffer flushed: %v", funcNames(wapi.Emit), funcNames(wapi.Flush))
	c.Check(len(wapi.Emit) > 0 && len(wapi.Flush) > 0, "Writer | has an emitting and a flushing method", "-", "", "cannot find the writer's frame-appending / flushing methods")
	flow := &an.Flow{Fn: spl, Inline: an.InlineSamePackage(spl), Init: []string{"0"}, Step: func(st string, in ssa.Instruction) []string {
		ci, ok := in.(ssa.CallInstruction)
		if !ok {
			return nil
		}
		if _, isDefer := in.(*ssa.Defer); isDefer {
			return nil
		}
		em, fl := wapi.emits(ci.Common()), wapi.flushes(ci.Common())
		switch {
		case em && fl:
			return []string{"WF"}
		case em:
			return []string{"W"}
		case fl:
			if st == "W" || st == "WF" {
				return []string{"WF"}
			}
		}
		return nil
	}}
	res := flow.Run()
	n := 0
	// per way of returning (a merged error value is judged operand by operand, on the edge it comes in by; a
	// nil-preserving wrapper around the value is looked through)
	for _, rc := range an.ReturnCases(spl) {
		ret := rc.Ret
		if !res.Reachable(ret.Block()) || len(rc.Vals) == 0 {
			continue
		}
		v := rc.Vals[0]
		for k := 0; k < 3; k++ {
			call, isCall := an.Unwrap(v).(*ssa.Call)
			if !isCall {
				break
			}
			arg, isWrap := errsWrapLike(call.Common())
			if !isWrap {
				break
			}
			v = arg
		}
		n++
		key := fmt.Sprintf("(*Stream).sendPacketLocked | return %s", describeRet(rc.Vals[0]))
		at := ret.Block()
		if rc.At != nil {
			at = rc.At
		}
		statesAt := func() []string {
			if rc.At != nil && rc.At != ret.Block() && len(rc.At.Instrs) > 0 {
				last := rc.At.Instrs[len(rc.At.Instrs)-1]
				if sts := res.After(last); len(sts) > 0 {
					return sts
				}
				if sts := res.Before(last); len(sts) > 0 {
					return sts // the block ends in a jump: what holds before it holds on the edge
				}
			}
			return res.Before(ret)
		}
		_ = at
		switch {
		case knownNilCase(v, rc):
			sts := statesAt()
			ok := len(sts) > 0
			for _, st := range sts {
				if st != "WF" {
					ok = false
				}
			}
			c.Check(ok, key, c.At(ret), "after WriteFrame;Flush", "sendPacketLocked can return nil without having written and flushed the packet")
		case flushResult(wapi, v) != nil:
			// the (wrapped) error of the flushing call itself: nil exactly when the flush succeeded
			call := flushResult(wapi, v)
			ok := true
			for _, st := range res.After(call) {
				if st != "WF" {
					ok = false
				}
			}
			c.Check(ok, key, c.At(ret), "the flush's own error, after the frame was written", "returns the error of a flush that does not follow the write of the packet")
		default:
			okV := provablyNonNilCase(v, rc) || provablyNonNil(v, storeBlock(ret, v), 0)
			if phi, isPhi := an.Unwrap(v).(*ssa.Phi); isPhi && !okV {
				// `err = WriteFrame(); if err == nil { err = Flush() }; return wrap(err)`: each operand on its own edge
				okV = true
				for i, e := range phi.Edges {
					pred := phi.Block().Preds[i]
					if call := flushResult(wapi, e); call != nil {
						for _, st := range res.After(call) {
							if st != "WF" {
								okV = false
							}
						}
						continue
					}
					nonNil := provablyNonNil(e, pred, 0)
					for _, g := range an.GuardsOfEdge(pred, phi.Block()) {
						if x, trueNonNil, isTest := nilTestOf(g.Cond); isTest && g.True == trueNonNil && (an.Unwrap(x) == an.Unwrap(e) || sameValue(an.Unwrap(x), an.Unwrap(e))) {
							nonNil = true
						}
					}
					if !nonNil {
						okV = false
					}
				}
			}
			c.Check(okV, key, c.At(ret), "non-nil error", "may return nil before the packet was flushed: "+an.R(v))
		}
	}
	c.Floor("sendPacketLocked returns", 1, n)
}

// flushResult: v is the error of a call to a flushing Writer method, possibly passed through an error-wrapping helper
// that maps nil to nil (errs.Wrap).
func flushResult(w *writerAPIInfo, v ssa.Value) *ssa.Call {
	for i := 0; i < 3; i++ {
		call, ok := an.Unwrap(v).(*ssa.Call)
		if !ok {
			return nil
		}
		if w.flushes(call.Common()) {
			return call
		}
		arg, isWrap := errsWrapLike(call.Common())
		if !isWrap {
			return nil
		}
		v = arg
	}
	return nil
}

func funcNames(fs []*types.Func) []string {
	var out []string
	for _, f := range fs {
		out = append(out, f.Name())
	}
	return out
}

func describeRet(v ssa.Value) string {
	if v == nil {
		return "<zero>"
	}
	return an.Render(v, 3)
}

func isCallResult(v ssa.Value, callee *types.Func) bool {
	call, ok := an.Unwrap(v).(*ssa.Call)
	return ok && an.IsCallTo(call.Common(), callee)
}

// storeBlock returns the block in which value v was stored into the result
// variable that ret loads, or ret's block.
func storeBlock(ret *ssa.Return, v ssa.Value) *ssa.BasicBlock {
	for _, r := range ret.Results {
		if u, ok := r.(*ssa.UnOp); ok && u.Op == token.MUL {
			if a, ok := u.X.(*ssa.Alloc); ok {
				for _, ref := range *a.Referrers() {
					if st, ok := ref.(*ssa.Store); ok && st.Val == v {
						return st.Block()
					}
				}
			}
		}
	}
	return ret.Block()
}

// guardedByFieldLoad: block dominated by an edge on which a bool field load has the given value.
func guardedByFieldLoad(b *ssa.BasicBlock, field *types.Var, want bool) (*ssa.If, bool) {
	for _, g := range an.GuardsOf(b) {
		if g.True == want && isLoadOfField(g.Cond, field) {
			return g.If, true
		}
	}
	return nil, false
}

func c01r3(c *an.Ctx) {
	a := A(c)
	get := a.obj("drpcstream", "(*packetBuffer).Get")
	done := a.obj("drpcstream", "(*packetBuffer).Done")
	fns := must(c.P.SourceFuncs("drpcstream"))
	nBorrow := 0
	for _, fn := range fns {
		for _, cs := range an.CallsTo(fn, false, get) {
			call, ok := cs.Instr.(*ssa.Call)
			if !ok {
				c.Bad(an.ShortFunc(fn)+" | deferred/go packetBuffer.Get", c.At(cs.Instr), "Get must be a plain call")
				continue
			}
			nBorrow++
			c.Analysed(fn)
			fname := an.ShortFunc(fn)
			var data, errv ssa.Value
			for _, ref := range *call.Referrers() {
				if ex, ok := ref.(*ssa.Extract); ok {
					if ex.Index == 0 {
						data = ex
					} else {
						errv = ex
					}
				}
			}
			if data == nil {
				c.Bad(fname+" | lent buffer unused", c.At(call), "result of Get is not bound; cannot follow the borrow")
				continue
			}
			// 1. value flow of the lent slice
			t := an.FlowFrom(fn, data)
			doneCalls := an.CallsTo(fn, false, done)
			for _, s := range t.Sinks {
				kind, ok := borrowUse(s)
				key := fmt.Sprintf("%s | lent buffer used by %s", fname, kind)
				if !ok {
					c.Bad(key, c.At(s.Instr), "the slice lent by packetBuffer.Get escapes or is retained: "+s.Instr.String())
					continue
				}
				after := false
				for _, d := range doneCalls {
					if an.CanReach(d.Instr, s.Instr) {
						after = true
					}
				}
				c.Check(!after, key, c.At(s.Instr), "used before Done", "the lent slice is used after packetBuffer.Done handed it back to the reader")
			}
			// 2. Done exactly once on the success path, none on the error path
			flow := &an.Flow{Fn: fn, Inline: an.InlineSamePackage(fn), Init: []string{"none"},
				Step: func(st string, in ssa.Instruction) []string {
					ci, ok := in.(ssa.CallInstruction)
					if !ok {
						return nil
					}
					if ci == ssa.CallInstruction(call) {
						return []string{"got"}
					}
					if an.IsCallTo(ci.Common(), done) {
						switch st {
						case "got":
							return []string{"done"}
						case "done":
							return []string{"twice"}
						default:
							return []string{"unborrowed"}
						}
					}
					return nil
				},
				Branch: func(st string, br *ssa.If, idx int) (string, bool) {
					if st != "got" || errv == nil {
						return st, true
					}
					x, trueNonNil, ok := nilTestOf(br.Cond)
					if !ok {
						return st, true
					}
					if an.Resolve(x) != errv {
						return st, true
					}
					nonNil := (idx == 0) == trueNonNil
					if nonNil {
						return "none", true // Get failed: nothing was lent
					}
					return st, true
				},
			}
			res := flow.Run()
			for _, ret := range an.Returns(fn) {
				if !res.Reachable(ret.Block()) {
					continue
				}
				for _, st := range res.Before(ret) {
					key := fmt.Sprintf("%s | borrow state at return: %s", fname, st)
					switch st {
					case "none", "done":
						c.Ok(key, c.At(ret), "")
					case "got":
						c.Bad(key, c.At(ret), "a path returns without calling packetBuffer.Done: the connection reader stays parked in Put")
					case "twice":
						c.Bad(key, c.At(ret), "packetBuffer.Done is called twice: the second call discards the next packet")
					default:
						c.Bad(key, c.At(ret), "packetBuffer.Done is called without a successful Get")
					}
				}
			}
		}
	}
	c.Floor("borrowers of packetBuffer.Get", 1, nBorrow)
}

// borrowUse classifies a use of the lent slice.
func borrowUse(s an.TaintSink) (string, bool) {
	switch in := s.Instr.(type) {
	case *ssa.Call:
		cc := in.Common()
		if cc.IsInvoke() && cc.Method.Name() == "Unmarshal" && len(cc.Args) > 0 && cc.Args[0] == s.Val {
			if n, ok := cc.Value.Type().(*types.Named); ok && n.Obj().Name() == "Encoding" {
				return "enc.Unmarshal", true
			}
		}
		if b, ok := cc.Value.(*ssa.Builtin); ok {
			switch b.Name() {
			case "len", "cap":
				return b.Name(), true
			case "append":
				// copying use: the lent slice is the appended operand, never the base
				if len(cc.Args) == 2 && cc.Args[1] == s.Val && cc.Args[0] != s.Val {
					return "copying append", true
				}
				return "append (as base)", false
			case "copy":
				if len(cc.Args) == 2 && cc.Args[1] == s.Val && cc.Args[0] != s.Val {
					return "copy (as source)", true
				}
			}
		}
		return "call " + an.Render(in, 2), false
	case *ssa.Return:
		return "return", false
	case *ssa.Store:
		return "store to " + an.R(in.Addr), false
	case *ssa.MakeClosure:
		return "closure capture", false
	case *ssa.BinOp:
		return "comparison", true
	case *ssa.Index, *ssa.IndexAddr:
		return "index", true
	}
	return fmt.Sprintf("%T", s.Instr), false
}

func c01r4(c *an.Ctx) {
	a := A(c)
	pl := locksOf(c, "drpcstream")
	mu := a.field("drpcstream", "packetBuffer", "mu")
	fData := a.field("drpcstream", "packetBuffer", "data")
	fSet := a.field("drpcstream", "packetBuffer", "set")
	fHeld := a.field("drpcstream", "packetBuffer", "held")
	fErr := a.field("drpcstream", "packetBuffer", "err")
	state := []*types.Var{fData, fSet, fHeld, fErr}
	condWait := a.obj("sync", "(*Cond).Wait")
	_ = a.obj("sync", "(*Cond).Broadcast")

	// (a) every access to the state fields holds pb.mu
	fns := must(c.P.SourceFuncs("drpcstream"))
	nAcc := 0
	for _, fn := range fns {
		an.Instrs(fn, func(in ssa.Instruction) {
			fa, ok := in.(*ssa.FieldAddr)
			if !ok {
				return
			}
			fv := an.PathOf(fa).Last()
			isState := false
			for _, s := range state {
				if fv != nil && fv.Origin() == s.Origin() {
					isState = true
				}
			}
			if !isState {
				return
			}
			nAcc++
			root := an.PathOf(fa).Root
			// the access happens where the address is used; the FieldAddr itself is a good proxy (same block)
			held := pl.MustHoldClass(in, root, mu)
			c.Check(held, fmt.Sprintf("%s | access packetBuffer.%s", an.ShortFunc(fn), fv.Name()), c.At(in), "under pb.mu",
				"packetBuffer state accessed without holding packetBuffer.mu")
		})
	}
	c.Floor("packetBuffer state accesses", 1, nAcc)

	// (b)-(d) decided by one automaton per method: the state is what the path KNOWS about set / held / err since
	// the knowledge was last invalidated (cond.Wait and any lock operation let other goroutines change the
	// buffer). A test of a field teaches its value on each side, a store of a constant sets it. So the rule does
	// not care how the wait loops are written (one loop or two, flags, a helper with a predicate, the order of the
	// conjuncts): it asks what is known where the state is changed.
	lockOps := func(cc *ssa.CallCommon) bool {
		_, ok := pl.LT.OpOf(cc)
		return ok
	}
	fieldOfLoad := func(v ssa.Value) *types.Var {
		for _, f := range []*types.Var{fSet, fHeld, fErr} {
			if isLoadOfField(v, f) {
				return f
			}
		}
		return nil
	}
	// contradicts: the path already knows a different value for key (nothing invalidated it since): this side of the test is infeasible
	contradicts := func(st, key, val string) bool {
		for _, v := range []string{"T", "F", "Z", "N"} {
			if v != val && hasTag(st, key+"="+v) {
				return true
			}
		}
		return false
	}
	setK := func(st, key, val string) string {
		for _, v := range []string{"T", "F", "Z", "N"} {
			st = delTag(st, key+"="+v)
		}
		if val == "" {
			return st
		}
		return addTag(st, key+"="+val)
	}
	// The buffer's invariants, which hold whenever the mutex is acquired or re-acquired (they are established by
	// the obligations I1/I2 below, checked at every store): err != nil => !set, and held => set. A test made while
	// the critical section has not yet stored to the state therefore teaches more than the tested field.
	// "dirty" marks a critical section that has stored since it last (re)acquired the mutex.
	derive := func(st string) (string, bool) {
		if hasTag(st, "dirty") {
			return st, true
		}
		for i := 0; i < 3; i++ {
			type imp struct{ ifK, ifV, thenK, thenV string }
			for _, m := range []imp{{"err", "N", fSet.Name(), "F"}, {fSet.Name(), "T", "err", "Z"}, {fSet.Name(), "F", fHeld.Name(), "F"}, {fHeld.Name(), "T", fSet.Name(), "T"}} {
				if hasTag(st, m.ifK+"="+m.ifV) {
					if contradicts(st, m.thenK, m.thenV) {
						return st, false
					}
					st = setK(st, m.thenK, m.thenV)
				}
			}
		}
		return st, true
	}
	boolTest := func(cond ssa.Value) (f *types.Var, onTrue bool, ok bool) {
		c2, neg := an.StripNot(cond)
		if fl := fieldOfLoad(c2); fl != nil && fl.Origin() != fErr.Origin() {
			return fl, !neg, true
		}
		if b, isB := c2.(*ssa.BinOp); isB && (b.Op == token.EQL || b.Op == token.NEQ) {
			x, y := b.X, b.Y
			if _, isC := x.(*ssa.Const); isC {
				x, y = y, x
			}
			cst, isC := an.Resolve(y).(*ssa.Const)
			fl := fieldOfLoad(x)
			if isC && cst.Value != nil && fl != nil && fl.Origin() != fErr.Origin() {
				want := cst.Value.String() == "true"
				val := (b.Op == token.EQL) == want // value of the field when the comparison is true
				return fl, val != neg, true
			}
		}
		return nil, false, false
	}
	knowledge := func(fn *ssa.Function) *an.FlowResult {
		flow := &an.Flow{Fn: fn, Inline: an.InlineSamePackage(fn), Init: []string{""},
			Step: func(st string, in ssa.Instruction) []string {
				switch x := in.(type) {
				case ssa.CallInstruction:
					if an.IsCallTo(x.Common(), condWait) || lockOps(x.Common()) {
						if _, isDefer := in.(*ssa.Defer); isDefer {
							return nil
						}
						if hasTag(st, "published") {
							return []string{"published"}
						}
						if st == "" {
							return nil
						}
						return []string{""}
					}
				case *ssa.Store:
					fv := an.PathOf(x.Addr).Last()
					if fv == nil {
						return nil
					}
					switch fv.Origin() {
					case fData.Origin():
						if !an.IsNilConst(x.Val) {
							return []string{addTag(st, "published")}
						}
					case fSet.Origin(), fHeld.Origin():
						val := ""
						if cst, ok := x.Val.(*ssa.Const); ok && cst.Value != nil {
							if cst.Value.String() == "true" {
								val = "T"
							} else {
								val = "F"
							}
						}
						return []string{addTag(setK(st, fv.Name(), val), "dirty")}
					case fErr.Origin():
						val := ""
						if an.IsNilConst(x.Val) {
							val = "Z"
						}
						return []string{addTag(setK(st, "err", val), "dirty")}
					}
				}
				return nil
			},
			Branch: func(st string, br *ssa.If, idx int) (string, bool) {
				if x, trueNonNil, ok := nilTestOf(br.Cond); ok {
					if f := fieldOfLoad(x); f != nil && f.Origin() == fErr.Origin() {
						val := "Z"
						if (idx == 0) == trueNonNil {
							val = "N"
						}
						if contradicts(st, "err", val) {
							return st, false
						}
						return derive(setK(st, "err", val))
					}
					return st, true
				}
				if f, onTrue, ok := boolTest(br.Cond); ok {
					val := "F"
					if (idx == 0) == onTrue {
						val = "T"
					}
					if contradicts(st, f.Name(), val) {
						return st, false
					}
					return derive(setK(st, f.Name(), val))
				}
				return st, true
			},
		}
		return flow.Run()
	}
	allKnow := func(res *an.FlowResult, in ssa.Instruction, tags ...string) bool {
		sts := res.Before(in)
		if len(sts) == 0 {
			return false
		}
		for _, st := range sts {
			for _, t := range tags {
				if !hasTag(st, t) {
					return false
				}
			}
		}
		return true
	}
	setName, heldName := fSet.Name(), fHeld.Name()

	// (b) Put: publishes only into an open, consumed buffer; returns after publishing only once neither set nor held
	put := c.Fn("drpcstream", "(*packetBuffer).Put")
	dataStores := fieldStores(put, fData)
	if c.Floor("stores to pb.data in Put", 1, len(dataStores)) {
		res := knowledge(put)
		pub := dataStores[0]
		c.Check(allKnow(res, pub, "err=Z"), "(*packetBuffer).Put | publish guarded by err == nil", c.At(pub), "", "Put publishes data into a closed buffer (pb.err not known to be nil where the data is stored)")
		c.Check(allKnow(res, pub, setName+"=F"), "(*packetBuffer).Put | waits for previous packet before publishing", c.At(pub), "", "Put overwrites a packet that has not been consumed (pb.set is not known to be false where the data is stored)")
		setTrue := false
		for _, st := range fieldStores(put, fSet) {
			if cst, ok := st.Val.(*ssa.Const); ok && cst.Value != nil && cst.Value.String() == "true" && st.Block() == pub.Block() {
				setTrue = true
			}
		}
		c.Check(setTrue, "(*packetBuffer).Put | marks the buffer set when publishing", c.At(pub), "", "Put does not set pb.set=true together with the data")
		n := 0
		for _, ret := range an.Returns(put) {
			if !an.CanReach(pub, ret) || !res.Reachable(ret.Block()) {
				continue
			}
			n++
			okRet := true
			// what is known when the mutex is given up on the way to this return: at an explicit Unlock that leads
			// here, else (deferred unlock) at the return itself
			var states []string
			an.Instrs(put, func(in ssa.Instruction) {
				call, isCall := in.(*ssa.Call)
				if !isCall {
					return
				}
				if f := call.Common().StaticCallee(); f != nil && f.Name() == "Unlock" && an.CanReach(in, ret) && an.CanReach(pub, in) {
					states = append(states, res.Before(in)...)
				}
			})
			if len(states) == 0 {
				states = res.Before(ret)
			}
			for _, st := range states {
				if !hasTag(st, "published") {
					continue // a way out that did not publish (closed buffer)
				}
				if !hasTag(st, setName+"=F") || !hasTag(st, heldName+"=F") {
					okRet = false // the packet may not have been taken, or is still held by the decoder
				}
			}
			c.Check(okRet, "(*packetBuffer).Put | return after publish waits for !set && !held", c.At(ret), "",
				"Put can return while the consumer still holds (or has not taken) the lent buffer: the reader would overwrite bytes being decoded")
		}
		c.Floor("returns after publish in Put", 1, n)
	}

	// (c) Close: changes the state only when nobody holds the lent slice and no earlier error was recorded
	cl := c.Fn("drpcstream", "(*packetBuffer).Close")
	n := 0
	{
		res := knowledge(cl)
		for _, f := range []*types.Var{fErr, fData, fSet} {
			for _, st := range fieldStores(cl, f) {
				n++
				c.Check(allKnow(res, st, heldName+"=F"), "(*packetBuffer).Close | store pb."+f.Name()+" after waiting for !held", c.At(st), "",
					"Close changes the buffer while a receiver still holds the lent slice")
				// the error store itself teaches err != nil to the stores after it; what counts is what was known before the first store
				first := allKnow(res, st, "err=Z") || (f.Origin() != fErr.Origin() && storeFollows(fieldStores(cl, fErr), st))
				c.Check(first, "(*packetBuffer).Close | store pb."+f.Name()+" only if err == nil", c.At(st), "", "Close overwrites an earlier close error (first error must win)")
			}
		}
	}
	c.Floor("state stores in Close", 1, n)

	// (d) Get: lends the buffer only when a packet is there and the buffer is open
	get := c.Fn("drpcstream", "(*packetBuffer).Get")
	n = 0
	{
		res := knowledge(get)
		for _, st := range fieldStores(get, fHeld) {
			n++
			c.Check(allKnow(res, st, setName+"=T", "err=Z"), "(*packetBuffer).Get | held=true only after waiting for set and err == nil", c.At(st), "", "Get lends the buffer without waiting for a packet / on a closed buffer")
		}
		// and every success return has marked the buffer held
		for _, rc := range an.ReturnCases(get) {
			if len(rc.Vals) < 2 || !(rc.Vals[1] == nil || an.IsNilConst(rc.Vals[1])) {
				continue
			}
			if !res.Reachable(rc.Ret.Block()) {
				continue
			}
			n++
			c.Check(allKnow(res, rc.Ret, heldName+"=T"), "(*packetBuffer).Get | a successful Get has marked the buffer held", c.At(rc.Ret), "",
				"Get can hand out the lent slice without marking it held: Close and Put no longer wait for the decoder, and the reader overwrites bytes being decoded")
		}
	}
	c.Floor("held stores in Get", 1, n)

	// (I1/I2) the invariants the knowledge above relies on are kept by every store, in every function of the package:
	// set=true only on an open buffer; a close error is recorded together with set=false; held=true only on a set
	// buffer; set=false only when the loan is over (held known false, or cleared in the same step)
	nInv := 0
	for _, fn := range fns {
		stores := append(append(fieldStores(fn, fSet), fieldStores(fn, fHeld)...), fieldStores(fn, fErr)...)
		if len(stores) == 0 {
			continue
		}
		res := knowledge(fn)
		sameBlockStore := func(st *ssa.Store, f *types.Var, want string) bool {
			for _, o := range fieldStores(fn, f) {
				if o.Block() != st.Block() {
					continue
				}
				if cst, ok := o.Val.(*ssa.Const); ok && cst.Value != nil && cst.Value.String() == want {
					return true
				}
			}
			return false
		}
		for _, st := range stores {
			fv := an.PathOf(st.Addr).Last()
			cst, isC := st.Val.(*ssa.Const)
			isTrue := isC && cst.Value != nil && cst.Value.String() == "true"
			isFalse := isC && cst.Value != nil && cst.Value.String() == "false"
			switch {
			case fv.Origin() == fSet.Origin() && isTrue:
				nInv++
				c.Check(allKnow(res, st, "err=Z"), an.ShortFunc(fn)+" | set=true only on an open buffer (err known nil)", c.At(st), "", "a packet can be published into a closed buffer: a receiver woken by Close would find data")
			case fv.Origin() == fSet.Origin() && isFalse:
				nInv++
				c.Check(allKnow(res, st, heldName+"=F") || sameBlockStore(st, fHeld, "false"), an.ShortFunc(fn)+" | set=false only when the loan is over", c.At(st), "", "the slot is emptied while the decoder still holds the lent slice")
			case fv.Origin() == fHeld.Origin() && isTrue:
				nInv++
				c.Check(allKnow(res, st, setName+"=T"), an.ShortFunc(fn)+" | held=true only on a set buffer", c.At(st), "", "the buffer is marked lent although no packet is in it")
			case fv.Origin() == fErr.Origin() && !an.IsNilConst(st.Val):
				nInv++
				c.Check(sameBlockStore(st, fSet, "false") || allKnow(res, st, setName+"=F"), an.ShortFunc(fn)+" | a close error is recorded together with set=false", c.At(st), "", "the buffer can be closed while it still announces a packet")
			}
		}
	}
	c.Floor("invariant-relevant stores of packetBuffer", 1, nInv)

	// (e) every state change that can release a waiter is followed by a Broadcast of that waiter's condition
	// variable before the mutex is released or waited on (wakeup.go)
	kcache := map[*ssa.Function]*an.FlowResult{}
	wakeupCompleteness(c, "drpcstream", "packetBuffer", []string{"(*packetBuffer).Put", "(*packetBuffer).Get", "(*packetBuffer).Done", "(*packetBuffer).Close"},
		func(fn *ssa.Function, st *ssa.Store) bool {
			// a constant written to set/held where the path already knows the field has that value (held is false
			// whenever set is, so Put's "held = false" after waiting for !set changes nothing)
			fv := an.PathOf(st.Addr).Last()
			cst, isC := st.Val.(*ssa.Const)
			if fv == nil || !isC || cst.Value == nil {
				return false
			}
			if fv.Origin() != fSet.Origin() && fv.Origin() != fHeld.Origin() {
				return false
			}
			tag := fv.Name() + "=F"
			if cst.Value.String() == "true" {
				tag = fv.Name() + "=T"
			}
			if kcache[fn] == nil {
				kcache[fn] = knowledge(fn)
			}
			return allKnow(kcache[fn], st, tag)
		})
}

// storeFollows: st comes after one of the given stores in the same block (Close's data/set stores follow
// its err store only textually in some layouts).
func storeFollows(errStores []*ssa.Store, st *ssa.Store) bool {
	for _, e := range errStores {
		if e.Block() == st.Block() {
			return true
		}
	}
	return false
}

// guardedByNil: block dominated by an edge on which `X.field == nil` has the given truth.
func guardedByNil(b *ssa.BasicBlock, field *types.Var, isNil bool) (*ssa.If, bool) {
	for _, g := range an.GuardsOf(b) {
		x, trueNonNil, ok := nilTestOf(g.Cond)
		if !ok || !isLoadOfField(x, field) {
			continue
		}
		nonNil := g.True == trueNonNil
		if nonNil != isNil {
			return g.If, true
		}
	}
	return nil, false
}

// guardedByFieldLoadAfter is guardedByFieldLoad restricted to tests that are
// evaluated after instruction `after` on every path.
func guardedByFieldLoadAfter(b *ssa.BasicBlock, field *types.Var, want bool, after ssa.Instruction) (*ssa.If, bool) {
	for _, g := range an.GuardsOf(b) {
		if g.True == want && isLoadOfField(g.Cond, field) && an.InstrDominates(after, g.If) {
			return g.If, true
		}
	}
	return nil, false
}

// inLoopWithCall reports whether block b lies on a CFG cycle that contains a
// call to callee (the wait loop idiom).
func inLoopWithCall(b *ssa.BasicBlock, callee *types.Func) bool {
	if b == nil {
		return false
	}
	// blocks reachable from b that can reach b again
	reach := map[*ssa.BasicBlock]bool{}
	var stack []*ssa.BasicBlock
	stack = append(stack, b.Succs...)
	for len(stack) > 0 {
		x := stack[len(stack)-1]
		stack = stack[:len(stack)-1]
		if reach[x] {
			continue
		}
		reach[x] = true
		stack = append(stack, x.Succs...)
	}
	if !reach[b] {
		return false
	}
	canReachB := func(x *ssa.BasicBlock) bool {
		seen := map[*ssa.BasicBlock]bool{}
		st := []*ssa.BasicBlock{x}
		for len(st) > 0 {
			y := st[len(st)-1]
			st = st[:len(st)-1]
			if y == b {
				return true
			}
			if seen[y] {
				continue
			}
			seen[y] = true
			st = append(st, y.Succs...)
		}
		return false
	}
	for x := range reach {
		if !canReachB(x) {
			continue
		}
		for _, in := range x.Instrs {
			if ci, ok := in.(ssa.CallInstruction); ok && an.IsCallTo(ci.Common(), callee) {
				return true
			}
		}
	}
	return false
}

func c01r5(c *an.Ctx) {
	a := A(c)
	fn := c.Fn("drpcwire", "(*Reader).ReadPacketUsing")
	frDone := a.field("drpcwire", "Frame", "Done")
	frKind := a.field("drpcwire", "Frame", "Kind")
	pkKind := a.field("drpcwire", "Packet", "Kind")
	pkData := a.field("drpcwire", "Packet", "Data")
	rID := a.field("drpcwire", "Reader", "id")
	idMsg := a.field("drpcwire", "ID", "Message")
	less := a.obj("drpcwire", "(ID).Less")
	parse := a.obj("drpcwire", "ParseFrame")

	// (a) nil-error returns
	n := 0
	for _, rc := range an.ReturnCases(fn) {
		ret := rc.Ret
		if len(rc.Vals) < 2 {
			continue
		}
		v := rc.Vals[1]
		if !(v == nil || an.IsNilConst(v)) {
			// error returns must carry a zero packet: "partial packets are never surfaced"
			if !provablyNonNilCase(v, rc) {
				c.Bad("(*Reader).ReadPacketUsing | return with possibly-nil error "+an.Render(v, 3), c.At(ret), "cannot show the error is non-nil")
				continue
			}
			zero := isZeroAggregate(rc.Vals[0])
			c.Check(zero, "(*Reader).ReadPacketUsing | error return carries zero Packet", c.At(ret), "", "an error return surfaces partial packet data")
			continue
		}
		n++
		okDone := false
		for _, g := range rc.Guards {
			if g.True && isLoadOfField(g.Cond, frDone) {
				okDone = true
			}
		}
		c.Check(okDone, "(*Reader).ReadPacketUsing | packet returned only on a done frame", c.At(ret), "", "a packet is surfaced before its final (done) frame")
		// id bump: a store r.id.Message = r.id.Message + 1 dominates the return within the done branch
		bump := false
		for _, st := range fieldStores(fn, idMsg) {
			p := an.PathOf(st.Addr)
			if len(p.Fields) >= 2 && p.Fields[len(p.Fields)-2].Origin() == rID.Origin() && (an.InstrDominates(st, ret) || an.DominatesEnd(st.Block(), rc.At, 0)) {
				if b, ok := st.Val.(*ssa.BinOp); ok && b.Op == token.ADD {
					if k, ok := an.ConstInt(b.Y); ok && k == 1 && isLoadOfField(b.X, idMsg) {
						if _, g := guardedByFieldLoad(st.Block(), frDone, true); g {
							bump = true
						}
					}
				}
			}
		}
		c.Check(bump, "(*Reader).ReadPacketUsing | message id bumped before returning a packet", c.At(ret), "", "the reader does not advance its id after a completed packet: a replayed frame with the same id would be accepted again")
	}
	c.Floor("nil-error returns in ReadPacketUsing", 1, n)

	// (b) the append into pkt.Data
	var appends []*ssa.Store
	for _, st := range fieldStores(fn, pkData) {
		if call, ok := st.Val.(*ssa.Call); ok {
			if b, ok := call.Common().Value.(*ssa.Builtin); ok && b.Name() == "append" {
				appends = append(appends, st)
			}
		}
	}
	if !c.Floor("append into pkt.Data", 1, len(appends)) {
		return
	}
	// typestate: kind consistency established since the last ParseFrame
	flow := &an.Flow{Fn: fn, Inline: an.InlineSamePackage(fn), Init: []string{"?"},
		Step: func(st string, in ssa.Instruction) []string {
			switch x := in.(type) {
			case *ssa.Call:
				if an.IsCallTo(x.Common(), parse) {
					return []string{"?"}
				}
			case *ssa.Store:
				// whole-packet reset carrying fr.Kind: pkt = Packet{... Kind: fr.Kind ...}
				if isPacketResetFromFrame(x, pkKind, frKind) {
					return []string{"ok"}
				}
			}
			return nil
		},
		Branch: func(st string, br *ssa.If, idx int) (string, bool) {
			b, ok := br.Cond.(*ssa.BinOp)
			if !ok || (b.Op != token.NEQ && b.Op != token.EQL) {
				return st, true
			}
			if (isLoadOfField(b.X, frKind) && isLoadOfField(b.Y, pkKind)) || (isLoadOfField(b.X, pkKind) && isLoadOfField(b.Y, frKind)) {
				equalEdge := (idx == 0) == (b.Op == token.EQL)
				if equalEdge {
					return "ok", true
				}
			}
			return st, true
		},
	}
	res := flow.Run()
	for _, ap := range appends {
		mono := false
		for _, g := range an.GuardsOf(ap.Block()) {
			if call, ok := g.Cond.(*ssa.Call); ok && an.IsCallTo(call.Common(), less) && !g.True {
				// fr.ID.Less(r.id)
				if len(call.Common().Args) == 2 && isLoadOfField(call.Common().Args[1], rID) {
					mono = true
				}
			}
		}
		c.Check(mono, "(*Reader).ReadPacketUsing | append guarded by !fr.ID.Less(r.id)", c.At(ap), "", "frames with an id lower than the reader's are appended (ids may go backwards)")
		okKind := true
		for _, st := range res.Before(ap) {
			if st != "ok" {
				okKind = false
			}
		}
		c.Check(okKind, "(*Reader).ReadPacketUsing | append only after packet reset or kind-equality test", c.At(ap), "", "a frame can be appended to a packet of a different kind")
	}
}

// isZeroAggregate: the value is the zero value of its (aggregate) type.
func isZeroAggregate(v ssa.Value) bool {
	if v == nil {
		return true
	}
	v = an.Resolve(v)
	cst, ok := v.(*ssa.Const)
	return ok && cst.Value == nil
}

func returnsZeroPacket(ret *ssa.Return) bool {
	if len(ret.Results) == 0 {
		return false
	}
	for _, v := range returnedValues(ret, 0) {
		v = an.Resolve(v)
		cst, ok := v.(*ssa.Const)
		if !ok || cst.Value != nil {
			// aggregate zero constant renders as Const with nil Value
			return false
		}
	}
	return true
}

// isPacketResetFromFrame: store of a whole Packet value built from a composite
// literal whose Kind field is loaded from fr.Kind.
func isPacketResetFromFrame(st *ssa.Store, pkKind, frKind *types.Var) bool {
	ld, ok := st.Val.(*ssa.UnOp)
	if !ok || ld.Op != token.MUL {
		return false
	}
	lit, ok := ld.X.(*ssa.Alloc)
	if !ok {
		return false
	}
	n, isNamed := deref(lit.Type()).(*types.Named)
	if !isNamed || n.Obj().Name() != "Packet" {
		return false
	}
	for _, ref := range *lit.Referrers() {
		fa, ok := ref.(*ssa.FieldAddr)
		if !ok {
			continue
		}
		if fv := an.PathOf(fa).Last(); fv == nil || fv.Origin() != pkKind.Origin() {
			continue
		}
		for _, r2 := range *fa.Referrers() {
			if s2, ok := r2.(*ssa.Store); ok && s2.Addr == fa && isLoadOfField(s2.Val, frKind) {
				return true
			}
		}
	}
	return false
}

func deref(t types.Type) types.Type {
	if pt, ok := t.Underlying().(*types.Pointer); ok {
		return pt.Elem()
	}
	return t
}

func c01r6(c *an.Ctx) {
	a := A(c)
	pl := locksOf(c, "drpcwire")
	mu := a.field("drpcwire", "Writer", "mu")
	buf := a.field("drpcwire", "Writer", "buf")
	w := a.field("drpcwire", "Writer", "w")
	appendFrame := a.obj("drpcwire", "AppendFrame")
	fns := must(c.P.SourceFuncs("drpcwire"))
	nAcc, nWrite := 0, 0
	for _, fn := range fns {
		an.Instrs(fn, func(in ssa.Instruction) {
			switch x := in.(type) {
			case *ssa.FieldAddr:
				fv := an.PathOf(x).Last()
				if fv == nil || fv.Origin() != buf.Origin() {
					return
				}
				root := an.PathOf(x).Root
				if isFreshObject(root) {
					return // constructor
				}
				nAcc++
				c.Check(pl.MustHoldClass(in, root, mu), fmt.Sprintf("%s | access Writer.buf", an.ShortFunc(fn)), c.At(in), "", "Writer.buf accessed without Writer.mu: concurrent frames can interleave inside the buffer")
			case ssa.CallInstruction:
				cc := x.Common()
				if cc.IsInvoke() && cc.Method.Name() == "Write" && isLoadOfField(cc.Value, w) {
					nWrite++
					root := an.PathOf(cc.Value).Root
					c.Check(pl.MustHoldClass(in, root, mu), fmt.Sprintf("%s | sink Write", an.ShortFunc(fn)), c.At(in), "", "the writer's sink is written without Writer.mu: two transport writes can be in flight")
				}
			case *ssa.Store:
				fv := an.PathOf(x.Addr).Last()
				if fv == nil || fv.Origin() != buf.Origin() {
					return
				}
				if isFreshObject(an.PathOf(x.Addr).Root) {
					return
				}
				ok := false
				switch v := x.Val.(type) {
				case *ssa.Call:
					ok = an.IsCallTo(v.Common(), appendFrame)
				case *ssa.Slice:
					hi, isC := an.ConstInt(v.High)
					ok = v.Low == nil && isC && hi == 0 && isLoadOfField(v.X, buf)
				}
				c.Check(ok, fmt.Sprintf("%s | Writer.buf assigned whole frames only", an.ShortFunc(fn)), c.At(in), "", "Writer.buf is assigned something other than AppendFrame(...) or a [:0] reset: "+an.R(x.Val))
			}
		})
	}
	c.Floor("Writer.buf accesses", 1, nAcc)
	c.Floor("sink writes", 1, nWrite)
}

// isFreshObject reports whether the root is an object allocated in this
// function (composite literal / new), i.e. not yet shared.
func isFreshObject(root ssa.Value) bool {
	al, ok := root.(*ssa.Alloc)
	if !ok {
		return false
	}
	return al.Heap && (al.Comment == "complit" || al.Comment == "new")
}

func c01r7(c *an.Ctx) {
	a := A(c)
	split := c.Fn("drpcwire", "SplitData")
	splitObj := a.obj("drpcwire", "SplitData")
	frData := a.field("drpcwire", "Frame", "Data")
	frDone := a.field("drpcwire", "Frame", "Done")
	// SplitData: each return is (buf, nil) or (buf[:n], buf[n:]) with one base and one n
	bufParam := split.Params[0]
	n := 0
	for _, ret := range an.Returns(split) {
		n++
		p, s := ret.Results[0], ret.Results[1]
		ok := false
		if p == ssa.Value(bufParam) && an.IsNilConst(s) {
			ok = true
		}
		ps, ok1 := p.(*ssa.Slice)
		ss, ok2 := s.(*ssa.Slice)
		if ok1 && ok2 && ps.X == ssa.Value(bufParam) && ss.X == ssa.Value(bufParam) && ps.Low == nil && ss.High == nil && ps.High != nil && ps.High == ss.Low && ps.Max == nil && ss.Max == nil {
			ok = true
		}
		c.Check(ok, "SplitData | returns complementary slices", c.At(ret), "", "SplitData's prefix and suffix are not complementary slices of its input: "+an.R(p)+", "+an.R(s))
	}
	c.Floor("SplitData returns", 1, n)
	// callers: Done = len(rest)==0 of the same call whose prefix goes to fr.Data
	nCallers := 0
	for _, pkg := range []string{"drpcwire", "drpcstream"} {
		for _, fn := range must(c.P.SourceFuncs(pkg)) {
			for _, cs := range an.CallsTo(fn, false, splitObj) {
				call, ok := cs.Instr.(*ssa.Call)
				if !ok {
					continue
				}
				nCallers++
				c.Analysed(fn)
				var prefix, rest ssa.Value
				for _, ref := range *call.Referrers() {
					if ex, ok := ref.(*ssa.Extract); ok {
						if ex.Index == 0 {
							prefix = ex
						} else {
							rest = ex
						}
					}
				}
				okData, okDone := false, false
				for _, st := range fieldStores(fn, frData) {
					if st.Val == prefix && st.Block() == call.Block() {
						okData = true
					}
				}
				for _, st := range fieldStores(fn, frDone) {
					if st.Block() != call.Block() {
						continue
					}
					if b, ok := st.Val.(*ssa.BinOp); ok && b.Op == token.EQL {
						if k, ok := an.ConstInt(b.Y); ok && k == 0 {
							if lc, ok := b.X.(*ssa.Call); ok {
								if bi, ok := lc.Common().Value.(*ssa.Builtin); ok && bi.Name() == "len" && an.Resolve(lc.Common().Args[0]) == rest {
									okDone = true
								}
							}
						}
					}
				}
				c.Check(okData, an.ShortFunc(fn)+" | frame data is the split prefix", c.At(call), "", "fr.Data is not assigned the prefix returned by this SplitData call")
				c.Check(okDone, an.ShortFunc(fn)+" | Done = (len(rest) == 0) of the same split", c.At(call), "", "fr.Done is not derived from the remainder of this SplitData call: the last frame may not be marked done (receiver never completes the packet) or an earlier one is")
				// the remainder feeds the next iteration
				feeds := false
				for _, ref := range *rest.Referrers() {
					switch r := ref.(type) {
					case *ssa.Phi:
						feeds = true
					case *ssa.Store:
						_ = r
						feeds = true
					}
				}
				c.Check(feeds, an.ShortFunc(fn)+" | remainder is carried to the next frame", c.At(call), "", "the unsent remainder is dropped")
			}
		}
	}
	c.Floor("SplitData callers", 1, nCallers)
}

func c01r9(c *an.Ctx) {
	a := A(c)
	pl := locksOf(c, "drpcstream")
	n := guardedBuffer(c, pl, must(c.P.SourceFuncs("drpcstream")), a.field("drpcstream", "Stream", "wbuf"), a.field("drpcstream", "Stream", "write"),
		"Stream.wbuf", "Stream.write", "two concurrent senders on one stream would marshal into the same backing array while one of them is still splitting it into frames (messages altered/merged)")
	c.Floor("uses of Stream.wbuf and its aliases", 1, n)
}

// c01r10: a message's frames form one critical section of the write lock. The
// message is delimited by the id bump; a release of Stream.write after a frame
// of the current message followed by another frame of it lets a concurrent
// sender or terminal packet interleave (the peer drops the older message).
func c01r10(c *an.Ctx) {
	a := A(c)
	pl := locksOf(c, "drpcstream")
	write := a.field("drpcstream", "Stream", "write")
	idField := a.field("drpcstream", "Stream", "id")
	wapi := writerAPI(c)
	emits := append([]*types.Func{a.obj("drpcwire", "(*Writer).WriteFrame"), a.obj("drpcwire", "(*Writer).WritePacket")}, wapi.Emit...)
	isEmit := func(cc *ssa.CallCommon) bool {
		for _, m := range emits {
			if an.IsCallTo(cc, m) {
				return true
			}
		}
		return false
	}
	fns := must(c.P.SourceFuncs("drpcstream"))
	nEmit, nRel := 0, 0
	for _, fn := range fns {
		c.Analysed(fn)
		seenEmit, seenRel := map[ssa.Instruction]bool{}, map[ssa.Instruction]bool{}
		bad := map[ssa.Instruction]bool{}
		step := func(st string, in ssa.Instruction, cc *ssa.CallCommon) []string {
			if op, ok := pl.LT.OpOf(cc); ok && op.Lock.Class() == write.Origin() {
				if op.Kind == "unlock" {
					seenRel[in] = true
					if st == "emitted" {
						return []string{"gap"}
					}
				}
				return nil
			}
			if isEmit(cc) {
				seenEmit[in] = true
				if st == "gap" {
					bad[in] = true
				}
				return []string{"emitted"}
			}
			return nil
		}
		flow := &an.Flow{Fn: fn, Inline: an.InlineSamePackage(fn), Init: []string{"fresh"},
			Step: func(st string, in ssa.Instruction) []string {
				switch in := in.(type) {
				case *ssa.Go:
					return nil
				case ssa.CallInstruction:
					return step(st, in, in.Common())
				case *ssa.Store:
					for _, f := range an.PathOf(in.Addr).Fields {
						if f.Origin() == idField.Origin() {
							return []string{"fresh"}
						}
					}
				}
				return nil
			},
			StepDefer: func(st string, d *ssa.Defer) []string { return step(st, d, d.Common()) },
		}
		flow.Run()
		nEmit += len(seenEmit)
		nRel += len(seenRel)
		key := an.ShortFunc(fn) + " | frames of one message in one critical section of Stream.write"
		if len(seenEmit) == 0 {
			continue
		}
		pos := c.P.Pos(fn.Pos())
		for in := range bad {
			pos = c.At(in)
		}
		c.Check(len(bad) == 0, key, pos, "", "a path emits a frame, releases Stream.write and then emits another frame of the same message (no id bump in between): a concurrent send or terminal packet can be written in the middle of the message and the peer discards it")
	}
	c.Floor("frame emissions followed in drpcstream", 1, nEmit)
	c.Floor("releases of Stream.write followed", 1, nRel)
}

// c01r11: Get only marks the slot held; the slot is emptied by Done. Two
// receivers between Get and Done would be lent the same buffer.
func c01r11(c *an.Ctx) {
	a := A(c)
	pl := locksOf(c, "drpcstream")
	read := a.field("drpcstream", "Stream", "read")
	get := a.obj("drpcstream", "(*packetBuffer).Get")
	done := a.obj("drpcstream", "(*packetBuffer).Done")
	fns := must(c.P.SourceFuncs("drpcstream"))
	var sites []lockSite
	for _, fn := range fns {
		an.Instrs(fn, func(in ssa.Instruction) {
			ci, ok := in.(ssa.CallInstruction)
			if !ok {
				return
			}
			for _, m := range []*types.Func{get, done} {
				if an.IsCallTo(ci.Common(), m) {
					c.Analysed(fn)
					sites = append(sites, lockSite{in, an.PathOf(an.Recv(ci.Common())).Root, "call (*packetBuffer)." + m.Name()})
				}
			}
		})
	}
	nPrim, _ := lockRequirement(c, pl, fns, read, "Stream.read", sites)
	c.Floor("packetBuffer.Get/Done call sites", 2, nPrim)
}
