package rules

import (
	"fmt"
	"go/token"
	"go/types"
	"strings"

	"golang.org/x/tools/go/ssa"

	"verif/sa/internal/an"
)

func init() {
	register(&Property{
		ID:        "C10",
		Technique: "codec layout agreement of the error encoding, value-flow provenance of the error from handler to wire to caller, constant-format check for printf-like calls, type-switch order in the code extractor; tested-then-dropped error (contradiction) check and interprocedural lock-pairing check over the packages the property is anchored in; sibling cross-check of the two hand-written unwrap loops",
		Explanation: "Statically decidable part of 'handler errors reach the caller with message and code intact': " +
			"(R1) MarshalError and UnmarshalError agree on 8 big-endian code bytes followed by the text, the decoder's slices are split at the same offset behind the length guard, and the peer's text is only ever a printf ARGUMENT (constant format); " +
			"(R2) provenance: what the server sends is the handler's own error (through nil-preserving wrappers only), what the mux returns is the receiver's error through chain-preserving wrappers, and the error packet carries MarshalError of SendError's argument; " +
			"(R3) drpcerr.Code looks for Code() before Cause()/Unwrap(), within a constant number of steps; WithCode keeps both message and code reachable; " +
			"(R4) client side: the error packet is decoded with UnmarshalError and becomes the termination cause that closes the packet buffer (first error wins); " +
			"(R5) no printf-like call in the library takes a non-constant format string; " +
			"plus shared: exactly one terminal call after the handler (C06.R1), buffered messages are consumed before the close error (C01.R4), terminate's update order (C03.R6).",
		NotDecided: "equality of message and code for all byte strings, codes and RPC shapes; that the connection remains usable afterwards (C06).",
		Rules: append([]Rule{
			{ID: "C10.R1", Doc: "error wire layout: encoder = 8-byte big-endian code + text; decoder splits at 8 behind len >= 8; text only as a printf argument", Run: c10r1},
			{ID: "C10.R2", Doc: "provenance: handler error -> SendError -> MarshalError -> KindError packet; mux returns the receiver's error through chain-preserving wrappers", Run: c10r2},
			{ID: "C10.R3", Doc: "drpcerr.Code: Code() first, then Cause()/Unwrap(), bounded; WithCode wraps without losing message or code", Run: c10r3},
			{ID: "C10.R4", Doc: "client: KindError -> terminate(UnmarshalError(pkt.Data)); that cause closes the packet buffer", Run: c10r4},
			{ID: "C10.R5", Doc: "printf-like calls in library code have constant format strings", Run: c10r5},
			{ID: "C10.S1", Alias: "C06.R1"},
			{ID: "C10.S2", Alias: "C01.R4"},
			{ID: "C10.S3", Alias: "C03.R6"},
			{ID: "C10.S4", Alias: "C01.R3"},
			{ID: "C10.S5", Doc: "an error packet is one packet: every frame of a message carries the id and kind newFrameLocked gave it", Alias: "C07.R2"},
			{ID: "C10.R6", Doc: "the two hand-written unwrap loops (drpcerr.Code, drpchttp.getCode) follow both Cause() and Unwrap() chains: a code attached below any wrapper of either style is found", Run: unwrapLoopsAgree},
		}, disciplineRules("C10", "drpcmux", "drpcerr", "drpcserver", "drpcstream", "drpcwire")...),
	})
}

func c10r1(c *an.Ctx) {
	a := A(c)
	me := c.Fn("drpcwire", "MarshalError")
	ue := c.Fn("drpcwire", "UnmarshalError")
	code := a.obj("drpcerr", "Code")
	withCode := a.obj("drpcerr", "WithCode")
	isBE := func(call *ssa.Call, name string) bool {
		obj := an.CalleeObj(call.Common())
		return obj != nil && obj.Name() == name && strings.Contains(obj.FullName(), "bigEndian")
	}
	isCodeOfErr := func(v ssa.Value) bool {
		cc, ok := an.Resolve(v).(*ssa.Call)
		return ok && an.IsCallTo(cc.Common(), code) && an.Resolve(cc.Common().Args[0]) == ssa.Value(me.Params[0])
	}
	// encoder: the returned bytes are the concatenation [8 big-endian bytes of drpcerr.Code(err)] [err.Error()],
	// however the concatenation is spelled (array + append, AppendUint64, a helper taking the pieces)
	okEnc, okTxt := false, false
	for _, rc := range an.ReturnCases(me) {
		parts, ok := concatParts(rc.Vals[0], 0)
		if !ok || len(parts) != 2 {
			continue
		}
		// first part: a [8]byte filled by PutUint64(_, Code(err)), or the 8 bytes AppendUint64 produced
		switch x := parts[0].(type) {
		case *ssa.Alloc:
			if at, isArr := deref(x.Type()).Underlying().(*types.Array); isArr && at.Len() == 8 {
				an.Instrs(me, func(in ssa.Instruction) {
					call, isCall := in.(*ssa.Call)
					if !isCall || !isBE(call, "PutUint64") {
						return
					}
					if sl, isSl := call.Common().Args[1].(*ssa.Slice); isSl && sl.X == ssa.Value(x) && isCodeOfErr(call.Common().Args[2]) && an.InstrDominates(call, rc.Ret) {
						okEnc = true
					}
				})
			}
		case *ssa.Call:
			if isBE(x, "AppendUint64") && isCodeOfErr(x.Common().Args[2]) {
				okEnc = true
			}
		}
		// second part: the text of the same error
		if txt, isCall := an.Resolve(an.Unwrap(an.Resolve(parts[1]))).(*ssa.Call); isCall && txt.Common().IsInvoke() && txt.Common().Method.Name() == "Error" && an.Resolve(txt.Common().Value) == ssa.Value(me.Params[0]) {
			okTxt = true
		}
	}
	c.Check(okEnc, "MarshalError | 8-byte big-endian drpcerr.Code(err) into a [8]byte", c.P.Pos(me.Pos()), "", "the error's code is not encoded as 8 big-endian bytes of drpcerr.Code of the same error")
	c.Check(okEnc && okTxt, "MarshalError | returns code bytes followed by err.Error()", c.P.Pos(me.Pos()), "", "the encoded error is not <8 code bytes><message text of the same error>")
	// decoder
	data := ue.Params[0]
	isSliceOfData := func(v ssa.Value, at *ssa.BasicBlock, lo, hi int64) bool {
		v = an.ResolveAt(v, at)
		if cv, ok := v.(*ssa.Convert); ok {
			v = an.ResolveAt(cv.X, at)
		}
		sl, ok := v.(*ssa.Slice)
		if !ok || an.Resolve(sl.X) != ssa.Value(data) {
			return false
		}
		if lo >= 0 {
			k, isK := an.ConstInt(sl.Low)
			if sl.Low == nil || !isK || k != lo {
				return false
			}
		} else if sl.Low != nil {
			return false
		}
		if hi >= 0 {
			k, isK := an.ConstInt(sl.High)
			if sl.High == nil || !isK || k != hi {
				return false
			}
		} else if sl.High != nil {
			return false
		}
		return true
	}
	okDec, okWith, okText, okGuard := false, false, false, false
	for _, cs := range an.CallsTo(ue, false, withCode) {
		blk := cs.Instr.Block()
		if u64, ok := an.ResolveAt(an.Arg(cs.Common(), 1), blk).(*ssa.Call); ok && isBE(u64, "Uint64") {
			okWith = true
			if isSliceOfData(u64.Common().Args[1], blk, -1, 8) {
				okDec = true
			}
		}
		if e, ok := an.ResolveAt(an.Arg(cs.Common(), 0), blk).(*ssa.Call); ok && errsNewLike(e.Common()) {
			fmtArg := e.Common().Args[0]
			if cst, isC := fmtArg.(*ssa.Const); isC && cst.Value != nil && strings.Trim(cst.Value.ExactString(), "\"") == "%s" {
				// the single variadic argument is data[8:]
				for _, v := range variadicArgs(e.Common().Args[len(e.Common().Args)-1]) {
					if isSliceOfData(an.Unwrap(v), blk, 8, -1) {
						okText = true
					}
				}
			}
		}
		for _, g := range an.GuardsOf(blk) {
			if cmp, ok := an.CmpOf(g); ok && cmp.Is(token.GEQ, func(v ssa.Value) bool { return lenOperand(v) != nil && an.Resolve(lenOperand(v)) == ssa.Value(data) }, func(v ssa.Value) bool {
				k, isC := an.ConstInt(v)
				return isC && k == 8
			}) {
				okGuard = true
			}
		}
	}
	c.Check(okDec, "UnmarshalError | code = big-endian uint64 of data[:8]", c.P.Pos(ue.Pos()), "", "the decoder does not read the code from the first 8 bytes")
	c.Check(okWith, "UnmarshalError | decoded code attached with drpcerr.WithCode", c.P.Pos(ue.Pos()), "", "the decoded code is not attached to the returned error")
	c.Check(okText, "UnmarshalError | message = data[8:] passed as the argument of a constant \"%s\" format", c.P.Pos(ue.Pos()), "", "the peer's error text is not reproduced verbatim (wrong offset, or it is used as a format string so that '%' sequences are mangled)")
	c.Check(okGuard, "UnmarshalError | split guarded by len(data) >= 8", c.P.Pos(ue.Pos()), "", "the 8-byte split is not behind the length guard")
}

// variadicArgs returns the elements stored into a variadic []interface{} operand.
func variadicArgs(v ssa.Value) []ssa.Value {
	sl, ok := v.(*ssa.Slice)
	if !ok {
		return nil
	}
	al, ok := sl.X.(*ssa.Alloc)
	if !ok {
		return nil
	}
	var out []ssa.Value
	for _, r := range *al.Referrers() {
		if ia, ok := r.(*ssa.IndexAddr); ok {
			for _, r2 := range *ia.Referrers() {
				if st, ok := r2.(*ssa.Store); ok {
					out = append(out, st.Val)
				}
			}
		}
	}
	return out
}

func c10r2(c *an.Ctx) {
	a := A(c)
	sa := streamA(c)
	marshalErr := a.obj("drpcwire", "MarshalError")
	// SendError: sendPacketLocked(KindError, false, MarshalError(serr))
	se := c.Fn("drpcstream", "(*Stream).SendError")
	kinds := kindConsts(c)
	ok := false
	for _, cs := range an.CallsTo(se, false, sa.sendPkt) {
		k, isK := an.ConstInt(an.Arg(cs.Common(), 0))
		if m, isCall := an.Resolve(an.Arg(cs.Common(), 2)).(*ssa.Call); isCall && an.IsCallTo(m.Common(), marshalErr) && an.Resolve(m.Common().Args[0]) == ssa.Value(se.Params[1]) && isK && k == kinds["KindError"] {
			if ctl, isC := an.Arg(cs.Common(), 1).(*ssa.Const); isC && ctl.Value.String() == "false" {
				ok = true
			}
		}
	}
	c.Check(ok, "(*Stream).SendError | emits KindError with MarshalError of its argument", c.P.Pos(se.Pos()), "", "the error packet does not carry the marshalled form of the error passed to SendError")
	// Mux.HandleRPC: on receiver error, returns it through chain-preserving wrappers
	mh := c.Fn("drpcmux", "(*Mux).HandleRPC")
	var recvErr ssa.Value
	an.Instrs(mh, func(in ssa.Instruction) {
		call, isCall := in.(*ssa.Call)
		if !isCall || call.Common().IsInvoke() || call.Common().StaticCallee() != nil {
			return
		}
		// dynamic call through the receiver field
		if p := an.PathOf(call.Common().Value); p.Last() != nil && nameOf(p.Last()) == "receiver" {
			for _, r := range *call.Referrers() {
				if ex, isEx := r.(*ssa.Extract); isEx && ex.Index == 1 {
					recvErr = ex
				}
			}
		}
	})
	if c.Check(recvErr != nil, "(*Mux).HandleRPC | calls the registered receiver", c.P.Pos(mh.Pos()), "", "cannot find the receiver call") {
		// path-sensitive: what each path knows about the handler's error (tests anywhere, also in helpers)
		nt := nilTrack{}
		flow := &an.Flow{Fn: mh, Inline: an.InlineSamePackage(mh), Init: []string{""}, OnReturn: nt.onReturn,
			Step: func(st string, in ssa.Instruction) []string {
				if x, ok := in.(*ssa.Store); ok {
					if s2 := nt.store(st, x); s2 != st {
						return []string{s2}
					}
				}
				return nil
			},
			Branch: func(st string, br *ssa.If, idx int) (string, bool) {
				s2, _, feasible := nt.branch(st, br, idx)
				return s2, feasible
			},
		}
		res := flow.Run()
		recvCall := recvErr.(*ssa.Extract).Tuple.(*ssa.Call)
		// (a) a response (or a clean half-close) is sent only on paths that know the handler returned no error
		nSend := 0
		an.Instrs(mh, func(in ssa.Instruction) {
			call, ok := in.(*ssa.Call)
			if !ok || !call.Common().IsInvoke() || !an.CanReach(recvCall, in) {
				return
			}
			switch call.Common().Method.Name() {
			case "MsgSend", "CloseSend":
			default:
				return
			}
			nSend++
			okAll := true
			for _, sf := range res.BeforeF(in) {
				known, nonNil := nt.statusF(sf, recvErr, in)
				if !known || nonNil {
					okAll = false
				}
			}
			c.Check(okAll, "(*Mux).HandleRPC | "+call.Common().Method.Name()+" only if the handler returned no error", c.At(in), "",
				"the response is sent (or the stream half-closed cleanly) on a path where the handler's error may be non-nil: the error, its message and its code never reach the caller")
		})
		c.Floor("response emissions after the handler in Mux.HandleRPC", 1, nSend)
		// (b) where the handler's error is known non-nil it is what is returned, through chain-preserving wrappers
		n := 0
		for _, rc := range an.ReturnCases(mh) {
			ret := rc.Ret
			if !an.CanReach(recvCall, ret) || !res.Reachable(ret.Block()) {
				continue
			}
			errPath := false
			for _, sf := range res.BeforeF(ret) {
				if known, nonNil := nt.statusF(sf, recvErr, ret); known && nonNil {
					errPath = true
				}
			}
			guarded := false
			for _, g := range rc.Guards {
				if x, trueNonNil, isNil := nilTestOf(g.Cond); isNil && an.Resolve(x) == recvErr && g.True == trueNonNil {
					guarded = true
				}
			}
			if !errPath || !guarded {
				continue
			}
			n++
			c.Check(chainPreserves(rc.Vals[0], recvErr, 0), "(*Mux).HandleRPC | handler error returned through chain-preserving wrappers", c.At(ret), "", "the handler's error is flattened or replaced before it is returned ("+describeRet(rc.Vals[0])+"): its code (found by unwrapping) or message is lost")
		}
		c.Floor("receiver-error returns in Mux.HandleRPC", 1, n)
	}
}

// chainPreserves: v is src, or a wrapper of src that keeps it reachable by Unwrap/Cause (errs.Wrap, Class.Wrap, fmt.Errorf with %w).
func chainPreserves(v, src ssa.Value, depth int) bool {
	if depth > 6 || v == nil {
		return false
	}
	v = an.Resolve(v)
	if v == src {
		return true
	}
	if call, ok := v.(*ssa.Call); ok {
		if arg, ok := errsWrapLike(call.Common()); ok {
			return chainPreserves(arg, src, depth+1)
		}
		if obj := an.CalleeObj(call.Common()); obj != nil && obj.FullName() == "fmt.Errorf" {
			if cst, isC := call.Common().Args[0].(*ssa.Const); isC && strings.Contains(cst.Value.ExactString(), "%w") {
				for _, e := range variadicArgs(call.Common().Args[len(call.Common().Args)-1]) {
					if chainPreserves(an.Unwrap(e), src, depth+1) {
						return true
					}
				}
			}
		}
	}
	if mi, ok := v.(*ssa.MakeInterface); ok {
		return chainPreserves(mi.X, src, depth+1)
	}
	return false
}

func c10r3(c *an.Ctx) {
	fn := c.Fn("drpcerr", "Code")
	var asserts []*ssa.TypeAssert
	an.Instrs(fn, func(in ssa.Instruction) {
		if ta, ok := in.(*ssa.TypeAssert); ok && ta.CommaOk {
			asserts = append(asserts, ta)
		}
	})
	methodOf := func(ta *ssa.TypeAssert) string {
		if it, ok := ta.AssertedType.Underlying().(*types.Interface); ok && it.NumMethods() == 1 {
			return it.Method(0).Name()
		}
		return "?"
	}
	order := []string{}
	for _, ta := range asserts {
		order = append(order, methodOf(ta))
	}
	okOrder := len(asserts) >= 2 && methodOf(asserts[0]) == "Code"
	for i := 1; i < len(asserts) && okOrder; i++ {
		if !an.InstrDominates(asserts[0], asserts[i]) {
			okOrder = false
		}
	}
	hasUnwrap, hasCause := false, false
	for _, m := range order {
		if m == "Unwrap" {
			hasUnwrap = true
		}
		if m == "Cause" {
			hasCause = true
		}
	}
	c.Check(okOrder, "drpcerr.Code | Code() is looked for before unwrapping", c.P.Pos(fn.Pos()), fmt.Sprint(order), "a wrapper that has both Code() and Unwrap()/Cause() would be unwrapped past its own code (order "+fmt.Sprint(order)+")")
	c.Check(hasUnwrap && hasCause, "drpcerr.Code | follows both Cause() and Unwrap() chains", c.P.Pos(fn.Pos()), "", "codes attached below a Cause()/Unwrap() wrapper are not found")
	bound, okB := constLoopBound(fn)
	c.Check(okB, fmt.Sprintf("drpcerr.Code | unwrap loop has a constant bound (%d)", bound), c.P.Pos(fn.Pos()), "", "the unwrap loop is unbounded (cyclic chains)")
	// a found code is returned as is
	okRet := false
	for _, rc := range an.ReturnCases(fn) {
		if call, ok := rc.Vals[0].(*ssa.Call); ok && call.Common().IsInvoke() && call.Common().Method.Name() == "Code" {
			okRet = true
		}
	}
	c.Check(okRet, "drpcerr.Code | returns v.Code() unchanged", c.P.Pos(fn.Pos()), "", "the extracted code is transformed before it is returned")
	// WithCode: &codeErr{err, code}; methods return the fields
	wc := c.Fn("drpcerr", "WithCode")
	okW := false
	an.Instrs(wc, func(in ssa.Instruction) {
		if al, ok := in.(*ssa.Alloc); ok && al.Comment == "complit" {
			gotErr, gotCode := false, false
			for _, r := range *al.Referrers() {
				if fa, ok := r.(*ssa.FieldAddr); ok {
					for _, r2 := range *fa.Referrers() {
						if st, ok := r2.(*ssa.Store); ok {
							if st.Val == ssa.Value(wc.Params[0]) {
								gotErr = true
							}
							if st.Val == ssa.Value(wc.Params[1]) {
								gotCode = true
							}
						}
					}
				}
			}
			okW = gotErr && gotCode
		}
	})
	c.Check(okW, "drpcerr.WithCode | wraps both the error and the code", c.P.Pos(wc.Pos()), "", "WithCode does not store both its arguments")
	for _, m := range []struct{ name, field string }{{"(*codeErr).Code", "code"}, {"(*codeErr).Unwrap", "err"}, {"(*codeErr).Cause", "err"}} {
		f := c.Fn("drpcerr", m.name)
		ok := false
		for _, ret := range an.Returns(f) {
			if p := an.PathOf(ret.Results[0]); p.Last() != nil && nameOf(p.Last()) == m.field {
				ok = true
			}
		}
		c.Check(ok, "drpcerr."+m.name+" | returns the stored "+m.field, c.P.Pos(f.Pos()), "", "the wrapper does not hand back its "+m.field)
	}
	ef := c.Fn("drpcerr", "(*codeErr).Error")
	okE := false
	for _, ret := range an.Returns(ef) {
		if call, ok := ret.Results[0].(*ssa.Call); ok && call.Common().IsInvoke() && call.Common().Method.Name() == "Error" {
			if p := an.PathOf(call.Common().Value); p.Last() != nil && nameOf(p.Last()) == "err" {
				okE = true
			}
		}
	}
	c.Check(okE, "drpcerr.(*codeErr).Error | message is the wrapped error's message", c.P.Pos(ef.Pos()), "", "attaching a code changes the message")
}

func c10r4(c *an.Ctx) {
	a := A(c)
	sa := streamA(c)
	_ = c.Fn("drpcstream", "(*Stream).HandlePacket")
	unmarshalErr := a.obj("drpcwire", "UnmarshalError")
	pktData := a.field("drpcwire", "Packet", "Data")
	kinds := kindConsts(c)
	n := 0
	parts := handlePacketParts(c)
	var termSites []an.CallSite
	for _, pf := range parts.fns {
		termSites = append(termSites, an.CallsTo(pf, false, sa.terminate)...)
	}
	for _, cs := range termSites {
		if !parts.inKind(cs.Instr, kinds["KindError"]) {
			continue
		}
		n++
		arg := an.Arg(cs.Common(), 0)
		ok := false
		if call, isCall := arg.(*ssa.Call); isCall && an.IsCallTo(call.Common(), unmarshalErr) {
			src := call.Common().Args[0]
			if isLoadOfField(src, pktData) {
				ok = true
			}
			// a dispatched handler that is handed the packet's data as a parameter
			if as := parts.argsFor(src); len(as) > 0 {
				ok = true
				for _, a := range as {
					if !isLoadOfField(a, pktData) {
						ok = false
					}
				}
			}
		}
		c.Check(ok, "HandlePacket KindError | terminate(UnmarshalError(pkt.Data))", c.At(cs.Instr), "", "the remote error is not decoded from the packet and made the termination cause: "+an.R(arg))
	}
	c.Floor("KindError terminate sites", 1, n)
	// Get returns the stored close error
	get := c.Fn("drpcstream", "(*packetBuffer).Get")
	perr := a.field("drpcstream", "packetBuffer", "err")
	ok := false
	for _, ret := range an.Returns(get) {
		for _, v := range returnedValues(ret, 1) {
			if v != nil && isLoadOfField(v, perr) {
				ok = true
			}
		}
	}
	c.Check(ok, "(*packetBuffer).Get | returns the close error", c.P.Pos(get.Pos()), "", "receivers do not get the error the buffer was closed with")
}

func c10r5(c *an.Ctx) {
	n := 0
	for _, pkg := range c.P.ModulePackages() {
		if !libraryPkg(c.P, pkg) {
			continue
		}
		for _, fn := range must(c.P.SourceFuncs(pkg)) {
			an.Instrs(fn, func(in ssa.Instruction) {
				ci, ok := in.(ssa.CallInstruction)
				if !ok {
					return
				}
				cc := ci.Common()
				obj := an.CalleeObj(cc)
				if obj == nil {
					return
				}
				sig, _ := obj.Type().(*types.Signature)
				if sig == nil || !sig.Variadic() || sig.Params().Len() < 2 {
					return
				}
				fi := sig.Params().Len() - 2
				fp := sig.Params().At(fi)
				if b, isB := fp.Type().Underlying().(*types.Basic); !isB || b.Kind() != types.String {
					return
				}
				if fp.Name() != "format" && fp.Name() != "msg" && !(obj.Pkg() != nil && obj.Pkg().Path() == "github.com/zeebo/errs" && (obj.Name() == "New" || obj.Name() == "Errorf")) {
					return
				}
				if _, isIface := sig.Params().At(fi + 1).Type().(*types.Slice).Elem().Underlying().(*types.Interface); !isIface {
					return
				}
				n++
				off := 0
				if !cc.IsInvoke() && sig.Recv() != nil {
					off = 1
				}
				fmtArg := cc.Args[off+fi]
				_, isConst := fmtArg.(*ssa.Const)
				c.Check(isConst, fmt.Sprintf("%s | %s has a constant format", an.ShortFunc(fn), obj.Name()), c.At(in), "", "a printf-like call uses a computed format string ("+an.R(fmtArg)+"): '%' in peer- or handler-supplied text is interpreted as a verb and the message is altered")
			})
		}
	}
	c.Floor("printf-like calls in library code", 1, n)
}

// unwrapLoopsAgree: sibling implementations of one loop. Each must step through
// interface{ Cause() error } and interface{ Unwrap() error }, feeding the result
// back into the loop variable.
func unwrapLoopsAgree(c *an.Ctx) {
	steps := func(fn *ssa.Function) map[string]bool {
		out := map[string]bool{}
		an.Instrs(fn, func(in ssa.Instruction) {
			call, ok := in.(*ssa.Call)
			if !ok || !call.Common().IsInvoke() {
				return
			}
			m := call.Common().Method
			sig := m.Type().(*types.Signature)
			if sig.Params().Len() != 0 || sig.Results().Len() != 1 || !types.Identical(sig.Results().At(0).Type(), errorType) {
				return
			}
			// the result becomes the loop variable: it reaches a phi (or a store) of the function
			fed := false
			for _, r := range *call.Referrers() {
				switch r.(type) {
				case *ssa.Phi, *ssa.Store:
					fed = true
				}
			}
			if fed {
				out[m.Name()] = true
			}
		})
		return out
	}
	// the cycle short-circuit of drpcerr.Code compares whole interface values (type word and data word): comparing
	// less makes two different errors of one type look like a cycle and ends the walk with code 0
	if se := c.P.SSAPkgs[c.P.ModPath+"/drpcerr"]; se != nil {
		if fn := se.Func("shallowEqual"); fn != nil && len(fn.Blocks) > 0 {
			c.Analysed(fn)
			words := int64(-1)
			an.Instrs(fn, func(in ssa.Instruction) {
				if b, ok := in.(*ssa.BinOp); ok && (b.Op == token.EQL || b.Op == token.NEQ) {
					if arr, ok := b.X.Type().Underlying().(*types.Array); ok {
						words = arr.Len()
					}
				}
			})
			c.Check(words == 2, "drpcerr.shallowEqual | compares both words of the two error values", c.P.Pos(fn.Pos()), "", fmt.Sprintf("the shallow comparison covers %d word(s) of the interface value instead of 2: distinct errors of the same type compare equal and the unwrap loop stops before it reaches the code", words))
		}
	}
	for _, f := range []struct{ pkg, name string }{{"drpcerr", "Code"}, {"drpchttp", "getCode"}} {
		fn := c.Fn(f.pkg, f.name)
		c.Analysed(fn)
		st := steps(fn)
		var missing []string
		for _, want := range []string{"Cause", "Unwrap"} {
			if !st[want] {
				missing = append(missing, want+"()")
			}
		}
		c.Check(len(missing) == 0, f.pkg+"."+f.name+" | the unwrap loop follows Cause() and Unwrap()", c.P.Pos(fn.Pos()), "",
			"the loop no longer steps through "+strings.Join(missing, " and ")+": a code attached to an error that was wrapped that way (fmt.Errorf %w, errs.Wrap) is reported as unknown/0")
	}
}
