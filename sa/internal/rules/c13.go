package rules

import (
	"fmt"
	"go/token"
	"go/types"
	"sort"
	"strings"

	"golang.org/x/tools/go/ssa"

	"verif/sa/internal/an"
)

func init() {
	register(&Property{
		ID:        "C13",
		Technique: "call-graph closure from the receive entry points (static + VTA), compiler BCE report backed by a difference-constraint prover over the dominating comparisons (an/bounds.go) and a reviewed residual table, panic-site scan with precondition discharge by dominating guards, loop classification, guarded allocation sizes; tested-then-dropped error (contradiction) check and interprocedural lock-pairing check over the packages the property is anchored in",
		Explanation: "Over the closure of functions reachable (static calls and VTA-resolved dynamic calls, library packages only) from the receive entry points — frame/packet readers, error and metadata decoders, code extraction, packet dispatch in stream and manager, the mux, the server's RPC handler and the HTTP gateway: " +
			"(R1) every index/slice bounds check is proved by the Go compiler, or implied by the dominating comparisons (difference-constraint prover over SSA values and lengths, an/bounds.go), or is one of the reviewed residuals (keyed by function and expression, each with its reason); " +
			"(R2) there is no unchecked type assertion, explicit panic, division by a variable, and every call to a partial library function (strings.Builder.Grow, reflect.Value methods, ...) has its precondition established by a dominating guard; " +
			"(R3) every loop is counted, length-bounded, shrinking, consuming (cuts a leading element off a carried slice on every way round), reading (a full read per iteration whose error ends the loop), a range/wait loop, or a reviewed input-consuming / event loop; " +
			"(R4) every allocation whose size derives from peer bytes is dominated by a comparison with a limit, and LimitReader bounds are constants.",
		NotDecided: "nothing about results; allocation totals beyond the guarded sites; nil dereferences (a generic analyser's domain; nilaway's only lead became C05.R6); panics inside user handlers and encodings.",
		Assumptions: []string{
			"the Go compiler's prove pass is sound",
			"drpc.Description implementations supply pointer-typed messages (checked for generated code by C17): reflect Elem/IsNil in the mux rely on it",
		},
		Rules: append([]Rule{
			{ID: "C13.R1", Doc: "receive-path closure: every bounds check compiler-proved or a reviewed residual", Run: c13r1},
			{ID: "C13.R2", Doc: "receive-path closure: no undischarged panic site (assertions, explicit panics, partial library calls)", Run: c13r2},
			{ID: "C13.R3", Doc: "receive-path closure: every loop is bounded, input-consuming, or a reviewed event loop", Run: c13r3},
			{ID: "C13.R4", Doc: "allocations sized by peer data are guarded by a limit; LimitReader bounds are constants", Run: c13r4},
			{ID: "C13.S1", Doc: "the packet reader's buffers are bounded by the configured maximum on every cycle", Alias: "C09.R1"},
			{ID: "C13.S2", Alias: "C08.R1"},
			{ID: "C13.S3", Doc: "a failed connection or handler is reported through an optional callback only under a non-nil test", Alias: "C05.R10"},
		}, disciplineRules("C13", "drpcwire", "drpcmetadata", "drpchttp", "drpcstream", "drpcmanager", "drpcerr")...),
	})
}

var receiveEntries = [][2]string{
	{"drpcwire", "ParseFrame"}, {"drpcwire", "ReadVarint"}, {"drpcwire", "(*Reader).ReadPacketUsing"}, {"drpcwire", "(*Reader).ReadPacket"},
	{"drpcwire", "UnmarshalError"}, {"drpcwire", "MarshalError"}, {"drpcmetadata", "Decode"}, {"drpcerr", "Code"},
	{"drpcstream", "(*Stream).HandlePacket"}, {"drpcmanager", "(*Manager).manageReader"}, {"drpcmanager", "(*Manager).NewServerStream"},
	{"drpcmux", "(*Mux).HandleRPC"}, {"drpcserver", "(*Server).handleRPC"}, {"drpchttp", "(wrapper).ServeHTTP"},
	{"drpchttp", "Context"},
}

var closureCache = map[*an.Prog][]*ssa.Function{}

// receiveClosure returns the library functions reachable from the receive entry points.
func receiveClosure(c *an.Ctx) []*ssa.Function {
	sharedMu.Lock()
	got := closureCache[c.P]
	sharedMu.Unlock()
	if got != nil {
		return got
	}
	cg := c.P.CallGraph()
	seen := map[*ssa.Function]bool{}
	var work []*ssa.Function
	for _, e := range receiveEntries {
		fn := c.Fn(e[0], e[1])
		work = append(work, fn)
	}
	inLib := func(fn *ssa.Function) bool {
		pk := c.P.PkgOfFunc(fn)
		return pk != nil && c.P.InModule(pk.PkgPath) && libraryPkg(c.P, pk.PkgPath) && len(fn.Blocks) > 0
	}
	for len(work) > 0 {
		fn := work[len(work)-1]
		work = work[:len(work)-1]
		if seen[fn] {
			continue
		}
		seen[fn] = true
		for _, a := range fn.AnonFuncs {
			if inLib(a) {
				work = append(work, a)
			}
		}
		if n := cg.Nodes[fn]; n != nil {
			for _, e := range n.Out {
				callee := e.Callee.Func
				if callee == nil {
					continue
				}
				if inLib(callee) && !seen[callee] {
					work = append(work, callee)
				}
			}
		}
	}
	var out []*ssa.Function
	for fn := range seen {
		if inLib(fn) {
			out = append(out, fn)
		}
	}
	sort.Slice(out, func(i, j int) bool {
		if out[i].Pos() != out[j].Pos() {
			return out[i].Pos() < out[j].Pos()
		}
		return out[i].String() < out[j].String()
	})
	sharedMu.Lock()
	closureCache[c.P] = out
	sharedMu.Unlock()
	return out
}

func c13r1(c *an.Ctx) {
	cl := receiveClosure(c)
	c.Analysed(cl...)
	n := checkBCE(c, nil, "receive path")
	c.Ok("receive path | compiler BCE report consulted", "-", fmt.Sprintf("%d residual bounds checks in %v; closure of %d functions", n, bceScope, len(cl)))
	c.Rep.Extra["receive_closure_functions"] = len(cl)
	c.Floor("functions in the receive closure", 1, len(cl))
}

// dischargePanic tries to establish the precondition of a panic site from dominating guards.
func dischargePanic(c *an.Ctx, ps an.PanicSite) (bool, string) {
	blk := ps.Instr.Block()
	switch {
	case strings.HasPrefix(ps.Kind, "call:(*strings.Builder).Grow"), strings.HasPrefix(ps.Kind, "call:strings.Repeat"), strings.HasPrefix(ps.Kind, "call:(*bytes.Buffer).Grow"):
		cc := ps.Instr.(ssa.CallInstruction).Common()
		n := cc.Args[1]
		for _, g := range an.GuardsOf(blk) {
			b, ok := g.Cond.(*ssa.BinOp)
			if !ok || b.X != n {
				continue
			}
			k, isC := an.ConstInt(b.Y)
			if !isC {
				continue
			}
			if g.True && ((b.Op == token.GTR && k >= -1) || (b.Op == token.GEQ && k >= 0)) {
				return true, "count is guarded to be non-negative"
			}
			if !g.True && ((b.Op == token.LSS && k >= 0) || (b.Op == token.LEQ && k >= -1)) {
				return true, "count is guarded to be non-negative"
			}
		}
		if an.ProveGE(n, 0, ps.Instr, 64) {
			return true, "count is non-negative (a length, or implied by the dominating comparisons)"
		}
		return false, ""
	case strings.HasPrefix(ps.Kind, "call:(reflect.Value)."):
		cc := ps.Instr.(ssa.CallInstruction).Common()
		recv := cc.Args[0]
		method := strings.TrimPrefix(ps.Kind, "call:(reflect.Value).")
		// a Value produced by reflect.New / reflect.ValueOf(x) with x != nil / guarded by IsValid()
		valid := false
		why := ""
		if call, ok := recv.(*ssa.Call); ok {
			if obj := an.CalleeObj(call.Common()); obj != nil {
				switch obj.FullName() {
				case "reflect.New":
					valid, why = true, "reflect.New always returns a valid pointer Value"
				case "reflect.ValueOf":
					x := an.Unwrap(call.Common().Args[0])
					for _, g := range an.GuardsOf(blk) {
						if y, trueNonNil, ok := nilTestOf(g.Cond); ok && g.True == trueNonNil && (an.Unwrap(y) == x || an.Resolve(y) == x) {
							valid, why = true, "reflect.ValueOf of a value guarded non-nil"
						}
					}
				}
			}
		}
		if ld, ok := recv.(*ssa.UnOp); ok && ld.Op == token.MUL {
			// element of the slice returned by Value.Call: valid by reflect's contract
			if ia, ok := ld.X.(*ssa.IndexAddr); ok {
				if call, ok := ia.X.(*ssa.Call); ok {
					if obj := an.CalleeObj(call.Common()); obj != nil && obj.FullName() == "(reflect.Value).Call" {
						valid, why = true, "result of Value.Call"
					}
				}
			}
		}
		for _, g := range an.GuardsOf(blk) {
			if call, ok := g.Cond.(*ssa.Call); ok && g.True {
				if obj := an.CalleeObj(call.Common()); obj != nil && obj.FullName() == "(reflect.Value).IsValid" && call.Common().Args[0] == recv {
					valid, why = true, "guarded by IsValid()"
				}
			}
		}
		if !valid {
			return false, ""
		}
		switch method {
		case "IsNil", "Elem":
			return true, why + "; kind is pointer by the Description contract (assumption, checked for generated code by C17)"
		case "Call":
			// guarded by NumIn() == 0 on its Type
			for _, g := range an.GuardsOf(blk) {
				if cmp, ok := an.CmpOf(g); ok && cmp.Is(token.EQL, func(v ssa.Value) bool {
					call, ok := v.(*ssa.Call)
					return ok && call.Common().IsInvoke() && call.Common().Method.Name() == "NumIn"
				}, func(v ssa.Value) bool {
					k, isC := an.ConstInt(v)
					return isC && k == 0
				}) {
					return true, why + "; NumIn() == 0 so Call(nil) supplies the right number of arguments"
				}
			}
			return false, ""
		}
		return true, why
	case ps.Kind == "makeslice":
		mk := ps.Instr.(*ssa.MakeSlice)
		if sizeFromExisting(mk.Len) {
			return true, "length is computed from the length/capacity of existing memory"
		}
		return false, ""
	}
	return false, ""
}

// sizeFromExisting: the size expression is built from len/cap of existing values, constants, +, *, and library size functions.
func sizeFromExisting(v ssa.Value) bool {
	switch x := v.(type) {
	case *ssa.Const:
		return true
	case *ssa.Convert:
		return sizeFromExisting(x.X)
	case *ssa.BinOp:
		if x.Op == token.ADD || x.Op == token.MUL || x.Op == token.SUB {
			return sizeFromExisting(x.X) && sizeFromExisting(x.Y)
		}
	case *ssa.Call:
		if b, ok := x.Common().Value.(*ssa.Builtin); ok && (b.Name() == "len" || b.Name() == "cap") {
			return true
		}
		if obj := an.CalleeObj(x.Common()); obj != nil && strings.HasSuffix(obj.FullName(), "Encoding).EncodedLen") {
			return true
		}
	}
	return false
}

func c13r2(c *an.Ctx) {
	cl := receiveClosure(c)
	nSites := 0
	for _, fn := range cl {
		for _, ps := range an.PanicSites(fn) {
			if ps.Kind == "makeslice" {
				continue // R4
			}
			nSites++
			key := fmt.Sprintf("%s | %s %s", an.ShortFunc(fn), ps.Kind, shortDetail(ps))
			ok, why := dischargePanic(c, ps)
			c.Check(ok, key, c.At(ps.Instr), why, "a panic site on the receive path whose precondition is not established by a dominating guard: "+ps.Detail)
		}
	}
	c.Ok("receive path | panic-site scan", "-", fmt.Sprintf("%d potential panic sites in %d functions", nSites, len(cl)))
	c.Floor("potential panic sites examined", 1, nSites)
}

func shortDetail(ps an.PanicSite) string {
	switch x := ps.Instr.(type) {
	case ssa.CallInstruction:
		cc := x.Common()
		if len(cc.Args) > 1 {
			return "(" + an.Render(cc.Args[len(cc.Args)-1], 3) + ")"
		}
		if len(cc.Args) == 1 {
			return "on " + an.Render(cc.Args[0], 3)
		}
	case *ssa.TypeAssert:
		return an.Render(x, 2)
	}
	return ""
}

// reviewed loops that are neither counted nor length-bounded: function -> reason
var reviewedLoops = map[string]string{
	"(*Reader).ReadPacketUsing":  "input-consuming: every iteration either parses a frame (ParseFrame consumed >= 4 bytes) or performs a transport read that returned >= 1 byte or an error (C05.R8); sizes are bounded by C09.R1",
	"(*Manager).manageReader":    "connection reader event loop: one packet per iteration, ends on term or read error (C05.R1); `goto again` re-dispatches only after streamBuffer.Wait reported a new stream",
	"(*Manager).NewServerStream": "event loop over the invoke queue with term/ctx/timeout cases (C04.R6)",
	"(*Manager).manageStreams":   "event loop with a term case (C04.R6)",
	"Decode":                     "input-consuming: readEntry returns a strict suffix (it consumed at least the tag byte) or the loop exits on !ok / err",
	"(*Stream).rawWriteLocked":   "input-consuming: SplitData returns a strict remainder, loop ends when it is empty (C01.R7)",
	"(*Server).ServeOne":         "one RPC per iteration; ends when NewServerStream or handleRPC fails",
	"SplitN":                     "input-consuming: SplitData returns a strict remainder (C01.R7)",
	"(*Server).Serve":            "accept loop; ends when Accept fails or the context is done",
	"(*streamBuffer).Wait":       "condition-variable wait loop",
}

func c13r3(c *an.Ctx) {
	cl := receiveClosure(c)
	n := 0
	for _, fn := range cl {
		for i, l := range an.Loops(fn) {
			n++
			key := fmt.Sprintf("%s | loop %d is bounded or consumes input", an.ShortFunc(fn), i)
			pos := c.P.InstrPos(firstPositioned(l.Header))
			switch l.Class {
			case "counted", "shrinking", "len-bounded", "range", "wait", "consuming", "reading":
				c.Ok(key, pos, l.Class+": "+l.Detail)
			default:
				if splitConsumingLoop(c, l) {
					c.Ok(key, pos, "input-consuming: each iteration continues with the strict remainder returned by SplitData (C01.R7) and stops when it is empty")
					continue
				}
				why, ok := reviewedLoops[an.ShortFunc(fn)]
				c.Check(ok, key, pos, "reviewed: "+why, "a loop on the receive path that is neither counted, length-bounded nor a reviewed input-consuming/event loop: its termination for every input is not established")
			}
		}
	}
	c.Floor("loops in the receive closure", 1, n)
}

func firstPositioned(b *ssa.BasicBlock) ssa.Instruction {
	for _, in := range b.Instrs {
		if in.Pos().IsValid() {
			return in
		}
	}
	if len(b.Instrs) > 0 {
		return b.Instrs[0]
	}
	return nil
}

func c13r4(c *an.Ctx) {
	cl := receiveClosure(c)
	n := 0
	for _, fn := range cl {
		an.Instrs(fn, func(in ssa.Instruction) {
			switch x := in.(type) {
			case *ssa.MakeSlice:
				if _, isC := an.ConstInt(x.Len); isC {
					return
				}
				n++
				key := fmt.Sprintf("%s | make(%s) size is bounded", an.ShortFunc(fn), an.Render(x.Len, 3))
				if sizeFromExisting(x.Len) {
					c.Ok(key, c.At(in), "size derives from the length/capacity of existing memory")
					return
				}
				// size is a parameter: every caller must pass a constant or a value behind a limit test
				root := an.Resolve(x.Len)
				for {
					if cv, ok := root.(*ssa.Convert); ok {
						root = cv.X
						continue
					}
					break
				}
				if p, ok := root.(*ssa.Parameter); ok {
					idx := -1
					for i, q := range fn.Params {
						if q == p {
							idx = i
						}
					}
					okAll, nCallers := true, 0
					if node := c.P.CallGraph().Nodes[fn]; node != nil {
						for _, e := range node.In {
							if e.Site == nil || idx >= len(e.Site.Common().Args) {
								continue
							}
							nCallers++
							arg := e.Site.Common().Args[idx]
							if !boundedValue(arg, e.Site.Block()) {
								okAll = false
							}
						}
					}
					c.Check(okAll && nCallers > 0, key, c.At(in), fmt.Sprintf("every one of %d callers passes a constant or a value behind a limit test", nCallers),
						"an allocation is sized by a caller-supplied value that is not compared with a limit first: a peer-announced length allocates that much memory")
					return
				}
				c.Bad(key, c.At(in), "allocation size is computed from data and not compared with a limit: "+an.R(x.Len))
			case *ssa.Call:
				obj := an.CalleeObj(x.Common())
				if obj != nil && obj.FullName() == "io.LimitReader" {
					n++
					_, isC := an.ConstInt(x.Common().Args[1])
					c.Check(isC, fmt.Sprintf("%s | io.LimitReader bound is a constant", an.ShortFunc(fn)), c.At(in), "", "the read limit is not a constant")
				}
				// reading "everything" allocates what the peer sends: the reader handed to ReadAll is a limited one
				if obj != nil && (obj.FullName() == "io.ReadAll" || obj.FullName() == "io/ioutil.ReadAll") {
					n++
					limited := false
					src := an.Unwrap(x.Common().Args[0])
					if lc, isCall := src.(*ssa.Call); isCall {
						if o := an.CalleeObj(lc.Common()); o != nil && (o.FullName() == "io.LimitReader" || o.FullName() == "net/http.MaxBytesReader") {
							limited = true
						}
					}
					if mi, isMI := src.(*ssa.MakeInterface); isMI {
						if lc, isCall := an.Unwrap(mi.X).(*ssa.Call); isCall {
							if o := an.CalleeObj(lc.Common()); o != nil && (o.FullName() == "io.LimitReader" || o.FullName() == "net/http.MaxBytesReader") {
								limited = true
							}
						}
					}
					c.Check(limited, fmt.Sprintf("%s | ReadAll reads through a LimitReader / MaxBytesReader", an.ShortFunc(fn)), c.At(in), "", "the whole body is buffered before any size test: a peer makes the gateway allocate as much as it cares to send")
				}
			}
		})
	}
	c.Floor("data-sized allocations / limit readers", 1, n)
}

// boundedValue: v is a constant or is dominated at block b by `v > K -> leave` (i.e. the false edge of v > K / true edge of v <= K).
func boundedValue(v ssa.Value, b *ssa.BasicBlock) bool {
	for {
		if cv, ok := v.(*ssa.Convert); ok {
			v = cv.X
			continue
		}
		break
	}
	if _, isC := an.ConstInt(v); isC {
		return true
	}
	for _, g := range an.GuardsOf(b) {
		bin, ok := g.Cond.(*ssa.BinOp)
		if !ok {
			continue
		}
		x := bin.X
		if cv, ok := x.(*ssa.Convert); ok {
			x = cv.X
		}
		if x != v {
			continue
		}
		if _, isC := an.ConstInt(bin.Y); !isC {
			continue
		}
		if (bin.Op == token.GTR || bin.Op == token.GEQ) && !g.True {
			return true
		}
		if (bin.Op == token.LEQ || bin.Op == token.LSS) && g.True {
			return true
		}
	}
	return false
}

var _ = types.Universe
