package rules

import (
	"fmt"
	"go/token"
	"go/types"
	"strings"

	"golang.org/x/tools/go/ssa"

	"verif/sa/internal/an"
)

func init() {
	register(&Property{
		ID:        "C09",
		Technique: "typestate over the reader loop (size test before every read, after every append, never between a read and the next parse), guard dominance, compiler BCE report backed by the difference-constraint bounds prover; evaluation of the id order over the finite domain of field orderings (nine cases); tested-then-dropped error (contradiction) check and interprocedural lock-pairing check over the packages the property is anchored in",
		Explanation: "Statically decidable part of 'packet reassembly depends only on the byte stream and is memory-bounded': " +
			"(R1) memory bound: every transport read in the reader loop is preceded by a passed size test of the unparsed buffer against the configured maximum; the buffer grows only behind a free-space test and to a bounded function of its own size and the configured maximum; every append to the packet is covered by a size test (after it, or of len(pkt.Data)+len(fr.Data) before appending exactly fr.Data) before the next frame is parsed; a zero maximum is replaced by a positive constant; " +
			"(R2) control marking and discard-on-new-id: the packet's control flag is or-ed with each frame's, a frame with a new id resets the packet to that frame's id/kind/control with empty data; " +
			"(R3) measure-after-parse: no size test on the read buffer between a transport read and the next ParseFrame (a test there measures whatever the read returned, so the verdict would depend on the read partition); " +
			"(R4) the per-packet limit measures the current packet only: the test is evaluated after the new-id discard and the append, and involves only the packet's own length; " +
			"plus shared: done-gated return / monotone ids / kind check (C01.R5), (n>0,err) handling and rerr confinement (C05.R8), compiler-proved bounds in reader.go.",
		NotDecided: "independence from the read partition beyond R3 (leftover preservation and compaction are value-dependent); equality with the reference reassembly for all frame sequences; the exact multiple in the memory bound.",
		Rules: append([]Rule{
			{ID: "C09.R1", Doc: "memory bound: size test before every read, geometric growth only, size test after every append, positive default maximum", Run: c09r1},
			{ID: "C09.R2", Doc: "control flag or-ed per frame; new id resets the packet (id, kind, control from the frame; data emptied)", Run: c09r2},
			{ID: "C09.R3", Doc: "no size test on the read buffer between a transport read and the next ParseFrame", Run: c09r3},
			{ID: "C09.R4", Doc: "the per-packet limit test is evaluated after the discard/append and measures only the packet's own length", Run: c09r4},
			{ID: "C09.R6", Doc: "ID.Less is the lexicographic order on (Stream, Message): decided over the nine orderings of the two fields (the function touches its operands only through comparisons of the same field)", Run: c09r6},
			{ID: "C09.R5", Doc: "bounds checks in the reader are compiler-proved", Run: c09r5},
			{ID: "C09.S1", Alias: "C01.R5"},
			{ID: "C09.S2", Alias: "C05.R8"},
		}, disciplineRules("C09", "drpcwire")...),
	})
}

type readerAnchors struct {
	fn                              *ssa.Function
	buf, curr, maxF, pkData, frData *types.Var
	read, parse                     *types.Func
}

func readerA(c *an.Ctx) readerAnchors {
	a := A(c)
	return readerAnchors{
		fn:     c.Fn("drpcwire", "(*Reader).ReadPacketUsing"),
		buf:    a.field("drpcwire", "Reader", "buf"),
		curr:   a.field("drpcwire", "Reader", "curr"),
		maxF:   a.field("drpcwire", "ReaderOptions", "MaximumBufferSize"),
		pkData: a.field("drpcwire", "Packet", "Data"),
		frData: a.field("drpcwire", "Frame", "Data"),
		read:   a.obj("drpcwire", "(*Reader).read"),
		parse:  a.obj("drpcwire", "ParseFrame"),
	}
}

// limitTest matches a comparison of (len(<field>) [- const] [+ len(..)]) with
// MaximumBufferSize and returns which field is measured, whether the "over the
// limit" outcome is the true edge, and every field whose length enters the sum.
func (ra readerAnchors) limitTest(cond ssa.Value) (fields []*types.Var, overOnTrue bool, ok bool) {
	b, isBin := cond.(*ssa.BinOp)
	if !isBin {
		return nil, false, false
	}
	var lhs ssa.Value
	var moved ssa.Value // a length subtracted from the maximum on the other side: x > max - y is x + y > max
	if sub, isSub := b.Y.(*ssa.BinOp); isSub && sub.Op == token.SUB && isLoadOfField(sub.X, ra.maxF) {
		b = &ssa.BinOp{Op: b.Op, X: b.X, Y: sub.X}
		moved = sub.Y
	} else if sub, isSub := b.X.(*ssa.BinOp); isSub && sub.Op == token.SUB && isLoadOfField(sub.X, ra.maxF) {
		b = &ssa.BinOp{Op: b.Op, X: sub.X, Y: b.Y}
		moved = sub.Y
	}
	switch {
	case isLoadOfField(b.Y, ra.maxF) && (b.Op == token.GTR || b.Op == token.GEQ):
		lhs, overOnTrue = b.X, true
	case isLoadOfField(b.Y, ra.maxF) && (b.Op == token.LEQ || b.Op == token.LSS):
		lhs, overOnTrue = b.X, false
	case isLoadOfField(b.X, ra.maxF) && (b.Op == token.LSS || b.Op == token.LEQ):
		lhs, overOnTrue = b.Y, true
	case isLoadOfField(b.X, ra.maxF) && (b.Op == token.GTR || b.Op == token.GEQ):
		lhs, overOnTrue = b.Y, false
	default:
		return nil, false, false
	}
	var walk func(v ssa.Value, depth int)
	walk = func(v ssa.Value, depth int) {
		if depth > 6 {
			return
		}
		switch x := v.(type) {
		case *ssa.BinOp:
			walk(x.X, depth+1)
			walk(x.Y, depth+1)
		case *ssa.Convert:
			walk(x.X, depth+1)
		case *ssa.Call:
			if bi, isB := x.Common().Value.(*ssa.Builtin); isB && bi.Name() == "len" {
				arg := x.Common().Args[0]
				if u, isU := arg.(*ssa.UnOp); isU && u.Op == token.MUL {
					if fv := an.PathOf(u.X).Last(); fv != nil {
						fields = append(fields, fv.Origin())
					}
				}
			}
		}
	}
	walk(lhs, 0)
	if moved != nil {
		walk(moved, 0)
	}
	return fields, overOnTrue, len(fields) > 0
}

func has(fields []*types.Var, f *types.Var) bool {
	for _, x := range fields {
		if x == f.Origin() {
			return true
		}
	}
	return false
}

// appendToPacket: v is pkt.Data with something appended (however that is spelled: append, or a re-allocation that
// copies both parts); exact if what is appended is exactly fr.Data.
func (ra readerAnchors) appendToPacket(v ssa.Value) (grows, exact bool) {
	if call, ok := v.(*ssa.Call); ok {
		if bi, isB := call.Common().Value.(*ssa.Builtin); isB && bi.Name() == "append" {
			args := call.Common().Args
			return true, len(args) == 2 && isLoadOfField(args[0], ra.pkData) && isLoadOfField(args[1], ra.frData)
		}
	}
	parts, ok := concatParts(v, 0)
	if !ok || len(parts) < 2 || !isLoadOfField(parts[0], ra.pkData) {
		return false, false
	}
	return true, len(parts) == 2 && isLoadOfField(parts[1], ra.frData)
}

// readerSizeFlow is the typestate both size rules read:
//
//	"sized"    the unparsed buffer passed the limit test since it was last (re)filled;
//	"grown"    pkt.Data was appended to and that size has not been compared with the limit;
//	"presized" len(pkt.Data)+len(fr.Data) passed the limit test and pkt.Data has not been touched since: the append of
//	           exactly fr.Data that follows produces a packet of the tested size, so it does not make the packet "grown";
//	"stale"    a passed pre-append test was invalidated by a store to the packet (the new-id discard) before the append.
func readerSizeFlow(ra readerAnchors) *an.Flow {
	fn := ra.fn
	isPktAlloc := func(v ssa.Value) bool {
		al, ok := v.(*ssa.Alloc)
		if !ok {
			return false
		}
		n, isN := deref(al.Type()).(*types.Named)
		return isN && n.Obj().Name() == "Packet"
	}
	return &an.Flow{Fn: fn, Inline: an.InlineSamePackage(fn), Init: []string{""},
		Step: func(st string, in ssa.Instruction) []string {
			switch x := in.(type) {
			case *ssa.Call:
				if an.IsCallTo(x.Common(), ra.read) {
					return []string{delTag(st, "sized")}
				}
				if an.IsCallTo(x.Common(), ra.parse) {
					return []string{delTag(delTag(st, "presized"), "stale")}
				}
			case *ssa.Store:
				if isPktAlloc(x.Addr) {
					if hasTag(st, "presized") {
						return []string{addTag(delTag(st, "presized"), "stale")}
					}
					return nil
				}
				fv := an.PathOf(x.Addr).Last()
				if fv == nil {
					return nil
				}
				switch fv.Origin() {
				case ra.buf.Origin():
					// growth by make(len(r.buf), ...) + copy keeps the length: stays sized
					if mk, ok := x.Val.(*ssa.MakeSlice); ok && isLenOfField(mk.Len, ra.buf) {
						return nil
					}
					// truncation to [:0] cannot make it larger
					if sl, ok := x.Val.(*ssa.Slice); ok {
						if hi, isC := an.ConstInt(sl.High); isC && hi == 0 {
							return nil
						}
					}
					return []string{delTag(st, "sized")}
				case ra.pkData.Origin():
					if grows, exact := ra.appendToPacket(x.Val); grows {
						if hasTag(st, "presized") && exact {
							return []string{delTag(st, "presized")}
						}
						return []string{addTag(delTag(st, "presized"), "grown")}
					}
					if hasTag(st, "presized") {
						return []string{addTag(delTag(st, "presized"), "stale")}
					}
				}
			}
			return nil
		},
		Branch: func(st string, br *ssa.If, idx int) (string, bool) {
			fields, overOnTrue, ok := ra.limitTest(br.Cond)
			if !ok {
				return st, true
			}
			within := (idx == 0) != overOnTrue
			if !within {
				return st, true
			}
			if has(fields, ra.buf) {
				st = addTag(st, "sized")
			}
			if has(fields, ra.pkData) {
				switch {
				case len(fields) == 1:
					st = delTag(st, "grown")
				case len(fields) == 2 && has(fields, ra.frData) && !hasTag(st, "grown"):
					st = addTag(st, "presized")
				}
			}
			return st, true
		},
	}
}

func c09r1(c *an.Ctx) {
	ra := readerA(c)
	fn := ra.fn
	flow := readerSizeFlow(ra)
	res := flow.Run()
	nRead := 0
	for _, cs := range an.CallsTo(fn, false, ra.read) {
		nRead++
		ok := true
		for _, st := range res.Before(cs.Instr) {
			if !hasTag(st, "sized") {
				ok = false
			}
		}
		c.Check(ok, "ReadPacketUsing | every transport read is preceded by a passed size test of the unparsed buffer", c.At(cs.Instr), "",
			"a path reaches r.read without the buffered, unparsed bytes having been compared with MaximumBufferSize: a frame that announces a huge length and never completes makes the read buffer grow without bound")
	}
	c.Floor("transport reads in ReadPacketUsing", 1, nRead)
	// after an append the packet size is tested before the next parse / a successful return
	nPoints := 0
	an.Instrs(fn, func(in ssa.Instruction) {
		if !res.Reachable(in.Block()) {
			return
		}
		point := ""
		switch x := in.(type) {
		case *ssa.Call:
			if an.IsCallTo(x.Common(), ra.parse) {
				point = "next ParseFrame"
			}
		case *ssa.Return:
			for _, v := range returnedValues(x, 1) {
				if v == nil || an.IsNilConst(v) {
					point = "successful return"
				}
			}
		}
		if point == "" {
			return
		}
		nPoints++
		ok := true
		for _, st := range res.Before(in) {
			if hasTag(st, "grown") {
				ok = false
			}
		}
		c.Check(ok, "ReadPacketUsing | packet size tested after every append, before the "+point, c.At(in), "",
			"pkt.Data can be appended to without being compared with MaximumBufferSize before the "+point+": an unending run of non-final frames grows the packet without bound / an oversized packet is returned")
	})
	c.Floor("parse/return points in ReadPacketUsing", 1, nPoints)
	// growth of r.buf: only make(len, 2*cap+const) under cap-len < const
	nGrow := 0
	an.Instrs(fn, func(in ssa.Instruction) {
		mk, ok := in.(*ssa.MakeSlice)
		if !ok {
			return
		}
		// the read buffer: the allocation ends up in Reader.buf (other allocations, such as a re-allocated packet
		// buffer, are bounded by the packet-size rules)
		toBuf := false
		for _, r := range *mk.Referrers() {
			if st, isSt := r.(*ssa.Store); isSt && st.Val == ssa.Value(mk) {
				if fv := an.PathOf(st.Addr).Last(); fv != nil && fv.Origin() == ra.buf.Origin() {
					toBuf = true
				}
			}
		}
		if !toBuf {
			return
		}
		nGrow++
		okLen := isLenOfField(mk.Len, ra.buf)
		// the new capacity is a bounded function of bounded quantities: the buffer's own capacity and length (bounded
		// where the growth is guarded, see below), the configured maximum and constants, combined by +, -, a small
		// constant factor, min/max and merges
		var bounded func(v ssa.Value, depth int) bool
		bounded = func(v ssa.Value, depth int) bool {
			if depth > 8 {
				return false
			}
			if _, isC := an.ConstInt(v); isC {
				return true
			}
			if isCapOfField(v, ra.buf) || isLenOfField(v, ra.buf) || isLoadOfField(v, ra.maxF) {
				return true
			}
			switch x := v.(type) {
			case *ssa.Convert:
				return bounded(x.X, depth+1)
			case *ssa.Phi:
				for _, e := range x.Edges {
					if !bounded(e, depth+1) {
						return false
					}
				}
				return true
			case *ssa.BinOp:
				switch x.Op {
				case token.ADD, token.SUB:
					return bounded(x.X, depth+1) && bounded(x.Y, depth+1)
				case token.MUL:
					if k, isK := an.ConstInt(x.X); isK && k >= 1 && k <= 4 {
						return bounded(x.Y, depth+1)
					}
					if k, isK := an.ConstInt(x.Y); isK && k >= 1 && k <= 4 {
						return bounded(x.X, depth+1)
					}
				}
			case *ssa.Call:
				if b, isB := x.Common().Value.(*ssa.Builtin); isB && (b.Name() == "min" || b.Name() == "max") {
					for _, a := range x.Common().Args {
						if !bounded(a, depth+1) {
							return false
						}
					}
					return true
				}
			}
			return false
		}
		okCap := bounded(mk.Cap, 0)
		// and it grows only when the free space is short, so that the capacity it starts from is bounded by the length
		okGuard := false
		for _, g := range an.GuardsOf(mk.Block()) {
			if cmp, isCmp := an.CmpOf(g); isCmp {
				mentionsCap, mentionsLen := false, false
				var scan func(v ssa.Value, depth int)
				scan = func(v ssa.Value, depth int) {
					if depth > 4 {
						return
					}
					if isCapOfField(v, ra.buf) {
						mentionsCap = true
					}
					if isLenOfField(v, ra.buf) {
						mentionsLen = true
					}
					switch x := v.(type) {
					case *ssa.BinOp:
						scan(x.X, depth+1)
						scan(x.Y, depth+1)
					case *ssa.Convert:
						scan(x.X, depth+1)
					}
				}
				scan(cmp.X, 0)
				scan(cmp.Y, 0)
				if mentionsCap && mentionsLen {
					okGuard = true
				}
			}
		}
		c.Check(okGuard, "ReadPacketUsing | read buffer grows only when its free space is short", c.At(in), "", "the read buffer is re-allocated without comparing its capacity with its length: it grows on every read")
		c.Check(okLen && okCap, "ReadPacketUsing | read buffer grows to len(r.buf), k*cap(r.buf)+const only", c.At(in), "", "the read buffer is re-allocated with a size not derived from its own capacity: "+an.R(mk.Len)+", "+an.R(mk.Cap))
	})
	c.Floor("read buffer growth sites", 1, nGrow)
	// default maximum
	ctor := c.Fn("drpcwire", "NewReaderWithOptions")
	okDef := false
	for _, st := range fieldStores(ctor, ra.maxF) {
		if k, isC := an.ConstInt(st.Val); isC && k > 0 {
			for _, g := range an.GuardsOf(st.Block()) {
				if cmp, ok := an.CmpOf(g); ok && cmp.Is(token.EQL, func(v ssa.Value) bool { return isLoadOfField(v, ra.maxF) }, func(v ssa.Value) bool {
					z, isZ := an.ConstInt(v)
					return isZ && z == 0
				}) {
					okDef = true
				}
			}
		}
	}
	c.Check(okDef, "NewReaderWithOptions | zero MaximumBufferSize replaced by a positive constant", c.P.Pos(ctor.Pos()), "", "a zero maximum is no longer replaced by a default: every packet would exceed the limit, or the limit is disabled")
}

func delTag(st, tag string) string {
	out := ""
	for _, t := range splitTags(st) {
		if t != tag {
			out = addTag(out, t)
		}
	}
	return out
}

func isLenOfField(v ssa.Value, f *types.Var) bool {
	call, ok := v.(*ssa.Call)
	if !ok {
		return false
	}
	bi, ok := call.Common().Value.(*ssa.Builtin)
	return ok && bi.Name() == "len" && isLoadOfField(call.Common().Args[0], f)
}

func isCapOfField(v ssa.Value, f *types.Var) bool {
	call, ok := v.(*ssa.Call)
	if !ok {
		return false
	}
	bi, ok := call.Common().Value.(*ssa.Builtin)
	return ok && bi.Name() == "cap" && isLoadOfField(call.Common().Args[0], f)
}

func c09r2(c *an.Ctx) {
	a := A(c)
	ra := readerA(c)
	fn := ra.fn
	pkControl := a.field("drpcwire", "Packet", "Control")
	frControl := a.field("drpcwire", "Frame", "Control")
	pkKind := a.field("drpcwire", "Packet", "Kind")
	frKind := a.field("drpcwire", "Frame", "Kind")
	pkID := a.field("drpcwire", "Packet", "ID")
	frID := a.field("drpcwire", "Frame", "ID")
	less := a.obj("drpcwire", "(ID).Less")
	// (a) pkt.Control = pkt.Control || fr.Control on every iteration before the id switch
	okOr := false
	var lessCall ssa.Instruction
	for _, cs := range an.CallsTo(fn, false, less) {
		lessCall = cs.Instr
	}
	for _, st := range fieldStores(fn, pkControl) {
		phi, ok := st.Val.(*ssa.Phi)
		if !ok {
			continue
		}
		hasTrue, hasFr := false, false
		for _, e := range phi.Edges {
			if cst, isC := e.(*ssa.Const); isC && cst.Value != nil && cst.Value.String() == "true" {
				hasTrue = true
			}
			if isLoadOfField(e, frControl) {
				hasFr = true
			}
		}
		if hasTrue && hasFr && lessCall != nil && an.InstrDominates(st, lessCall) {
			okOr = true
		}
	}
	// the same written as `if fr.Control { pkt.Control = true }`: a store of true whose only condition is the frame's bit,
	// tested on every iteration before the id switch
	for _, st := range fieldStores(fn, pkControl) {
		cst, isC := st.Val.(*ssa.Const)
		if !isC || cst.Value == nil || cst.Value.String() != "true" {
			continue
		}
		if ifI, guarded := guardedByFieldLoad(st.Block(), frControl, true); guarded && lessCall != nil && ifI != nil && an.InstrDominates(ifI, lessCall) {
			// nothing else decides whether the store happens
			only := true
			for _, g := range an.GuardsOf(st.Block()) {
				if g.If != ifI && !an.InstrDominates(g.If, ifI) {
					only = false
				}
			}
			if only {
				okOr = true
			}
		}
	}
	c.Check(okOr, "ReadPacketUsing | pkt.Control |= fr.Control for every frame", c.P.Pos(fn.Pos()), "", "a control bit on a frame does not mark the packet as control (or only on some paths): unknown control packets would be treated as protocol errors")
	// (b) the reset on a new id
	nReset := 0
	an.Instrs(fn, func(in ssa.Instruction) {
		st, ok := in.(*ssa.Store)
		if !ok || !isPacketResetFromFrame(st, pkKind, frKind) {
			return
		}
		nReset++
		lit := st.Val.(*ssa.UnOp).X.(*ssa.Alloc)
		got := map[string]bool{}
		for _, ref := range *lit.Referrers() {
			fa, ok := ref.(*ssa.FieldAddr)
			if !ok {
				continue
			}
			fv := an.PathOf(fa).Last()
			for _, r2 := range *fa.Referrers() {
				s2, ok := r2.(*ssa.Store)
				if !ok || s2.Addr != ssa.Value(fa) {
					continue
				}
				switch fv.Origin() {
				case pkID.Origin():
					got["id"] = isLoadOfField(s2.Val, frID)
				case pkControl.Origin():
					got["control"] = isLoadOfField(s2.Val, frControl)
				case ra.pkData.Origin():
					if sl, ok := s2.Val.(*ssa.Slice); ok {
						hi, isC := an.ConstInt(sl.High)
						got["data"] = isC && hi == 0 && isLoadOfField(sl.X, ra.pkData)
					}
				}
			}
		}
		c.Check(got["id"], "ReadPacketUsing | new-id reset takes the frame's id", c.At(in), "", "the packet reset does not adopt the new frame's id")
		c.Check(got["control"], "ReadPacketUsing | new-id reset takes the frame's control flag", c.At(in), "", "the control bit of a discarded packet leaks into the packet that replaces it")
		c.Check(got["data"], "ReadPacketUsing | new-id reset empties the packet data", c.At(in), "", "a higher id does not discard the unfinished packet's bytes: they are merged into the next packet")
		// the reader's id is advanced to the frame's id in the same branch
		adv := false
		rid := a.field("drpcwire", "Reader", "id")
		for _, s3 := range fieldStores(fn, rid) {
			if s3.Block() == in.Block() && isLoadOfField(s3.Val, frID) {
				adv = true
			}
		}
		c.Check(adv, "ReadPacketUsing | reader id advanced to the new frame's id", c.At(in), "", "the reader does not remember the new id: later frames with lower ids would be accepted")
	})
	c.Floor("packet reset sites", 1, nReset)
}

func c09r3(c *an.Ctx) {
	ra := readerA(c)
	fn := ra.fn
	flow := &an.Flow{Fn: fn, Inline: an.InlineSamePackage(fn), Init: []string{"parsed"}, Step: func(st string, in ssa.Instruction) []string {
		if call, ok := in.(*ssa.Call); ok {
			if an.IsCallTo(call.Common(), ra.read) {
				return []string{"fresh"}
			}
			if an.IsCallTo(call.Common(), ra.parse) {
				return []string{"parsed"}
			}
		}
		return nil
	}}
	res := flow.Run()
	n := 0
	an.Instrs(fn, func(in ssa.Instruction) {
		br, ok := in.(*ssa.If)
		if !ok {
			return
		}
		fields, _, ok := ra.limitTest(br.Cond)
		if !ok || !has(fields, ra.buf) {
			return
		}
		n++
		okT := true
		for _, st := range res.Before(in) {
			if st == "fresh" {
				okT = false
			}
		}
		// the incomplete frame's header is not payload: the test allows for a maximal frame header (control byte and
		// three varints) on top of the maximum
		if cmp, isCmp := br.Cond.(*ssa.BinOp); isCmp {
			side := cmp.X
			if isLoadOfField(cmp.X, ra.maxF) {
				side = cmp.Y
			}
			allowance := int64(0)
			var walkK func(v ssa.Value, sign int64, depth int)
			walkK = func(v ssa.Value, sign int64, depth int) {
				b, isB := v.(*ssa.BinOp)
				if !isB || depth > 4 {
					return
				}
				switch b.Op {
				case token.SUB:
					if k, isK := an.ConstInt(b.Y); isK {
						allowance += sign * k
					} else {
						walkK(b.Y, -sign, depth+1)
					}
					walkK(b.X, sign, depth+1)
				case token.ADD:
					if k, isK := an.ConstInt(b.Y); isK {
						allowance -= sign * k
					} else {
						walkK(b.Y, sign, depth+1)
					}
					walkK(b.X, sign, depth+1)
				}
			}
			walkK(side, 1, 0)
			c.Check(allowance >= 1+3*9, "ReadPacketUsing | read-buffer size test leaves room for a maximal frame header", c.At(in), fmt.Sprint(allowance),
				fmt.Sprintf("the bytes of an incomplete frame are compared with the maximum without an allowance for its header (allowance %d, a header takes up to %d bytes): a legal frame whose payload is at the maximum is accepted when it arrives in one read and rejected when the reads split it", allowance, 1+3*9))
		}
		c.Check(okT, "ReadPacketUsing | read-buffer size test measures parsed-and-incomplete bytes only", c.At(in), "",
			"the size limit is applied to the read buffer right after a transport read, before ParseFrame has seen the bytes: complete frames a large read returned are counted, so the same byte stream is accepted or rejected depending on how the transport splits it into reads")
	})
	c.Floor("size tests on the read buffer", 1, n)
}

func c09r4(c *an.Ctx) {
	ra := readerA(c)
	fn := ra.fn
	res := readerSizeFlow(ra).Run()
	n := 0
	an.Instrs(fn, func(in ssa.Instruction) {
		switch x := in.(type) {
		case *ssa.If:
			fields, _, ok := ra.limitTest(x.Cond)
			if !ok || !has(fields, ra.pkData) || !res.Reachable(in.Block()) {
				return
			}
			n++
			// what is compared with the limit is the size of the current packet: its data after the append, or its
			// data before plus exactly the frame that is appended next
			switch {
			case len(fields) == 1:
				okAfter := true
				for _, st := range res.Before(in) {
					if !hasTag(st, "grown") {
						okAfter = false
					}
				}
				c.Check(okAfter, "ReadPacketUsing | per-packet limit evaluated after the discard and the append", c.At(in), "",
					"the packet-size test runs before the new-id discard / append: bytes of an unfinished packet that is about to be discarded count against the packet that replaces it (a legal packet is rejected)")
				c.Ok("ReadPacketUsing | per-packet limit measures len(pkt.Data) alone", c.At(in), "")
			case len(fields) == 2 && has(fields, ra.frData):
				okBefore := true
				for _, st := range res.Before(in) {
					if hasTag(st, "grown") {
						okBefore = false
					}
				}
				c.Check(okBefore, "ReadPacketUsing | per-packet limit evaluated after the discard and the append", c.At(in), "len(pkt.Data)+len(fr.Data) before appending exactly fr.Data",
					"the packet-size test adds the frame's length to a packet the frame was already appended to")
				c.Ok("ReadPacketUsing | per-packet limit measures len(pkt.Data) alone", c.At(in), "the packet's length plus the frame about to be appended")
			default:
				c.Bad("ReadPacketUsing | per-packet limit measures len(pkt.Data) alone", c.At(in), fmt.Sprintf("the packet-size test sums %d lengths", len(fields)))
			}
		case *ssa.Store:
			// a pre-append test must still describe the packet when the append happens
			if fv := an.PathOf(x.Addr).Last(); fv == nil || fv.Origin() != ra.pkData.Origin() {
				return
			}
			if grows, _ := ra.appendToPacket(x.Val); !grows {
				return
			}
			stale := false
			for _, st := range res.Before(in) {
				if hasTag(st, "stale") {
					stale = true
				}
			}
			c.Check(!stale, "ReadPacketUsing | the size tested before an append is the size appended to", c.At(in), "",
				"the packet-size test ran before the new-id discard: bytes of an unfinished packet that is about to be discarded count against the packet that replaces it (a legal packet is rejected)")
		}
	})
	c.Floor("per-packet size tests", 1, n)
}

func c09r5(c *an.Ctx) {
	in := map[string]bool{"(*Reader).ReadPacketUsing": true, "(*Reader).read": true, "(*Reader).ReadPacket": true, "NewReaderWithOptions": true, "NewReader": true}
	n := checkBCE(c, in, "reader")
	c.Ok("reader | compiler BCE report consulted", "-", fmt.Sprintf("%d residual bounds checks in the reader (0 expected)", n))
}

// c09r6: ID.Less touches its operands only through comparisons of the same
// field of the two ids, so it is decided over the nine orderings of
// (Stream, Message): it must be the lexicographic order. The watermark test of
// the reader ("ids never go backwards") is exactly this function.
func c09r6(c *an.Ctx) {
	fn := c.Fn("drpcwire", "(ID).Less")
	c.Analysed(fn)
	if len(fn.Params) != 2 {
		panic(&an.Unresolved{What: "ID.Less(j ID)"})
	}
	// which operand a local copy holds
	side := map[ssa.Value]int{}
	an.Instrs(fn, func(in ssa.Instruction) {
		if st, ok := in.(*ssa.Store); ok {
			for i, p := range fn.Params {
				if st.Val == ssa.Value(p) {
					side[st.Addr] = i + 1
				}
			}
		}
	})
	type sym struct {
		side  int
		field string // "" = the whole id
	}
	rels := []string{"<", "=", ">"}
	var bad []string
	for _, rs := range rels {
		for _, rm := range rels {
			rel := map[string]string{"Stream": rs, "Message": rm}
			vals := map[ssa.Value]interface{}{}
			get := func(v ssa.Value) interface{} {
				if k, ok := v.(*ssa.Const); ok && k.Value != nil {
					switch k.Value.String() {
					case "true":
						return true
					case "false":
						return false
					}
				}
				if p, ok := v.(*ssa.Parameter); ok {
					for i, q := range fn.Params {
						if q == p {
							return sym{i + 1, ""}
						}
					}
				}
				return vals[v]
			}
			cmp := func(op token.Token, r string) (bool, bool) {
				switch op {
				case token.LSS:
					return r == "<", true
				case token.LEQ:
					return r != ">", true
				case token.GTR:
					return r == ">", true
				case token.GEQ:
					return r != "<", true
				case token.EQL:
					return r == "=", true
				case token.NEQ:
					return r != "=", true
				}
				return false, false
			}
			flip := map[string]string{"<": ">", "=": "=", ">": "<"}
			blk, prev := fn.Blocks[0], (*ssa.BasicBlock)(nil)
			var result interface{}
			und := ""
		run:
			for steps := 0; steps < 200; steps++ {
				for _, in := range blk.Instrs {
					switch x := in.(type) {
					case *ssa.Alloc, *ssa.Store, *ssa.DebugRef:
					case *ssa.FieldAddr:
						if s, ok := side[x.X]; ok {
							st := x.X.Type().Underlying().(*types.Pointer).Elem().Underlying().(*types.Struct)
							vals[x] = sym{s, st.Field(x.Field).Name()}
						}
					case *ssa.Field:
						if s, ok := get(x.X).(sym); ok && s.field == "" {
							st := x.X.Type().Underlying().(*types.Struct)
							vals[x] = sym{s.side, st.Field(x.Field).Name()}
						}
					case *ssa.UnOp:
						switch x.Op {
						case token.MUL:
							if s, ok := side[x.X]; ok {
								vals[x] = sym{s, ""}
							} else if v := vals[x.X]; v != nil {
								vals[x] = v
							}
						case token.NOT:
							if b, ok := get(x.X).(bool); ok {
								vals[x] = !b
							}
						}
					case *ssa.BinOp:
						l, r := get(x.X), get(x.Y)
						ls, lok := l.(sym)
						rsy, rok := r.(sym)
						switch {
						case lok && rok && ls.field == rsy.field && ls.side != rsy.side && ls.field != "":
							rr := rel[ls.field]
							if ls.side == 2 {
								rr = flip[rr]
							}
							if b, ok := cmp(x.Op, rr); ok {
								vals[x] = b
							}
						case lok && rok && ls.field == "" && rsy.field == "" && ls.side != rsy.side:
							eq := rs == "=" && rm == "="
							if x.Op == token.EQL {
								vals[x] = eq
							} else if x.Op == token.NEQ {
								vals[x] = !eq
							}
						default:
							lb, lbo := l.(bool)
							rb, rbo := r.(bool)
							if lbo && rbo {
								switch x.Op {
								case token.EQL:
									vals[x] = lb == rb
								case token.NEQ:
									vals[x] = lb != rb
								case token.AND:
									vals[x] = lb && rb
								case token.OR:
									vals[x] = lb || rb
								}
							}
						}
						if vals[x] == nil {
							und = "a comparison that is not between the same field of the two ids: " + x.String()
							break run
						}
					case *ssa.Phi:
						for i, p := range blk.Preds {
							if p == prev {
								vals[x] = get(x.Edges[i])
							}
						}
					case *ssa.If:
						b, ok := get(x.Cond).(bool)
						if !ok {
							und = "a branch on something else than a comparison of id fields"
							break run
						}
						prev = blk
						if b {
							blk = blk.Succs[0]
						} else {
							blk = blk.Succs[1]
						}
						continue run
					case *ssa.Jump:
						prev, blk = blk, blk.Succs[0]
						continue run
					case *ssa.Return:
						result = get(x.Results[0])
						break run
					default:
						und = "instruction " + in.String()
						break run
					}
				}
			}
			if und != "" {
				panic(&an.Unresolved{What: "ID.Less as a function of the two field orderings (" + und + ")"})
			}
			got, ok := result.(bool)
			if !ok {
				panic(&an.Unresolved{What: "the result of ID.Less for Stream " + rs + ", Message " + rm})
			}
			want := rs == "<" || (rs == "=" && rm == "<")
			if got != want {
				bad = append(bad, fmt.Sprintf("Stream %s and Message %s gives %v", rs, rm, got))
			}
		}
	}
	c.Check(len(bad) == 0, "ID.Less | is the lexicographic order on (Stream, Message), decided over the nine orderings of the two fields", c.P.Pos(fn.Pos()), "",
		"ID.Less is not the lexicographic order ("+strings.Join(bad, "; ")+"): the reader's watermark test lets a frame of an older stream or message through (ids go backwards) or rejects a newer one")
}
