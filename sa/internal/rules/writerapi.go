package rules

import (
	"go/token"
	"go/types"
	"sort"

	"golang.org/x/tools/go/ssa"

	"verif/sa/internal/an"
)

// The frame-emitting API of drpcwire.Writer, found by content rather than by name: a method *emits* when every
// way through it appends a frame to the writer's buffer (AppendFrame on Writer.buf, directly or through another
// method); it *flushes* when on every way out the buffer is known empty (it was tested empty, or it was handed to
// the sink after the last append). On the reviewed tree: WriteFrame and WritePacket emit, Flush flushes. A method
// that does both (append + unconditional sink write under one lock acquisition) is recognised as such. That the
// sink's error is returned and the buffer reset on every path is C05.R4's obligation for every method with a sink
// write.
type writerAPIInfo struct {
	Emit  []*types.Func
	Flush []*types.Func
	emit  map[*types.Func]bool
	flush map[*types.Func]bool
}

var writerAPICache = map[*an.Prog]*writerAPIInfo{}

func writerAPI(c *an.Ctx) *writerAPIInfo {
	sharedMu.Lock()
	if w := writerAPICache[c.P]; w != nil {
		sharedMu.Unlock()
		return w
	}
	sharedMu.Unlock()
	a := A(c)
	buf := a.field("drpcwire", "Writer", "buf")
	sink := a.field("drpcwire", "Writer", "w")
	appendFrame := a.obj("drpcwire", "AppendFrame")
	writerT := must(c.P.Named("drpcwire", "Writer"))
	info := &writerAPIInfo{emit: map[*types.Func]bool{}, flush: map[*types.Func]bool{}}
	var fns []*ssa.Function
	for _, fn := range must(c.P.SourceFuncs("drpcwire")) {
		if fn.Signature.Recv() == nil || !types.Identical(deref(fn.Signature.Recv().Type()), writerT) || fn.Parent() != nil {
			continue
		}
		fns = append(fns, fn)
	}
	sort.Slice(fns, func(i, j int) bool { return fns[i].Name() < fns[j].Name() })
	for _, fn := range fns {
		obj := an.FuncObjOf(fn)
		if obj == nil {
			continue
		}
		// states: tags "A" (a frame was appended), "D" (buffer may hold bytes not handed to the sink); entry: "D"
		flow := &an.Flow{Fn: fn, Inline: an.InlineSamePackage(fn), Init: []string{"D"},
			Step: func(st string, in ssa.Instruction) []string {
				call, ok := in.(*ssa.Call)
				if !ok {
					return nil
				}
				cc := call.Common()
				if an.IsCallTo(cc, appendFrame) && isLoadOfField(an.Arg(cc, 0), buf) {
					return []string{addTag(addTag(st, "A"), "D")}
				}
				if cc.IsInvoke() && cc.Method.Name() == "Write" && isLoadOfField(cc.Value, sink) && len(cc.Args) == 1 && isLoadOfField(cc.Args[0], buf) {
					return []string{delTag(st, "D")}
				}
				return nil
			},
			Branch: func(st string, br *ssa.If, idx int) (string, bool) {
				// len(b.buf) compared with zero
				g := an.Guard{Cond: br.Cond, True: idx == 0, If: br}
				if cnd, neg := an.StripNot(br.Cond); neg {
					g = an.Guard{Cond: cnd, True: idx != 0, If: br}
				}
				if cmp, ok := an.CmpOf(g); ok {
					isLen := func(v ssa.Value) bool {
						// a local that holds the length and is also read by a closure (a log line) lives in memory:
						// written once, with len(b.buf)
						if ld, isLd := v.(*ssa.UnOp); isLd && ld.Op == token.MUL {
							if al, isAl := ld.X.(*ssa.Alloc); isAl {
								var stores []*ssa.Store
								for _, r := range *al.Referrers() {
									if st, isSt := r.(*ssa.Store); isSt && st.Addr == ssa.Value(al) {
										stores = append(stores, st)
									}
								}
								if len(stores) == 1 {
									v = stores[0].Val
								}
							}
						}
						call, ok := v.(*ssa.Call)
						if !ok {
							return false
						}
						b, isB := call.Common().Value.(*ssa.Builtin)
						return isB && b.Name() == "len" && isLoadOfField(call.Common().Args[0], buf)
					}
					isZero := func(v ssa.Value) bool { k, ok := an.ConstInt(v); return ok && k == 0 }
					if cmp.Is(token.EQL, isLen, isZero) || cmp.Is(token.LEQ, isLen, isZero) {
						return delTag(st, "D"), true
					}
				}
				return st, true
			},
		}
		res := flow.Run()
		if res.Blowup {
			continue
		}
		// ways out that certainly report an error do not count: a writer that refuses to go on after a failed write
		// (sticky error) still appends / flushes whenever it reports success
		errOnly := map[*ssa.Return]bool{}
		if nres := fn.Signature.Results().Len(); nres > 0 && isErrorType(fn.Signature.Results().At(nres-1).Type()) {
			byRet := map[*ssa.Return][]an.RetCase{}
			for _, rc := range an.ReturnCases(fn) {
				byRet[rc.Ret] = append(byRet[rc.Ret], rc)
			}
			for ret, cases := range byRet {
				all := len(cases) > 0
				for _, rc := range cases {
					if !provablyNonNilCase(rc.Vals[nres-1], rc) {
						all = false
					}
				}
				errOnly[ret] = all
			}
		}
		allA, allClean, n := true, true, 0
		for _, ret := range an.Returns(fn) {
			if !res.Reachable(ret.Block()) || errOnly[ret] {
				continue
			}
			for _, st := range res.Before(ret) {
				n++
				if !hasTag(st, "A") {
					allA = false
				}
				if hasTag(st, "D") {
					allClean = false
				}
			}
		}
		if n == 0 {
			continue
		}
		if allA {
			info.emit[obj] = true
			info.Emit = append(info.Emit, obj)
		}
		if allClean {
			info.flush[obj] = true
			info.Flush = append(info.Flush, obj)
		}
	}
	sharedMu.Lock()
	writerAPICache[c.P] = info
	sharedMu.Unlock()
	return info
}

// emits / flushes: the call is to a Writer method with that summary.
func (w *writerAPIInfo) emits(cc *ssa.CallCommon) bool {
	obj := an.CalleeObj(cc)
	return obj != nil && w.emit[obj.Origin()]
}

func (w *writerAPIInfo) flushes(cc *ssa.CallCommon) bool {
	obj := an.CalleeObj(cc)
	return obj != nil && w.flush[obj.Origin()]
}
