package rules

// C14.R6: the metadata header decoder. Its digit test touches the input byte
// only through comparisons with constants and an affine value, so the accepted
// set and the values are read off the guards as a table (interval, offset) and
// compared with the hexadecimal digits for every byte value; the escape
// handling and the key=value split are checked on their shape.

import (
	"fmt"
	"go/token"
	"strings"

	"golang.org/x/tools/go/ssa"

	"verif/sa/internal/an"
)

type hexCase struct {
	lo, hi int64
	off    int64
}

func c14r6(c *an.Ctx) {
	a := A(c)
	unhexObj := a.obj("drpchttp", "unhex")
	unhex := c.Fn("drpchttp", "unhex")
	c.Analysed(unhex)
	if len(unhex.Params) != 3 {
		panic(&an.Unresolved{What: "unhex(c, v, m)"})
	}
	pc, pv, pm := unhex.Params[0], unhex.Params[1], unhex.Params[2]
	var okRet *ssa.Return
	failsOK := true
	for _, ret := range an.Returns(unhex) {
		if len(ret.Results) != 2 {
			continue
		}
		k, isK := ret.Results[1].(*ssa.Const)
		switch {
		case isK && k.Value != nil && k.Value.String() == "true":
			if okRet != nil {
				panic(&an.Unresolved{What: "a single success return of unhex"})
			}
			okRet = ret
		case isK && k.Value != nil && k.Value.String() == "false":
		default:
			failsOK = false
		}
	}
	if okRet == nil {
		panic(&an.Unresolved{What: "the success return of unhex"})
	}
	// result = c + d*m
	var d ssa.Value
	shape := false
	if add, ok := okRet.Results[0].(*ssa.BinOp); ok && add.Op == token.ADD {
		for _, pair := range [][2]ssa.Value{{add.X, add.Y}, {add.Y, add.X}} {
			if pair[0] != ssa.Value(pc) {
				continue
			}
			if mul, ok := pair[1].(*ssa.BinOp); ok && mul.Op == token.MUL {
				switch {
				case mul.Y == ssa.Value(pm):
					d, shape = mul.X, true
				case mul.X == ssa.Value(pm):
					d, shape = mul.Y, true
				}
			}
		}
	}
	c.Check(shape && failsOK, "unhex | returns accumulator + digit*multiplier with ok, and (_, false) otherwise", c.At(okRet), "", "the digit is not combined as c + d*m (or a failing return does not report ok=false)")
	if !shape {
		return
	}
	// the digit as a table: per way into the merge, the interval the guards put v in and the affine value
	affine := func(v ssa.Value) (int64, bool) {
		off := int64(0)
		for depth := 0; depth < 6; depth++ {
			if v == ssa.Value(pv) {
				return off, true
			}
			b, ok := v.(*ssa.BinOp)
			if !ok {
				return 0, false
			}
			if k, isK := an.ConstInt(b.Y); isK && (b.Op == token.ADD || b.Op == token.SUB) {
				if b.Op == token.ADD {
					off += k
				} else {
					off -= k
				}
				v = b.X
				continue
			}
			if k, isK := an.ConstInt(b.X); isK && b.Op == token.ADD {
				off += k
				v = b.Y
				continue
			}
			return 0, false
		}
		return 0, false
	}
	interval := func(gs []an.Guard) (lo, hi int64, ok bool) {
		lo, hi = 0, 255
		for _, g := range gs {
			cmp, isCmp := an.CmpOf(g)
			if !isCmp {
				continue
			}
			var k int64
			var isK bool
			op := cmp.Op
			switch {
			case cmp.X == ssa.Value(pv):
				k, isK = an.ConstInt(cmp.Y)
			case cmp.Y == ssa.Value(pv):
				k, isK = an.ConstInt(cmp.X)
				op = map[token.Token]token.Token{token.LSS: token.GTR, token.GTR: token.LSS, token.LEQ: token.GEQ, token.GEQ: token.LEQ, token.EQL: token.EQL, token.NEQ: token.NEQ}[op]
			default:
				continue
			}
			if !isK {
				continue
			}
			switch op { // v op k
			case token.LSS:
				if k-1 < hi {
					hi = k - 1
				}
			case token.LEQ:
				if k < hi {
					hi = k
				}
			case token.GTR:
				if k+1 > lo {
					lo = k + 1
				}
			case token.GEQ:
				if k > lo {
					lo = k
				}
			case token.EQL:
				lo, hi = k, k
			}
		}
		return lo, hi, true
	}
	var cases []hexCase
	und := ""
	addCase := func(val ssa.Value, gs []an.Guard) {
		off, ok := affine(val)
		if !ok {
			und = "a digit value that is not v plus a constant: " + an.R(val)
			return
		}
		lo, hi, _ := interval(gs)
		cases = append(cases, hexCase{lo, hi, off})
	}
	if phi, ok := d.(*ssa.Phi); ok {
		for i, e := range phi.Edges {
			addCase(e, an.GuardsOfEdge(phi.Block().Preds[i], phi.Block()))
		}
	} else {
		addCase(d, an.GuardsOf(okRet.Block()))
	}
	if und != "" {
		panic(&an.Unresolved{What: "unhex's digit table (" + und + ")"})
	}
	var bad []string
	for b := int64(0); b < 256; b++ {
		want, isHex := int64(-1), false
		switch {
		case b >= '0' && b <= '9':
			want, isHex = b-'0', true
		case b >= 'a' && b <= 'f':
			want, isHex = b-'a'+10, true
		case b >= 'A' && b <= 'F':
			want, isHex = b-'A'+10, true
		}
		got, accepted := int64(-1), false
		for _, hc := range cases {
			if b >= hc.lo && b <= hc.hi {
				v := (b + hc.off) & 0xff
				if accepted && v != got {
					bad = append(bad, fmt.Sprintf("byte %q is given two values", rune(b)))
				}
				got, accepted = v, true
			}
		}
		switch {
		case isHex && !accepted:
			bad = append(bad, fmt.Sprintf("hex digit %q is rejected", rune(b)))
		case !isHex && accepted:
			bad = append(bad, fmt.Sprintf("byte %q is accepted as a hex digit", rune(b)))
		case isHex && got != want:
			bad = append(bad, fmt.Sprintf("hex digit %q decodes to %d", rune(b), got))
		}
	}
	if len(bad) > 4 {
		bad = append(bad[:4], fmt.Sprintf("... %d more", len(bad)-4))
	}
	c.Check(len(bad) == 0, "unhex | accepts exactly 0-9 a-f A-F with their values (table read off the guards, all 256 byte values)", c.P.Pos(unhex.Pos()), fmt.Sprint(cases),
		"the digit table extracted from unhex's comparisons differs from hexadecimal: "+strings.Join(bad, "; ")+" (metadata keys/values with such escapes decode to other bytes or are refused)")

	// unescape: %XY -> unhex(0, s[i+1], 16) then unhex(that, s[i+2], 1), both checked, the result written, i advanced by 2
	une := c.Fn("drpchttp", "unescape")
	c.Analysed(une)
	var calls []*ssa.Call
	an.Instrs(une, func(in ssa.Instruction) {
		if call, ok := in.(*ssa.Call); ok && an.IsCallTo(call.Common(), unhexObj) {
			calls = append(calls, call)
		}
	})
	if len(calls) != 2 {
		panic(&an.Unresolved{What: fmt.Sprintf("the two unhex calls of unescape (found %d)", len(calls))})
	}
	first, second := calls[0], calls[1]
	if ex, ok := first.Common().Args[0].(*ssa.Extract); ok && ex.Tuple == ssa.Value(second) {
		first, second = second, first
	}
	// s[base+k] (base nil for a constant index): the string, the base, the offset
	idxOff := func(v ssa.Value) (str ssa.Value, base ssa.Value, off int64, ok bool) {
		var idx ssa.Value
		switch x := v.(type) {
		case *ssa.Lookup:
			str, idx = x.X, x.Index
		case *ssa.Index:
			str, idx = x.X, x.Index
		case *ssa.UnOp:
			if ia, isIA := x.X.(*ssa.IndexAddr); isIA && x.Op == token.MUL {
				str, idx = ia.X, ia.Index
			}
		}
		if idx == nil {
			return nil, nil, 0, false
		}
		if cv, isCv := idx.(*ssa.Convert); isCv {
			idx = cv.X
		}
		if k, isK := an.ConstInt(idx); isK {
			return str, nil, k, true
		}
		if b, isB := idx.(*ssa.BinOp); isB && b.Op == token.ADD {
			if k, isK := an.ConstInt(b.Y); isK {
				return str, b.X, k, true
			}
		}
		return str, idx, 0, true
	}
	constArg := func(call *ssa.Call, i int) int64 {
		k, ok := an.ConstInt(call.Common().Args[i])
		if !ok {
			return -1
		}
		return k
	}
	s1, i1, o1, ok1 := idxOff(first.Common().Args[1])
	s2, i2, o2, ok2 := idxOff(second.Common().Args[1])
	chained := false
	if ex, ok := second.Common().Args[0].(*ssa.Extract); ok && ex.Tuple == ssa.Value(first) && ex.Index == 0 {
		chained = true
	}
	okDigits := ok1 && ok2 && s1 == s2 && i1 == i2 && o1 == 1 && o2 == 2 && constArg(first, 0) == 0 && constArg(first, 2) == 16 && constArg(second, 2) == 1 && chained
	c.Check(okDigits, "unescape | %XY is unhex(0, s[i+1], 16) then unhex(high, s[i+2], 1)", c.At(first), "", "the two hex digits of an escape are not combined as 16*high + low from the two bytes after the percent sign")
	// both results tested, failure returns an error
	okTested := true
	for _, call := range calls {
		tested := false
		for _, r := range *call.Referrers() {
			ex, ok := r.(*ssa.Extract)
			if !ok || ex.Index != 1 {
				continue
			}
			for _, r2 := range *ex.Referrers() {
				br, ok := r2.(*ssa.If)
				if !ok {
					continue
				}
				// the false edge leads to a return with a non-nil error
				fb := br.Block().Succs[1]
				for _, ret := range an.Returns(une) {
					if ret.Block() == fb && len(ret.Results) == 2 && provablyNonNil(ret.Results[1], ret.Block(), 0) {
						tested = true
					}
				}
			}
		}
		if !tested {
			okTested = false
		}
	}
	c.Check(okTested, "unescape | an invalid hex digit is an error", c.At(second), "", "a malformed escape is not refused: the header decodes to something the client did not send")
	// the decoded byte is what is written, and the escape's two digits are skipped
	wrote, skipped := false, false
	// the decoded byte and what it is merged into (a variable holding either a literal or a decoded byte)
	decoded := map[ssa.Value]bool{}
	for _, r := range *second.Referrers() {
		if ex, ok := r.(*ssa.Extract); ok && ex.Index == 0 {
			decoded[ex] = true
		}
	}
	for changed := true; changed; {
		changed = false
		for v := range decoded {
			for _, r := range *v.Referrers() {
				switch y := r.(type) {
				case *ssa.Phi:
					if !decoded[y] {
						decoded[y], changed = true, true
					}
				case *ssa.Convert:
					if !decoded[y] {
						decoded[y], changed = true, true
					}
				}
			}
		}
	}
	for v := range decoded {
		for _, r := range *v.Referrers() {
			switch y := r.(type) {
			case *ssa.Store:
				if y.Val == v {
					wrote = true
				}
			case *ssa.Call:
				if !an.IsCallTo(y.Common(), unhexObj) {
					wrote = true
				}
			}
		}
	}
	an.Instrs(une, func(in ssa.Instruction) {
		switch x := in.(type) {
		case *ssa.Call:
			for _, arg := range x.Common().Args {
				if ex, ok := arg.(*ssa.Extract); ok && ex.Tuple == ssa.Value(second) && ex.Index == 0 && !an.IsCallTo(x.Common(), unhexObj) {
					wrote = true
				}
			}
		case *ssa.Store:
			if ex, ok := x.Val.(*ssa.Extract); ok && ex.Tuple == ssa.Value(second) && ex.Index == 0 {
				wrote = true
			}
		case *ssa.BinOp:
			if k, isK := an.ConstInt(x.Y); isK && k == 2 && x.Op == token.ADD && i1 != nil && x.X == i1 {
				for _, r := range *x.Referrers() {
					if _, isPhi := r.(*ssa.Phi); isPhi {
						skipped = true
					}
					if b2, ok := r.(*ssa.BinOp); ok && b2.Op == token.ADD {
						skipped = true // i += 2 followed by the loop's i++
					}
				}
			}
		case *ssa.Slice:
			// the rest of the input after the escape: s[3:] of the string the digits were read from at 1 and 2
			if i1 == nil && x.X == s1 && x.Low != nil && x.High == nil {
				if k, isK := an.ConstInt(x.Low); isK && k == 3 {
					skipped = true
				}
			}
		}
	})
	c.Check(wrote && skipped, "unescape | the decoded byte is written and the two digits are skipped", c.At(second), "", "the escape's value is not what is appended, or its digits are decoded again as literal characters")

	// buildContext: key = unescape(entry[:index]), value = unescape(entry[index+1:]), index = first '='; Add(ctx, key, value)
	bc := c.Fn("drpchttp", "buildContext")
	c.Analysed(bc)
	unescObj := a.obj("drpchttp", "unescape")
	var addCall *ssa.Call
	an.Instrs(bc, func(in ssa.Instruction) {
		if call, ok := in.(*ssa.Call); ok {
			if f := call.Common().StaticCallee(); f != nil && f.Name() == "Add" && f.Pkg != nil && strings.HasSuffix(f.Pkg.Pkg.Path(), "/drpcmetadata") {
				addCall = call
			}
		}
	})
	if addCall == nil || len(addCall.Common().Args) != 3 {
		panic(&an.Unresolved{What: "the drpcmetadata.Add call of buildContext"})
	}
	// which part of the entry a value was decoded from: "key" (up to the '='), "value" (after it), "whole", ""
	var partOf func(v ssa.Value, depth int) map[string]bool
	isIndexByteEq := func(v ssa.Value) bool {
		call, ok := v.(*ssa.Call)
		if !ok {
			return false
		}
		f := call.Common().StaticCallee()
		if f == nil || !(f.Name() == "IndexByte" || f.Name() == "Index" || f.Name() == "IndexRune") || len(call.Common().Args) != 2 {
			return false
		}
		if k, isK := an.ConstInt(call.Common().Args[1]); isK && k == '=' {
			return true
		}
		if k, ok := call.Common().Args[1].(*ssa.Const); ok && k.Value != nil && k.Value.ExactString() == `"="` {
			return true
		}
		return false
	}
	partOf = func(v ssa.Value, depth int) map[string]bool {
		out := map[string]bool{}
		if depth > 8 {
			out["?"] = true
			return out
		}
		switch x := v.(type) {
		case *ssa.Const:
			out["empty"] = true
		case *ssa.Phi:
			for _, e := range x.Edges {
				if e == ssa.Value(x) {
					continue
				}
				for k := range partOf(e, depth+1) {
					out[k] = true
				}
			}
		case *ssa.Extract:
			if call, ok := x.Tuple.(*ssa.Call); ok && an.IsCallTo(call.Common(), unescObj) && x.Index == 0 {
				return partOf(call.Common().Args[0], depth+1)
			}
			if call, ok := x.Tuple.(*ssa.Call); ok {
				if f := call.Common().StaticCallee(); f != nil && f.Name() == "Cut" && x.Index <= 1 {
					if k, ok := call.Common().Args[1].(*ssa.Const); ok && k.Value != nil && k.Value.ExactString() == `"="` {
						if x.Index == 0 {
							out["key"] = true
						} else {
							out["value"] = true
						}
						return out
					}
				}
			}
			out["?"] = true
		case *ssa.Slice:
			lo, hi := x.Low, x.High
			switch {
			case lo == nil && hi != nil && isIndexByteEq(hi):
				out["key"] = true
			case hi == nil && lo != nil:
				if b, ok := lo.(*ssa.BinOp); ok && b.Op == token.ADD && isIndexByteEq(b.X) {
					if k, isK := an.ConstInt(b.Y); isK && k == 1 {
						out["value"] = true
						return out
					}
				}
				out["?"] = true
			default:
				out["?"] = true
			}
		case *ssa.UnOp:
			if x.Op == token.MUL {
				// the range variable (an element of the entries slice)
				out["whole"] = true
			} else {
				out["?"] = true
			}
		case *ssa.Lookup, *ssa.Parameter:
			out["whole"] = true
		default:
			out["?"] = true
		}
		return out
	}
	kp, vp := partOf(addCall.Common().Args[1], 0), partOf(addCall.Common().Args[2], 0)
	okKey := !kp["?"] && !kp["value"] && !kp["empty"] && (kp["key"] || kp["whole"])
	okVal := !vp["?"] && !vp["key"] && !vp["whole"] && vp["value"]
	c.Check(okKey && okVal, "buildContext | key is the decoded text before the first '=', value the decoded text after it", c.At(addCall), fmt.Sprint(kp, vp),
		fmt.Sprintf("the metadata pair handed to drpcmetadata.Add is not (decode(entry[:i]), decode(entry[i+1:])) for the first '=' at i: key from %v, value from %v", keysOfSet(kp), keysOfSet(vp)))
}

func keysOfSet(m map[string]bool) []string {
	var out []string
	for k := range m {
		out = append(out, k)
	}
	return out
}

// c14r7: the Twirp stream is one-shot in each direction. After the first
// MsgSend (MsgRecv) the sticky error of that direction is non-nil on every
// path, and the method tests it first: a handler cannot replace the response
// it already produced, nor read a second request out of the same body.
func c14r7(c *an.Ctx) {
	a := A(c)
	// a store of a provably non-nil value through the address: directly, or in a helper that is handed the address
	var sets func(fn *ssa.Function, addr func(ssa.Value) bool, depth int) []ssa.Instruction
	sets = func(fn *ssa.Function, addr func(ssa.Value) bool, depth int) []ssa.Instruction {
		var out []ssa.Instruction
		if depth > 2 {
			return nil
		}
		an.Instrs(fn, func(in ssa.Instruction) {
			switch x := in.(type) {
			case *ssa.Store:
				if addr(x.Addr) && nonNilOnEveryEdge(x.Val, x.Block()) {
					out = append(out, in)
				}
			case *ssa.Call:
				callee := x.Common().StaticCallee()
				if callee == nil || callee.Pkg != fn.Pkg || len(callee.Blocks) == 0 {
					return
				}
				for i, arg := range x.Common().Args {
					if !addr(arg) || i >= len(callee.Params) {
						continue
					}
					prm := callee.Params[i]
					inner := sets(callee, func(v ssa.Value) bool { return v == ssa.Value(prm) }, depth+1)
					// the helper stores on every way out
					for _, st := range inner {
						all := true
						for _, ret := range an.Returns(callee) {
							if retReachable(callee, ret) && !an.InstrDominates(st, ret) {
								all = false
							}
						}
						if all {
							out = append(out, in)
							break
						}
					}
				}
			}
		})
		return out
	}
	for _, d := range []struct{ method, field string }{{"MsgSend", "sendErr"}, {"MsgRecv", "recvErr"}} {
		fn := c.Fn("drpchttp", "(*twirpStream)."+d.method)
		fv := a.field("drpchttp", "twirpStream", d.field)
		c.Analysed(fn)
		isAddr := func(v ssa.Value) bool {
			fa, ok := v.(*ssa.FieldAddr)
			return ok && an.PathOf(fa).Last() != nil && an.PathOf(fa).Last().Origin() == fv.Origin()
		}
		// tested first: a return of the field's value under field != nil, before any other call
		tested := false
		for _, ret := range an.Returns(fn) {
			if len(ret.Results) == 0 {
				continue
			}
			if isLoadOfField(an.Unwrap(ret.Results[len(ret.Results)-1]), fv) {
				if _, ok := guardedByFieldLoad(ret.Block(), fv, true); ok {
					tested = true
				}
				for _, g := range an.GuardsOf(ret.Block()) {
					if x, trueNonNil, ok := nilTestOf(g.Cond); ok && g.True == trueNonNil && isLoadOfField(an.Unwrap(x), fv) {
						tested = true
					}
				}
			}
		}
		stores := sets(fn, isAddr, 0)
		sticky := false
		for _, st := range stores {
			all := true
			for _, ret := range an.Returns(fn) {
				if !retReachable(fn, ret) || an.InstrDominates(st, ret) {
					continue
				}
				// the early return of the sticky error itself
				if len(ret.Results) > 0 && isLoadOfField(an.Unwrap(ret.Results[len(ret.Results)-1]), fv) {
					continue
				}
				all = false
			}
			if all {
				sticky = true
			}
		}
		c.Check(tested && sticky, "(*twirpStream)."+d.method+" | one-shot: tests "+d.field+" first and leaves it non-nil on every way out", c.P.Pos(fn.Pos()), "",
			"the Twirp stream accepts a second "+d.method+": a second response replaces the first (or a second request is read from the exhausted body) and the unary exchange no longer carries exactly the handler's message")
	}
}

// nonNilOnEveryEdge: provablyNonNil, with the operands of a merge judged on the
// edge they come in by (`if err == nil { err = io.EOF }` merges the tested err
// on the edge where the test failed).
func nonNilOnEveryEdge(v ssa.Value, b *ssa.BasicBlock) bool {
	if provablyNonNil(v, b, 0) {
		return true
	}
	phi, ok := an.Unwrap(v).(*ssa.Phi)
	if !ok {
		return false
	}
	for i, e := range phi.Edges {
		pred := phi.Block().Preds[i]
		if provablyNonNil(e, pred, 0) {
			continue
		}
		okEdge := false
		for _, g := range an.GuardsOfEdge(pred, phi.Block()) {
			if x, trueNonNil, isTest := nilTestOf(g.Cond); isTest && g.True == trueNonNil && (an.Unwrap(x) == an.Unwrap(e) || sameValue(an.Unwrap(x), an.Unwrap(e))) {
				okEdge = true
			}
		}
		if !okEdge {
			return false
		}
	}
	return len(phi.Edges) > 0
}
